//go:build verif

package remote

import (
	"encoding/binary"
	"errors"
	"reflect"

	"github.com/bytedance/sonic"
	"github.com/fxamacker/cbor/v2"
	"google.golang.org/protobuf/proto"
	"google.golang.org/protobuf/reflect/protoreflect"
	"google.golang.org/protobuf/reflect/protoregistry"

	"github.com/tochemey/goakt/v4/internal/types"
)

func init() {
	vRegister("vC25_proto_roundtrip", vC25_proto_roundtrip)
	vRegister("vC25_proto_robust", vC25_proto_robust)
	vRegister("vC25_proto_reject", vC25_proto_reject)
	vRegister("vC25_cbor_roundtrip", vC25_cbor_roundtrip)
	vRegister("vC25_cbor_robust", vC25_cbor_robust)
	vRegister("vC25_json_roundtrip", vC25_json_roundtrip)
	vRegister("vC25_json_robust", vC25_json_robust)
	vRegister("vC25_unregistered", vC25_unregistered)
}

// ---------------------------------------------------------------------------------------------------------------------
// payload codecs, opaque with a round-trip contract. A message is (type name, payload bytes); every codec writes the
// payload bytes behind a one-byte format tag and refuses input that does not start with its own tag - i.e. the three
// payload codecs are assumed (a) to be inverse pairs and (b) to reject each other's output.

const (
	VC25TagProto byte = 0x0A
	VC25TagCBOR  byte = 0xA1
	VC25TagJSON  byte = '{'
)

// VC25Msg stands for a protobuf message
type VC25Msg struct {
	Name    string
	Payload []byte
}

func (m *VC25Msg) ProtoReflect() protoreflect.Message { return nil }

// VC25Struct stands for a user struct registered with the types registry (CBOR / JSON)
type VC25Struct struct{ Payload []byte }

// VC25Other is a struct nobody registered
type VC25Other struct{ X int }

type vC25Type struct {
	protoreflect.MessageType
	name string
}

func (t *vC25Type) New() protoreflect.Message { return &vC25Refl{m: &VC25Msg{Name: t.name}} }

type vC25Refl struct {
	protoreflect.Message
	m *VC25Msg
}

func (r *vC25Refl) Interface() protoreflect.ProtoMessage { return r.m }

// VC25ProtoName is the one message type the protobuf registry knows
var VC25ProtoName string

func VC25_findMessageByName(_ *protoregistry.Types, name protoreflect.FullName) (protoreflect.MessageType, error) {
	if string(name) == VC25ProtoName {
		return &vC25Type{name: VC25ProtoName}, nil
	}
	return nil, protoregistry.NotFound
}

func VC25_messageName(m proto.Message) protoreflect.FullName {
	if x, ok := m.(*VC25Msg); ok && x != nil {
		return protoreflect.FullName(x.Name)
	}
	return ""
}

func VC25_size(_ proto.MarshalOptions, m proto.Message) int {
	return 1 + len(m.(*VC25Msg).Payload)
}

func VC25_marshalAppend(_ proto.MarshalOptions, b []byte, m proto.Message) ([]byte, error) {
	return append(append(b, VC25TagProto), m.(*VC25Msg).Payload...), nil
}

var vC25_errCorrupt = errors.New("harness: payload not in this codec's format")

func vC25_decode(tag byte, b []byte) ([]byte, error) {
	if len(b) == 0 || b[0] != tag {
		return nil, vC25_errCorrupt
	}
	out := make([]byte, len(b)-1)
	copy(out, b[1:])
	return out, nil
}

func VC25_unmarshal(b []byte, m proto.Message) error {
	p, err := vC25_decode(VC25TagProto, b)
	if err != nil {
		return err
	}
	m.(*VC25Msg).Payload = p
	return nil
}

// cbor.EncMode / cbor.DecMode / sonic.API stand-ins (only the methods the serializers call)
type vC25Enc struct{ cbor.EncMode }
type vC25Dec struct{ cbor.DecMode }
type vC25JSON struct{ sonic.API }

func vC25_encode(tag byte, v any) ([]byte, error) {
	switch x := v.(type) {
	case *VC25Struct:
		return append([]byte{tag}, x.Payload...), nil
	case string:
		return append([]byte{tag}, x...), nil
	}
	return nil, vC25_errCorrupt
}

func vC25_decodeInto(tag byte, data []byte, v any) error {
	p, err := vC25_decode(tag, data)
	if err != nil {
		return err
	}
	switch x := v.(type) {
	case *VC25Struct:
		x.Payload = p
	case *string:
		*x = string(p)
	default:
		return vC25_errCorrupt
	}
	return nil
}

func (vC25Enc) Marshal(v any) ([]byte, error)       { return vC25_encode(VC25TagCBOR, v) }
func (vC25Dec) Unmarshal(data []byte, v any) error   { return vC25_decodeInto(VC25TagCBOR, data, v) }
func (vC25JSON) Marshal(v any) ([]byte, error)       { return vC25_encode(VC25TagJSON, v) }
func (vC25JSON) Unmarshal(data []byte, v any) error  { return vC25_decodeInto(VC25TagJSON, data, v) }

// ---------------------------------------------------------------------------------------------------------------------
// reflect, opaque: a reflect.Type is a harness descriptor (name, kind, package path, element type); reflect.TypeOf /
// reflect.New / Value.Interface / Value.Elem are substituted. A reflect.Value cannot be built outside package reflect,
// so the value created by the last reflect.New travels through a harness global (the serializers use exactly one
// reflect.New per call, immediately followed by Interface / Elem().Interface on its result).

type VC25RType struct {
	reflect.Type
	name string
	kind reflect.Kind
	pkg  string
	elem *VC25RType
	impl []*VC25RType // interface types this type implements
}

func (t *VC25RType) Kind() reflect.Kind    { return t.kind }
func (t *VC25RType) String() string        { return t.name }
func (t *VC25RType) PkgPath() string       { return t.pkg }
func (t *VC25RType) Elem() reflect.Type    { return t.elem }
func (t *VC25RType) Implements(u reflect.Type) bool {
	for _, i := range t.impl {
		if reflect.Type(i) == u {
			return true
		}
	}
	return false
}

var (
	VC25TProtoIface = &VC25RType{name: "protoreflect.ProtoMessage", kind: reflect.Interface, pkg: "google.golang.org/protobuf/reflect/protoreflect"}
	VC25TOtherIface = &VC25RType{name: "remote.vC25Marker", kind: reflect.Interface, pkg: "github.com/tochemey/goakt/v4/remote"}
	VC25TStruct     = &VC25RType{name: "remote.VC25Struct", kind: reflect.Struct, pkg: "github.com/tochemey/goakt/v4/remote"}
	VC25TStructPtr  = &VC25RType{name: "*remote.VC25Struct", kind: reflect.Pointer, elem: VC25TStruct, impl: []*VC25RType{VC25TOtherIface}}
	VC25TOther      = &VC25RType{name: "remote.VC25Other", kind: reflect.Struct, pkg: "github.com/tochemey/goakt/v4/remote"}
	VC25TOtherPtr   = &VC25RType{name: "*remote.VC25Other", kind: reflect.Pointer, elem: VC25TOther}
	VC25TMsg        = &VC25RType{name: "remote.VC25Msg", kind: reflect.Struct, pkg: "github.com/tochemey/goakt/v4/remote"}
	VC25TMsgPtr     = &VC25RType{name: "*remote.VC25Msg", kind: reflect.Pointer, elem: VC25TMsg, impl: []*VC25RType{VC25TProtoIface, VC25TOtherIface}}
	VC25TString     = &VC25RType{name: "string", kind: reflect.String}
)

func VC25_typeOf(v any) reflect.Type {
	switch v.(type) {
	case nil:
		return nil
	case *VC25Struct:
		return VC25TStructPtr
	case VC25Struct:
		return VC25TStruct
	case *VC25Other:
		return VC25TOtherPtr
	case *VC25Msg:
		return VC25TMsgPtr
	case string:
		return VC25TString
	}
	panic("harness reflect.TypeOf: type outside the modelled universe")
}

var vC25_newPtr any // what the last reflect.New created (a pointer)
var vC25_elem bool  // the reflect.Value in hand is the Elem() of that pointer

func VC25_reflectNew(t reflect.Type) reflect.Value {
	vC25_elem = false
	switch t {
	case reflect.Type(VC25TStruct):
		vC25_newPtr = &VC25Struct{}
	case reflect.Type(VC25TString):
		vC25_newPtr = new(string)
	case reflect.Type(VC25TOther):
		vC25_newPtr = &VC25Other{}
	default:
		panic("harness reflect.New: type outside the modelled universe")
	}
	return reflect.Value{}
}

func VC25_valueInterface(_ reflect.Value) any {
	if !vC25_elem {
		return vC25_newPtr
	}
	vC25_elem = false
	switch p := vC25_newPtr.(type) {
	case *string:
		return *p
	case *VC25Struct:
		return *p
	}
	panic("harness Value.Interface: unexpected element")
}

func VC25_valueElem(v reflect.Value) reflect.Value {
	vC25_elem = true
	return v
}

// the types registry: knows VC25Struct and string under their lower-cased names (what types.Name produces)
type vC25Registry struct{ types.Registry }

func (vC25Registry) TypeOf(name string) (reflect.Type, bool) {
	switch name {
	case "remote.vc25struct":
		return VC25TStruct, true
	case "string":
		return VC25TString, true
	}
	return nil, false
}

func VC25_setup() {
	typesRegistry = vC25Registry{}
	jsonAPI = vC25JSON{}
}

func VC25_newCBOR() *CBORSerializer { return &CBORSerializer{encMode: vC25Enc{}, decMode: vC25Dec{}} }

// ---------------------------------------------------------------------------------------------------------------------

func vC25_nameStart(c byte) bool {
	return (c >= 'a' && c <= 'z') || (c >= 'A' && c <= 'Z') || c == '_'
}

func vC25_validName(s string) bool {
	if len(s) == 0 || !vC25_nameStart(s[0]) {
		return false
	}
	for i := 1; i < len(s); i++ {
		c := s[i]
		if !(vC25_nameStart(c) || (c >= '0' && c <= '9') || c == '.') {
			return false
		}
	}
	return true
}

func vC25_bytesEq(a, b []byte) bool {
	if len(a) != len(b) {
		return false
	}
	for i := range a {
		if a[i] != b[i] {
			return false
		}
	}
	return true
}

func vC25_frameOK(frame []byte, name string, payloadLen int) bool {
	return len(frame) == 8+len(name)+1+payloadLen &&
		int(binary.BigEndian.Uint32(frame[:4])) == len(frame) &&
		int(binary.BigEndian.Uint32(frame[4:8])) == len(name) &&
		string(frame[8:8+len(name)]) == name
}

func vC25_proto_roundtrip() {
	name := vNondetStringN("name", vCase("nameLen"))
	vAssume(vC25_validName(name))
	VC25ProtoName = name
	m := &VC25Msg{Name: name, Payload: []byte(vNondetStringN("payload", vCase("payloadLen")))}
	s := NewProtoSerializer()
	frame, err := s.Serialize(m)
	vAssert(err == nil, "a registered protobuf message is serialized")
	if err != nil {
		return
	}
	vAssert(vC25_frameOK(frame, name, len(m.Payload)), "the frame is totalLen|nameLen|name|payload with consistent lengths")
	got, err := s.Deserialize(frame)
	vAssert(err == nil, "a serialized frame deserializes")
	if err == nil {
		g, ok := got.(*VC25Msg)
		vAssert(ok && g != m && g.Name == name && vC25_bytesEq(g.Payload, m.Payload), "the deserialized message has the same type name and payload")
	}
	vCover("end")
}

// what the protobuf serializer refuses
func vC25_proto_reject() {
	s := NewProtoSerializer()
	b, err := s.Serialize(&VC25Struct{})
	vAssert(b == nil && err == ErrNotProtoMessage, "a value that is not a protobuf message yields ErrNotProtoMessage and no bytes")
	b, err = s.Serialize(nil)
	vAssert(b == nil && err == ErrNotProtoMessage, "nil yields ErrNotProtoMessage and no bytes")
	b, err = s.Serialize(&VC25Msg{Name: ""})
	vAssert(b == nil && err == ErrUnknownMessageType, "a message without a type name yields ErrUnknownMessageType and no bytes")
	vCover("end")
}

func vC25_robust(s Serializer, invalid error, nameOf func(any) (string, []byte, bool), tag byte) {
	data := vNondetBytes("data", vCase("maxLen"))
	got, err := s.Deserialize(data)
	if err != nil {
		vAssert(got == nil, "no message on error")
		vCover("rejected")
	} else {
		total := int(binary.BigEndian.Uint32(data[:4]))
		nameLen := int(binary.BigEndian.Uint32(data[4:8]))
		vAssert(len(data) >= 8 && total >= 8 && total <= len(data) && nameLen >= 0 && 8+nameLen <= total, "an accepted frame has consistent length fields")
		name, payload, ok := nameOf(got)
		vAssert(ok && string(data[8:8+nameLen]) == name, "an accepted frame names a registered type and yields a value of that type")
		vAssert(total > 8+nameLen && data[8+nameLen] == tag && vC25_bytesEq(payload, data[8+nameLen+1:total]), "the bytes handed to the payload codec are exactly the payload region of the frame")
		vCover("accepted")
	}
	if len(data) < 8 || int(binary.BigEndian.Uint32(data[:4])) > len(data) || int(binary.BigEndian.Uint32(data[:4])) < 8 {
		vAssert(errors.Is(err, invalid), "a truncated or undersized frame is rejected as an invalid frame")
		vCover("truncated")
	}
	vCover("end")
}

func vC25_proto_robust() {
	VC25ProtoName = vNondetString("registeredName", 3)
	vC25_robust(NewProtoSerializer(), ErrInvalidFrame, func(v any) (string, []byte, bool) {
		g, ok := v.(*VC25Msg)
		if !ok || g == nil {
			return "", nil, false
		}
		return VC25ProtoName, g.Payload, g.Name == VC25ProtoName
	}, VC25TagProto)
}

func vC25_regName(v any) (string, []byte, bool) {
	switch g := v.(type) {
	case *VC25Struct:
		return "remote.vc25struct", g.Payload, g != nil
	case string:
		return "string", []byte(g), true
	}
	return "", nil, false
}

func vC25_registry_roundtrip(s Serializer, tag byte) {
	VC25_setup()
	payload := []byte(vNondetStringN("payload", vCase("payloadLen")))
	var m any
	name := "remote.vc25struct"
	if vCase("kind") == 0 {
		m = &VC25Struct{Payload: payload}
	} else {
		m, name = string(payload), "string"
	}
	frame, err := s.Serialize(m)
	vAssert(err == nil, "a value of a registered type is serialized")
	if err != nil {
		return
	}
	vAssert(vC25_frameOK(frame, name, len(payload)) && frame[8+len(name)] == tag, "the frame is totalLen|nameLen|lower-cased type name|payload with consistent lengths")
	got, err := s.Deserialize(frame)
	vAssert(err == nil, "a serialized frame deserializes")
	if err == nil {
		known := true
		switch g := got.(type) {
		case *VC25Struct:
			vAssert(vCase("kind") == 0 && g != m && vC25_bytesEq(g.Payload, payload), "a struct comes back as a pointer to an equal struct")
			vCover("struct")
		case string:
			vAssert(vCase("kind") == 1 && g == string(payload), "a built-in primitive comes back as an equal value (not a pointer)")
			vCover("primitive")
		default:
			known = false
		}
		vAssert(known, "the deserialized value has the registered type")
	}
	vCover("end")
}

func vC25_cbor_roundtrip() { vC25_registry_roundtrip(VC25_newCBOR(), VC25TagCBOR) }
func vC25_json_roundtrip() { vC25_registry_roundtrip(NewJSONSerializer(), VC25TagJSON) }

func vC25_cbor_robust() {
	VC25_setup()
	vC25_robust(VC25_newCBOR(), ErrCBORInvalidFrame, vC25_regName, VC25TagCBOR)
}

func vC25_json_robust() {
	VC25_setup()
	vC25_robust(NewJSONSerializer(), ErrJSONInvalidFrame, vC25_regName, VC25TagJSON)
}

// a type nobody registered, and nil, give an error and no bytes
func vC25_unregistered() {
	VC25_setup()
	var s Serializer = VC25_newCBOR()
	if vCase("json") == 1 {
		s = NewJSONSerializer()
	}
	b, err := s.Serialize(&VC25Other{X: vNondetInt("x")})
	vAssert(b == nil && err != nil, "a value of an unregistered type yields an error and no bytes")
	b, err = s.Serialize(nil)
	vAssert(b == nil && err != nil, "nil yields an error and no bytes")
	vCover("end")
}
