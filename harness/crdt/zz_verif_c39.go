//go:build verif

package crdt

// C39: replicas that apply the same updates (as deltas, in any order, possibly duplicated) converge to the merge of
// the originators' full states. Uses the by-value copy helpers (vC38_*Pick / *Snap / *Eq) of zz_verif_c38.go.
//
// Replication protocol transcribed from actor/replicator.go:
//   handleUpdate : updated := Modify(current); delta := updated.Delta(); updated.ResetDelta(); store = updated; publish(delta) if delta != nil
//   handleDelta  : if key absent { store = delta } else { store = current.Merge(delta) }
//   handleFullState: same with the peer's full state instead of a delta

func init() {
	vRegister("vC39_gcounter", vC39_gcounter)
	vRegister("vC39_pncounter", vC39_pncounter)
	vRegister("vC39_mvregister", vC39_mvregister)
	vRegister("vC39_orset", vC39_orset)
	vRegister("vC39_orset_fullstate", vC39_orset_fullstate)
	vRegister("vC39_ormap", vC39_ormap)
	vRegister("vC39_ormap_sets", vC39_ormap_sets)
}

const vC39_nd = 4 // deltas: 2 updates at originator a (d0,d1), 1 or 2 at originator b (d2,d3)

// delivery schedule: nd+1 deliveries, each of an arbitrary delta; every delta is delivered at least once, so every order of
// the nd deltas with one duplicate (and every shorter order when some update published nothing) is covered
const vC39_deliveries = 5

// vCase("bUpdates") = 1: three deltas, four deliveries; = 2: four deltas, five deliveries
func vC39_nDeltas() int { return 2 + vCase("bUpdates") }

func vC39_schedule(nd int) [vC39_deliveries]int {
	var sch [vC39_deliveries]int
	var seen [vC39_nd]bool
	for i := 0; i < nd+1; i++ {
		sch[i] = vChoose("deliver", nd)
		for j := 0; j < nd; j++ {
			if sch[i] == j {
				seen[j] = true
			}
		}
	}
	for j := 0; j < nd; j++ {
		vAssume(seen[j])
	}
	return sch
}

// ---------------------------------------------------------------- GCounter

var vC39_emptyGC = NewGCounter()

func vC39_gcOf(d ReplicatedData) (*GCounter, bool) {
	g, ok := d.(*GCounter)
	if !ok {
		g = vC39_emptyGC
	}
	return g, ok
}

func vC39_gcCopy(g *GCounter) *GCounter {
	var c [7]*GCounter
	c[0] = g
	return vC38_gcPick(0, 1, c)
}

// cond ? cur.Merge(d) : cur, copied by value into a fresh object
func vC39_gcMergeIf(cond bool, cur, d *GCounter) *GCounter {
	var c [7]*GCounter
	c[0] = cur
	c[1] = cur.Merge(d).(*GCounter)
	k := 0
	if cond {
		k = 1
	}
	return vC38_gcPick(k, 2, c)
}

// one update at an originator: zero, one or two increments (a Modify function may do several), then delta extraction
func vC39_gcUpdate(cur *GCounter, node string) (*GCounter, *GCounter, bool) {
	n1, n2 := vNondetUint64("inc"), vNondetUint64("inc")
	vAssume(n1 < 1<<60 && n2 < 1<<60) // no uint64 wrap-around of a per-node count
	var c [7]*GCounter
	c[0] = cur
	c[1] = cur.Increment(node, n1)
	c[2] = c[1].Increment(node, n2)
	u := vC38_gcPick(vChoose("ops", 3), 3, c)
	d, published := vC39_gcOf(u.Delta())
	d = vC39_gcCopy(d)
	u.ResetDelta()
	return u, d, published
}

func vC39_gcounter() {
	a, b := NewGCounter(), NewGCounter()
	var d [vC39_nd]*GCounter
	var pub [vC39_nd]bool
	a, d[0], pub[0] = vC39_gcUpdate(a, "a")
	b, d[2], pub[2] = vC39_gcUpdate(b, "b")
	// the originators may see each other's first delta before their second update
	a = vC39_gcMergeIf(vNondetBool("aSeesB") && pub[2], a, d[2])
	b = vC39_gcMergeIf(vNondetBool("bSeesA") && pub[0], b, d[0])
	nd, part := vC39_nDeltas(), vCase("part")
	a, d[1], pub[1] = vC39_gcUpdate(a, "a")
	d[3] = vC39_emptyGC
	if nd == 4 {
		b, d[3], pub[3] = vC39_gcUpdate(b, "b")
	}
	full := vC38_gcSnap(a.Merge(b).(*GCounter))
	// a third replica receives the published deltas in any order, one of them possibly twice
	sch := vC39_schedule(nd)
	cur, present := vC39_emptyGC, false
	for i := 0; i < nd+1 && part == 0; i++ {
		var c [7]*GCounter
		var p [7]bool
		for j := 0; j < nd; j++ {
			c[j], p[j] = d[j], pub[j]
		}
		dl := vC38_gcPick(sch[i], nd, c)
		if vC38_pickBool(sch[i], nd, p) {
			var n [7]*GCounter
			n[0] = dl // key absent: the received value itself becomes the stored value
			n[1] = cur.Merge(dl).(*GCounter)
			k := 0
			if present {
				k = 1
			}
			cur, present = vC38_gcPick(k, 2, n), true
		}
	}
	if part == 0 {
		vAssert(vC38_gcSnap(cur) == full, "a replica that applied every delta (any order, duplicates) equals the merge of the originators' full states")
	}
	// each originator applies the other's deltas in order
	a2, b2 := a, b
	for j := 0; j < 2 && part == 1; j++ {
		a2 = vC39_gcMergeIf(pub[2+j], a2, d[2+j])
		b2 = vC39_gcMergeIf(pub[j], b2, d[j])
	}
	if part == 1 {
		vAssert(vC38_gcSnap(a2) == full && vC38_gcSnap(b2) == full, "the originators converge to the same state after exchanging deltas")
	}
	if pub[0] && pub[1] && pub[2] && sch[0] == 2 && sch[1] == 1 && sch[2] == 1 {
		vCover("deltas-reordered-and-duplicated")
	}
	if !pub[1] {
		vCover("update-that-publishes-nothing")
	}
	vCover("end")
}

// ---------------------------------------------------------------- PNCounter

func vC39_pnCopy(p *PNCounter) *PNCounter {
	return &PNCounter{increments: vC39_gcCopy(p.increments), decrements: vC39_gcCopy(p.decrements)}
}

var vC39_emptyPN = NewPNCounter()

func vC39_pnMergeIf(cond bool, cur, d *PNCounter) *PNCounter {
	m := cur.Merge(d).(*PNCounter)
	var ci, cd [7]*GCounter
	ci[0], cd[0] = cur.increments, cur.decrements
	ci[1], cd[1] = m.increments, m.decrements
	k := 0
	if cond {
		k = 1
	}
	return &PNCounter{increments: vC38_gcPick(k, 2, ci), decrements: vC38_gcPick(k, 2, cd)}
}

func vC39_pnUpdate(cur *PNCounter, node string) (*PNCounter, *PNCounter, bool) {
	n1, n2 := vNondetUint64("amount"), vNondetUint64("amount")
	vAssume(n1 < 1<<60 && n2 < 1<<60)
	// nothing, one operation, or two operations in every order (inc-dec, inc-inc, dec-inc, dec-dec)
	var c [7]*PNCounter
	c[0] = cur
	c[1] = cur.Increment(node, n1)
	c[2] = cur.Decrement(node, n1)
	c[3] = c[1].Decrement(node, n2)
	c[4] = c[1].Increment(node, n2)
	c[5] = c[2].Increment(node, n2)
	c[6] = c[2].Decrement(node, n2)
	op := vChoose("ops", 7)
	var ci, cd [7]*GCounter
	for j := 0; j < 7; j++ {
		ci[j], cd[j] = c[j].increments, c[j].decrements
	}
	u := &PNCounter{increments: vC38_gcPick(op, 7, ci), decrements: vC38_gcPick(op, 7, cd)}
	dd, published := u.Delta().(*PNCounter)
	if !published {
		dd = vC39_emptyPN
	}
	d := vC39_pnCopy(dd)
	u.ResetDelta()
	return u, d, published
}

func vC39_pncounter() {
	a, b := NewPNCounter(), NewPNCounter()
	var d [vC39_nd]*PNCounter
	var pub [vC39_nd]bool
	a, d[0], pub[0] = vC39_pnUpdate(a, "a")
	b, d[2], pub[2] = vC39_pnUpdate(b, "b")
	a = vC39_pnMergeIf(vNondetBool("aSeesB") && pub[2], a, d[2])
	b = vC39_pnMergeIf(vNondetBool("bSeesA") && pub[0], b, d[0])
	nd, part := vC39_nDeltas(), vCase("part")
	a, d[1], pub[1] = vC39_pnUpdate(a, "a")
	d[3] = vC39_emptyPN
	if nd == 4 {
		b, d[3], pub[3] = vC39_pnUpdate(b, "b")
	}
	full := vC38_pnSnap(a.Merge(b).(*PNCounter))
	sch := vC39_schedule(nd)
	cur, present := vC39_emptyPN, false
	for i := 0; i < nd+1 && part == 0; i++ {
		var ci, cd [7]*GCounter
		var p [7]bool
		for j := 0; j < nd; j++ {
			ci[j], cd[j], p[j] = d[j].increments, d[j].decrements, pub[j]
		}
		dl := &PNCounter{increments: vC38_gcPick(sch[i], nd, ci), decrements: vC38_gcPick(sch[i], nd, cd)}
		if vC38_pickBool(sch[i], nd, p) {
			m := cur.Merge(dl).(*PNCounter)
			k := 0
			if present {
				k = 1
			}
			var ni, nc [7]*GCounter
			ni[0], nc[0] = dl.increments, dl.decrements
			ni[1], nc[1] = m.increments, m.decrements
			cur, present = &PNCounter{increments: vC38_gcPick(k, 2, ni), decrements: vC38_gcPick(k, 2, nc)}, true
		}
	}
	if part == 0 {
		vAssert(vC38_pnSnap(cur) == full, "a replica that applied every delta (any order, duplicates) equals the merge of the originators' full states")
	}
	a2, b2 := a, b
	for j := 0; j < 2 && part == 1; j++ {
		a2 = vC39_pnMergeIf(pub[2+j], a2, d[2+j])
		b2 = vC39_pnMergeIf(pub[j], b2, d[j])
	}
	if part == 1 {
		vAssert(vC38_pnSnap(a2) == full && vC38_pnSnap(b2) == full, "the originators converge to the same state after exchanging deltas")
	}
	if pub[0] && pub[1] && pub[2] && full.inc[0] > 0 && full.dec[0] > 0 && full.dec[1] > 0 {
		vCover("increments-and-decrements-on-both-nodes")
	}
	vCover("end")
}

// ---------------------------------------------------------------- MVRegister

func vC39_mvCopy(r *MVRegister) *MVRegister {
	var c [7]*MVRegister
	c[0] = r
	return vC38_mvPick(0, 1, c)
}

var vC39_emptyMV = NewMVRegister()

func vC39_mvMergeIf(cond bool, cur, d *MVRegister) *MVRegister {
	var c [7]*MVRegister
	c[0] = cur
	c[1] = cur.Merge(d).(*MVRegister)
	k := 0
	if cond {
		k = 1
	}
	return vC38_mvPick(k, 2, c)
}

func vC39_mvUpdate(cur *MVRegister, node string) (*MVRegister, *MVRegister, bool) {
	var c [7]*MVRegister
	c[0] = cur
	c[1] = cur.Set(node, any(vNondetInt("val")))
	c[2] = c[1].Set(node, any(vNondetInt("val")))
	u := vC38_mvPick(vChoose("ops", 3), 3, c)
	dd, published := u.Delta().(*MVRegister)
	if !published {
		dd = vC39_emptyMV
	}
	d := vC39_mvCopy(dd)
	u.ResetDelta()
	return u, d, published
}

func vC39_mvregister() {
	a, b := NewMVRegister(), NewMVRegister()
	var d [vC39_nd]*MVRegister
	var pub [vC39_nd]bool
	a, d[0], pub[0] = vC39_mvUpdate(a, "a")
	b, d[2], pub[2] = vC39_mvUpdate(b, "b")
	a = vC39_mvMergeIf(vNondetBool("aSeesB") && pub[2], a, d[2])
	b = vC39_mvMergeIf(vNondetBool("bSeesA") && pub[0], b, d[0])
	nd, part := vC39_nDeltas(), vCase("part")
	a, d[1], pub[1] = vC39_mvUpdate(a, "a")
	d[3] = vC39_emptyMV
	if nd == 4 {
		b, d[3], pub[3] = vC39_mvUpdate(b, "b")
	}
	full := vC38_mvSnap(a.Merge(b).(*MVRegister))
	sch := vC39_schedule(nd)
	cur, present := vC39_emptyMV, false
	for i := 0; i < nd+1 && part == 0; i++ {
		var c [7]*MVRegister
		var p [7]bool
		for j := 0; j < nd; j++ {
			c[j], p[j] = d[j], pub[j]
		}
		dl := vC38_mvPick(sch[i], nd, c)
		if vC38_pickBool(sch[i], nd, p) {
			var n [7]*MVRegister
			n[0] = dl // key absent: the received value itself becomes the stored value
			n[1] = cur.Merge(dl).(*MVRegister)
			k := 0
			if present {
				k = 1
			}
			cur, present = vC38_mvPick(k, 2, n), true
		}
	}
	if part == 0 {
		vAssert(vC38_mvEq(vC38_mvSnap(cur), full), "a replica that applied every delta (any order, duplicates) equals the merge of the originators' full states")
	}
	a2, b2 := a, b
	for j := 0; j < 2 && part == 1; j++ {
		a2 = vC39_mvMergeIf(pub[2+j], a2, d[2+j])
		b2 = vC39_mvMergeIf(pub[j], b2, d[j])
	}
	if part == 1 {
		vAssert(vC38_mvEq(vC38_mvSnap(a2), full) && vC38_mvEq(vC38_mvSnap(b2), full), "the originators converge to the same state after exchanging deltas")
	}
	if full.n == 2 && pub[1] && pub[2] {
		vCover("concurrent-values-after-several-writes")
	}
	if full.n == 1 {
		vCover("single-surviving-value")
	}
	vCover("end")
}

// ---------------------------------------------------------------- ORSet

var vC39_emptyOS = NewORSet()

func vC39_osMergeIf(cond bool, cur, d *ORSet) *ORSet {
	var c [7]*ORSet
	c[0] = cur
	c[1] = cur.Merge(d).(*ORSet)
	k := 0
	if cond {
		k = 1
	}
	return vC38_osPick(k, 2, c)
}

// vCase("ops") (1 or 2) operations, each nothing or one of {Add e1, Add e2, Remove e1, Remove e2}
func vC39_osOps(cur *ORSet, node string) *ORSet {
	u := cur
	for stage := 0; stage < vCase("ops"); stage++ {
		var c [7]*ORSet
		c[0] = u
		c[1] = u.Add(node, vC38_elems[0])
		c[2] = u.Add(node, vC38_elems[1])
		c[3] = u.Remove(vC38_elems[0])
		c[4] = u.Remove(vC38_elems[1])
		u = vC38_osPick(vChoose("op", 5), 5, c)
	}
	return u
}

// one update at an originator, then delta extraction as in replicatorActor.handleUpdate; also returns the full state
func vC39_osUpdate(cur *ORSet, node string) (*ORSet, *ORSet, bool) {
	u := vC39_osOps(cur, node)
	dd, published := u.Delta().(*ORSet)
	if !published {
		dd = vC39_emptyOS
	}
	d := vC38_osNorm(dd)
	u.ResetDelta()
	return u, d, published
}

// what==0: deltas are shipped; what==1: the full state after each update is shipped (anti-entropy, handleFullState)
func vC39_osRun(what int) {
	a, b := NewORSet(), NewORSet()
	var d [vC39_nd]*ORSet
	var pub [vC39_nd]bool
	nd, part := vC39_nDeltas(), vCase("part")
	a, d[0], pub[0] = vC39_osUpdate(a, "a")
	if what == 1 {
		d[0], pub[0] = vC38_osNorm(a), true
	}
	b, d[2], pub[2] = vC39_osUpdate(b, "b")
	if what == 1 {
		d[2], pub[2] = vC38_osNorm(b), true
	}
	a = vC39_osMergeIf(vNondetBool("aSeesB") && pub[2], a, d[2])
	b = vC39_osMergeIf(vNondetBool("bSeesA") && pub[0], b, d[0])
	a, d[1], pub[1] = vC39_osUpdate(a, "a")
	if what == 1 {
		d[1], pub[1] = vC38_osNorm(a), true
	}
	d[3] = vC39_emptyOS
	if nd == 4 {
		b, d[3], pub[3] = vC39_osUpdate(b, "b")
		if what == 1 {
			d[3], pub[3] = vC38_osNorm(b), true
		}
	}
	full := vC38_osNorm(a.Merge(b).(*ORSet))
	sch := vC39_schedule(nd)
	cur, present := vC39_emptyOS, false
	for i := 0; i < nd+1 && part == 0; i++ {
		var c [7]*ORSet
		var p [7]bool
		for j := 0; j < nd; j++ {
			c[j], p[j] = d[j], pub[j]
		}
		dl := vC38_osPick(sch[i], nd, c)
		if vC38_pickBool(sch[i], nd, p) {
			var n [7]*ORSet
			n[0] = dl // key absent: the received value itself becomes the stored value
			n[1] = cur.Merge(dl).(*ORSet)
			k := 0
			if present {
				k = 1
			}
			cur, present = vC38_osPick(k, 2, n), true
		}
	}
	if part == 0 {
		vAssert(cur.Contains(vC38_elems[0]) == full.Contains(vC38_elems[0]) && cur.Contains(vC38_elems[1]) == full.Contains(vC38_elems[1]), "a replica that applied everything shipped (any order, duplicates) has the same elements as the merge of the originators' full states")
		vAssert(vC38_osEq(cur, full), "a replica that applied everything shipped (any order, duplicates) has the same dots and clock as the merge of the originators' full states")
	}
	a2, b2 := a, b
	for j := 0; j < 2 && part == 1; j++ {
		a2 = vC39_osMergeIf(pub[2+j], a2, d[2+j])
		b2 = vC39_osMergeIf(pub[j], b2, d[j])
	}
	if part == 1 {
		vAssert(a2.Contains(vC38_elems[0]) == full.Contains(vC38_elems[0]) && a2.Contains(vC38_elems[1]) == full.Contains(vC38_elems[1]) && b2.Contains(vC38_elems[0]) == full.Contains(vC38_elems[0]) && b2.Contains(vC38_elems[1]) == full.Contains(vC38_elems[1]), "the originators hold the same elements after exchanging what they shipped, in order")
		vAssert(vC38_osEq(a2, full) && vC38_osEq(b2, full), "the originators hold the same dots and clock after exchanging what they shipped, in order")
	}
	if full.Contains(vC38_elems[0]) && !full.Contains(vC38_elems[1]) && vC38_clockSnap(full.clock)[0] >= 2 && vC38_clockSnap(full.clock)[1] >= 1 {
		vCover("adds-and-a-remove-on-two-nodes")
	}
	vCover("end")
}

func vC39_orset()           { vC39_osRun(0) }
func vC39_orset_fullstate() { vC39_osRun(1) }

// ---------------------------------------------------------------- ORMap (values: GCounter)

var vC39_emptyOM = NewORMap()

func vC39_omMergeIf(cond bool, cur, d *ORMap) *ORMap {
	var c [7]*ORMap
	c[0] = cur
	c[1] = cur.Merge(d).(*ORMap)
	k := 0
	if cond {
		k = 1
	}
	return vC38_omPick(k, 2, c)
}

// vCase("ops") (1 or 2) operations, each nothing or one of {Set k1, Set k2, Remove k1, Remove k2}; Set stores a counter incremented by the node
func vC39_omUpdate(cur *ORMap, node string, removes bool) (*ORMap, *ORMap, bool) {
	u := cur
	for stage := 0; stage < vCase("ops"); stage++ {
		amount := vNondetUint64("inc")
		vAssume(amount < 1<<60)
		val := NewGCounter().Increment(node, amount)
		var c [7]*ORMap
		c[0] = u
		c[1] = u.Set(node, vC38_elems[0], val)
		c[2] = u.Set(node, vC38_elems[1], val)
		n := 3
		if removes {
			c[3] = u.Remove(vC38_elems[0])
			c[4] = u.Remove(vC38_elems[1])
			n = 5
		}
		u = vC38_omPick(vChoose("op", n), n, c)
	}
	dd, published := u.Delta().(*ORMap)
	if !published {
		dd = vC39_emptyOM
	}
	d := vC38_omNorm(dd)
	u.ResetDelta()
	return u, d, published
}

func vC39_omRun(removes bool) {
	a, b := NewORMap(), NewORMap()
	var d [vC39_nd]*ORMap
	var pub [vC39_nd]bool
	nd, part := vC39_nDeltas(), vCase("part")
	a, d[0], pub[0] = vC39_omUpdate(a, "a", removes)
	b, d[2], pub[2] = vC39_omUpdate(b, "b", removes)
	a = vC39_omMergeIf(vNondetBool("aSeesB") && pub[2], a, d[2])
	b = vC39_omMergeIf(vNondetBool("bSeesA") && pub[0], b, d[0])
	a, d[1], pub[1] = vC39_omUpdate(a, "a", removes)
	d[3] = vC39_emptyOM
	if nd == 4 {
		b, d[3], pub[3] = vC39_omUpdate(b, "b", removes)
	}
	full := vC38_omNorm(a.Merge(b).(*ORMap))
	ofull := vC38_omObserve(full)
	sch := vC39_schedule(nd)
	cur, present := vC39_emptyOM, false
	for i := 0; i < nd+1 && part == 0; i++ {
		var c [7]*ORMap
		var p [7]bool
		for j := 0; j < nd; j++ {
			c[j], p[j] = d[j], pub[j]
		}
		dl := vC38_omPick(sch[i], nd, c)
		if vC38_pickBool(sch[i], nd, p) {
			var n [7]*ORMap
			n[0] = dl // key absent: the received value itself becomes the stored value
			n[1] = cur.Merge(dl).(*ORMap)
			k := 0
			if present {
				k = 1
			}
			cur, present = vC38_omPick(k, 2, n), true
		}
		cur = vC38_omNorm(cur) // one object again after the branch
	}
	if part == 0 {
		vAssert(vC38_omObserve(cur) == ofull, "a replica that applied every delta (any order, duplicates) has the same keys and values as the merge of the originators' full states")
		vAssert(vC38_osEq(cur.keys, full.keys), "a replica that applied every delta (any order, duplicates) has the same key dots and clock as the merge of the originators' full states")
	}
	a2, b2 := a, b
	for j := 0; j < 2 && part == 1; j++ {
		a2 = vC39_omMergeIf(pub[2+j], a2, d[2+j])
		b2 = vC39_omMergeIf(pub[j], b2, d[j])
	}
	if part == 1 {
		vAssert(vC38_omObserve(a2) == ofull && vC38_omObserve(b2) == ofull, "the originators hold the same keys and values after exchanging deltas in order")
	}
	if ofull.has[0] && ofull.val[0][0] > 0 && ofull.val[0][1] > 0 {
		vCover("key-written-on-both-nodes")
	}
	vCover("end")
}

func vC39_ormap()      { vC39_omRun(true) }
func vC39_ormap_sets() { vC39_omRun(false) }
