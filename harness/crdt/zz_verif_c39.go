//go:build verif

package crdt

// C39: replicas that apply the same updates (as deltas, in any order, possibly duplicated) converge to the merge of
// the originators' full states. Uses the by-value copy helpers (vC38_*Pick / *Snap / *Eq) of zz_verif_c38.go.
//
// Replication protocol transcribed from actor/replicator.go:
//   handleUpdate : updated := Modify(current); delta := updated.Delta(); updated.ResetDelta(); store = updated; publish(delta) if delta != nil
//   handleDelta  : if key absent { store = delta } else { store = current.Merge(delta) }
//   handleFullState: same with the peer's full state instead of a delta

func init() {
	vRegister("vC39_gcounter", vC39_gcounter)
	vRegister("vC39_pncounter", vC39_pncounter)
	vRegister("vC39_mvregister", vC39_mvregister)
}

const vC39_nd = 4 // deltas: 2 updates at each of the 2 originators

// delivery schedule: 5 deliveries, each of an arbitrary delta; every delta is delivered at least once, so every order of
// the 4 deltas with one duplicate (and every shorter order when some update published nothing) is covered
const vC39_deliveries = 5

func vC39_schedule() [vC39_deliveries]int {
	var sch [vC39_deliveries]int
	var seen [vC39_nd]bool
	for i := 0; i < vC39_deliveries; i++ {
		sch[i] = vChoose("deliver", vC39_nd)
		for j := 0; j < vC39_nd; j++ {
			if sch[i] == j {
				seen[j] = true
			}
		}
	}
	vAssume(seen[0] && seen[1] && seen[2] && seen[3])
	return sch
}

// ---------------------------------------------------------------- GCounter

var vC39_emptyGC = NewGCounter()

func vC39_gcOf(d ReplicatedData) (*GCounter, bool) {
	g, ok := d.(*GCounter)
	if !ok {
		g = vC39_emptyGC
	}
	return g, ok
}

func vC39_gcCopy(g *GCounter) *GCounter {
	var c [7]*GCounter
	c[0] = g
	return vC38_gcPick(0, 1, c)
}

// one update at an originator: zero, one or two increments (a Modify function may do several), then delta extraction
func vC39_gcUpdate(cur *GCounter, node string) (*GCounter, *GCounter, bool) {
	n1, n2 := vNondetUint64("inc"), vNondetUint64("inc")
	vAssume(n1 < 1<<60 && n2 < 1<<60) // no uint64 wrap-around of a per-node count
	var c [7]*GCounter
	c[0] = cur
	c[1] = cur.Increment(node, n1)
	c[2] = c[1].Increment(node, n2)
	u := vC38_gcPick(vChoose("ops", 3), 3, c)
	d, published := vC39_gcOf(u.Delta())
	d = vC39_gcCopy(d)
	u.ResetDelta()
	return u, d, published
}

func vC39_gcounter() {
	a, b := NewGCounter(), NewGCounter()
	var d [vC39_nd]*GCounter
	var pub [vC39_nd]bool
	a, d[0], pub[0] = vC39_gcUpdate(a, "a")
	b, d[2], pub[2] = vC39_gcUpdate(b, "b")
	// the originators may see each other's first delta before their second update
	if vNondetBool("aSeesB") && pub[2] {
		a = vC39_gcCopy(a.Merge(d[2]).(*GCounter))
	}
	if vNondetBool("bSeesA") && pub[0] {
		b = vC39_gcCopy(b.Merge(d[0]).(*GCounter))
	}
	a, d[1], pub[1] = vC39_gcUpdate(a, "a")
	b, d[3], pub[3] = vC39_gcUpdate(b, "b")
	full := vC38_gcSnap(a.Merge(b).(*GCounter))
	// a third replica receives the published deltas in any order, one of them possibly twice
	sch := vC39_schedule()
	cur, present := vC39_emptyGC, false
	for i := 0; i < vC39_deliveries; i++ {
		var c [7]*GCounter
		var p [7]bool
		for j := 0; j < vC39_nd; j++ {
			c[j], p[j] = d[j], pub[j]
		}
		dl := vC38_gcPick(sch[i], vC39_nd, c)
		if vC38_pickBool(sch[i], vC39_nd, p) {
			var n [7]*GCounter
			n[0] = dl // key absent: the delta itself becomes the stored value
			n[1] = cur.Merge(dl).(*GCounter)
			k := 0
			if present {
				k = 1
			}
			cur, present = vC38_gcPick(k, 2, n), true
		}
	}
	vAssert(vC38_gcSnap(cur) == full, "a replica that applied every delta (any order, duplicates) equals the merge of the originators' full states")
	// each originator applies the other's deltas in order
	a2, b2 := a, b
	for j := 0; j < 2; j++ {
		if pub[2+j] {
			a2 = vC39_gcCopy(a2.Merge(d[2+j]).(*GCounter))
		}
		if pub[j] {
			b2 = vC39_gcCopy(b2.Merge(d[j]).(*GCounter))
		}
	}
	vAssert(vC38_gcSnap(a2) == full && vC38_gcSnap(b2) == full, "the originators converge to the same state after exchanging deltas")
	if pub[0] && pub[1] && pub[2] && pub[3] && sch[0] == 3 && sch[1] == 1 && sch[2] == 1 {
		vCover("four-deltas-reordered-and-duplicated")
	}
	if !pub[1] {
		vCover("update-that-publishes-nothing")
	}
	vCover("end")
}

// ---------------------------------------------------------------- PNCounter

func vC39_pnCopy(p *PNCounter) *PNCounter {
	return &PNCounter{increments: vC39_gcCopy(p.increments), decrements: vC39_gcCopy(p.decrements)}
}

var vC39_emptyPN = NewPNCounter()

func vC39_pnUpdate(cur *PNCounter, node string) (*PNCounter, *PNCounter, bool) {
	n1, n2 := vNondetUint64("amount"), vNondetUint64("amount")
	vAssume(n1 < 1<<60 && n2 < 1<<60)
	var c [5]*PNCounter
	c[0] = cur
	c[1] = cur.Increment(node, n1)
	c[2] = cur.Decrement(node, n1)
	c[3] = c[1].Decrement(node, n2)
	c[4] = c[1].Increment(node, n2)
	op := vChoose("ops", 5)
	var ci, cd [7]*GCounter
	for j := 0; j < 5; j++ {
		ci[j], cd[j] = c[j].increments, c[j].decrements
	}
	u := &PNCounter{increments: vC38_gcPick(op, 5, ci), decrements: vC38_gcPick(op, 5, cd)}
	dd, published := u.Delta().(*PNCounter)
	if !published {
		dd = vC39_emptyPN
	}
	d := vC39_pnCopy(dd)
	u.ResetDelta()
	return u, d, published
}

func vC39_pncounter() {
	a, b := NewPNCounter(), NewPNCounter()
	var d [vC39_nd]*PNCounter
	var pub [vC39_nd]bool
	a, d[0], pub[0] = vC39_pnUpdate(a, "a")
	b, d[2], pub[2] = vC39_pnUpdate(b, "b")
	if vNondetBool("aSeesB") && pub[2] {
		a = vC39_pnCopy(a.Merge(d[2]).(*PNCounter))
	}
	if vNondetBool("bSeesA") && pub[0] {
		b = vC39_pnCopy(b.Merge(d[0]).(*PNCounter))
	}
	a, d[1], pub[1] = vC39_pnUpdate(a, "a")
	b, d[3], pub[3] = vC39_pnUpdate(b, "b")
	full := vC38_pnSnap(a.Merge(b).(*PNCounter))
	sch := vC39_schedule()
	cur, present := vC39_emptyPN, false
	for i := 0; i < vC39_deliveries; i++ {
		var ci, cd [7]*GCounter
		var p [7]bool
		for j := 0; j < vC39_nd; j++ {
			ci[j], cd[j], p[j] = d[j].increments, d[j].decrements, pub[j]
		}
		dl := &PNCounter{increments: vC38_gcPick(sch[i], vC39_nd, ci), decrements: vC38_gcPick(sch[i], vC39_nd, cd)}
		if vC38_pickBool(sch[i], vC39_nd, p) {
			m := cur.Merge(dl).(*PNCounter)
			k := 0
			if present {
				k = 1
			}
			var ni, nd [7]*GCounter
			ni[0], nd[0] = dl.increments, dl.decrements
			ni[1], nd[1] = m.increments, m.decrements
			cur, present = &PNCounter{increments: vC38_gcPick(k, 2, ni), decrements: vC38_gcPick(k, 2, nd)}, true
		}
	}
	vAssert(vC38_pnSnap(cur) == full, "a replica that applied every delta (any order, duplicates) equals the merge of the originators' full states")
	a2, b2 := a, b
	for j := 0; j < 2; j++ {
		if pub[2+j] {
			a2 = vC39_pnCopy(a2.Merge(d[2+j]).(*PNCounter))
		}
		if pub[j] {
			b2 = vC39_pnCopy(b2.Merge(d[j]).(*PNCounter))
		}
	}
	vAssert(vC38_pnSnap(a2) == full && vC38_pnSnap(b2) == full, "the originators converge to the same state after exchanging deltas")
	if pub[0] && pub[1] && pub[2] && pub[3] && full.inc[0] > 0 && full.dec[0] > 0 && full.dec[1] > 0 {
		vCover("increments-and-decrements-on-both-nodes")
	}
	vCover("end")
}

// ---------------------------------------------------------------- MVRegister

func vC39_mvCopy(r *MVRegister) *MVRegister {
	var c [7]*MVRegister
	c[0] = r
	return vC38_mvPick(0, 1, c)
}

var vC39_emptyMV = NewMVRegister()

func vC39_mvUpdate(cur *MVRegister, node string) (*MVRegister, *MVRegister, bool) {
	var c [7]*MVRegister
	c[0] = cur
	c[1] = cur.Set(node, any(vNondetInt("val")))
	c[2] = c[1].Set(node, any(vNondetInt("val")))
	u := vC38_mvPick(vChoose("ops", 3), 3, c)
	dd, published := u.Delta().(*MVRegister)
	if !published {
		dd = vC39_emptyMV
	}
	d := vC39_mvCopy(dd)
	u.ResetDelta()
	return u, d, published
}

func vC39_mvregister() {
	a, b := NewMVRegister(), NewMVRegister()
	var d [vC39_nd]*MVRegister
	var pub [vC39_nd]bool
	a, d[0], pub[0] = vC39_mvUpdate(a, "a")
	b, d[2], pub[2] = vC39_mvUpdate(b, "b")
	if vNondetBool("aSeesB") && pub[2] {
		a = vC39_mvCopy(a.Merge(d[2]).(*MVRegister))
	}
	if vNondetBool("bSeesA") && pub[0] {
		b = vC39_mvCopy(b.Merge(d[0]).(*MVRegister))
	}
	a, d[1], pub[1] = vC39_mvUpdate(a, "a")
	b, d[3], pub[3] = vC39_mvUpdate(b, "b")
	full := vC38_mvSnap(a.Merge(b).(*MVRegister))
	sch := vC39_schedule()
	cur, present := vC39_emptyMV, false
	for i := 0; i < vC39_deliveries; i++ {
		var c [7]*MVRegister
		var p [7]bool
		for j := 0; j < vC39_nd; j++ {
			c[j], p[j] = d[j], pub[j]
		}
		dl := vC38_mvPick(sch[i], vC39_nd, c)
		if vC38_pickBool(sch[i], vC39_nd, p) {
			var n [7]*MVRegister
			n[0] = dl
			n[1] = cur.Merge(dl).(*MVRegister)
			k := 0
			if present {
				k = 1
			}
			cur, present = vC38_mvPick(k, 2, n), true
		}
	}
	vAssert(vC38_mvEq(vC38_mvSnap(cur), full), "a replica that applied every delta (any order, duplicates) equals the merge of the originators' full states")
	a2, b2 := a, b
	for j := 0; j < 2; j++ {
		if pub[2+j] {
			a2 = vC39_mvCopy(a2.Merge(d[2+j]).(*MVRegister))
		}
		if pub[j] {
			b2 = vC39_mvCopy(b2.Merge(d[j]).(*MVRegister))
		}
	}
	vAssert(vC38_mvEq(vC38_mvSnap(a2), full) && vC38_mvEq(vC38_mvSnap(b2), full), "the originators converge to the same state after exchanging deltas")
	if full.n == 2 && pub[1] && pub[3] {
		vCover("concurrent-values-after-two-writes-each")
	}
	if full.n == 1 {
		vCover("single-surviving-value")
	}
	vCover("end")
}
