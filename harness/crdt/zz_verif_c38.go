//go:build verif

package crdt

func init() {
	vRegister("vC38_gcounter", vC38_gcounter)
}

var vC38_nodes = [3]string{"a", "b", "c"}

// ---------------------------------------------------------------- GCounter

// reachable states: K slots; slot k belongs to replica k%3 which either does nothing, increments its own
// slot by an arbitrary amount, or merges the current state of one of the other two replicas
func vC38_gcBuild(K int) [3]*GCounter {
	var rep [3]*GCounter
	for i := 0; i < 3; i++ {
		rep[i] = NewGCounter()
	}
	for k := 0; k < K; k++ {
		r := k % 3
		switch vChoose("op", 4) {
		case 1:
			rep[r] = rep[r].Increment(vC38_nodes[r], vNondetUint64("inc"))
		case 2:
			rep[r] = rep[r].Merge(rep[(r+1)%3]).(*GCounter)
		case 3:
			rep[r] = rep[r].Merge(rep[(r+2)%3]).(*GCounter)
		}
		rep[r] = vC38_gcNorm(rep[r])
	}
	return rep
}

// faithful rebuild of a counter into one fresh object (keeps the symbolic execution from carrying one
// alternative object per operation kind); node ids outside {a,b,c} never occur
func vC38_gcNorm(c *GCounter) *GCounter {
	out := &GCounter{state: make(map[string]uint64), delta: make(map[string]uint64)}
	for i := 0; i < 3; i++ {
		n := vC38_nodes[i]
		if v, ok := c.state[n]; ok {
			out.state[n] = v
		}
		if v, ok := c.delta[n]; ok {
			out.delta[n] = v
		}
	}
	return out
}

func vC38_gcSnap(c *GCounter) [3]uint64 {
	var s [3]uint64
	for i := 0; i < 3; i++ {
		s[i] = c.state[vC38_nodes[i]]
	}
	return s
}

func vC38_max(a, b uint64) uint64 {
	if a > b {
		return a
	}
	return b
}

func vC38_gcounter() {
	rep := vC38_gcBuild(vCase("slots"))
	x, y, z := rep[0], rep[1], rep[2]
	sx, sy, sz := vC38_gcSnap(x), vC38_gcSnap(y), vC38_gcSnap(z)
	xy := x.Merge(y).(*GCounter)
	yx := y.Merge(x).(*GCounter)
	vAssert(vC38_gcSnap(x) == sx && vC38_gcSnap(y) == sy, "Merge leaves both inputs unchanged")
	mxy := vC38_gcSnap(xy)
	for i := 0; i < 3; i++ {
		vAssert(mxy[i] == vC38_max(sx[i], sy[i]), "merged per-node count is the maximum of the two inputs")
		vAssert(mxy[i] >= sx[i], "merging never shrinks a per-node count")
	}
	vAssert(mxy == vC38_gcSnap(yx), "merge is commutative (per-node state)")
	vAssert(xy.Value() == yx.Value(), "merge is commutative (value)")
	l := xy.Merge(z).(*GCounter)
	r := x.Merge(y.Merge(z)).(*GCounter)
	vAssert(vC38_gcSnap(l) == vC38_gcSnap(r), "merge is associative (per-node state)")
	vAssert(l.Value() == r.Value(), "merge is associative (value)")
	vAssert(vC38_gcSnap(z) == sz, "Merge leaves its argument unchanged")
	xx := x.Merge(x).(*GCounter)
	vAssert(vC38_gcSnap(xx) == sx && xx.Value() == x.Value(), "merge is idempotent")
	c := x.Clone().(*GCounter)
	vAssert(vC38_gcSnap(c) == sx && c.Value() == x.Value(), "Clone yields an equal counter")
	dx := x.delta["a"]
	c.state["a"] = c.state["a"] + 1
	c.delta["a"] = dx + 1
	vAssert(vC38_gcSnap(x) == sx && x.delta["a"] == dx, "Clone shares no storage with the original")
	if sx[0] > 0 && sx[1] > 0 && sy[2] > sx[2] {
		vCover("x-knows-two-nodes-y-ahead-on-third")
	}
	vCover("end")
}
