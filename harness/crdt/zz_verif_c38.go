//go:build verif

package crdt

import "time"

func init() {
	vRegister("vC38_gcounter", vC38_gcounter)
	vRegister("vC38_pncounter", vC38_pncounter)
	vRegister("vC38_counter_value", vC38_counter_value)
	vRegister("vC38_flag", vC38_flag)
	vRegister("vC38_lww", vC38_lww)
	vRegister("vC38_lww_anyclock", vC38_lww_anyclock)
	vRegister("vC38_mvregister", vC38_mvregister)
	vRegister("vC38_orset", vC38_orset)
	vRegister("vC38_ormap", vC38_ormap)
}

var vC38_nodes = [3]string{"a", "b", "c"}

// ---------------------------------------------------------------- GCounter

// reachable states: K slots; slot k belongs to replica k%3 which either does nothing, increments its own
// slot by an arbitrary amount, or merges the current state of one of the other two replicas.
// All three real operations are executed in every slot and the chosen result is selected by value into one
// fresh object (so the symbolic execution carries one object per replica, not one per operation kind).
func vC38_gcBuild(K int) [3]*GCounter {
	var rep [3]*GCounter
	for i := 0; i < 3; i++ {
		rep[i] = NewGCounter()
	}
	for k := 0; k < K; k++ {
		r := k % 3
		var c [7]*GCounter
		c[0] = rep[r]
		c[1] = rep[r].Increment(vC38_nodes[r], vNondetUint64("inc"))
		c[2] = rep[r].Merge(rep[(r+1)%3]).(*GCounter)
		c[3] = rep[r].Merge(rep[(r+2)%3]).(*GCounter)
		rep[r] = vC38_gcPick(vChoose("op", 4), 4, c)
	}
	return rep
}

// faithful copy of candidate c[op] into a fresh object; node ids outside {a,b,c} never occur
func vC38_gcPick(op int, n int, c [7]*GCounter) *GCounter {
	out := &GCounter{state: make(map[string]uint64), delta: make(map[string]uint64)}
	for i := 0; i < 3; i++ {
		nd := vC38_nodes[i]
		v, ok := c[0].state[nd]
		d, dok := c[0].delta[nd]
		for j := 1; j < n; j++ {
			if op == j {
				v, ok = c[j].state[nd]
				d, dok = c[j].delta[nd]
			}
		}
		if ok {
			out.state[nd] = v
		}
		if dok {
			out.delta[nd] = d
		}
	}
	return out
}

func vC38_gcSnap(c *GCounter) [3]uint64 {
	var s [3]uint64
	for i := 0; i < 3; i++ {
		s[i] = c.state[vC38_nodes[i]]
	}
	return s
}

func vC38_max(a, b uint64) uint64 {
	if a > b {
		return a
	}
	return b
}

func vC38_gcounter() {
	rep := vC38_gcBuild(vCase("slots"))
	x, y, z := rep[0], rep[1], rep[2]
	sx, sy, sz := vC38_gcSnap(x), vC38_gcSnap(y), vC38_gcSnap(z)
	xy := x.Merge(y).(*GCounter)
	yx := y.Merge(x).(*GCounter)
	vAssert(vC38_gcSnap(x) == sx && vC38_gcSnap(y) == sy, "Merge leaves both inputs unchanged")
	mxy := vC38_gcSnap(xy)
	for i := 0; i < 3; i++ {
		vAssert(mxy[i] == vC38_max(sx[i], sy[i]), "merged per-node count is the maximum of the two inputs")
		vAssert(mxy[i] >= sx[i], "merging never shrinks a per-node count")
	}
	vAssert(mxy == vC38_gcSnap(yx), "merge is commutative (per-node state)")
	l := xy.Merge(z).(*GCounter)
	r := x.Merge(y.Merge(z)).(*GCounter)
	vAssert(vC38_gcSnap(l) == vC38_gcSnap(r), "merge is associative (per-node state)")
	vAssert(vC38_gcSnap(z) == sz, "Merge leaves its argument unchanged")
	xx := x.Merge(x).(*GCounter)
	vAssert(vC38_gcSnap(xx) == sx && xx.Value() == x.Value(), "merge is idempotent")
	c := x.Clone().(*GCounter)
	vAssert(vC38_gcSnap(c) == sx && c.Value() == x.Value(), "Clone yields an equal counter")
	dx := x.delta["a"]
	c.state["a"] = c.state["a"] + 1
	c.delta["a"] = dx + 1
	vAssert(vC38_gcSnap(x) == sx && x.delta["a"] == dx, "Clone shares no storage with the original")
	if sx[0] > 0 && sx[1] > 0 && sy[2] > sx[2] {
		vCover("x-knows-two-nodes-y-ahead-on-third")
	}
	vCover("end")
}

// ---------------------------------------------------------------- PNCounter

func vC38_pnBuild(K int) [3]*PNCounter {
	var rep [3]*PNCounter
	for i := 0; i < 3; i++ {
		rep[i] = NewPNCounter()
	}
	for k := 0; k < K; k++ {
		r := k % 3
		var c [5]*PNCounter
		c[0] = rep[r]
		c[1] = rep[r].Increment(vC38_nodes[r], vNondetUint64("inc"))
		c[2] = rep[r].Decrement(vC38_nodes[r], vNondetUint64("dec"))
		c[3] = rep[r].Merge(rep[(r+1)%3]).(*PNCounter)
		c[4] = rep[r].Merge(rep[(r+2)%3]).(*PNCounter)
		op := vChoose("op", 5)
		var ci, cd [7]*GCounter
		for j := 0; j < 5; j++ {
			ci[j], cd[j] = c[j].increments, c[j].decrements
		}
		rep[r] = &PNCounter{increments: vC38_gcPick(op, 5, ci), decrements: vC38_gcPick(op, 5, cd)}
	}
	return rep
}

type vC38_pnS struct{ inc, dec [3]uint64 }

func vC38_pnSnap(c *PNCounter) vC38_pnS {
	return vC38_pnS{vC38_gcSnap(c.increments), vC38_gcSnap(c.decrements)}
}

// Value() is a function of the per-node state (checked here for ARBITRARY states, not only reachable ones), so the
// join laws proved on the per-node state in vC38_gcounter / vC38_pncounter carry over to the observable value
func vC38_counter_value() {
	var st [2]map[string]uint64
	var snap [2][3]uint64
	var sum [2]uint64
	for h := 0; h < 2; h++ {
		st[h] = make(map[string]uint64)
		for i := 0; i < 3; i++ {
			if vNondetBool("present") {
				v := vNondetUint64("count")
				st[h][vC38_nodes[i]] = v
				snap[h][i] = v
				sum[h] += v
			}
		}
	}
	g := GCounterFromState(st[0])
	vAssert(g.Value() == sum[0], "GCounter.Value is the sum of the per-node counts")
	p := PNCounterFromState(st[0], st[1])
	vAssert(p.Value() == int64(sum[0])-int64(sum[1]), "PNCounter.Value is the sum of increments minus the sum of decrements")
	vAssert(vC38_gcSnap(g) == snap[0] && vC38_pnSnap(p) == vC38_pnS{snap[0], snap[1]}, "FromState keeps increments and decrements apart")
	st[0]["a"] = snap[0][0] + 1
	vAssert(vC38_gcSnap(g) == snap[0], "FromState copies its argument")
	vCover("end")
}

func vC38_pncounter() {
	rep := vC38_pnBuild(vCase("slots"))
	x, y, z := rep[0], rep[1], rep[2]
	sx, sy, sz := vC38_pnSnap(x), vC38_pnSnap(y), vC38_pnSnap(z)
	xy := x.Merge(y).(*PNCounter)
	yx := y.Merge(x).(*PNCounter)
	vAssert(vC38_pnSnap(x) == sx && vC38_pnSnap(y) == sy, "Merge leaves both inputs unchanged")
	mxy := vC38_pnSnap(xy)
	for i := 0; i < 3; i++ {
		vAssert(mxy.inc[i] == vC38_max(sx.inc[i], sy.inc[i]) && mxy.dec[i] == vC38_max(sx.dec[i], sy.dec[i]), "merged per-node increments and decrements are the maxima of the inputs (never mixed up)")
	}
	vAssert(mxy == vC38_pnSnap(yx), "merge is commutative (per-node state)")
	l := xy.Merge(z).(*PNCounter)
	r := x.Merge(y.Merge(z)).(*PNCounter)
	vAssert(vC38_pnSnap(l) == vC38_pnSnap(r), "merge is associative (per-node state)")
	vAssert(vC38_pnSnap(z) == sz, "Merge leaves its argument unchanged")
	xx := x.Merge(x).(*PNCounter)
	vAssert(vC38_pnSnap(xx) == sx, "merge is idempotent")
	c := x.Clone().(*PNCounter)
	vAssert(vC38_pnSnap(c) == sx, "Clone yields an equal counter")
	c.increments.state["a"] = sx.inc[0] + 1
	c.decrements.state["b"] = sx.dec[1] + 1
	vAssert(vC38_pnSnap(x) == sx, "Clone shares no storage with the original")
	if sx.inc[0] > 0 && sx.dec[1] > 0 && sy.inc[2] > sx.inc[2] {
		vCover("mixed-increments-and-decrements")
	}
	vCover("end")
}

// ---------------------------------------------------------------- Flag

func vC38_flBuild(K int) [3]*Flag {
	var rep [3]*Flag
	for i := 0; i < 3; i++ {
		rep[i] = NewFlag()
	}
	for k := 0; k < K; k++ {
		r := k % 3
		var c [4]*Flag
		c[0] = rep[r]
		c[1] = rep[r].Enable()
		c[2] = rep[r].Merge(rep[(r+1)%3]).(*Flag)
		c[3] = rep[r].Merge(rep[(r+2)%3]).(*Flag)
		op := vChoose("op", 4)
		out := &Flag{enabled: c[0].enabled, dirty: c[0].dirty}
		for j := 1; j < 4; j++ {
			if op == j {
				out.enabled, out.dirty = c[j].enabled, c[j].dirty
			}
		}
		rep[r] = out
	}
	return rep
}

func vC38_flag() {
	rep := vC38_flBuild(vCase("slots"))
	x, y, z := rep[0], rep[1], rep[2]
	sx, sy, sz := *x, *y, *z
	xy := x.Merge(y).(*Flag)
	yx := y.Merge(x).(*Flag)
	vAssert(*x == sx && *y == sy, "Merge leaves both inputs unchanged")
	vAssert(xy.Enabled() == (sx.enabled || sy.enabled), "merged flag is the disjunction")
	vAssert(xy.Enabled() == yx.Enabled(), "merge is commutative")
	vAssert(!sx.enabled || xy.Enabled(), "an enabled flag stays enabled through merge")
	vAssert(xy.Merge(z).(*Flag).Enabled() == x.Merge(y.Merge(z)).(*Flag).Enabled(), "merge is associative")
	vAssert(*z == sz, "Merge leaves its argument unchanged")
	vAssert(x.Merge(x).(*Flag).Enabled() == sx.enabled, "merge is idempotent")
	c := x.Clone().(*Flag)
	vAssert(*c == sx, "Clone yields an equal flag")
	c.enabled = !c.enabled
	vAssert(*x == sx, "Clone shares no storage with the original")
	if sx.enabled && !sy.enabled {
		vCover("one-enabled")
	}
	vCover("end")
}

// ---------------------------------------------------------------- LWWRegister

type vC38_lwwS struct {
	value     any
	timestamp int64
	nodeID    string
}

func vC38_lwwSnap(r *LWWRegister) vC38_lwwS { return vC38_lwwS{r.value, r.timestamp, r.nodeID} }

// (timestamp, nodeID) lexicographic order
func vC38_lwwLeq(a, b vC38_lwwS) bool {
	return a.timestamp < b.timestamp || (a.timestamp == b.timestamp && a.nodeID <= b.nodeID)
}

// monotone: every node stamps its successive writes with strictly increasing timestamps
func vC38_lwwBuild(K int, monotone bool) [3]*LWWRegister {
	var rep [3]*LWWRegister
	var last [3]int64
	var wrote [3]bool
	for i := 0; i < 3; i++ {
		rep[i] = NewLWWRegister()
	}
	for k := 0; k < K; k++ {
		r := k % 3
		ts := vNondetInt64("ts")
		var c [4]*LWWRegister
		c[0] = rep[r]
		c[1] = rep[r].Set(any(vNondetInt("val")), time.Unix(0, ts), vC38_nodes[r])
		c[2] = rep[r].Merge(rep[(r+1)%3]).(*LWWRegister)
		c[3] = rep[r].Merge(rep[(r+2)%3]).(*LWWRegister)
		op := vChoose("op", 4)
		if op == 1 {
			if monotone {
				vAssume(!wrote[r] || ts > last[r])
			}
			last[r], wrote[r] = ts, true
		}
		out := &LWWRegister{value: c[0].value, timestamp: c[0].timestamp, nodeID: c[0].nodeID, dirty: c[0].dirty}
		for j := 1; j < 4; j++ {
			if op == j {
				out.value, out.timestamp, out.nodeID, out.dirty = c[j].value, c[j].timestamp, c[j].nodeID, c[j].dirty
			}
		}
		rep[r] = out
	}
	return rep
}

func vC38_lwwCheck(rep [3]*LWWRegister) {
	x, y, z := rep[0], rep[1], rep[2]
	sx, sy, sz := vC38_lwwSnap(x), vC38_lwwSnap(y), vC38_lwwSnap(z)
	xy := x.Merge(y).(*LWWRegister)
	yx := y.Merge(x).(*LWWRegister)
	vAssert(vC38_lwwSnap(x) == sx && vC38_lwwSnap(y) == sy, "Merge leaves both inputs unchanged")
	mxy := vC38_lwwSnap(xy)
	vAssert(mxy == sx || mxy == sy, "the merged register is one of the two inputs")
	vAssert(vC38_lwwLeq(sx, mxy) && vC38_lwwLeq(sy, mxy), "the merged register is not older than either input")
	vAssert(mxy == vC38_lwwSnap(yx), "merge is commutative (value, timestamp and node)")
	l := xy.Merge(z).(*LWWRegister)
	r := x.Merge(y.Merge(z)).(*LWWRegister)
	vAssert(vC38_lwwSnap(l) == vC38_lwwSnap(r), "merge is associative (value, timestamp and node)")
	vAssert(vC38_lwwSnap(z) == sz, "Merge leaves its argument unchanged")
	vAssert(vC38_lwwSnap(x.Merge(x).(*LWWRegister)) == sx, "merge is idempotent")
	c := x.Clone().(*LWWRegister)
	vAssert(vC38_lwwSnap(c) == sx, "Clone yields an equal register")
	c.timestamp++
	vAssert(vC38_lwwSnap(x) == sx, "Clone shares no storage with the original")
	if sx.timestamp == sy.timestamp && sx.nodeID != sy.nodeID && sx.nodeID != "" && sy.nodeID != "" {
		vCover("timestamp-tie-between-nodes")
	}
	if sx.timestamp < sy.timestamp && sx.nodeID > sy.nodeID {
		vCover("newer-write-from-smaller-node")
	}
	vCover("end")
}

func vC38_lww()          { vC38_lwwCheck(vC38_lwwBuild(vCase("slots"), true)) }
func vC38_lww_anyclock() { vC38_lwwCheck(vC38_lwwBuild(vCase("slots"), false)) }

// ---------------------------------------------------------------- dots (shared by MVRegister, ORSet, ORMap)

const vC38_maxDots = 6

func vC38_dotIn(ds []dot, d dot) bool {
	for i := 0; i < len(ds); i++ {
		if ds[i].nodeID == d.nodeID && ds[i].counter == d.counter {
			return true
		}
	}
	return false
}

func vC38_dotsSubset(a, b []dot) bool {
	for i := 0; i < len(a); i++ {
		if !vC38_dotIn(b, a[i]) {
			return false
		}
	}
	return true
}

func vC38_dotsDistinct(a []dot) bool {
	for i := 0; i < len(a); i++ {
		for j := i + 1; j < len(a); j++ {
			if a[i] == a[j] {
				return false
			}
		}
	}
	return true
}

func vC38_pickDots(op, n int, c [7][]dot) []dot {
	ds := c[0]
	for j := 1; j < n; j++ {
		if op == j {
			ds = c[j]
		}
	}
	out := make([]dot, len(ds))
	copy(out, ds)
	return out
}

func vC38_pickBool(op, n int, c [7]bool) bool {
	b := c[0]
	for j := 1; j < n; j++ {
		if op == j {
			b = c[j]
		}
	}
	return b
}

func vC38_pickClock(op, n int, c [7]map[string]uint64) map[string]uint64 {
	out := make(map[string]uint64)
	for i := 0; i < 3; i++ {
		nd := vC38_nodes[i]
		v, ok := c[0][nd]
		for j := 1; j < n; j++ {
			if op == j {
				v, ok = c[j][nd]
			}
		}
		if ok {
			out[nd] = v
		}
	}
	return out
}

func vC38_clockSnap(m map[string]uint64) [3]uint64 {
	var s [3]uint64
	for i := 0; i < 3; i++ {
		s[i] = m[vC38_nodes[i]]
	}
	return s
}

func vC38_clockLeq(a, b [3]uint64) bool { return a[0] <= b[0] && a[1] <= b[1] && a[2] <= b[2] }

func vC38_dominated(d dot, clk [3]uint64) bool {
	for i := 0; i < 3; i++ {
		if d.nodeID == vC38_nodes[i] {
			return d.counter <= clk[i]
		}
	}
	return d.counter == 0
}

// ---------------------------------------------------------------- MVRegister

func vC38_mvPick(op, n int, c [7]*MVRegister) *MVRegister {
	es := c[0].entries
	dirty := c[0].dirty
	var clk [7]map[string]uint64
	clk[0] = c[0].clock
	for j := 1; j < n; j++ {
		clk[j] = c[j].clock
		if op == j {
			es, dirty = c[j].entries, c[j].dirty
		}
	}
	out := &MVRegister{entries: make([]mvEntry, len(es)), clock: vC38_pickClock(op, n, clk), dirty: dirty}
	copy(out.entries, es)
	return out
}

func vC38_mvBuild(K int) [3]*MVRegister {
	var rep [3]*MVRegister
	for i := 0; i < 3; i++ {
		rep[i] = NewMVRegister()
	}
	for k := 0; k < K; k++ {
		r := k % 3
		var c [7]*MVRegister
		c[0] = rep[r]
		c[1] = rep[r].Set(vC38_nodes[r], any(vNondetInt("val")))
		c[2] = rep[r].Merge(rep[(r+1)%3]).(*MVRegister)
		c[3] = rep[r].Merge(rep[(r+2)%3]).(*MVRegister)
		rep[r] = vC38_mvPick(vChoose("op", 4), 4, c)
	}
	return rep
}

type vC38_mvS struct {
	n     int
	ents  [4]mvEntry
	clock [3]uint64
}

func vC38_mvSnap(r *MVRegister) vC38_mvS {
	var s vC38_mvS
	s.n = len(r.entries)
	for i := 0; i < 4; i++ {
		if i < len(r.entries) {
			s.ents[i] = r.entries[i]
		}
	}
	s.clock = vC38_clockSnap(r.clock)
	return s
}

func vC38_mvIn(s vC38_mvS, e mvEntry) bool {
	for i := 0; i < 4; i++ {
		if i < s.n && s.ents[i].dot == e.dot && s.ents[i].value == e.value {
			return true
		}
	}
	return false
}

func vC38_mvDotIn(s vC38_mvS, d dot) bool {
	for i := 0; i < 4; i++ {
		if i < s.n && s.ents[i].dot == d {
			return true
		}
	}
	return false
}

// same clock and the same set of (dot, value) entries, in any order
func vC38_mvEq(a, b vC38_mvS) bool {
	if a.clock != b.clock || a.n != b.n {
		return false
	}
	for i := 0; i < 4; i++ {
		if i < a.n && !vC38_mvIn(b, a.ents[i]) {
			return false
		}
		if i < b.n && !vC38_mvIn(a, b.ents[i]) {
			return false
		}
	}
	return true
}

// lattice order of (entries, causal context): b knows everything a knows, and whatever a knows about that b still
// holds is still held by a
func vC38_mvLeq(a, b vC38_mvS) bool {
	if !vC38_clockLeq(a.clock, b.clock) {
		return false
	}
	for i := 0; i < 4; i++ {
		if i < b.n && vC38_dominated(b.ents[i].dot, a.clock) && !vC38_mvIn(a, b.ents[i]) {
			return false
		}
	}
	return true
}

func vC38_mvWellFormed(s vC38_mvS) bool {
	if s.n > 3 {
		return false
	}
	for i := 0; i < 4; i++ {
		if i < s.n {
			if !vC38_dominated(s.ents[i].dot, s.clock) || s.ents[i].dot.counter == 0 {
				return false
			}
			for j := i + 1; j < 4; j++ {
				if j < s.n && s.ents[i].dot.nodeID == s.ents[j].dot.nodeID {
					return false
				}
			}
		}
	}
	return true
}

func vC38_mvregister() {
	rep := vC38_mvBuild(vCase("slots"))
	part := vCase("part") // the obligations are split over parallel jobs
	x, y, z := rep[0], rep[1], rep[2]
	sx, sy, sz := vC38_mvSnap(x), vC38_mvSnap(y), vC38_mvSnap(z)
	xy := x.Merge(y).(*MVRegister)
	mxy := vC38_mvSnap(xy)
	if part == 0 {
		vAssert(vC38_mvWellFormed(sx), "reachable register: at most one entry per node, every dot covered by the clock")
		yx := y.Merge(x).(*MVRegister)
		vAssert(vC38_mvSnap(x) == sx && vC38_mvSnap(y) == sy, "Merge leaves both inputs unchanged")
		vAssert(vC38_mvWellFormed(mxy), "merged register is well formed")
		vAssert(vC38_mvEq(mxy, vC38_mvSnap(yx)), "merge is commutative (entries as a set, clock)")
		vAssert(vC38_mvLeq(sx, mxy) && vC38_mvLeq(sy, mxy), "merge is an upper bound of both inputs")
		for i := 0; i < 4; i++ {
			if i < sx.n {
				vAssert(vC38_mvIn(mxy, sx.ents[i]) || (vC38_dominated(sx.ents[i].dot, sy.clock) && !vC38_mvDotIn(sy, sx.ents[i].dot)), "a value is dropped by merge only if the other side has seen and superseded it")
			}
		}
	}
	if part == 1 {
		l := vC38_mvSnap(xy.Merge(z).(*MVRegister))
		r := vC38_mvSnap(x.Merge(y.Merge(z)).(*MVRegister))
		vAssert(vC38_mvEq(l, r), "merge is associative (entries as a set, clock)")
		vAssert(vC38_mvSnap(z) == sz && vC38_mvSnap(x) == sx && vC38_mvSnap(y) == sy, "Merge leaves its inputs unchanged (nested merges)")
	}
	if part == 2 {
		vAssert(vC38_mvEq(vC38_mvSnap(x.Merge(x).(*MVRegister)), sx), "merge is idempotent")
		vAssert(len(x.Values()) == sx.n, "Values returns one value per entry")
		c := x.Clone().(*MVRegister)
		vAssert(vC38_mvSnap(c) == sx, "Clone yields an equal register")
		c.clock["a"] = sx.clock[0] + 1
		if len(c.entries) > 0 {
			c.entries[0].dot.counter += 7
		}
		vAssert(vC38_mvSnap(x) == sx, "Clone shares no storage with the original")
		w := x.Set("b", any(5))
		vAssert(vC38_mvSnap(x) == sx && len(w.entries) == 1, "Set leaves the register it is applied to unchanged")
	}
	if mxy.n == 2 {
		vCover("concurrent-writes-both-kept")
	}
	if sx.n == 1 && sy.n == 1 && mxy.n == 1 && sx.ents[0].dot != sy.ents[0].dot {
		vCover("one-write-supersedes-the-other")
	}
	vCover("end")
}

// ---------------------------------------------------------------- ORSet

var vC38_elems = [2]any{any(1), any(2)}

func vC38_osPick(op, n int, c [7]*ORSet) *ORSet {
	out := &ORSet{entries: make(map[any][]dot), clock: nil, delta: newORSetDelta()}
	var clk [7]map[string]uint64
	for j := 0; j < n; j++ {
		clk[j] = c[j].clock
	}
	out.clock = vC38_pickClock(op, n, clk)
	for e := 0; e < 2; e++ {
		el := vC38_elems[e]
		var ent, add, rem [7][]dot
		var entOk, addOk, remOk [7]bool
		for j := 0; j < n; j++ {
			ent[j], entOk[j] = c[j].entries[el]
			add[j], addOk[j] = c[j].delta.added[el]
			rem[j], remOk[j] = c[j].delta.removed[el]
		}
		if vC38_pickBool(op, n, entOk) {
			out.entries[el] = vC38_pickDots(op, n, ent)
		}
		if vC38_pickBool(op, n, addOk) {
			out.delta.added[el] = vC38_pickDots(op, n, add)
		}
		if vC38_pickBool(op, n, remOk) {
			out.delta.removed[el] = vC38_pickDots(op, n, rem)
		}
	}
	return out
}

// faithful copy into one fresh object
func vC38_osNorm(m *ORSet) *ORSet {
	var c [7]*ORSet
	c[0] = m
	return vC38_osPick(0, 1, c)
}

func vC38_osBuild(K int) [3]*ORSet {
	var rep [3]*ORSet
	for i := 0; i < 3; i++ {
		rep[i] = NewORSet()
	}
	for k := 0; k < K; k++ {
		r := k % 3
		var c [7]*ORSet
		c[0] = rep[r]
		c[1] = rep[r].Add(vC38_nodes[r], vC38_elems[0])
		c[2] = rep[r].Add(vC38_nodes[r], vC38_elems[1])
		c[3] = rep[r].Remove(vC38_elems[0])
		c[4] = rep[r].Remove(vC38_elems[1])
		c[5] = rep[r].Merge(rep[(r+1)%3]).(*ORSet)
		c[6] = rep[r].Merge(rep[(r+2)%3]).(*ORSet)
		rep[r] = vC38_osPick(vChoose("op", 7), 7, c)
	}
	return rep
}

type vC38_osS struct {
	present [2]bool
	n       [2]int
	dots    [2][vC38_maxDots]dot
	clock   [3]uint64
}

func vC38_osSnap(s *ORSet) vC38_osS {
	var o vC38_osS
	for e := 0; e < 2; e++ {
		ds, ok := s.entries[vC38_elems[e]]
		o.present[e], o.n[e] = ok, len(ds)
		for i := 0; i < vC38_maxDots; i++ {
			if i < len(ds) {
				o.dots[e][i] = ds[i]
			}
		}
	}
	o.clock = vC38_clockSnap(s.clock)
	return o
}

// same clock and, per element, the same set of dots in any order (an element mapped to no dots counts as absent)
func vC38_osEq(a, b *ORSet) bool {
	if vC38_clockSnap(a.clock) != vC38_clockSnap(b.clock) {
		return false
	}
	for e := 0; e < 2; e++ {
		da, db := a.entries[vC38_elems[e]], b.entries[vC38_elems[e]]
		if len(da) != len(db) || !vC38_dotsSubset(da, db) || !vC38_dotsSubset(db, da) {
			return false
		}
	}
	return true
}

// lattice order of (dot store, causal context)
func vC38_osLeq(a, b *ORSet) bool {
	ca := vC38_clockSnap(a.clock)
	if !vC38_clockLeq(ca, vC38_clockSnap(b.clock)) {
		return false
	}
	for e := 0; e < 2; e++ {
		da, db := a.entries[vC38_elems[e]], b.entries[vC38_elems[e]]
		for i := 0; i < len(db); i++ {
			if vC38_dominated(db[i], ca) && !vC38_dotIn(da, db[i]) {
				return false
			}
		}
	}
	return true
}

func vC38_osWellFormed(s *ORSet) bool {
	clk := vC38_clockSnap(s.clock)
	for e := 0; e < 2; e++ {
		ds := s.entries[vC38_elems[e]]
		if len(ds) > vC38_maxDots || !vC38_dotsDistinct(ds) {
			return false
		}
		for i := 0; i < len(ds); i++ {
			if !vC38_dominated(ds[i], clk) || ds[i].counter == 0 || vC38_dotIn(s.entries[vC38_elems[1-e]], ds[i]) {
				return false
			}
		}
	}
	return true
}

func vC38_orset() {
	rep := vC38_osBuild(vCase("slots"))
	part := vCase("part") // the obligations are split over parallel jobs
	x, y, z := rep[0], rep[1], rep[2]
	sx, sy, sz := vC38_osSnap(x), vC38_osSnap(y), vC38_osSnap(z)
	xy := x.Merge(y).(*ORSet)
	if part == 0 {
		vAssert(vC38_osWellFormed(x), "reachable set: dots distinct, covered by the clock, never shared between elements")
		yx := y.Merge(x).(*ORSet)
		vAssert(vC38_osSnap(x) == sx && vC38_osSnap(y) == sy, "Merge leaves both inputs unchanged")
		vAssert(vC38_osWellFormed(xy), "merged set is well formed")
		vAssert(vC38_osEq(xy, yx), "merge is commutative (dots as sets, clock)")
		vAssert(vC38_osLeq(x, xy) && vC38_osLeq(y, xy), "merge is an upper bound of both inputs")
		cy := vC38_clockSnap(y.clock)
		for e := 0; e < 2; e++ {
			el := vC38_elems[e]
			vAssert(xy.Contains(el) == yx.Contains(el), "merge is commutative (membership)")
			dx, dy, dm := x.entries[el], y.entries[el], xy.entries[el]
			for i := 0; i < len(dx); i++ {
				vAssert(vC38_dotIn(dm, dx[i]) || (vC38_dominated(dx[i], cy) && !vC38_dotIn(dy, dx[i])), "an add is dropped by merge only if the other side has observed and removed it")
			}
			vAssert(xy.Contains(el) == (len(dm) > 0), "Contains reports exactly the elements with a surviving dot")
		}
	}
	if part == 1 {
		l := vC38_osNorm(xy).Merge(z).(*ORSet)
		r := x.Merge(vC38_osNorm(y.Merge(z).(*ORSet))).(*ORSet)
		vAssert(vC38_osEq(l, r), "merge is associative (dots as sets, clock)")
		vAssert(l.Contains(vC38_elems[0]) == r.Contains(vC38_elems[0]) && l.Contains(vC38_elems[1]) == r.Contains(vC38_elems[1]) && l.Len() == r.Len(), "merge is associative (membership)")
		vAssert(vC38_osSnap(z) == sz && vC38_osSnap(x) == sx && vC38_osSnap(y) == sy, "Merge leaves its inputs unchanged (nested merges)")
	}
	if part == 2 {
		vAssert(vC38_osEq(x.Merge(x).(*ORSet), x), "merge is idempotent")
		c := x.Clone().(*ORSet)
		vAssert(vC38_osSnap(c) == sx, "Clone yields an equal set")
		c.clock["a"] = sx.clock[0] + 1
		for e := 0; e < 2; e++ {
			if ds := c.entries[vC38_elems[e]]; len(ds) > 0 {
				ds[0].counter += 7
			}
		}
		delete(c.entries, vC38_elems[0])
		vAssert(vC38_osSnap(x) == sx, "Clone shares no storage with the original")
		// Add/Remove copy the maps but share dot slices: a later Add on either result must not disturb the other
		a1 := x.Add("a", vC38_elems[0])
		s1 := vC38_osSnap(a1)
		a2 := x.Add("b", vC38_elems[0])
		r2 := a1.Remove(vC38_elems[1])
		a3 := r2.Add("c", vC38_elems[0])
		vAssert(vC38_osSnap(x) == sx && vC38_osSnap(a1) == s1 && a2 != nil && a3 != nil, "Add and Remove leave the set they are applied to unchanged")
	}
	if x.Contains(vC38_elems[0]) != y.Contains(vC38_elems[0]) && !xy.Contains(vC38_elems[0]) {
		vCover("observed-remove-wins-over-old-add")
	}
	if x.Contains(vC38_elems[0]) && !y.Contains(vC38_elems[0]) && sy.clock[0] > 0 && xy.Contains(vC38_elems[0]) {
		vCover("concurrent-add-survives-remove")
	}
	if sx.n[0] >= 2 {
		vCover("element-with-two-dots")
	}
	vCover("end")
}

// ---------------------------------------------------------------- ORMap (values: GCounter)

var vC38_emptyGC = NewGCounter()

func vC38_omValue(m *ORMap, el any) (*GCounter, bool) {
	v, ok := m.values[el]
	g, isGC := v.(*GCounter)
	if !isGC {
		g = vC38_emptyGC
	}
	return g, ok
}

func vC38_omPick(op, n int, c [7]*ORMap) *ORMap {
	var ks [7]*ORSet
	var dirty [7]bool
	for j := 0; j < n; j++ {
		ks[j], dirty[j] = c[j].keys, c[j].dirty
	}
	out := &ORMap{keys: vC38_osPick(op, n, ks), values: make(map[any]ReplicatedData), dirty: vC38_pickBool(op, n, dirty)}
	for e := 0; e < 2; e++ {
		el := vC38_elems[e]
		var g [7]*GCounter
		var ok [7]bool
		for j := 0; j < n; j++ {
			g[j], ok[j] = vC38_omValue(c[j], el)
		}
		if vC38_pickBool(op, n, ok) {
			out.values[el] = vC38_gcPick(op, n, g)
		}
	}
	return out
}

// faithful copy into one fresh object with concrete keys
func vC38_omNorm(m *ORMap) *ORMap {
	var c [7]*ORMap
	c[0] = m
	return vC38_omPick(0, 1, c)
}

func vC38_omBuild(K int) [3]*ORMap {
	var rep [3]*ORMap
	for i := 0; i < 3; i++ {
		rep[i] = NewORMap()
	}
	for k := 0; k < K; k++ {
		r := k % 3
		val := NewGCounter().Increment(vC38_nodes[r], vNondetUint64("inc"))
		var c [7]*ORMap
		c[0] = rep[r]
		c[1] = rep[r].Set(vC38_nodes[r], vC38_elems[0], val)
		c[2] = rep[r].Set(vC38_nodes[r], vC38_elems[1], val)
		c[3] = rep[r].Remove(vC38_elems[0])
		c[4] = rep[r].Remove(vC38_elems[1])
		c[5] = rep[r].Merge(rep[(r+1)%3]).(*ORMap)
		c[6] = rep[r].Merge(rep[(r+2)%3]).(*ORMap)
		rep[r] = vC38_omPick(vChoose("op", 7), 7, c)
	}
	return rep
}

type vC38_omS struct {
	keys vC38_osS
	has  [2]bool
	val  [2][3]uint64
}

func vC38_omSnap(m *ORMap) vC38_omS {
	var s vC38_omS
	s.keys = vC38_osSnap(m.keys)
	for e := 0; e < 2; e++ {
		g, ok := vC38_omValue(m, vC38_elems[e])
		s.has[e], s.val[e] = ok, vC38_gcSnap(g)
	}
	return s
}

// observable content: which keys are present (Get) and their values
type vC38_omObs struct {
	has [2]bool
	val [2][3]uint64
}

func vC38_omObserve(m *ORMap) vC38_omObs {
	var o vC38_omObs
	for e := 0; e < 2; e++ {
		v, ok := m.Get(vC38_elems[e])
		o.has[e] = ok
		if ok {
			o.val[e] = vC38_gcSnap(v.(*GCounter))
		}
	}
	return o
}

func vC38_ormap() {
	rep := vC38_omBuild(vCase("slots"))
	part := vCase("part") // the obligations are split over parallel jobs
	x, y, z := rep[0], rep[1], rep[2]
	sx, sy, sz := vC38_omSnap(x), vC38_omSnap(y), vC38_omSnap(z)
	ox := vC38_omObserve(x)
	xy := vC38_omNorm(x.Merge(y).(*ORMap))
	oxy := vC38_omObserve(xy)
	if part == 0 {
		yx := vC38_omNorm(y.Merge(x).(*ORMap))
		vAssert(vC38_omSnap(x) == sx && vC38_omSnap(y) == sy, "Merge leaves both inputs unchanged")
		vAssert(vC38_osEq(xy.keys, yx.keys), "merge is commutative (key dots, clock)")
		vAssert(oxy == vC38_omObserve(yx), "merge is commutative (keys and values)")
		vAssert(vC38_osLeq(x.keys, xy.keys) && vC38_osLeq(y.keys, xy.keys), "merged key set is an upper bound of both key sets")
		for e := 0; e < 2; e++ {
			if ox.has[e] && oxy.has[e] {
				for i := 0; i < 3; i++ {
					vAssert(oxy.val[e][i] >= ox.val[e][i], "the value of a key that survives merge never shrinks")
				}
			}
			vAssert(oxy.has[e] == xy.keys.Contains(vC38_elems[e]), "every key of the merged key set has a value")
		}
	}
	if part == 1 {
		l := vC38_omNorm(xy.Merge(z).(*ORMap))
		r := vC38_omNorm(x.Merge(vC38_omNorm(y.Merge(z).(*ORMap))).(*ORMap))
		vAssert(vC38_osEq(l.keys, r.keys), "merge is associative (key dots, clock)")
		vAssert(vC38_omObserve(l) == vC38_omObserve(r), "merge is associative (keys and values)")
		vAssert(vC38_omSnap(z) == sz && vC38_omSnap(x) == sx && vC38_omSnap(y) == sy, "Merge leaves its inputs unchanged (nested merges)")
	}
	if part == 2 {
		xx := vC38_omNorm(x.Merge(x).(*ORMap))
		vAssert(vC38_osEq(xx.keys, x.keys) && vC38_omObserve(xx) == ox, "merge is idempotent")
		c := x.Clone().(*ORMap)
		vAssert(vC38_omSnap(c) == sx, "Clone yields an equal map")
		for e := 0; e < 2; e++ {
			if g, ok := vC38_omValue(c, vC38_elems[e]); ok {
				g.state["a"] = g.state["a"] + 1
			}
			if ds := c.keys.entries[vC38_elems[e]]; len(ds) > 0 {
				ds[0].counter += 7
			}
		}
		c.keys.clock["b"] = sx.keys.clock[1] + 1
		vAssert(vC38_omSnap(x) == sx, "Clone shares no storage with the original")
	}
	if ox.has[0] && vC38_omObserve(y).has[0] && oxy.val[0][0] > 0 && oxy.val[0][1] > 0 {
		vCover("same-key-written-on-two-nodes")
	}
	if (ox.has[0] || vC38_omObserve(y).has[0]) && !oxy.has[0] {
		vCover("key-removed-by-merge")
	}
	vCover("end")
}
