//go:build verif

package client

func init() {
	vRegister("vC22_roundrobin", vC22_roundrobin)
	vRegister("vC22_random", vC22_random)
	vRegister("vC22_leastload2", vC22_leastload2)
	vRegister("vC22_leastload3", vC22_leastload3)
}

func vC22_nodes(n int) []*Node {
	all := []*Node{{address: "a"}, {address: "b"}, {address: "c"}, {address: "d"}}
	return all[:n]
}

func vC22_indexOf(nodes []*Node, x *Node) int {
	idx := -1
	for i := 0; i < len(nodes); i++ {
		if nodes[i] == x {
			idx = i
		}
	}
	return idx
}

// any counter value (so the uint32 wrap is just another value), 1..4 configured nodes
func vC22_roundrobin() {
	n := vNondetInt("nodes")
	vAssume(n >= 1 && n <= 4)
	nodes := vC22_nodes(n)
	rr := NewRoundRobin()
	rr.Set(nodes...)
	rr.next = vNondetUint32("counter")
	a := rr.Next()
	i1 := vC22_indexOf(nodes, a)
	vAssert(i1 >= 0, "round-robin returns one of the configured nodes")
	b := rr.Next()
	i2 := vC22_indexOf(nodes, b)
	vAssert(i2 >= 0, "round-robin returns one of the configured nodes (second call)")
	vAssert(i2 == (i1+1)%n, "round-robin visits the nodes in cyclic order, also across the counter wrap")
	if rr.next == 0 || rr.next == 1 {
		vCover("wrapped")
	}
	vCover("end")
}

func vC22_random() {
	n := vNondetInt("nodes")
	vAssume(n >= 1 && n <= 4)
	nodes := vC22_nodes(n)
	r := NewRandom()
	r.Set(nodes...)
	a := r.Next()
	vAssert(vC22_indexOf(nodes, a) >= 0, "random balancer returns one of the configured nodes")
	vCover("end")
}

func vC22_leastload2() { vC22_leastload(2) }
func vC22_leastload3() { vC22_leastload(3) }

func vC22_leastload(max int) {
	n := vNondetInt("nodes")
	vAssume(n >= 1 && n <= max)
	nodes := vC22_nodes(n)
	orig := []*Node{nil, nil, nil}
	nan := false
	for i := 0; i < n; i++ {
		w := vNondetFloat64("weight") // any float64 bit pattern, including +-Inf, MaxFloat64 and NaN
		if w != w {
			nan = true
		}
		nodes[i].weight = w
		orig[i] = nodes[i]
	}
	l := NewLeastLoad()
	l.Set(nodes...)
	a := l.Next()
	found := false
	for i := 0; i < n; i++ {
		if orig[i] == a {
			found = true
		}
		if !nan {
			vAssert(a.weight <= orig[i].weight, "least-load result has minimal weight")
		}
	}
	vAssert(found, "least-load balancer returns one of the configured nodes")
	vCover("end")
}
