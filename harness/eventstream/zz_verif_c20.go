//go:build verif

package eventstream

func init() {
	vRegister("vC20_stream", vC20_stream)
}

func vC20_drain(s Subscriber, got *[4]int, n *int) {
	for m := range s.Iterator() {
		if *n < 4 {
			got[*n] = m.Payload().(int)
			*n++
		}
	}
}

// publisher A: publish 1, unsubscribe, publish 3 (never to be delivered); publisher B publishes 2 concurrently;
// a consumer drains concurrently and once more at the end
func vC20_stream() {
	es := New().(*EventsStream)
	sub := es.AddSubscriber()
	es.Subscribe(sub, "t")
	var got [4]int
	n := 0
	vGo("A", func() {
		es.Publish("t", 1)
		es.Unsubscribe(sub, "t")
		es.Publish("t", 3)
	})
	vGo("B", func() { es.Publish("t", 2) })
	vGo("C", func() { vC20_drain(sub, &got, &n) })
	vRun()
	vAssume(vAllDone())
	vC20_drain(sub, &got, &n)
	c1, c2, c3 := 0, 0, 0
	for i := 0; i < n; i++ {
		switch got[i] {
		case 1:
			c1++
		case 2:
			c2++
		case 3:
			c3++
		}
	}
	vAssert(c1 == 1, "an event published while subscribed is delivered exactly once")
	vAssert(c2 <= 1, "a concurrently published event is delivered at most once")
	vAssert(c3 == 0, "an event published after Unsubscribe returned is never delivered")
	vAssert(c1+c2+c3 == n, "only published events are delivered")
	if c2 == 1 {
		vCover("concurrent-delivered")
	}
	if c2 == 0 {
		vCover("concurrent-missed")
	}
	vCover("end")
}
