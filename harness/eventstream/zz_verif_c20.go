//go:build verif

package eventstream

func init() {
	vRegister("vC20_stream", vC20_stream)
	vRegister("vC20_membership", vC20_membership)
}

func vC20_drain(s Subscriber, got *[4]int, n *int) {
	for m := range s.Iterator() {
		if *n < 4 {
			got[*n] = m.Payload().(int)
			*n++
		}
	}
}

// publisher A: publish 1, unsubscribe, publish 3 (never to be delivered); publisher B publishes 2 concurrently;
// a consumer drains concurrently and once more at the end
func vC20_stream() {
	es := New().(*EventsStream)
	sub := es.AddSubscriber()
	es.Subscribe(sub, "t")
	var got [4]int
	n := 0
	vGo("A", func() {
		es.Publish("t", 1)
		es.Unsubscribe(sub, "t")
		es.Publish("t", 3)
	})
	vGo("B", func() { es.Publish("t", 2) })
	vGo("C", func() { vC20_drain(sub, &got, &n) })
	vRun()
	vAssume(vAllDone())
	vC20_drain(sub, &got, &n)
	c1, c2, c3 := 0, 0, 0
	for i := 0; i < n; i++ {
		switch got[i] {
		case 1:
			c1++
		case 2:
			c2++
		case 3:
			c3++
		}
	}
	vAssert(c1 == 1, "an event published while subscribed is delivered exactly once")
	vAssert(c2 <= 1, "a concurrently published event is delivered at most once")
	vAssert(c3 == 0, "an event published after Unsubscribe returned is never delivered")
	vAssert(c1+c2+c3 == n, "only published events are delivered")
	if c2 == 1 {
		vCover("concurrent-delivered")
	}
	if c2 == 0 {
		vCover("concurrent-missed")
	}
	vCover("end")
}

// sequential history against a membership model: K operations over two subscribers and one topic
func vC20_membership() {
	es := New().(*EventsStream)
	subs := [2]Subscriber{es.AddSubscriber(), es.AddSubscriber()}
	var member [2]bool
	for k := 0; k < 4; k++ {
		op := vNondetInt("op")
		i := vNondetInt("sub")
		vAssume(op >= 0 && op <= 2 && i >= 0 && i <= 1)
		switch op {
		case 0:
			es.Subscribe(subs[i], "t")
			member[i] = true
			vCover("subscribe")
		case 1:
			es.Unsubscribe(subs[i], "t")
			member[i] = false
			vCover("unsubscribe")
		case 2:
			es.Publish("t", 100+k)
			for j := 0; j < 2; j++ {
				n := 0
				last := 0
				for m := range subs[j].Iterator() {
					n++
					last = m.Payload().(int)
				}
				if member[j] {
					vAssert(n == 1 && last == 100+k, "a subscribed subscriber receives a published event exactly once")
					vCover("delivered")
				} else {
					vAssert(n == 0, "a subscriber that is not subscribed receives nothing")
				}
			}
		}
	}
	vCover("end")
}
