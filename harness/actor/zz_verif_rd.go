//go:build verif

package actor

// Shared environment for the reliable-delivery checks (C42, C43, C44): PIDs with concrete paths, a recorder for the
// controllers' own tell helpers, a fake remoting client whose serializer is the identity on byte frames, and the
// substitutes for the runtime services the handlers call (Shutdown, Watch, UnWatch, companion resolution).

import (
	"context"
	"errors"
	"time"

	"github.com/tochemey/goakt/v4/internal/commands"
	"github.com/tochemey/goakt/v4/internal/remoteclient"
	"github.com/tochemey/goakt/v4/log"
	"github.com/tochemey/goakt/v4/remote"
)

// application payload of the model: an opaque byte frame
type vRDMsg struct{ data []byte }

type vRDSerializer struct{}

var vRD_errCodec = errors.New("verif: codec error")

func (vRDSerializer) Serialize(m any) ([]byte, error) {
	v, ok := m.(*vRDMsg)
	if !ok || v == nil {
		return nil, vRD_errCodec
	}
	out := make([]byte, len(v.data))
	copy(out, v.data)
	return out, nil
}

func (vRDSerializer) Deserialize(b []byte) (any, error) {
	if len(b) == 0 {
		return nil, vRD_errCodec
	}
	out := make([]byte, len(b))
	copy(out, b)
	return &vRDMsg{data: out}, nil
}

// remoting fake: only Serializer is ever called by the controllers
type vRDRemoting struct{ remoteclient.Client }

func (vRDRemoting) Serializer(any) remote.Serializer { return vRDSerializer{} }

var (
	vRD_sys *actorSystem

	// everything the controller told during the step, in order
	vRD_to  []*PID
	vRD_msg []any

	vRD_shutdowns int
	vRD_watched   []*PID
	vRD_unwatched []*PID

	// outcome of the companion lookup of this step (chosen by the harness entry)
	vRD_resolved    *PID
	vRD_resolvedErr error
	vRD_workerName  string
)

func vRD_reset() {
	vRD_to, vRD_msg = nil, nil
	vRD_shutdowns = 0
	vRD_watched, vRD_unwatched = nil, nil
	vRD_resolved, vRD_resolvedErr, vRD_workerName = nil, nil, ""
}

func vRD_pid(name string) *PID {
	if vRD_sys == nil {
		vRD_sys = &actorSystem{}
	}
	// the path text (the identity PID.Equals and Path.Equals compare) is the short name itself
	return &PID{path: &path{name: name, system: "sys", host: "host", port: 9000, cachedStr: name}, logger: log.DiscardLogger, actorSystem: vRD_sys}
}

// substituted for the controllers' tell helpers ((*producerController).tell etc.): record, never fail
func vRD_record(to *PID, message any) {
	vRD_to = append(vRD_to, to)
	vRD_msg = append(vRD_msg, message)
}

func vRD_ptell(x *producerController, ctx *ReceiveContext, to *PID, message any) {
	vRD_record(to, message)
}
func vRD_ctell(x *consumerController, ctx *ReceiveContext, to *PID, message any) {
	vRD_record(to, message)
}
func vRD_wtell(x *workPullingProducerController, ctx *ReceiveContext, to *PID, message any) {
	vRD_record(to, message)
}

// substituted for (*ReceiveContext).Shutdown / Watch / UnWatch
func vRD_shutdown(rctx *ReceiveContext)        { vRD_shutdowns++ }
func vRD_watch(rctx *ReceiveContext, p *PID)   { vRD_watched = append(vRD_watched, p) }
func vRD_unwatch(rctx *ReceiveContext, p *PID) { vRD_unwatched = append(vRD_unwatched, p) }

// substituted for (*actorSystem).getRemoting
func vRD_getRemoting(x *actorSystem) remoteclient.Client { return vRDRemoting{} }

// substituted for (*actorSystem).resolveReliableCompanion
func vRD_resolveCompanion(x *actorSystem, ctx context.Context, endpointName string, role ReliableControllerRole, peer *reliablePeerAddress) (*PID, error) {
	return vRD_resolved, vRD_resolvedErr
}

// substituted for (*actorSystem).authenticateWorkPullingWorker
func vRD_authWorker(x *actorSystem, ctx context.Context, sender *PID, producerName string) (*PID, string, error) {
	return vRD_resolved, vRD_workerName, vRD_resolvedErr
}

// substituted for slices.overlaps[*commands.SequencedMessage] (unsafe pointer arithmetic): slices.Insert only asks whether
// the inserted values alias the tail of the slice; the controllers always insert a fresh single value
func vRD_noOverlap(a, b []*commands.SequencedMessage) bool { return false }

// substituted for context.WithTimeout (the lookup deadline plays no role in the model)
func vRD_withTimeout(ctx context.Context, d time.Duration) (context.Context, context.CancelFunc) {
	return ctx, func() {}
}

var vRD_ids = [4]string{"m0", "m1", "m2", "m3"}

// an arbitrary volatile producer-controller state satisfying the representation invariant
//
//	0 <= confirmedSeq <= currentSeq, unconfirmed = the contiguous ascending sequences (confirmedSeq, currentSeq]
//
// handshake at rest is Idle, Credit or StoredAck (Store and Accept complete synchronously without a durable queue)
func vRD_producerState(prod, cc *PID) *producerController {
	x := &producerController{producer: prod, consumerName: "consumer", retryInterval: time.Second, queueRetryAttempts: 1,
		queueRetryBackoff: time.Second, sessionID: "S", generation: 1}
	x.deliveryConfirmation = vNondetBool("deliveryConfirmation")
	if vNondetBool("registered") {
		x.consumerController = cc
		x.registrationNonce = "N"
	}
	confirmed := vNondetInt64("confirmedSeq")
	n := vNondetInt("unconfirmedLen")
	vAssume(confirmed >= 0 && confirmed < 1<<62 && n >= 0 && n <= 3)
	x.confirmedSeq = confirmed
	x.persistedConfirmedSeq = confirmed
	x.currentSeq = confirmed + int64(n)
	for i := 0; i < n; i++ {
		x.unconfirmed = append(x.unconfirmed, UnconfirmedMessage{messageID: vRD_ids[i], seq: confirmed + 1 + int64(i),
			payload: ReliablePayload{bytes: []byte{vNondetByte("payload")}}})
	}
	x.demandUpTo = vNondetInt64("demandUpTo")
	x.windowSpan = vNondetInt64("windowSpan")
	vAssume(x.demandUpTo >= 0 && x.windowSpan >= 0)
	switch vChoose("handshake", 3) {
	case 1:
		x.handshake = producerHandshakeCredit
		x.token = "T"
	case 2:
		vAssume(x.currentSeq >= 1)
		x.handshake = producerHandshakeStoredAck
		x.token = "T"
		x.pendingSeq = x.currentSeq
		if n >= 1 {
			// the pending message is the latest stored one and still unconfirmed
			x.pendingMessageID = x.unconfirmed[n-1].messageID
			x.pendingPayload = x.unconfirmed[n-1].payload
		} else {
			// resent on a timeout request and already confirmed before its StoredAck arrived
			x.pendingMessageID = vRD_ids[vChoose("pendingID", 4)]
			x.pendingPayload = ReliablePayload{bytes: []byte{vNondetByte("pendingPayload")}}
		}
		x.storedMessage = &Stored{sessionID: "S", token: "T", messageID: x.pendingMessageID, seq: x.pendingSeq, endpoint: prod, controller: prod}
	}
	if vNondetBool("hasCompleted") {
		x.lastCompletedToken = "T0"
		x.lastCompletedMessageID = vRD_ids[vChoose("completedID", 4)]
	}
	return x
}

func vRD_str2(name, a, b string) string {
	if vNondetBool(name) {
		return a
	}
	return b
}

func vRD_pick(c bool, a, b string) string {
	if c {
		return a
	}
	return b
}
