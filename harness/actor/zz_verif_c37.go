//go:build verif

package actor

import (
	"context"
	"time"

	"github.com/tochemey/goakt/v4/internal/cluster"
	"github.com/tochemey/goakt/v4/internal/remoteclient"
	"github.com/tochemey/goakt/v4/remote"

	gerrors "github.com/tochemey/goakt/v4/errors"
	"github.com/tochemey/goakt/v4/passivation"
	"github.com/tochemey/goakt/v4/reentrancy"
	"github.com/tochemey/goakt/v4/supervisor"
)

func init() {
	vRegister("vC37_relocation", vC37_relocation)
	vRegister("vC37_spawnOn", vC37_spawnOn)
}

type vC37Actor struct{}

func (*vC37Actor) PreStart(*Context) error { return nil }
func (*vC37Actor) Receive(*ReceiveContext) {}
func (*vC37Actor) PostStop(*Context) error { return nil }

// cluster with one other member that advertises role "r1"; the name is free; round-robin picks that member
type vC37Cluster struct{ cluster.Cluster }

func (vC37Cluster) ActorExists(context.Context, string) (bool, error) { return false, nil }
func (vC37Cluster) Members(context.Context) ([]*cluster.Peer, error) {
	return []*cluster.Peer{{Host: "h1", RemotingPort: 9000, Roles: []string{"r1"}}}, nil
}
func (vC37Cluster) NextRoundRobinValue(context.Context, string) (int, error) { return 1, nil }

// remoting client that records the spawn request it is asked to send
type vC37Remoting struct {
	remoteclient.Client
	got *remote.SpawnRequest
}

func (r *vC37Remoting) RemoteSpawn(_ context.Context, _ string, _ int, req *remote.SpawnRequest) (*string, error) {
	r.got = req
	addr := "goakt://sys@h1:9000/a1"
	return &addr, nil
}

// SpawnOn with cluster placement on another node: the request handed to the remoting client carries the whole configuration
func vC37_spawnOn() {
	stash := vNondetBool("stash")
	hasRole := vNondetBool("withRole")
	withInit := vNondetBool("withInitTimeout")
	initTimeout := time.Duration(vNondetInt64("initTimeout"))
	noReloc := vNondetBool("relocationDisabled")
	sup := supervisor.NewSupervisor()
	re := reentrancy.New(reentrancy.WithMode(reentrancy.AllowAll))
	ps := passivation.NewLongLivedStrategy()
	opts := []SpawnOption{WithSupervisor(sup), WithReentrancy(re), WithPassivationStrategy(ps)}
	if stash {
		opts = append(opts, WithStashing())
	}
	if hasRole {
		opts = append(opts, WithRole("r1"))
	}
	if withInit {
		opts = append(opts, WithInitTimeout(initTimeout))
	}
	if noReloc {
		opts = append(opts, WithRelocationDisabled())
	}
	rc := &vC37Remoting{}
	x := &actorSystem{cluster: vC37Cluster{}, remoting: rc}
	x.started.Store(true)
	x.clusterEnabled.Store(true)
	_, _ = x.SpawnOn(context.Background(), "a1", &vC37Actor{}, opts...)
	req := rc.got
	vAssert(req != nil, "cluster placement on another member goes through the remoting client")
	if req == nil {
		return
	}
	vAssert(req.Name == "a1" && req.Singleton == nil, "the request names the actor")
	vAssert(req.Supervisor == sup && req.Reentrancy == re && req.PassivationStrategy == passivation.Strategy(ps), "supervisor, reentrancy and passivation strategy are handed to the remote node")
	vAssert(req.EnableStashing == stash && req.Relocatable == !noReloc, "stashing and relocatability are handed to the remote node")
	wantInit := time.Duration(0)
	if withInit && initTimeout > 0 {
		wantInit = initTimeout
	}
	vAssert(req.InitTimeout == wantInit, "an explicit init timeout is handed to the remote node")
	if hasRole {
		vAssert(req.Role != nil && *req.Role == "r1", "the role is handed to the remote node")
		vCover("with-role")
	} else {
		vAssert(req.Role == nil, "no role stays no role")
	}
	vCover("end")
}

// the relocation wire: spawn options -> spawnConfig -> PID fields (the pid options configPID applies) -> PID.toSerialize
// -> internalpb.Actor -> actorSystem.wireSpawnOptions -> spawnConfig of the re-created actor
func vC37_relocation() {
	// supervisor: strategy, retry and one typed rule symbolic (rule shapes are covered by the codec entries)
	withSup := vNondetBool("withSupervisor")
	strategy := supervisor.Strategy(vChoose("strategy", 2))
	maxRetries, timeout := vNondetUint32("maxRetries"), time.Duration(vNondetInt64("timeout"))
	dir := supervisor.Directive(vChoose("directive", 4))
	pkind := vChoose("passivation", 4) // none, time-based, count-based, long-lived
	after, maxMessages := time.Duration(vNondetInt64("after")), vNondetInt("maxMessages")
	withReent := vNondetBool("withReentrancy")
	mode, maxInFlight := reentrancy.Mode(vChoose("mode", 3)), vNondetInt("maxInFlight")
	stash := vNondetBool("stash")
	hasRole := vNondetBool("withRole")
	role := vNondetStringN("role", 2)
	withInit := vNondetBool("withInitTimeout")
	initTimeout := time.Duration(vNondetInt64("initTimeout"))
	vAssume(maxInFlight <= 1<<32-1) // beyond the uint32 wire field the value is clamped (documented; covered by vC37_reentrancy)

	var opts []SpawnOption
	var sup *supervisor.Supervisor
	if withSup {
		sup = supervisor.NewSupervisor(supervisor.WithStrategy(strategy), supervisor.WithRetry(maxRetries, timeout), supervisor.WithDirective(&gerrors.InternalError{}, dir))
		opts = append(opts, WithSupervisor(sup))
	}
	switch pkind {
	case 1:
		opts = append(opts, WithPassivationStrategy(passivation.NewTimeBasedStrategy(after)))
	case 2:
		opts = append(opts, WithPassivationStrategy(passivation.NewMessageCountBasedStrategy(maxMessages)))
	case 3:
		opts = append(opts, WithPassivationStrategy(passivation.NewLongLivedStrategy()))
	}
	if withReent {
		opts = append(opts, WithReentrancy(reentrancy.New(reentrancy.WithMode(mode), reentrancy.WithMaxInFlight(maxInFlight))))
	}
	if stash {
		opts = append(opts, WithStashing())
	}
	if hasRole {
		opts = append(opts, WithRole(role))
	}
	if withInit {
		opts = append(opts, WithInitTimeout(initTimeout))
	}
	cfg := newSpawnConfig(opts...)

	// what configPID does with the config (transcribed: the pid options, applied to a bare PID)
	pid := &PID{}
	pid.setState(relocationState, true)
	withInitTimeout(cfg.initTimeout)(pid)
	if cfg.supervisor != nil {
		withSupervisor(cfg.supervisor)(pid)
	}
	if cfg.enableStash {
		withStash()(pid)
	}
	if cfg.reentrancy != nil {
		withReentrancy(cfg.reentrancy)(pid)
	}
	if cfg.role != nil {
		withRole(*cfg.role)(pid)
	}
	if cfg.passivationStrategy != nil {
		withPassivationStrategy(cfg.passivationStrategy)(pid)
	}

	props, err := pid.toSerialize()
	vAssert(err == nil && props != nil, "an actor without dependencies serializes")
	if err != nil || props == nil {
		return
	}
	x := &actorSystem{}
	wired, err := x.wireSpawnOptions(props)
	vAssert(err == nil, "the serialized actor is turned back into spawn options")
	if err != nil {
		return
	}
	got := newSpawnConfig(wired...)

	vAssert(props.GetRelocatable() && got.relocatable, "a relocated actor stays relocatable")
	vAssert(got.enableStash == cfg.enableStash, "stashing survives relocation")
	wantRole := ""
	if cfg.role != nil {
		wantRole = *cfg.role
	}
	gotRole := ""
	if got.role != nil {
		gotRole = *got.role
	}
	vAssert(gotRole == wantRole, "the role survives relocation")
	vAssert((got.initTimeout == nil) == (cfg.initTimeout == nil) && (cfg.initTimeout == nil || *got.initTimeout == *cfg.initTimeout), "an explicit init timeout survives relocation")
	// passivation
	switch want := cfg.passivationStrategy.(type) {
	case nil:
		vAssert(got.passivationStrategy == nil, "no passivation override stays none")
	case *passivation.TimeBasedStrategy:
		g, ok := got.passivationStrategy.(*passivation.TimeBasedStrategy)
		vAssert(ok && g.Timeout() == want.Timeout(), "a time-based passivation strategy survives relocation")
		vCover("time-based")
	case *passivation.MessagesCountBasedStrategy:
		g, ok := got.passivationStrategy.(*passivation.MessagesCountBasedStrategy)
		vAssert(ok && g.MaxMessages() == want.MaxMessages(), "a message-count passivation strategy survives relocation")
		vCover("count-based")
	case *passivation.LongLivedStrategy:
		_, ok := got.passivationStrategy.(*passivation.LongLivedStrategy)
		vAssert(ok, "a long-lived passivation strategy survives relocation")
		vCover("long-lived")
	}
	// reentrancy
	vAssert((got.reentrancy == nil) == (cfg.reentrancy == nil), "reentrancy is configured after relocation exactly when it was before")
	if cfg.reentrancy != nil && got.reentrancy != nil {
		vAssert(got.reentrancy.Mode() == cfg.reentrancy.Mode() && got.reentrancy.MaxInFlight() == cfg.reentrancy.MaxInFlight(), "reentrancy mode and maxInFlight survive relocation")
		vCover("reentrancy")
	}
	// supervisor
	vAssert((got.supervisor == nil) == (cfg.supervisor == nil), "a supervisor is configured after relocation exactly when it was before")
	if cfg.supervisor != nil && got.supervisor != nil {
		vAssert(got.supervisor.Strategy() == sup.Strategy() && got.supervisor.MaxRetries() == sup.MaxRetries() && got.supervisor.Timeout() == sup.Timeout(), "supervisor strategy and retry budget survive relocation")
		wd, wok := sup.Directive(&gerrors.InternalError{})
		gd, gok := got.supervisor.Directive(&gerrors.InternalError{})
		vAssert(wok && gok && wd == gd, "the supervisor's typed directive survives relocation")
		vCover("supervisor")
	}
	if hasRole && withInit && initTimeout > 0 && stash {
		vCover("role+init+stash")
	}
	vCover("end")
}
