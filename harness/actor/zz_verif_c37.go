//go:build verif

package actor

import (
	"time"

	gerrors "github.com/tochemey/goakt/v4/errors"
	"github.com/tochemey/goakt/v4/passivation"
	"github.com/tochemey/goakt/v4/reentrancy"
	"github.com/tochemey/goakt/v4/supervisor"
)

func init() { vRegister("vC37_relocation", vC37_relocation) }

// the relocation wire: spawn options -> spawnConfig -> PID fields (the pid options configPID applies) -> PID.toSerialize
// -> internalpb.Actor -> actorSystem.wireSpawnOptions -> spawnConfig of the re-created actor
func vC37_relocation() {
	// supervisor: strategy, retry and one typed rule symbolic (rule shapes are covered by the codec entries)
	withSup := vNondetBool("withSupervisor")
	strategy := supervisor.Strategy(vChoose("strategy", 2))
	maxRetries, timeout := vNondetUint32("maxRetries"), time.Duration(vNondetInt64("timeout"))
	dir := supervisor.Directive(vChoose("directive", 4))
	pkind := vChoose("passivation", 4) // none, time-based, count-based, long-lived
	after, maxMessages := time.Duration(vNondetInt64("after")), vNondetInt("maxMessages")
	withReent := vNondetBool("withReentrancy")
	mode, maxInFlight := reentrancy.Mode(vChoose("mode", 3)), vNondetInt("maxInFlight")
	stash := vNondetBool("stash")
	hasRole := vNondetBool("withRole")
	role := vNondetStringN("role", 2)
	withInit := vNondetBool("withInitTimeout")
	initTimeout := time.Duration(vNondetInt64("initTimeout"))
	vAssume(maxInFlight <= 1<<32-1) // beyond the uint32 wire field the value is clamped (documented; covered by vC37_reentrancy)

	var opts []SpawnOption
	var sup *supervisor.Supervisor
	if withSup {
		sup = supervisor.NewSupervisor(supervisor.WithStrategy(strategy), supervisor.WithRetry(maxRetries, timeout), supervisor.WithDirective(&gerrors.InternalError{}, dir))
		opts = append(opts, WithSupervisor(sup))
	}
	switch pkind {
	case 1:
		opts = append(opts, WithPassivationStrategy(passivation.NewTimeBasedStrategy(after)))
	case 2:
		opts = append(opts, WithPassivationStrategy(passivation.NewMessageCountBasedStrategy(maxMessages)))
	case 3:
		opts = append(opts, WithPassivationStrategy(passivation.NewLongLivedStrategy()))
	}
	if withReent {
		opts = append(opts, WithReentrancy(reentrancy.New(reentrancy.WithMode(mode), reentrancy.WithMaxInFlight(maxInFlight))))
	}
	if stash {
		opts = append(opts, WithStashing())
	}
	if hasRole {
		opts = append(opts, WithRole(role))
	}
	if withInit {
		opts = append(opts, WithInitTimeout(initTimeout))
	}
	cfg := newSpawnConfig(opts...)

	// what configPID does with the config (transcribed: the pid options, applied to a bare PID)
	pid := &PID{}
	pid.setState(relocationState, true)
	withInitTimeout(cfg.initTimeout)(pid)
	if cfg.supervisor != nil {
		withSupervisor(cfg.supervisor)(pid)
	}
	if cfg.enableStash {
		withStash()(pid)
	}
	if cfg.reentrancy != nil {
		withReentrancy(cfg.reentrancy)(pid)
	}
	if cfg.role != nil {
		withRole(*cfg.role)(pid)
	}
	if cfg.passivationStrategy != nil {
		withPassivationStrategy(cfg.passivationStrategy)(pid)
	}

	props, err := pid.toSerialize()
	vAssert(err == nil && props != nil, "an actor without dependencies serializes")
	if err != nil || props == nil {
		return
	}
	x := &actorSystem{}
	wired, err := x.wireSpawnOptions(props)
	vAssert(err == nil, "the serialized actor is turned back into spawn options")
	if err != nil {
		return
	}
	got := newSpawnConfig(wired...)

	vAssert(props.GetRelocatable() && got.relocatable, "a relocated actor stays relocatable")
	vAssert(got.enableStash == cfg.enableStash, "stashing survives relocation")
	wantRole := ""
	if cfg.role != nil {
		wantRole = *cfg.role
	}
	gotRole := ""
	if got.role != nil {
		gotRole = *got.role
	}
	vAssert(gotRole == wantRole, "the role survives relocation")
	vAssert((got.initTimeout == nil) == (cfg.initTimeout == nil) && (cfg.initTimeout == nil || *got.initTimeout == *cfg.initTimeout), "an explicit init timeout survives relocation")
	// passivation
	switch want := cfg.passivationStrategy.(type) {
	case nil:
		vAssert(got.passivationStrategy == nil, "no passivation override stays none")
	case *passivation.TimeBasedStrategy:
		g, ok := got.passivationStrategy.(*passivation.TimeBasedStrategy)
		vAssert(ok && g.Timeout() == want.Timeout(), "a time-based passivation strategy survives relocation")
		vCover("time-based")
	case *passivation.MessagesCountBasedStrategy:
		g, ok := got.passivationStrategy.(*passivation.MessagesCountBasedStrategy)
		vAssert(ok && g.MaxMessages() == want.MaxMessages(), "a message-count passivation strategy survives relocation")
		vCover("count-based")
	case *passivation.LongLivedStrategy:
		_, ok := got.passivationStrategy.(*passivation.LongLivedStrategy)
		vAssert(ok, "a long-lived passivation strategy survives relocation")
		vCover("long-lived")
	}
	// reentrancy
	vAssert((got.reentrancy == nil) == (cfg.reentrancy == nil), "reentrancy is configured after relocation exactly when it was before")
	if cfg.reentrancy != nil && got.reentrancy != nil {
		vAssert(got.reentrancy.Mode() == cfg.reentrancy.Mode() && got.reentrancy.MaxInFlight() == cfg.reentrancy.MaxInFlight(), "reentrancy mode and maxInFlight survive relocation")
		vCover("reentrancy")
	}
	// supervisor
	vAssert((got.supervisor == nil) == (cfg.supervisor == nil), "a supervisor is configured after relocation exactly when it was before")
	if cfg.supervisor != nil && got.supervisor != nil {
		vAssert(got.supervisor.Strategy() == sup.Strategy() && got.supervisor.MaxRetries() == sup.MaxRetries() && got.supervisor.Timeout() == sup.Timeout(), "supervisor strategy and retry budget survive relocation")
		wd, wok := sup.Directive(&gerrors.InternalError{})
		gd, gok := got.supervisor.Directive(&gerrors.InternalError{})
		vAssert(wok && gok && wd == gd, "the supervisor's typed directive survives relocation")
		vCover("supervisor")
	}
	if hasRole && withInit && initTimeout > 0 && stash {
		vCover("role+init+stash")
	}
	vCover("end")
}
