//go:build verif

package actor

func init() {
	vRegister("vC05_pushTake", vC05_pushTake)
	vRegister("vC05_close", vC05_close)
	vRegister("vC05_park", vC05_park)
	vRegister("vC05_steal", vC05_steal)
	vRegister("vC05_ringStep", vC05_ringStep)
	vRegister("vC05_spill", vC05_spill)
}

type vC05Item struct{ id int }

func (*vC05Item) runTurn(w *worker) {}

var vC05_taken [4]int // how often item i was returned by take
var vC05_exited [2]bool

func vC05_worker(rq *readyQueue, id int, n int) {
	for i := 0; i < n; i++ {
		s, ok := rq.take(id)
		if !ok {
			vC05_exited[id] = true
			return
		}
		vC05_taken[s.(*vC05Item).id]++
	}
}

// one pusher (2 items through the global ring), two workers taking once each
func vC05_pushTake() {
	rq := newReadyQueue(2)
	a, b := &vC05Item{id: 0}, &vC05Item{id: 1}
	vC05_taken = [4]int{}
	vGo("push", func() { rq.push(a); rq.push(b) })
	vGo("w0", func() { vC05_worker(rq, 0, 1) })
	vGo("w1", func() { vC05_worker(rq, 1, 1) })
	vRun()
	vAssert(vC05_taken[0] <= 1 && vC05_taken[1] <= 1, "a scheduled actor is taken by at most one worker")
	if vStuck() {
		vCover("stuck")
		// the pusher never blocks; if a worker is still parked, nothing may be queued (no lost wake-up)
		if !vThreadDone(1) || !vThreadDone(2) {
			vAssert(!vThreadDone(0) || rq.global.size == 0, "no worker stays parked while work is queued")
			vCover("parked")
		}
		if vAllDone() {
			vAssert(vC05_taken[0] == 1 && vC05_taken[1] == 1, "every scheduled actor is taken exactly once")
			vAssert(rq.global.size == 0 && rq.globalCount.Load() == 0, "the global ring is empty and its counter agrees")
			vCover("all-done")
		}
	}
	vCover("end")
}

// fewer items than takers: one worker legitimately stays parked, but never while the item is still queued
func vC05_park() {
	rq := newReadyQueue(2)
	a := &vC05Item{id: 0}
	vC05_taken = [4]int{}
	vGo("push", func() { rq.push(a) })
	vGo("w0", func() { vC05_worker(rq, 0, 1) })
	vGo("w1", func() { vC05_worker(rq, 1, 1) })
	vRun()
	vAssert(vC05_taken[0] <= 1, "a scheduled actor is taken by at most one worker")
	if vStuck() && vThreadDone(0) {
		vCover("stuck")
		vAssert(vC05_taken[0] == 1, "a pushed actor is taken although a worker had to be woken (no lost wake-up)")
		vAssert(rq.global.size == 0, "no worker stays parked while work is queued")
		if vThreadBlocked(1) || vThreadBlocked(2) {
			vCover("one-parked")
		}
	}
	vCover("end")
}

// closing makes every worker exit, also a parked one
func vC05_close() {
	rq := newReadyQueue(2)
	a := &vC05Item{id: 0}
	vC05_taken = [4]int{}
	vC05_exited = [2]bool{}
	vGo("push", func() { rq.push(a); rq.close() })
	vGo("w0", func() { vC05_worker(rq, 0, 2) })
	vGo("w1", func() { vC05_worker(rq, 1, 2) })
	vRun()
	vAssert(vC05_taken[0] <= 1, "a scheduled actor is taken by at most one worker")
	if vStuck() {
		vCover("stuck")
		vAssert(vThreadDone(1) && vThreadDone(2), "after close no worker stays parked")
	}
	if vAllDone() {
		vCover("all-done")
	}
	vCover("end")
}

// owner pushes three items to its local ring, a sibling steals half
func vC05_steal() {
	rq := newReadyQueue(2)
	items := [3]*vC05Item{{id: 0}, {id: 1}, {id: 2}}
	vC05_taken = [4]int{}
	for i := 0; i < localQueueCap-2; i++ { // the owner's ring already holds cap-2 other items (id 3, not counted)
		rq.pushLocal(0, &vC05Item{id: 3})
	}
	vC05_taken = [4]int{}
	vGo("w0", func() {
		for i := 0; i < 3; i++ {
			rq.pushLocal(0, items[i]) // the third overflows the shrunk local ring into the global ring
		}
		vC05_worker(rq, 0, 1)
	})
	vGo("w1", func() { vC05_worker(rq, 1, 2) })
	vRun()
	for i := 0; i < 3; i++ {
		vAssert(vC05_taken[i] <= 1, "a scheduled actor is taken by at most one worker (local/steal)")
	}
	if vAllDone() {
		left := rq.locals[0].size + rq.locals[1].size + rq.global.size
		vAssert(vC05_taken[0]+vC05_taken[1]+vC05_taken[2]+vC05_taken[3]+left == 3+localQueueCap-2, "taken + still queued = scheduled (nothing lost or duplicated)")
		vAssert(int(rq.locals[0].sizeAtomic.Load()) == rq.locals[0].size && int(rq.locals[1].sizeAtomic.Load()) == rq.locals[1].size, "atomic size mirrors agree with the rings")
		vCover("all-done")
	}
	vCover("end")
}

// the owner's ring is full: its next local re-push spills into the global ring and must wake a parked sibling
func vC05_spill() {
	rq := newReadyQueue(2)
	vC05_taken = [4]int{}
	spilled := &vC05Item{id: 0}
	// the owner fills its ring (no wake-up by design: it is the consumer of its own ring), then spills one more item and is
	// busy afterwards: it never comes back to take. The sibling may have parked before any of this.
	vGo("w0", func() {
		for i := 0; i < localQueueCap; i++ {
			rq.pushLocal(0, &vC05Item{id: 1})
		}
		rq.pushLocal(0, spilled)
	})
	vGo("w1", func() { vC05_worker(rq, 1, 1) })
	vRun()
	vAssert(vC05_taken[0] <= 1, "a scheduled actor is taken by at most one worker")
	if vStuck() && vThreadDone(0) {
		vCover("stuck")
		vAssert(vThreadDone(1), "an idle worker never stays parked while work is queued (spill into the global ring wakes it)")
		vAssert(int(rq.locals[1].sizeAtomic.Load()) == rq.locals[1].size, "atomic size mirror of the thief's ring agrees")
	}
	if vC05_taken[0] == 1 {
		vCover("spilled-item-taken")
	}
	vCover("end")
}

// sequential inductive step on the local ring: arbitrary valid ring state, one operation, invariant + multiset preserved
func vC05_ringStep() {
	var q, d localQueue
	ids := [5]*vC05Item{{id: 0}, {id: 1}, {id: 2}, {id: 3}, {id: 4}}
	q.head = vNondetInt("head")
	q.size = vNondetInt("size")
	vAssume(q.head >= 0 && q.head < localQueueCap && q.size >= 0 && q.size <= localQueueCap)
	q.tail = (q.head + q.size) % localQueueCap
	for i := 0; i < q.size; i++ {
		q.buf[(q.head+i)%localQueueCap] = ids[i]
	}
	q.sizeAtomic.Store(int32(q.size))
	d.head = vNondetInt("dhead")
	vAssume(d.head >= 0 && d.head < localQueueCap)
	d.tail = d.head
	pre := q.size
	op := vNondetInt("op")
	vAssume(op >= 0 && op <= 2)
	var got schedulable
	pushed := false
	switch op {
	case 0:
		pushed = q.pushBack(ids[4])
	case 1:
		got = q.popFront()
	case 2:
		got = q.stealHalf(&d)
	}
	// invariant
	vAssert(q.size >= 0 && q.size <= localQueueCap && q.tail == (q.head+q.size)%localQueueCap, "ring invariant: tail = head + size (mod cap)")
	vAssert(int(q.sizeAtomic.Load()) == q.size, "atomic size mirror agrees")
	vAssert(int(d.sizeAtomic.Load()) == d.size && d.tail == (d.head+d.size)%localQueueCap, "the thief's ring: atomic size mirror and tail agree")
	n := q.size + d.size
	if got != nil {
		n++
	}
	if pushed {
		vAssert(n == pre+1, "pushBack adds exactly one element")
		vCover("pushed")
	} else {
		vAssert(n == pre, "pop/steal/rejected push keep the number of elements")
	}
	if op == 0 && !pushed {
		vAssert(pre == localQueueCap, "pushBack rejects only when the ring is full")
		vCover("full")
	}
	if op != 0 && pre > 0 {
		vAssert(got == ids[0], "pop/steal return the oldest element")
		vCover("popped")
	}
	// FIFO: remaining elements keep their order
	for i := 0; i < q.size; i++ {
		e := q.buf[(q.head+i)%localQueueCap]
		vAssert(e != nil, "live slots are non-nil")
	}
	if op == 2 && pre >= 3 {
		vAssert(d.size == 1 && q.size == pre-2 && d.buf[d.head] == ids[1] && q.buf[q.head] == ids[2], "stealHalf moves the older half in order")
		vCover("stole-two")
	}
	vCover("end")
}
