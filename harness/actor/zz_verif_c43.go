//go:build verif

package actor

import (
	"context"
	"time"

	"github.com/tochemey/goakt/v4/internal/commands"
)

func init() {
	vRegister("vC43_producer", vC43_producer)
	vRegister("vC43_consumer", vC43_consumer)
}

var vC43_emitted int

// substituted for (*producerController).tell: the flow-control obligation is checked at the moment of emission
func vC43_ptell(x *producerController, ctx *ReceiveContext, to *PID, message any) {
	if sm, ok := message.(*commands.SequencedMessage); ok {
		vC43_emitted++
		vAssert(sm.Seq() <= x.demandUpTo, "producer emits a SequencedMessage only at or below the granted demand (seq <= demandUpTo)")
		vAssert(sm.Seq() >= 1 && sm.Seq() <= x.currentSeq, "producer emits only stored sequences (1 <= seq <= currentSeq)")
		vAssert(x.consumerController != nil && to == x.consumerController, "SequencedMessages go to the registered consumer controller only")
	}
	vRD_record(to, message)
}

// One arbitrary message handled by the real producerController.Receive from an arbitrary valid state.
func vC43_producer() {
	vRD_reset()
	vC43_emitted = 0
	prod, self, cc, other := vRD_pid("p"), vRD_pid("s"), vRD_pid("c"), vRD_pid("o")
	x := vRD_producerState(prod, cc)
	preDemand, preCurrent, preConfirmed, preHandshake := x.demandUpTo, x.currentSeq, x.confirmedSeq, x.handshake
	preCC, preNonce := x.consumerController, x.registrationNonce

	sender := cc
	switch vChoose("sender", 3) {
	case 1:
		sender = other
	case 2:
		sender = prod
	}
	var msg any
	authentic := false // a Request/Ack from the registered consumer controller under the current session and nonce
	var reqConfirmed, reqUpTo int64
	regNonce := ""
	kind := vChoose("kind", 7)
	switch kind {
	case 0:
		regNonce = vRD_str2("nonceIsCurrent", "N", "N2")
		m, err := commands.VRegisterConsumer(regNonce)
		vAssume(err == nil)
		msg = m
		switch vChoose("resolved", 3) {
		case 0:
			vRD_resolved = cc
		case 1:
			vRD_resolved = other
		case 2:
			vRD_resolvedErr = vRD_errCodec
		}
	case 1:
		sessionCur, nonceCur := vNondetBool("sessionIsCurrent"), vNondetBool("nonceIsCurrent")
		reqConfirmed, reqUpTo = vNondetInt64("reqConfirmed"), vNondetInt64("reqUpTo")
		m, err := commands.VRequest(vRD_pick(sessionCur, "S", "S0"), vRD_pick(nonceCur, "N", "N2"), reqConfirmed, reqUpTo, vNondetBool("viaTimeout"))
		vAssume(err == nil)
		msg = m
		authentic = preCC != nil && sender == preCC && sessionCur && nonceCur && preNonce == "N"
	case 2:
		sessionCur, nonceCur := vNondetBool("sessionIsCurrent"), vNondetBool("nonceIsCurrent")
		reqConfirmed = vNondetInt64("ackConfirmed")
		m, err := commands.VAck(vRD_pick(sessionCur, "S", "S0"), vRD_pick(nonceCur, "N", "N2"), reqConfirmed)
		vAssume(err == nil)
		msg = m
		authentic = preCC != nil && sender == preCC && sessionCur && nonceCur && preNonce == "N"
	case 3:
		msg = &Produced{sessionID: vRD_str2("sessionIsCurrent", "S", "S0"), token: vRD_str2("tokenIsCurrent", "T", "T0"),
			messageID: vRD_ids[vChoose("producedID", 4)], payload: &vRDMsg{data: []byte{vNondetByte("producedPayload")}}}
	case 4:
		msg = &StoredAck{sessionID: vRD_str2("sessionIsCurrent", "S", "S0"), token: vRD_str2("tokenIsCurrent", "T", "T0"),
			messageID: vRD_ids[vChoose("ackedID", 4)]}
	case 5:
		msg = &producerControllerTick{generation: uint64(vChoose("tickGeneration", 2))}
	case 6:
		switch vChoose("terminated", 3) {
		case 0:
			msg = &Terminated{actorPath: cc.Path()}
		case 1:
			msg = &Terminated{actorPath: other.Path()}
		case 2:
			msg = &Terminated{actorPath: prod.Path()}
		}
	}
	rctx := &ReceiveContext{ctx: context.Background(), self: self, sender: sender, message: msg}

	x.Receive(rctx) // the real handler

	// ---- demand only moves to an authenticated grant, or is reset to currentSeq by a (de)registration
	if x.demandUpTo != preDemand {
		if kind == 1 {
			vAssert(authentic, "demandUpTo follows a Request only if it comes from the registered consumer controller under the current session and nonce")
			vAssert(x.demandUpTo == reqUpTo, "demandUpTo becomes exactly the granted RequestUpToSeq")
			vAssert(reqConfirmed >= 0 && reqConfirmed <= preCurrent && reqUpTo >= reqConfirmed && reqUpTo <= reqConfirmed+MaxReliableFlowControlWindow,
				"an honoured grant lies in [confirmed, confirmed+MaxReliableFlowControlWindow] with confirmed <= currentSeq")
			vCover("demand-granted")
		} else {
			vAssert(kind == 0 || kind == 6, "only a Request, a registration change or the consumer controller's death change demandUpTo")
			vAssert(x.demandUpTo == x.currentSeq, "a registration change resets demand to currentSeq (no emission is authorised by a dead grant)")
			vCover("demand-reset")
		}
	}
	// ---- a new registration generation (verified sender that is a new controller OR brings a fresh nonce) and the death of
	// the registered consumer controller void every earlier grant: demand falls back to currentSeq
	if kind == 0 && vRD_resolvedErr == nil && vRD_resolved == sender {
		if preCC == nil || preCC != sender || preNonce != regNonce {
			vAssert(x.failed || (x.demandUpTo == x.currentSeq && x.consumerController == sender && x.registrationNonce == regNonce),
				"a verified registration by a new controller or under a fresh nonce starts a new generation: demandUpTo = currentSeq, the grants of the dead generation authorise nothing")
			vCover("new-generation")
		} else {
			vAssert(x.demandUpTo == preDemand, "an idempotent re-registration (same controller, same nonce) keeps the granted demand")
			vCover("registration-ping")
		}
	}
	// ---- the handshake only opens (credit to the producer) under free demand
	if x.handshake == producerHandshakeCredit && preHandshake != producerHandshakeCredit {
		vAssert(x.currentSeq < x.demandUpTo, "allowNextRequest grants credit only while currentSeq < demandUpTo")
		vCover("credit-granted")
	}
	// ---- representation invariant preserved
	vAssert(x.confirmedSeq >= preConfirmed && x.currentSeq >= preCurrent && x.confirmedSeq <= x.currentSeq, "0 <= confirmedSeq <= currentSeq, both monotone")
	vAssert(int64(len(x.unconfirmed)) == x.currentSeq-x.confirmedSeq, "unconfirmed holds exactly the sequences (confirmedSeq, currentSeq]")
	for i := 0; i < len(x.unconfirmed); i++ {
		vAssert(x.unconfirmed[i].seq == x.confirmedSeq+1+int64(i), "unconfirmed is ascending and contiguous from confirmedSeq+1")
	}
	vAssert(x.handshake == producerHandshakeIdle || x.handshake == producerHandshakeCredit || x.handshake == producerHandshakeStoredAck || x.failed,
		"without a durable queue the handshake rests in Idle, Credit or StoredAck")
	if x.handshake == producerHandshakeStoredAck {
		vAssert(x.pendingSeq == x.currentSeq && x.currentSeq >= 1 && x.storedMessage != nil, "StoredAck phase: the pending message is the latest stored one")
	}
	if x.confirmedSeq != preConfirmed {
		vAssert((kind == 1 || kind == 2) && authentic && x.confirmedSeq == reqConfirmed, "confirmedSeq follows authenticated confirmations only")
		vCover("confirmed-advanced")
	}
	if vC43_emitted > 0 {
		vCover("emitted")
	}
	if vC43_emitted > 1 {
		vCover("emitted-many")
	}
	if x.failed {
		vCover("terminated")
	}
	vCover("end")
}

// ------------------------------------------------------------------------------------------------------------------
// consumer side: the receive buffer never exceeds the window; nothing beyond the granted demand is kept

func vC43_ctell(x *consumerController, ctx *ReceiveContext, to *PID, message any) {
	if r, ok := message.(*commands.Request); ok {
		vAssert(r.RequestUpToSeq() == r.ConfirmedSeq()+int64(x.window), "every Request grants exactly confirmedSeq+window")
		vAssert(r.ConfirmedSeq() == x.confirmedSeq, "a Request carries the current confirmation watermark")
	}
	vRD_record(to, message)
}

// I_c: expectedSeq = confirmedSeq+1; requestUpToSeq <= confirmedSeq+window; buffer strictly ascending, every entry within
// [expectedSeq, requestUpToSeq] (whole messages above expectedSeq unless something is in flight), len(buffer) <= window
func vC43_consumerInv(x *consumerController) bool {
	ok := x.expectedSeq == x.confirmedSeq+1 && x.confirmedSeq >= 0 && x.requestUpToSeq <= x.confirmedSeq+int64(x.window) && len(x.buffer) <= x.window
	ok = ok && len(x.buffer) <= 5
	for i := 0; i < 5; i++ {
		if i < len(x.buffer) {
			s := x.buffer[i].Seq()
			ok = ok && s >= x.expectedSeq && s <= x.requestUpToSeq
			if i > 0 {
				ok = ok && x.buffer[i-1].Seq() < s
			}
		}
	}
	return ok
}

func vC43_consumer() { vC43_consumerStep(vCase("kind")) }

func vC43_consumerStep(kind int) {
	vRD_reset()
	cons, self, pc, other := vRD_pid("c"), vRD_pid("s"), vRD_pid("p"), vRD_pid("o")
	x := &consumerController{consumer: cons, producerName: "producer", resendInterval: time.Second, generation: 1}
	x.window = vNondetInt("window")
	vAssume(x.window >= 1 && x.window <= 4)
	if vNondetBool("resolved") {
		x.producerController = pc
		x.registrationNonce = "N"
		if vNondetBool("adopted") {
			x.sessionID = "S"
		}
	}
	x.confirmedSeq = vNondetInt64("confirmedSeq")
	vAssume(x.confirmedSeq >= 0 && x.confirmedSeq < int64(1)<<vCase("seqBits")) // 16 in the quick tier, 61 in the thorough tier
	x.expectedSeq = x.confirmedSeq + 1
	x.requestUpToSeq = vNondetInt64("requestUpToSeq")
	nbuf := vCase("bufLen")
	if vCase("spareCap") == 1 {
		// spare capacity: slices.Insert shifts in place; otherwise it reallocates (both are the library's business)
		x.buffer = make([]*commands.SequencedMessage, 0, 6)
	}
	for i := 0; i < nbuf; i++ {
		off := vNondetInt64("bufOffset")
		vAssume(off >= 1 && off <= 4)
		x.buffer = append(x.buffer, vC43_sequencedCur("buf", x.confirmedSeq+off))
	}
	if vNondetBool("inFlight") {
		x.inFlight = &Delivery{sessionID: x.sessionID, messageID: "m0", seq: vNondetInt64("inFlightSeq"), payload: &vRDMsg{data: []byte{1}}, endpoint: cons, controller: self}
		vAssume(x.inFlight.seq >= x.expectedSeq && x.inFlight.seq <= x.requestUpToSeq)
	}
	x.runLastSeq = vNondetInt64("runLastSeq")
	x.sawValidTraffic = vNondetBool("sawValidTraffic")
	vAssume(vC43_consumerInv(x))
	preUpTo := x.requestUpToSeq

	sender := pc
	switch vChoose("sender", 3) {
	case 1:
		sender = other
	case 2:
		sender = cons
	}
	var msg any
	switch kind {
	case 0:
		m, err := commands.VRegistrationAck(vRD_str2("sessionIsCurrent", "S", "S2"), vNondetInt64("nextSeq"), vRD_str2("nonceIsCurrent", "N", "N0"))
		vAssume(err == nil && m.NextSeq() < 1<<62)
		msg = m
	case 1:
		msg = vC43_sequenced("in")
	case 2:
		msg = &Confirmed{sessionID: vRD_str2("sessionIsCurrent", "S", "S2"), messageID: vRD_str2("idMatches", "m0", "m1"), seq: vNondetInt64("confirmedMsgSeq")}
	case 3:
		msg = &consumerControllerTick{generation: uint64(vChoose("tickGeneration", 2))}
		vRD_resolved = pc
		if vNondetBool("lookupFails") {
			vRD_resolved, vRD_resolvedErr = nil, vRD_errCodec
		}
	case 4:
		switch vChoose("terminated", 3) {
		case 0:
			msg = &Terminated{actorPath: pc.Path()}
		case 1:
			msg = &Terminated{actorPath: other.Path()}
		case 2:
			msg = &Terminated{actorPath: cons.Path()}
		}
	}
	rctx := &ReceiveContext{ctx: context.Background(), self: self, sender: sender, message: msg}

	x.Receive(rctx) // the real handler

	vAssert(len(x.buffer) <= x.window, "the receive buffer never holds more than window messages")
	vAssert(vC43_consumerInv(x), "I_c preserved: buffer ascending within [expectedSeq, requestUpToSeq], requestUpToSeq <= confirmedSeq+window")
	if x.requestUpToSeq != preUpTo {
		vAssert(x.requestUpToSeq == x.confirmedSeq+int64(x.window), "demand is only ever granted as confirmedSeq+window")
		vCover("demand-granted")
	}
	if len(x.buffer) > nbuf {
		vCover("buffered")
	}
	if len(x.buffer) == x.window && nbuf == x.window && kind == 1 {
		vCover("buffer-full")
	}
	vCover("end")
}

// a sequenced message of the current session (what the receive buffer holds)
func vC43_sequencedCur(name string, seq int64) *commands.SequencedMessage {
	m, err := commands.VSequenced("S", "m1", seq, []byte{vNondetByte(name + "Payload")}, vNondetBool(name+"Chunked"), vNondetBool(name+"First"), vNondetBool(name+"Last"))
	vAssume(err == nil)
	return m
}

// an arbitrary incoming sequenced message (any sequence, current or stale session)
func vC43_sequenced(name string) *commands.SequencedMessage {
	m, err := commands.VSequenced(vRD_str2(name+"SessionIsCurrent", "S", "S2"), "m1", vNondetInt64(name+"Seq"), []byte{vNondetByte(name + "Payload")},
		vNondetBool(name+"Chunked"), vNondetBool(name+"First"), vNondetBool(name+"Last"))
	vAssume(err == nil)
	return m
}
