//go:build verif

package actor

import (
	"time"

	"github.com/tochemey/goakt/v4/internal/address"
)

func init() {
	vRegister("vC25_terminated_roundtrip", vC25_terminated_roundtrip)
	vRegister("vC25_terminated_robust", vC25_terminated_robust)
	vRegister("vC25_poisonpill", vC25_poisonpill)
}

func vC25_alnum(c byte) bool {
	return (c >= 'a' && c <= 'z') || (c >= 'A' && c <= 'Z') || (c >= '0' && c <= '9')
}

func vC25_bytesEq(a, b []byte) bool {
	if len(a) != len(b) {
		return false
	}
	for i := range a {
		if a[i] != b[i] {
			return false
		}
	}
	return true
}

// Terminated = (actor path or none, termination time): Serialize then Deserialize yields an equal message
func vC25_terminated_roundtrip() {
	ts := vNondetInt64("terminatedAt")
	var p Path
	if vCase("withPath") == 1 {
		name := vNondetStringN("name", 2)
		vAssume(vC25_alnum(name[0]) && vC25_alnum(name[1]))
		p = newPath(address.New(name, "sys", "h1", 9000)) // the text form of addresses is C26's subject: only the name is symbolic here
	}
	m := &Terminated{actorPath: p, terminatedAt: time.Unix(0, ts).UTC()}
	s := &terminatedSerializer{}
	frame, err := s.Serialize(m)
	vAssert(err == nil, "a Terminated message is serialized")
	if err != nil {
		return
	}
	vAssert(len(frame) == terminatedMinFrameSize+len(pathString(p)), "the frame is magic|pathLen|path|timestamp")
	got, err := s.Deserialize(frame)
	vAssert(err == nil, "a serialized Terminated frame deserializes")
	if err == nil {
		g, ok := got.(*Terminated)
		vAssert(ok && g != nil && g != m, "the result is a new Terminated message")
		if ok && g != nil {
			vAssert(g.TerminatedAt().UnixNano() == ts, "the termination time survives")
			if p == nil {
				vAssert(g.ActorPath() == nil, "no path stays no path")
				vCover("no-path")
			} else {
				vAssert(g.ActorPath() != nil && g.ActorPath().Equals(p) && g.ActorPath().String() == p.String(), "the actor path survives")
				vAssert(g.ActorPath().Name() == p.Name() && g.ActorPath().Port() == p.Port() && g.ActorPath().Host() == "h1" && g.ActorPath().System() == "sys", "name, host, port and system of the path survive")
				vCover("with-path")
			}
		}
	}
	// the sibling serializer refuses this frame, and this serializer refuses foreign values
	_, err = (&poisonPillSerializer{}).Deserialize(frame)
	vAssert(err != nil, "the PoisonPill serializer refuses a Terminated frame")
	b, err := s.Serialize(new(PoisonPill))
	vAssert(b == nil && err != nil, "the Terminated serializer yields an error and no bytes for another message type")
	b, err = s.Serialize((*Terminated)(nil))
	vAssert(b == nil && err != nil, "a nil Terminated yields an error and no bytes")
	vCover("end")
}

// arbitrary bytes: never a panic; acceptance implies the documented layout
func vC25_terminated_robust() {
	data := vNondetBytes("data", vCase("maxLen"))
	s := &terminatedSerializer{}
	got, err := s.Deserialize(data)
	if err != nil {
		vAssert(got == nil && err == errNotTerminatedFrame, "anything else is refused with errNotTerminatedFrame")
		vCover("rejected")
	} else {
		vAssert(len(data) >= terminatedMinFrameSize && vC25_bytesEq(data[:8], terminatedMagic[:]), "an accepted frame starts with the magic")
		pathLen := int(data[8])<<24 | int(data[9])<<16 | int(data[10])<<8 | int(data[11])
		vAssert(len(data) == terminatedMinFrameSize+pathLen, "an accepted frame has exactly the announced length")
		g, ok := got.(*Terminated)
		vAssert(ok && g != nil, "an accepted frame yields a Terminated message")
		if ok && g != nil && pathLen == 0 {
			vAssert(g.ActorPath() == nil, "an empty path decodes to no path")
			vCover("accepted-no-path")
		}
		vCover("accepted")
	}
	if len(data) < terminatedMinFrameSize {
		vAssert(err != nil, "a truncated frame is refused")
	}
	vCover("end")
}

func vC25_poisonpill() {
	s := &poisonPillSerializer{}
	frame, err := s.Serialize(new(PoisonPill))
	vAssert(err == nil && vC25_bytesEq(frame, poisonPillMagic[:]), "a PoisonPill is the 8 magic bytes")
	got, err := s.Deserialize(frame)
	_, ok := got.(*PoisonPill)
	vAssert(err == nil && ok, "the magic decodes to a PoisonPill")
	b, err := s.Serialize(&Terminated{})
	vAssert(b == nil && err != nil, "another message type yields an error and no bytes")
	_, err = (&terminatedSerializer{}).Deserialize(frame)
	vAssert(err != nil, "the Terminated serializer refuses a PoisonPill frame")

	data := vNondetBytes("data", 10)
	got, err = s.Deserialize(data)
	if err == nil {
		vAssert(len(data) == 8 && vC25_bytesEq(data, poisonPillMagic[:]), "only exactly the magic is accepted")
		_, ok := got.(*PoisonPill)
		vAssert(ok, "acceptance yields a PoisonPill")
		vCover("accepted")
	} else {
		vAssert(got == nil && err == errNotPoisonPillFrame, "anything else is refused with errNotPoisonPillFrame")
		vCover("rejected")
	}
	vCover("end")
}
