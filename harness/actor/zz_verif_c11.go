//go:build verif

package actor

import (
	"context"
	"sync"

	"github.com/tochemey/goakt/v4/internal/address"
	"github.com/tochemey/goakt/v4/log"
)

func init() {
	vRegister("vC11_sameName", vC11_sameName)
	vRegister("vC11_twoNames", vC11_twoNames)
}

// ---- ghost actor tree (name -> node), substituted for the tree operations the spawn path uses
var vC11_mu sync.Mutex
var vC11_nodes map[string]*pidNode
var vC11_names map[*PID]string
var vC11_created int

func vC11_nodeByName(t *tree, name string) (*pidNode, bool) {
	vC11_mu.Lock()
	n, ok := vC11_nodes[name]
	vC11_mu.Unlock()
	return n, ok
}
func vC11_nodeByID(t *tree, id string) (*pidNode, bool) { return vC11_nodeByName(t, id) }
func vC11_addNode(t *tree, parent, pid *PID) error {
	vC11_mu.Lock()
	defer vC11_mu.Unlock()
	name := vC11_names[pid]
	if _, ok := vC11_nodes[name]; ok {
		return errNodeAlreadyExists
	}
	n := &pidNode{id: name, name: name}
	n.pid.Store(pid)
	vC11_nodes[name] = n
	return nil
}
func vC11_addWatcher(t *tree, pid, watcher *PID) {}
func vC11_pidName(pid *PID) string {
	vC11_mu.Lock()
	defer vC11_mu.Unlock()
	return vC11_names[pid]
}
func vC11_ref(x *actorSystem, name string) *address.Address {
	return address.NewReference(name, "sys", "host", 9000)
}

// substituted for (*actorSystem).configPID: creates and starts the actor instance
func vC11_configPID(x *actorSystem, ctx context.Context, name string, actor Actor, opts ...SpawnOption) (*PID, error) {
	pid := &PID{}
	pid.setState(runningState, true)
	vC11_mu.Lock()
	vC11_names[pid] = name
	vC11_created++
	vC11_mu.Unlock()
	return pid, nil
}

func vC11_newSystem() *actorSystem {
	x := &actorSystem{actors: newTree(), logger: log.DiscardLogger, name: "sys"}
	x.started.Store(true)
	vC11_nodes = map[string]*pidNode{}
	vC11_names = map[*PID]string{}
	vC11_created = 0
	return x
}

type vC11Actor struct{}

func (vC11Actor) PreStart(*Context) error { return nil }
func (vC11Actor) Receive(*ReceiveContext) {}
func (vC11Actor) PostStop(*Context) error { return nil }

// two concurrent Spawn calls with the same name
func vC11_sameName() {
	x := vC11_newSystem()
	var p1, p2 *PID
	var e1, e2 error
	vGo("s1", func() { p1, e1 = x.Spawn(context.Background(), "a", vC11Actor{}) })
	vGo("s2", func() { p2, e2 = x.Spawn(context.Background(), "a", vC11Actor{}) })
	vRun()
	vAssert(vC11_created <= 1, "at most one actor instance is created for one name")
	if vAllDone() {
		vCover("all-done")
		vAssert(e1 == nil && e2 == nil, "both callers succeed")
		vAssert(p1 == p2 && p1 != nil, "every successful caller receives the same PID")
		vAssert(x.actorsCounter.Load() == 1, "the system's actor count equals the number of running user actors")
	}
	vCover("end")
}

// different names do not disturb each other
func vC11_twoNames() {
	x := vC11_newSystem()
	var p1, p2 *PID
	vGo("s1", func() { p1, _ = x.Spawn(context.Background(), "a", vC11Actor{}) })
	vGo("s2", func() { p2, _ = x.Spawn(context.Background(), "b", vC11Actor{}) })
	vRun()
	if vAllDone() {
		vCover("all-done")
		vAssert(p1 != nil && p2 != nil && p1 != p2 && vC11_created == 2, "two names yield two distinct actors")
		vAssert(x.actorsCounter.Load() == 2, "the actor count is two")
	}
	vCover("end")
}
