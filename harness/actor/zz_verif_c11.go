//go:build verif

package actor

import (
	"context"
	"sync/atomic"

	"github.com/tochemey/goakt/v4/internal/address"
	"github.com/tochemey/goakt/v4/log"
)

func init() {
	vRegister("vC11_sameName", vC11_sameName)
	vRegister("vC11_twoNames", vC11_twoNames)
	vRegister("vC11_spawnAndFunc", vC11_spawnAndFunc)
	vRegister("vC11_winnerCancelled", vC11_winnerCancelled)
}

// ---- ghost actor tree (name -> node), substituted for the tree operations the spawn path uses. The ghost operations
// contain no synchronisation operation between their reads and writes of the ghost maps, so in the concurrency mode
// each lookup / check-and-insert executes atomically (switch points are synchronisation operations only).
var vC11_nodes map[string]*pidNode
var vC11_names map[*PID]string
var vC11_created int // instances started (initialisation succeeded) and never stopped
var vC11_aborted int // instance initialisations aborted by the caller's context

func vC11_nodeByName(t *tree, name string) (*pidNode, bool) {
	n, ok := vC11_nodes[name]
	return n, ok
}
func vC11_nodeByID(t *tree, id string) (*pidNode, bool) { return vC11_nodeByName(t, id) }
func vC11_addNode(t *tree, parent, pid *PID) error {
	name := vC11_names[pid]
	n := &pidNode{id: name, name: name}
	n.pid.Store(pid) // the only synchronisation operation of the ghost insert: on the still private node, before the check
	if _, ok := vC11_nodes[name]; ok {
		return errNodeAlreadyExists
	}
	vC11_nodes[name] = n
	return nil
}
func vC11_addWatcher(t *tree, pid, watcher *PID) {}
func vC11_pidName(pid *PID) string              { return vC11_names[pid] }
func vC11_ref(x *actorSystem, name string) *address.Address {
	return address.NewReference(name, "sys", "host", 9000)
}

// substituted for (*actorSystem).configPID: creates and starts the actor instance. The initialisation (PreStart) runs
// under the caller's context: when that context is cancelled by then, it is aborted with the context's error and
// nothing is left running.
func vC11_configPID(x *actorSystem, ctx context.Context, name string, actor Actor, opts ...SpawnOption) (*PID, error) {
	if err := ctx.Err(); err != nil {
		vC11_aborted++
		return nil, err
	}
	pid := &PID{}
	pid.state.Store(uint32(runningState))
	vC11_names[pid] = name
	vC11_created++
	return pid, nil
}

func vC11_newSystem() *actorSystem {
	x := &actorSystem{actors: newTree(), logger: log.DiscardLogger, name: "sys"}
	x.started.Store(true)
	vC11_nodes = map[string]*pidNode{}
	vC11_names = map[*PID]string{}
	vC11_created = 0
	vC11_aborted = 0
	return x
}

type vC11Actor struct{}

func (vC11Actor) PreStart(*Context) error { return nil }
func (vC11Actor) Receive(*ReceiveContext) {}
func (vC11Actor) PostStop(*Context) error { return nil }

// two concurrent Spawn calls with the same name
func vC11_sameName() {
	x := vC11_newSystem()
	var p1, p2 *PID
	var e1, e2 error
	vGo("s1", func() { p1, e1 = x.Spawn(context.Background(), "a", vC11Actor{}) })
	vGo("s2", func() { p2, e2 = x.Spawn(context.Background(), "a", vC11Actor{}) })
	vRun()
	vAssert(vC11_created <= 1, "at most one actor instance is created for one name")
	if vAllDone() {
		vCover("all-done")
		vAssert(e1 == nil && e2 == nil, "both callers succeed")
		vAssert(p1 == p2 && p1 != nil, "every successful caller receives the same PID")
		vAssert(x.actorsCounter.Load() == 1, "the system's actor count equals the number of running user actors")
	}
	vCover("end")
}

// different names do not disturb each other
func vC11_twoNames() {
	x := vC11_newSystem()
	var p1, p2 *PID
	vGo("s1", func() { p1, _ = x.Spawn(context.Background(), "a", vC11Actor{}) })
	vGo("s2", func() { p2, _ = x.Spawn(context.Background(), "b", vC11Actor{}) })
	vRun()
	if vAllDone() {
		vCover("all-done")
		vAssert(p1 != nil && p2 != nil && p1 != p2 && vC11_created == 2, "two names yield two distinct actors")
		vAssert(x.actorsCounter.Load() == 2, "the actor count is two")
	}
	vCover("end")
}

// the same name spawned concurrently through two different entry points: Spawn and SpawnNamedFromFunc
func vC11_spawnAndFunc() {
	x := vC11_newSystem()
	var p1, p2 *PID
	var e1, e2 error
	vGo("s1", func() { p1, e1 = x.Spawn(context.Background(), "a", vC11Actor{}) })
	vGo("s2", func() {
		p2, e2 = x.SpawnNamedFromFunc(context.Background(), "a", func(context.Context, any) error { return nil })
	})
	vRun()
	vAssert(vC11_created <= 1, "at most one actor instance is created for one name")
	if vAllDone() {
		vCover("all-done")
		vAssert(e1 == nil && e2 == nil, "both callers succeed")
		vAssert(p1 == p2 && p1 != nil, "every successful caller receives the same PID")
		vAssert(x.actorsCounter.Load() == 1, "the system's actor count equals the number of running user actors")
	}
	vCover("end")
}

// a cancellable context written in the harness (the executor's own context model never cancels)
type vC11Ctx struct {
	context.Context
	done      chan struct{}
	cancelled atomic.Bool
}

func (c *vC11Ctx) Done() <-chan struct{} { return c.done }
func (c *vC11Ctx) Err() error {
	if c.cancelled.Load() {
		return context.Canceled
	}
	return nil
}

// three concurrent Spawn calls of one name; the context of the first caller is cancelled at an arbitrary moment, so
// when it is the single-flight winner its spawn may abort in the initialisation and the coalesced waiters (live
// contexts) inherit the cancellation and retry: the retries must again be serialised
func vC11_winnerCancelled() {
	x := vC11_newSystem()
	ctx1 := &vC11Ctx{Context: context.Background(), done: make(chan struct{})}
	var p1, p2, p3 *PID
	var e1, e2, e3 error
	vGo("s1", func() { p1, e1 = x.Spawn(ctx1, "a", vC11Actor{}) })
	vGo("s2", func() { p2, e2 = x.Spawn(context.Background(), "a", vC11Actor{}) })
	vGo("s3", func() { p3, e3 = x.Spawn(context.Background(), "a", vC11Actor{}) })
	vGo("cancel", func() { ctx1.cancelled.Store(true); close(ctx1.done) })
	vRun()
	vAssert(vC11_created <= 1, "at most one actor instance is created for one name")
	if vAllDone() {
		vCover("all-done")
		vAssert(e2 == nil && e3 == nil, "callers with a live context succeed")
		vAssert(p2 == p3 && p2 != nil, "every successful caller receives the same PID")
		vAssert(e1 != nil || p1 == p2, "every successful caller receives the same PID (cancelled caller)")
		vAssert(x.actorsCounter.Load() == 1, "the system's actor count equals the number of running user actors")
		if e1 != nil {
			vCover("first-caller-fails")
		}
		if vC11_aborted == 1 {
			vCover("winner-aborted-waiters-retry")
		}
	}
	vCover("end")
}
