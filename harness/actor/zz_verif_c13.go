//go:build verif

package actor

import (
	"errors"

	gerrors "github.com/tochemey/goakt/v4/errors"
)

func init() {
	vRegister("vC13_history3", vC13_history3)
	vRegister("vC13_history4", vC13_history4)
	vRegister("vC13_history5", vC13_history5)
	vRegister("vC13_history6", vC13_history6)
	vRegister("vC13_suffix1", vC13_suffix1)
	vRegister("vC13_suffix2", vC13_suffix2)
	vRegister("vC13_suffix3", vC13_suffix3)
	vRegister("vC13_nobuffer", vC13_nobuffer)
}

type vC13Msg struct{ tag int }

const (
	vC13Max      = 12 // messages per history
	vC13MaxStash = 5  // longest stash any registered history can build
)

// what the sender put into each message (indexed by tag)
var (
	vC13_msg    [vC13Max]*vC13Msg
	vC13_sender [vC13Max]*PID
	vC13_resp   [vC13Max]chan any
	vC13_reqID  [vC13Max]string
)

// FIFO reference queue of tags (no loops: the executor pays one solver query per loop iteration)
type vC13Queue struct {
	a    [vC13Max]int
	h, t int
}

func (q *vC13Queue) len() int   { return q.t - q.h }
func (q *vC13Queue) push(x int) { q.a[q.t] = x; q.t++ }
func (q *vC13Queue) pop() int   { x := q.a[q.h]; q.h++; return x }

func vC13_newPID() *PID {
	pid := &PID{mailbox: NewUnboundedMailbox(), systemMailbox: NewUnboundedMailbox()}
	pid.stashState = &stashState{box: NewUnboundedMailbox()}
	// Stash/Unstash/UnstashAll are called by a handler, i.e. inside the actor's own turn
	pid.schedState.v.Store(dispatchProcessing)
	return pid
}

// the context delivered for a tag carries exactly what the sender put in
func vC13_same(ctx *ReceiveContext, pid *PID, tag int) bool {
	m, ok := ctx.message.(*vC13Msg)
	return ok && m == vC13_msg[tag] && ctx.sender == vC13_sender[tag] && ctx.response == vC13_resp[tag] &&
		ctx.requestID == vC13_reqID[tag] && ctx.self == pid && ctx.err == nil
}

func vC13_history3() { vC13_history(3) }
func vC13_history4() { vC13_history(4) }
func vC13_history5() { vC13_history(5) }
func vC13_history6() { vC13_history(6) }
func vC13_suffix1()  { vC13_history(1) }
func vC13_suffix2()  { vC13_history(2) }
func vC13_suffix3()  { vC13_history(3) }

// concrete prefixes that build differently shaped states (case-split by the driver; "" = fresh actor):
// A arrive, S take+stash, H take+handle, U Unstash, L UnstashAll
var vC13_prefixes = [...]string{
	"",        // main [] stash []
	"AAS",     // main [1] stash [0]
	"AAASS",   // main [2] stash [0 1]
	"AASSU",   // main [0] stash [1], both sentinels are used contexts
	"AAAASSS", // main [3] stash [0 1 2]
	"AASSLA",  // main [0 1 2] stash []
	"AAASHU",  // main [2 0] stash [], one handled in between
	"ASLAA",   // stash used and drained by UnstashAll, then new arrivals: main [0 1 2] stash []
}

func vC13_opOf(c byte) int {
	switch c {
	case 'A':
		return 0
	case 'S':
		return 1
	case 'H':
		return 2
	case 'U':
		return 3
	}
	return 4
}

// a concrete prefix (chosen by case split) followed by K symbolic decisions over a stream of ghost-tagged messages,
// against two reference FIFO queues (main mailbox, stash)
//
//	0 a new message arrives (real doReceive into the real main mailbox)
//	1 the actor takes its next message and stashes it (ReceiveContext.Stash)
//	2 the actor takes its next message and handles it
//	3 the handler calls Unstash
//	4 the handler calls UnstashAll
func vC13_history(K int) {
	pid := vC13_newPID()
	senders := [2]*PID{{}, {}}
	var mainQ, stashQ vC13Queue
	next := 0
	prefix := vC13_prefixes[vCase("prefix")]
	share := vCase("share") == 1
	shared := &vC13Msg{tag: -1}
	// bounds for the final drain loops, computed (concretely) from the state the prefix built
	bm, bs := 0, 0
	for k := 0; k < len(prefix)+K; k++ {
		if k == len(prefix) {
			m, st := mainQ.len(), stashQ.len()
			x := min(K, m) // messages that can be stashed right away; later ones need an arrival first
			bs = st + x + (K-x)/2
			bm = m + K
			if st > 0 {
				bm = max(bm, m+st+K-1)
			}
		}
		var op int
		if k < len(prefix) {
			op = vC13_opOf(prefix[k])
		} else {
			op = vChoose("op", 5)
		}
		switch op {
		case 0:
			tag := next
			next++
			// a sender may re-use one message value for all its sends ("tick"): case split, so that the heap stays concrete.
			// Deliveries are told apart by their position (and sender / response / request id), not by their payload.
			payload := &vC13Msg{tag: tag}
			if share {
				payload = shared
			}
			vC13_msg[tag] = payload
			// no control flow here: a 3-way switch would leave the executor with a non-trivial (tautological) path guard
			// (an indexed read senders[i] with symbolic i would add a bounds-check path condition as well)
			var snd *PID
			who := vChoose("sender", 3)
			if who == 1 {
				snd = senders[0]
			}
			if who == 2 {
				snd = senders[1]
			}
			vC13_sender[tag] = snd
			isAsk := vNondetBool("isAsk")
			ch := make(chan any, 1)
			id := "req"
			if !isAsk {
				ch, id = nil, ""
			}
			vC13_resp[tag], vC13_reqID[tag] = ch, id
			ctx := getContext()
			ctx.message, ctx.sender, ctx.self = vC13_msg[tag], vC13_sender[tag], pid
			ctx.response, ctx.requestID = vC13_resp[tag], vC13_reqID[tag]
			pid.doReceive(ctx)
			mainQ.push(tag)
			vCover("arrive")
		case 1, 2:
			cur := pid.mailbox.Dequeue()
			vAssert((cur != nil) == (mainQ.len() > 0), "the main mailbox holds a message exactly when the model does")
			if cur == nil || mainQ.len() == 0 {
				break
			}
			tag := mainQ.pop()
			vAssert(vC13_same(cur, pid, tag), "the next delivered message is the one the model predicts, with its original message/sender/response/requestID")
			if op == 1 {
				cur.Stash()
				vAssert(cur.err == nil, "Stash with a stash buffer reports no error")
				stashQ.push(tag)
				vCover("stash")
			} else {
				vCover("handle")
			}
		case 3:
			h := &ReceiveContext{self: pid}
			h.Unstash()
			if stashQ.len() > 0 {
				vAssert(h.err == nil, "Unstash of a non-empty stash reports no error")
				mainQ.push(stashQ.pop())
				vCover("unstash")
			} else {
				vAssert(h.err != nil, "Unstash of an empty stash reports an error")
				vCover("unstash-empty")
			}
		case 4:
			h := &ReceiveContext{self: pid}
			h.UnstashAll()
			vAssert(h.err == nil, "UnstashAll reports no error")
			if stashQ.len() >= 2 {
				vCover("unstashAll-many")
			}
			for i := 0; i < vC13MaxStash; i++ {
				if stashQ.len() > 0 {
					mainQ.push(stashQ.pop())
				}
			}
		}
	}
	// final accounting: drain both real queues and compare with the model (nothing lost, duplicated or reordered)
	vAssert(mainQ.len() <= bm && stashQ.len() <= bs && bs <= vC13MaxStash, "harness bound on queue lengths is large enough")
	if mainQ.len() >= 2 && stashQ.len() >= 1 {
		vCover("both-nonempty-at-end")
	}
	for i := 0; i < bm; i++ {
		if mainQ.len() > 0 {
			cur := pid.mailbox.Dequeue()
			tag := mainQ.pop()
			vAssert(cur != nil && vC13_same(cur, pid, tag), "remaining main-mailbox messages come out in model order, unchanged")
		}
	}
	vAssert(pid.mailbox.Dequeue() == nil, "no extra message in the main mailbox")
	for i := 0; i < bs; i++ {
		if stashQ.len() > 0 {
			cur := pid.stashState.box.Dequeue()
			tag := stashQ.pop()
			vAssert(cur != nil && vC13_same(cur, pid, tag), "remaining stashed messages are in stash order, unchanged")
		}
	}
	vAssert(pid.stashState.box.Dequeue() == nil, "no extra message in the stash")
	vCover("end")
}

// without a stash buffer every stash operation reports ErrStashBufferNotSet and delivers nothing
func vC13_nobuffer() {
	pid := &PID{mailbox: NewUnboundedMailbox(), systemMailbox: NewUnboundedMailbox()}
	pid.schedState.v.Store(dispatchProcessing)
	if vNondetBool("stateWithoutBox") {
		pid.stashState = &stashState{}
		vCover("state-without-box")
	}
	cur := &ReceiveContext{self: pid, message: &vC13Msg{tag: 1}}
	switch vChoose("op", 3) {
	case 0:
		cur.Stash()
	case 1:
		cur.Unstash()
	default:
		cur.UnstashAll()
	}
	vAssert(cur.err != nil && errors.Is(cur.err, gerrors.ErrStashBufferNotSet), "without a stash buffer the operation reports ErrStashBufferNotSet")
	vAssert(pid.mailbox.IsEmpty() && pid.systemMailbox.IsEmpty(), "nothing is delivered")
	vCover("end")
}
