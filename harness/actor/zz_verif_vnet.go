//go:build verif

package actor

import (
	"context"
	"errors"
	"time"
)

// Modelled runtime for handler-level checks of other packages (stream stages: C45, C46).
// A stage actor only uses rctx.Message/Self/Tell/Shutdown/Unhandled. Message/Self are the real methods;
// Tell/Shutdown/Unhandled are substituted (see the check specs) by the recorders below, which append to the
// outbox of the handler invocation that is currently running. The harness (package stream) moves the outbox
// into its own per-pair FIFO channels and decides which message is delivered next.

type VSent struct {
	To  *PID
	Msg any
}

var (
	VOut       []VSent // messages sent by the current handler invocation, in program order
	VShutdowns int     // rctx.Shutdown() calls of the current handler invocation
	VUnhandled int     // rctx.Unhandled() calls of the current handler invocation
)

func VReset() { VOut, VShutdowns, VUnhandled = nil, 0, 0 }

// a bare local PID (identity only)
func VNewPID() *PID { return &PID{} }

// the context the runtime would hand to Receive for `msg` delivered to `self`
func VCtx(self *PID, msg any) *ReceiveContext { return &ReceiveContext{self: self, message: msg} }

func vNet_tell(rctx *ReceiveContext, to *PID, message any) {
	VOut = append(VOut, VSent{To: to, Msg: message})
}
func vNet_shutdown(rctx *ReceiveContext)  { VShutdowns++ }
func vNet_unhandled(rctx *ReceiveContext) { VUnhandled++ }

// package-level actor.Tell (used by the parallel-map workers): same recorder
func vNet_pkgTell(ctx context.Context, to *PID, message any) error {
	VOut = append(VOut, VSent{To: to, Msg: message})
	return nil
}

// the actor system seen by a stage: only the calls a stage makes are implemented (everything else would be a nil
// dereference and therefore shows up as a panic obligation)
type vNetSystem struct{ ActorSystem }

var (
	vNetSys       = &vNetSystem{}
	VSpawnedFns   []ReceiveFunc // SpawnFromFunc: the function actors a stage spawned (the harness plays their mailbox)
	VSpawnedPIDs  []*PID
	VScheduled    int // ScheduleOnce/Schedule calls (timers are outside the claims; the message is never delivered)
	VSpawnFailAt  = -1
	VErrSpawnFail = errors.New("spawn failed")
)

func (s *vNetSystem) SpawnFromFunc(ctx context.Context, receiveFunc ReceiveFunc, opts ...FuncOption) (*PID, error) {
	if len(VSpawnedFns) == VSpawnFailAt {
		return nil, VErrSpawnFail
	}
	p := VNewPID()
	VSpawnedFns = append(VSpawnedFns, receiveFunc)
	VSpawnedPIDs = append(VSpawnedPIDs, p)
	return p, nil
}

func (s *vNetSystem) ScheduleOnce(ctx context.Context, message any, pid *PID, delay time.Duration, opts ...ScheduleOption) error {
	VScheduled++
	return nil
}

func (s *vNetSystem) Schedule(ctx context.Context, message any, pid *PID, interval time.Duration, opts ...ScheduleOption) error {
	VScheduled++
	return nil
}

func (s *vNetSystem) CancelSchedule(reference string) error { return nil }

// a PID that lives in the modelled system
func VNewSysPID() *PID { return &PID{actorSystem: vNetSys} }
