//go:build verif

package actor

import (
	"context"

	"github.com/tochemey/goakt/v4/internal/internalpb"
	inet "github.com/tochemey/goakt/v4/internal/net"
	"github.com/tochemey/goakt/v4/internal/remoteclient"
	"github.com/tochemey/goakt/v4/internal/xsync"
	"github.com/tochemey/goakt/v4/internal/address"
	"github.com/tochemey/goakt/v4/log"
	"github.com/tochemey/goakt/v4/remote"
)

func init() {
	vRegister("vC29_batch", vC29_batch)
	vRegister("vC29_single", vC29_single)
	vRegister("vC29_respelled", vC29_respelled)
}

var vC29_prop *remoteclient.VC29Prop

func vC29_propagator(_ *remote.Config) remote.ContextPropagator {
	if vC29_prop == nil {
		return nil
	}
	return vC29_prop
}

// the receiving node: the payload codec and the final hand-over to the actor are substituted
type vC29Ser struct{ remote.Serializer }

func (vC29Ser) Deserialize(b []byte) (any, error) { return int(b[0]), nil }

type vC29Remoting struct{ remoteclient.Client }

func (vC29Remoting) Serializer(any) remote.Serializer { return vC29Ser{} }

type vC29Delivery struct {
	ctx     context.Context
	message any
}

var vC29_delivered []vC29Delivery

func vC29_handleRemoteTell(_ *actorSystem, ctx context.Context, _ *PID, _ *PID, message any) error {
	vC29_delivered = append(vC29_delivered, vC29Delivery{ctx: ctx, message: message})
	return nil
}

// the sender handle is irrelevant here (and parsing its address is C26's subject)
func vC29_senderPID(_ *actorSystem, _ string) *PID { return nil }

func vC29_system() *actorSystem {
	x := &actorSystem{actors: newTree(), logger: log.DiscardLogger, name: "sys", remoting: vC29Remoting{},
		remoteSenderAddresses: xsync.NewMap[string, *address.Address]()}
	x.remotingEnabled.Store(true)
	pid := &PID{}
	pid.setState(runningState, true)
	id := remoteclient.VC29To.String()
	n := &pidNode{id: id}
	n.pid.Store(pid)
	x.actors.pids[id] = n
	vC29_delivered = nil
	return x
}

func vC29_headersOf(ctx context.Context) (map[string]string, *remoteclient.VC29Ctx, bool) {
	c, ok := ctx.(*remoteclient.VC29Ctx)
	if !ok || c == nil || c.Extracted == nil {
		return nil, nil, false
	}
	return c.Extracted, c.Parent, true
}

// two callers with different header sets tell the same destination; both messages share one batch; the receiving node
// restores for each message the headers its own caller injected
func vC29_batch() {
	p := &remoteclient.VC29Prop{}
	vC29_prop = p
	shape := vCase("headers") // number of headers of caller 0 * 3 + number of headers of caller 1
	n0, n1 := shape/3, shape%3
	remoteclient.VC29_headers(p, 0, n0, true)
	remoteclient.VC29_headers(p, 1, n1, true)
	remoteclient.VC29_reset()
	first := vCase("firstCaller") // either caller may get into the batch first
	err0 := remoteclient.VC29_tell(p, first, true, 10+first)
	err1 := remoteclient.VC29_tell(p, 1-first, true, 11-first)
	vAssert(err0 == nil && err1 == nil, "both tells are accepted")
	batch := remoteclient.VC29Batch
	vAssert(len(batch) == 2, "both messages are in the batch")
	if len(batch) != 2 {
		return
	}
	// the wire: map<string,string> is carried as is (protobuf trusted); the batch request itself has no metadata
	x := vC29_system()
	base := &remoteclient.VC29Ctx{Caller: -1}
	resp, err := x.remoteTellHandler(base, nil, &internalpb.RemoteTellRequest{RemoteMessages: batch})
	_, okResp := resp.(*internalpb.RemoteTellResponse)
	vAssert(err == nil && okResp, "the batch is accepted")
	vAssert(len(vC29_delivered) == 2, "both messages are delivered")
	if len(vC29_delivered) != 2 {
		return
	}
	for i := 0; i < 2; i++ {
		caller := first
		if i == 1 {
			caller = 1 - first
		}
		d := vC29_delivered[i]
		vAssert(d.message == any(10+caller), "messages are delivered in batch order")
		want := remoteclient.VC29_want(p, caller)
		got, parent, extracted := vC29_headersOf(d.ctx)
		if len(want) == 0 {
			vAssert(!extracted && d.ctx == context.Context(base), "a message whose caller injected nothing is delivered with the request context, not with a neighbour's headers")
		} else {
			vAssert(extracted && remoteclient.VC29_sameMap(got, want), "the headers restored for a message are the headers injected by its own caller")
			vAssert(parent == base, "each message's context derives from the request context, not from the previous message's")
			if c, _ := d.ctx.(*remoteclient.VC29Ctx); c != nil {
				vAssert(!c.Multi, "every restored header has exactly one value")
			}
		}
	}
	if n0 > 0 && n1 > 0 {
		vCover("both-callers-with-headers")
	}
	vCover("end")
}

// the non-coalesced arm (also what RemoteAsk uses): enrichContext puts the headers into the request metadata, the
// receiving node's extractContextWithPropagator restores them
func vC29_single() {
	p := &remoteclient.VC29Prop{}
	vC29_prop = p
	n := vCase("headers0")
	remoteclient.VC29_headers(p, 0, n, true)
	remoteclient.VC29_reset()
	err := remoteclient.VC29_tell(p, 0, false, 10)
	vAssert(err == nil && len(remoteclient.VC29Requests) == 1, "the tell goes out as one request")
	if len(remoteclient.VC29Requests) != 1 {
		return
	}
	sent := remoteclient.VC29Requests[0]
	req, _ := sent.Req.(*internalpb.RemoteTellRequest)
	vAssert(req != nil && len(req.GetRemoteMessages()) == 1 && len(req.GetRemoteMessages()[0].GetMetadata()) == 0, "the message itself carries no metadata on this arm")
	md, has := inet.FromContext(sent.Ctx)
	vAssert(has && md != nil, "the request context carries the metadata")
	if !has || md == nil || req == nil {
		return
	}
	// the wire: the frame carries the metadata (C23); the server attaches it to the handler context
	x := vC29_system()
	base := &remoteclient.VC29Ctx{Caller: -1}
	hctx := md.ToContext(base)
	_, err = x.remoteTellHandler(hctx, nil, req)
	vAssert(err == nil && len(vC29_delivered) == 1, "the message is delivered")
	if len(vC29_delivered) != 1 {
		return
	}
	got, _, extracted := vC29_headersOf(vC29_delivered[0].ctx)
	vAssert(extracted && remoteclient.VC29_sameMap(got, remoteclient.VC29_want(p, 0)), "the headers restored on the receiver are the headers injected by the caller")
	vCover("end")
}

// keys the propagator wrote in a non-canonical spelling come back in canonical spelling (not treated as a violation:
// http.Header.Get/Set users never notice) - reported as a cover point
func vC29_respelled() {
	p := &remoteclient.VC29Prop{}
	vC29_prop = p
	remoteclient.VC29_headers(p, 0, 1, false)
	remoteclient.VC29_reset()
	err := remoteclient.VC29_tell(p, 0, true, 10)
	vAssert(err == nil && len(remoteclient.VC29Batch) == 1, "the tell is accepted")
	if len(remoteclient.VC29Batch) != 1 {
		return
	}
	x := vC29_system()
	base := &remoteclient.VC29Ctx{Caller: -1}
	_, _ = x.remoteTellHandler(base, nil, &internalpb.RemoteTellRequest{RemoteMessages: remoteclient.VC29Batch})
	vAssert(len(vC29_delivered) == 1, "the message is delivered")
	if len(vC29_delivered) != 1 {
		return
	}
	got, _, extracted := vC29_headersOf(vC29_delivered[0].ctx)
	kv := p.Headers[0][0]
	v, ok := got[remoteclient.VC29_canon(kv.K)]
	vAssert(extracted && len(got) == 1 && ok && v == kv.V, "the header comes back under the canonical spelling of its key, with its value")
	if remoteclient.VC29_canon(kv.K) != kv.K {
		vCover("key-respelled")
	}
	vCover("end")
}
