//go:build verif

package actor

import (
	"context"

	"golang.org/x/sync/errgroup"

	"github.com/tochemey/goakt/v4/internal/address"
)

func init() {
	vRegister("vC09_stop", vC09_stop)
	vRegister("vC09_treeOps", vC09_treeOps)
	vRegister("vC09_spawnDuringStop", vC09_spawnDuringStop)
}

// ---- errgroup: Go runs the function at once (children are stopped one after the other; that the real group runs them
// concurrently and Wait joins them is trusted). Groups nest strictly (a child's own group lives inside the parent's Go). ----

var (
	vC09_egErrs [8]error
	vC09_egTop  int
)

func vC09_egWithContext(ctx context.Context) (*errgroup.Group, context.Context) {
	vC09_egErrs[vC09_egTop] = nil
	vC09_egTop++
	return &errgroup.Group{}, ctx
}

func vC09_egGo(g *errgroup.Group, f func() error) {
	if err := f(); err != nil && vC09_egErrs[vC09_egTop-1] == nil {
		vC09_egErrs[vC09_egTop-1] = err
	}
}

func vC09_egWait(g *errgroup.Group) error {
	vC09_egTop--
	return vC09_egErrs[vC09_egTop]
}

// ---- actors that record their PostStop ------------------------------------------------------------------------

type vC09Actor struct{ idx int }

var (
	vC09_events [8]int // actor indices in PostStop order
	vC09_nev    int
)

func (a *vC09Actor) PreStart(*Context) error  { return nil }
func (a *vC09Actor) Receive(*ReceiveContext)  {}
func (a *vC09Actor) PostStop(*Context) error {
	if vC09_nev < 8 {
		vC09_events[vC09_nev] = a.idx
	}
	vC09_nev++
	return nil
}

func vC09_mkActor(sys *actorSystem, name string, idx int) *PID {
	p := vT_mkPID(sys, name)
	p.actor = &vC09Actor{idx: idx}
	p.behaviorStack = newBehaviorStack()
	p.mailbox = NewUnboundedMailbox()
	p.systemMailbox = NewUnboundedMailbox()
	return p
}

var vC09_names = [4]string{"p0", "p1", "p2", "p3"}

// shape s in [0,24): parent(p1) in {root,p0}, parent(p2) in {root,p0,p1}, parent(p3) in {root,p0,p1,p2}
func vC09_parentOf(s, i int) int {
	switch i {
	case 1:
		return s%2 - 1
	case 2:
		return (s/2)%3 - 1
	case 3:
		return (s/6)%4 - 1
	}
	return -1
}

// Shutdown of an arbitrary actor of an arbitrary tree of 4 actors (under a root guardian, all watched by the death watch):
// real Shutdown -> doStop -> freeWatchees / freeChildren (recursing into the children's real Shutdown) / PostStop /
// freeWatchers -> reset; then the death watch's real handleTerminated for every Terminated it was sent.
func vC09_stop() {
	sys := vT_newSystem()
	tr := sys.tree()
	root, dw := vT_mkPID(sys, "root"), vT_mkPID(sys, "dw")
	dw.setState(systemState, true)
	sys.deathWatch = dw
	vAssert(tr.addRootNode(root) == nil && tr.addNode(root, dw) == nil, "guardians register")
	var p [4]*PID
	var par [4]int // -1 = root guardian, else the index of the parent actor (always smaller)
	shape := vCase("shape") // one of the 24 labelled trees (case split: one job per shape)
	for i := 0; i < 4; i++ {
		p[i] = vC09_mkActor(sys, vC09_names[i], i)
		par[i] = vC09_parentOf(shape, i)
		// the real spawn bookkeeping: addNode under the parent, death watch watches the new actor
		for c := -1; c < i; c++ {
			if par[i] == c {
				pp := root
				if c >= 0 {
					pp = p[c]
				}
				vAssert(tr.addNode(pp, p[i]) == nil, "actor registers under its parent")
			}
		}
		tr.addWatcher(p[i], dw)
	}
	// anc[i][j]: j is a strict ancestor of i
	var anc [4][4]bool
	for i := 0; i < 4; i++ {
		for j := 0; j < i; j++ {
			a := par[i] == j
			for k := j + 1; k < i; k++ {
				if par[i] == k && anc[k][j] {
					a = true
				}
			}
			anc[i][j] = a
		}
	}
	var suspended [4]bool
	for i := 0; i < 4; i++ {
		suspended[i] = (vCase("suspended")>>i)&1 == 1 // case split: a symbolic liveness bit blurs every state-word test of the stop path
		if suspended[i] {
			p[i].setState(suspendedState, true)
		}
	}
	// two bystanders (children of the guardian, never stopped) that watch an ARBITRARY subset of the four actors; the second
	// one is suspended (so it must not be notified)
	var o [2]*PID
	var watches [2][4]bool
	o[0], o[1] = vT_mkPID(sys, "o0"), vT_mkPID(sys, "o1")
	o[1].setState(suspendedState, true)
	for w := 0; w < 2; w++ {
		vAssert(tr.addNode(root, o[w]) == nil, "bystander registers")
		tr.addWatcher(o[w], dw)
		for t := 0; t < 4; t++ {
			watches[w][t] = vNondetBool("watches")
			if watches[w][t] {
				tr.addWatcher(p[t], o[w])
			}
		}
	}
	allBefore := [8]*PID{root, dw, o[0], o[1], p[0], p[1], p[2], p[3]}
	vC09_invOf(tr, allBefore[:])

	target := vCase("target") // which actor is stopped: case split (a symbolic target makes the executor run all four stops on a blurred tree)
	vC09_nev, vC09_egTop, vT_sent = 0, 0, nil
	vAssert(p[target].Shutdown(context.Background()) == nil, "Shutdown succeeds")
	var inSub [4]bool
	size := 0
	for i := 0; i < 4; i++ {
		inSub[i] = i == target || (i > target && anc[i][target])
		if inSub[i] {
			size++
		}
	}
	// (1) every member of the subtree ran PostStop exactly once, descendants before ancestors; nobody else did
	vAssert(vC09_nev == size, "exactly the actors of the stopped subtree run PostStop, once each")
	var pos [4]int
	for i := 0; i < 4; i++ {
		pos[i] = -1
		c := 0
		for k := 0; k < 4; k++ {
			if k < vC09_nev && vC09_events[k] == i {
				pos[i] = k
				c++
			}
		}
		if inSub[i] {
			vAssert(c == 1, "every descendant of the stopped actor is stopped (PostStop exactly once)")
		} else {
			vAssert(c == 0, "an actor outside the subtree is not stopped")
		}
	}
	for i := 0; i < 4; i++ {
		for j := 0; j < i; j++ {
			if inSub[i] && inSub[j] && anc[i][j] {
				vAssert(pos[i] >= 0 && pos[i] < pos[j], "a descendant's PostStop completes before its ancestor's")
				vCover("ordered-pair")
			}
		}
	}
	// (2) when Shutdown returns no actor of the subtree is running; the others are untouched
	for i := 0; i < 4; i++ {
		if inSub[i] {
			vAssert(!p[i].IsRunning() && !p[i].isStateSet(runningState) && !p[i].IsSuspended(), "when the stop returns no actor of the subtree is running")
		} else {
			vAssert(p[i].isStateSet(runningState) && p[i].IsSuspended() == suspended[i], "actors outside the subtree keep their state")
		}
	}
	if size >= 3 {
		vCover("subtree-of-three")
	}
	// the death watch got one Terminated per stopped actor, in PostStop order; it removes them from the tree
	ndw := 0
	for k := 0; k < len(vT_sent) && k < 12; k++ {
		if vT_sent[k].to == dw {
			ndw++
		}
	}
	vAssert(ndw == size, "the death watch is told once about every stopped actor")
	for k := 0; k < 4; k++ {
		if k < vC09_nev {
			for i := 0; i < 4; i++ {
				if vC09_events[k] == i {
					vAssert(vT_terminatedTo(dw, p[i]) == 1, "one Terminated per stopped actor reaches the death watch")
					rctx := &ReceiveContext{self: dw, message: NewTerminated(p[i].Path())}
					vAssert((&deathWatch{}).handleTerminated(rctx) == nil, "death watch handles Terminated")
				}
			}
		}
	}
	// (3) no stopped actor remains registered or resolvable by name; everything else still is; the tree is consistent
	for i := 0; i < 4; i++ {
		_, byID := tr.node(p[i].ID())
		_, byName := tr.nodeByName(p[i].Name())
		vAssert(byID == !inSub[i] && byName == !inSub[i], "exactly the stopped actors are no longer registered / resolvable by name")
	}
	vAssert(tr.count() == int64(2+2+4-size), "the node counter follows")
	all := [8]*PID{root, dw, o[0], o[1], p[0], p[1], p[2], p[3]}
	vC09_invOf(tr, all[:])
	// the parent of the stopped actor (it was not stopping it itself) is notified once; nobody inside the subtree is notified
	nToRoot := 0
	for k := 0; k < len(vT_sent) && k < 12; k++ {
		if vT_sent[k].to == root {
			nToRoot++
		}
	}
	for t := 0; t < 4; t++ {
		for w := 0; w < 2; w++ {
			got := vT_terminatedTo(o[w], p[t])
			if inSub[t] && watches[w][t] && w == 0 {
				vAssert(got == 1, "a running watcher outside the stopped subtree receives exactly one Terminated for each stopped actor it watches")
				vCover("watcher-notified")
			} else {
				vAssert(got == 0, "a bystander that does not watch the actor, or is suspended, or watches an actor that was not stopped, is sent nothing")
			}
			if inSub[t] && watches[w][t] && w == 0 {
				vAssert(!vT_contains(tr.watchees(o[w]), p[t]), "a notified watcher no longer lists the dead actor among its watchees")
			}
		}
		for w := 0; w < 4; w++ {
			if w != t {
				got := vT_terminatedTo(p[w], p[t])
				if inSub[t] && !inSub[w] && par[t] == w && !suspended[w] {
					vAssert(got == 1 && t == target, "the running parent of the stopped actor is notified once")
					vCover("parent-notified")
				} else {
					vAssert(got == 0, "no other actor of the tree is sent a Terminated (a parent unwatches the child it stops itself)")
				}
			}
		}
	}
	if par[target] == -1 {
		vAssert(nToRoot == 1, "the guardian is notified once when its child stops")
	} else {
		vAssert(nToRoot == 0, "the guardian is not notified otherwise")
	}
	vCover("end")
}

// Inv_tree over the fixed pool {root, dw, p0..p3}
func vC09_inv(tr *tree, root, dw *PID, p *[4]*PID, tag string) {
	all := [6]*PID{root, dw, p[0], p[1], p[2], p[3]}
	vC09_invOf(tr, all[:])
}

func vC09_invOf(tr *tree, all []*PID) {
	cnt := 0
	for _, x := range all {
		id := x.ID()
		n, ok := tr.pids[id]
		nn, okn := tr.names[x.Name()]
		vAssert(ok == okn && (!ok || n == nn), "Inv: the id index and the name index hold the same nodes")
		if !ok {
			continue
		}
		cnt++
		vAssert(n != nil && n.pid.Load() == x && n.id == id && n.name == x.Name(), "Inv: a registered node holds its live pid and its cached id/name")
		if n != tr.rootNode {
			pn := n.parentNode
			vAssert(pn != nil && pn.pid.Load() != nil && tr.pids[pn.id] == pn, "Inv: every registered actor's parent is live and registered")
			if pn != nil {
				vAssert(pn.descendants[id] == n, "Inv: a parent lists each of its registered children")
			}
		}
		for _, y := range all {
			yid := y.ID()
			m, okm := tr.pids[yid]
			if c, has := n.descendants[yid]; has {
				vAssert(okm && m == c && c.parentNode == n, "Inv: every listed child is registered and points back to its parent")
			}
			if _, has := n.watchers[yid]; has {
				vAssert(okm, "Inv: every watcher is registered")
				if okm {
					_, back := m.watchees[id]
					vAssert(back, "Inv: watchers and watchees are symmetric")
				}
			}
			if _, has := n.watchees[yid]; has {
				vAssert(okm, "Inv: every watchee is registered")
				if okm {
					_, back := m.watchers[id]
					vAssert(back, "Inv: watchees and watchers are symmetric")
				}
			}
		}
	}
	vAssert(tr.counter.Load() == int64(cnt), "Inv: the counter equals the number of registered nodes")
}

// ---- tree operations: one arbitrary operation from an arbitrary valid tree (inductive step for Inv_tree) --------------
// Pool {root, a, b, c}. The shape (who is registered under whom) is a case split; the watch relation between registered
// actors is arbitrary (symbolic booleans, installed with the real addWatcher/removeWatcher); the operation kind is a case
// split, its arguments are symbolic (concrete calls under symbolic guards keep the tree's map keys concrete).

// shape s in [0,24): a: unregistered | under root; b: unregistered | root | a; c: unregistered | root | a | b
func vC09_shapeParent(s, i int) int { // -2 unregistered, else index of the parent in the pool
	switch i {
	case 1:
		return s%2*2 - 2 // 0 -> -2, 1 -> 0
	case 2:
		return (s/2)%3 - 1 - btoi((s/2)%3 == 0) // 0 -> -2, 1 -> 0, 2 -> 1
	default:
		return (s/6)%4 - 1 - btoi((s/6)%4 == 0) // 0 -> -2, 1 -> 0, 2 -> 1, 3 -> 2
	}
}

func btoi(b bool) int {
	if b {
		return 1
	}
	return 0
}

func vC09_treeOps() {
	shape, op := vCase("shape"), vCase("op")
	sys := vT_newSystem()
	tr := sys.tree()
	var q [4]*PID
	q[0] = vT_mkPID(sys, "root")
	q[1], q[2], q[3] = vT_mkPID(sys, "a"), vT_mkPID(sys, "b"), vT_mkPID(sys, "c")
	vAssert(tr.addRootNode(q[0]) == nil, "root registers")
	var reg [4]bool
	var parent [4]int
	var watch [4][4]bool // watch[w][t]: w watches t
	reg[0] = true
	parent[0], parent[1], parent[2], parent[3] = -1, -1, -1, -1
	for i := 1; i < 4; i++ {
		par := vC09_shapeParent(shape, i)
		if par >= 0 && reg[par] {
			vAssert(tr.addNode(q[par], q[i]) == nil, "actor registers under its parent")
			reg[i], parent[i], watch[par][i] = true, par, true
		}
	}
	for w := 0; w < 4; w++ {
		for t := 0; t < 4; t++ {
			if w == t || !reg[w] || !reg[t] {
				continue
			}
			b := vNondetBool("watches")
			if b && !watch[w][t] {
				tr.addWatcher(q[t], q[w])
			}
			if !b && watch[w][t] {
				tr.removeWatcher(q[t], q[w])
			}
			watch[w][t] = b
		}
	}
	vC09_invOf(tr, q[:]) // base case: every state built this way satisfies Inv_tree

	xx, yy := vChoose("x", 4), vChoose("y", 4)
	if op == 3 {
		vAssume(yy == 0) // deleteNode has one argument
	}
	for x := 0; x < 4; x++ {
		for y := 0; y < 4; y++ {
			if x != xx || y != yy || (op == 3 && y != 0) {
				continue
			}
			switch op {
			case 0: // addNode(parent x, child y)
				err := tr.addNode(q[x], q[y])
				if reg[x] && !reg[y] {
					vAssert(err == nil, "addNode under a registered parent succeeds for an unregistered pid")
					reg[y], parent[y], watch[x][y] = true, x, true
					vCover("add")
				} else {
					vAssert(err != nil, "addNode fails for a registered pid or an unregistered parent")
					if reg[y] {
						vAssert(err == errNodeAlreadyExists, "a duplicate insertion reports errNodeAlreadyExists")
					}
					vCover("add-rejected")
				}
			case 1: // y watches x
				tr.addWatcher(q[x], q[y])
				if reg[x] && reg[y] {
					watch[y][x] = true
					vCover("watch")
				}
			case 2: // y stops watching x
				tr.removeWatcher(q[x], q[y])
				watch[y][x] = false
			default: // delete x with its whole subtree
				tr.deleteNode(q[x])
				if reg[x] {
					var gone [4]bool
					gone[x] = true
					for r := 0; r < 3; r++ { // transitive closure over at most 3 levels
						for i := 0; i < 4; i++ {
							if reg[i] && parent[i] >= 0 && gone[parent[i]] {
								gone[i] = true
							}
						}
					}
					for i := 0; i < 4; i++ {
						if gone[i] {
							reg[i], parent[i] = false, -1
							for j := 0; j < 4; j++ {
								watch[i][j], watch[j][i] = false, false
							}
						}
					}
					vCover("delete")
				}
			}
		}
	}
	vC09_invOf(tr, q[:])
	// the accessors agree with the model
	nreg := 0
	for i := 0; i < 4; i++ {
		if reg[i] {
			nreg++
		}
		n, ok := tr.node(q[i].ID())
		vAssert(ok == reg[i] && (!ok || n.value() == q[i]), "node(id) finds exactly the registered actors")
		_, okn := tr.nodeByName(q[i].Name())
		vAssert(okn == reg[i], "nodeByName finds exactly the registered actors")
		pp, okp := tr.parent(q[i])
		if reg[i] && parent[i] >= 0 {
			vAssert(okp && pp == q[parent[i]], "parent(x) is the actor x was added under")
		} else {
			vAssert(!okp, "the root and unregistered actors have no parent")
		}
		kids, desc := tr.children(q[i]), tr.descendants(q[i])
		ws := tr.watchers(q[i])
		for j := 0; j < 4; j++ {
			isKid := reg[i] && reg[j] && parent[j] == i
			vAssert(vT_contains(kids, q[j]) == isKid, "children(x) are exactly the registered actors added under x")
			isDesc := false
			if reg[i] && reg[j] && parent[j] >= 0 {
				a1 := parent[j]
				isDesc = a1 == i
				if a1 >= 0 && parent[a1] >= 0 {
					a2 := parent[a1]
					isDesc = isDesc || a2 == i
					if parent[a2] >= 0 {
						isDesc = isDesc || parent[a2] == i
					}
				}
			}
			vAssert(vT_contains(desc, q[j]) == isDesc, "descendants(x) are exactly the actors below x")
			vAssert(vT_contains(ws, q[j]) == (reg[i] && reg[j] && watch[j][i]), "watchers(x) are exactly the registered actors watching x")
		}
	}
	vAssert(tr.count() == int64(nreg), "count() is the number of registered actors")
	vCover("end")
}

// ---- a spawn that lands inside the parent's stop ------------------------------------------------------------------
// "when the stop returns no actor of the subtree is running or resolvable by name" must also hold when SpawnChild reaches the
// parent after freeChildren took its snapshot of the children. The harness places that call at an arbitrary one of the moments
// the parent's stop passes through code the harness owns: inside a child's PostStop (the parent is waiting in freeChildren),
// inside the parent's own PostStop, or right after Shutdown returned. Real code: Shutdown/doStop as in vC09_stop, SpawnChild ->
// spawnChildLocal (liveness guard, childAddress, findRunningChild). The materialization behind runSpawnActivation (newPID,
// PreStart, completeSpawn) is replaced by its effect on the tree: a running actor registered under the parent with addNode.

var (
	vC09_spawnAt     int // 0 none, 1 in the child's PostStop, 2 in the parent's PostStop, 3 after Shutdown returned
	vC09_spawnParent *PID
	vC09_late        *PID // the actor admitted by the spawn (nil = refused)
	vC09_spawnErr    error
	vC09_spawnCalls  int
)

type vC09Spawner struct {
	idx int
	at  int
}

func (a *vC09Spawner) PreStart(*Context) error { return nil }
func (a *vC09Spawner) Receive(*ReceiveContext) {}
func (a *vC09Spawner) PostStop(*Context) error {
	if vC09_nev < 8 {
		vC09_events[vC09_nev] = a.idx
	}
	vC09_nev++
	if vC09_spawnAt == a.at {
		vC09_doSpawn()
	}
	return nil
}

func vC09_doSpawn() {
	vC09_spawnCalls++
	_, vC09_spawnErr = vC09_spawnParent.SpawnChild(context.Background(), "late", &vC09Actor{idx: 7})
}

// substituted for (*actorSystem).runSpawnActivation: the spawn was admitted; register a running actor under the parent
func vC09_admitSpawn(x *actorSystem, ctx context.Context, key string, fn func() (*PID, error)) (*PID, error) {
	cid := vC09_mkActor(x, "late", 7)
	if err := x.tree().addNode(vC09_spawnParent, cid); err != nil {
		return nil, err
	}
	x.tree().addWatcher(cid, x.deathWatch)
	vC09_late = cid
	return cid, nil
}

func vC09_spawnDuringStop() {
	sys := vT_newSystem()
	tr := sys.tree()
	root, dw := vT_mkPID(sys, "root"), vT_mkPID(sys, "dw")
	dw.setState(systemState, true)
	sys.deathWatch = dw
	vAssert(tr.addRootNode(root) == nil && tr.addNode(root, dw) == nil, "guardians register")
	parent, child := vC09_mkActor(sys, "parent", 0), vC09_mkActor(sys, "child", 1)
	parent.actor, child.actor = &vC09Spawner{idx: 0, at: 2}, &vC09Spawner{idx: 1, at: 1}
	parent.address = address.New("parent", "sys", "host", 1)
	vAssert(tr.addNode(root, parent) == nil && tr.addNode(parent, child) == nil, "parent and child register")
	tr.addWatcher(parent, dw)
	tr.addWatcher(child, dw)
	vC09_spawnAt = vChoose("spawnAt", 4)
	vC09_spawnParent, vC09_late, vC09_spawnErr, vC09_spawnCalls = parent, nil, nil, 0
	vC09_nev, vC09_egTop, vT_sent = 0, 0, nil

	vAssert(parent.Shutdown(context.Background()) == nil, "Shutdown succeeds")
	if vC09_spawnAt == 3 {
		vC09_doSpawn()
	}
	vAssert(vC09_nev == 2 && vC09_events[0] == 1 && vC09_events[1] == 0, "the child's PostStop completes before the parent's, each once")
	vAssert(vC09_spawnCalls == btoi(vC09_spawnAt != 0), "harness: the spawn is attempted at the chosen moment")
	vAssert(!parent.IsRunning() && !child.IsRunning(), "when the stop returns neither the parent nor its child is running")
	// the clause the late spawn attacks: nothing below the stopped actor is running or registered afterwards
	if vC09_late != nil {
		vAssert(!vC09_late.IsRunning(), "an actor spawned under a parent whose stop is under way (or over) is not left running when the stop has returned")
		vCover("late-spawn-admitted")
	} else if vC09_spawnAt != 0 {
		vAssert(vC09_spawnErr != nil, "a refused spawn reports an error")
		vCover("late-spawn-refused")
	}
	// death watch clean-up, then the tree must not hold a live actor under a dead parent
	for k := 0; k < 2; k++ {
		if k < vC09_nev {
			who := child
			if vC09_events[k] == 0 {
				who = parent
			}
			rctx := &ReceiveContext{self: dw, message: NewTerminated(who.Path())}
			vAssert((&deathWatch{}).handleTerminated(rctx) == nil, "death watch handles Terminated")
		}
	}
	_, pReg := tr.node(parent.ID())
	_, cReg := tr.node(child.ID())
	vAssert(!pReg && !cReg, "the stopped actors are no longer registered")
	if vC09_late != nil {
		n, ok := tr.node(vC09_late.ID())
		vAssert(!ok || (n.parentNode != nil && n.parentNode.pid.Load() != nil), "no registered actor is left with a dead parent")
	}
	switch vC09_spawnAt {
	case 1:
		vCover("spawn-while-parent-waits-for-children")
	case 2:
		vCover("spawn-in-parent-poststop")
	case 3:
		vCover("spawn-after-stop")
	}
	vCover("end")
}
