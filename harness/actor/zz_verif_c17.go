//go:build verif

package actor

import (
	"context"
	"errors"
	"reflect"
	"time"

	gerrors "github.com/tochemey/goakt/v4/errors"
	"github.com/tochemey/goakt/v4/eventstream"
	"github.com/tochemey/goakt/v4/extension"
	"github.com/tochemey/goakt/v4/internal/address"
	"github.com/tochemey/goakt/v4/internal/commands"
	"github.com/tochemey/goakt/v4/internal/internalpb"
	"github.com/tochemey/goakt/v4/internal/types"
	"github.com/tochemey/goakt/v4/internal/xsync"
	"github.com/tochemey/goakt/v4/log"
	"golang.org/x/sync/errgroup"
)

func init() {
	vRegister("vC17_gate", vC17_gate)
	vRegister("vC17_afterStop", vC17_afterStop)
	vRegister("vC17_systemActor", vC17_systemActor)
	vRegister("vC17_sequence", vC17_sequence)
	vRegister("vC17_treeTwoStops", vC17_treeTwoStops)
	vRegister("vC17_treeChildStop", vC17_treeChildStop)
	vRegister("vC17_treeFailing", vC17_treeFailing)
	vRegister("vC17_grains", vC17_grains)
	vRegister("vC17_grainLateSend", vC17_grainLateSend)
}

// ---- shared environment ----------------------------------------------------------------------------------------------

type vC17Told struct {
	from, to *PID
	msg      any
}

var (
	vC17_told      []vC17Told // substituted (*PID).Tell (gate entry only)
	vC17_scheduled int        // substituted (*dispatcher).schedule (sequential entries)
)

func vC17_tellRec(pid *PID, ctx context.Context, to *PID, message any) error {
	vC17_told = append(vC17_told, vC17Told{pid, to, message})
	return nil
}

func vC17_scheduleCount(d *dispatcher, s schedulable) { vC17_scheduled++ }

// events stream fake: Close is recorded (sequence entry), Publish ignored
type vC17Stream struct{}

func (*vC17Stream) AddSubscriber() eventstream.Subscriber      { return nil }
func (*vC17Stream) RemoveSubscriber(eventstream.Subscriber)    {}
func (*vC17Stream) SubscribersCount(string) int                { return 0 }
func (*vC17Stream) Subscribe(eventstream.Subscriber, string)   {}
func (*vC17Stream) Unsubscribe(eventstream.Subscriber, string) {}
func (*vC17Stream) Broadcast(any, []string)                    {}
func (*vC17Stream) Publish(string, any)                        {}
func (*vC17Stream) Close()                                     { vC17_ev(vC17evStreamClose) }

// ghost user actor: records Receive / PostStop
type vC17Actor struct{ idx int }

var (
	vC17_receives  [4]int
	vC17_postStops [4]int
	vC17_psOrder   [8]int // actor indices in PostStop-completion order
	vC17_nps       int
)

func (a *vC17Actor) PreStart(*Context) error { return nil }
func (a *vC17Actor) Receive(*ReceiveContext) { vC17_receives[a.idx]++ }
func (a *vC17Actor) PostStop(*Context) error {
	vC17_postStops[a.idx]++
	if vC17_nps < 8 {
		vC17_psOrder[vC17_nps] = a.idx
	}
	vC17_nps++
	return nil
}

func vC17_resetGhosts() {
	vC17_told, vC17_scheduled = nil, 0
	vC17_receives, vC17_postStops = [4]int{}, [4]int{}
	vC17_psOrder, vC17_nps = [8]int{}, 0
	vC17_nev = 0
	vC17_seq, vC17_cnt = [vC17nEv]int{}, [vC17nEv]int{}
}

func vC17_system() *actorSystem {
	sys := &actorSystem{logger: log.DiscardLogger, actors: newTree(), remoteWatches: newRemoteWatchRegistry(), name: "sys"}
	sys.started.Store(true)
	return sys
}

func vC17_pid(sys *actorSystem, name string, idx int) *PID {
	addr := address.New(name, "sys", "host", 9000)
	p := &PID{actor: &vC17Actor{idx: idx}, address: addr, path: newPath(addr), logger: log.DiscardLogger, actorSystem: sys,
		mailbox: NewUnboundedMailbox(), systemMailbox: NewUnboundedMailbox(), dispatcher: &dispatcher{throughput: 4}}
	bs := newBehaviorStack()
	bs.Push(p.actor.Receive)
	p.behaviorStack = bs
	p.setState(runningState, true)
	return p
}

// ---- (a) the shutdown gate of doReceive ------------------------------------------------------------------------------

type vC17Msg struct{ tag int }

const vC17nKinds = 11

// the message universe: one user message and every system / control message type
func vC17_message(kind int) any {
	switch kind {
	case 0:
		return &vC17Msg{tag: 7}
	case 1:
		return &commands.AsyncResponse{}
	case 2:
		return &commands.AsyncRequest{}
	case 3:
		return new(PoisonPill)
	case 4:
		return &commands.Panicking{}
	case 5:
		return &commands.SendDeadletter{}
	case 6:
		return new(PausePassivation)
	case 7:
		return new(ResumePassivation)
	case 8:
		return new(PostStart)
	case 9:
		return new(Terminated)
	}
	return new(PanicSignal)
}

// reference tables (written from the documentation of doReceive, not from isSystemMessage / isControlMessage):
// lifecycle / supervision / reentrancy traffic must still flow while the system stops; control-plane messages use the
// system mailbox
var vC17_isSystem = [vC17nKinds]bool{false, true, true, true, true, true, true, true, true, true, true}
var vC17_isControl = [vC17nKinds]bool{false, false, false, true, true, true, true, true, false, true, true}

// exempt from dead letters (handleReceivedErrorWithMessage): PostStart, Terminated, SendDeadletter - all system messages
func vC17_gate() {
	vC17_resetGhosts()
	sys := vC17_system()
	sys.noSender = vC17_pid(sys, "nosender", 3)
	sys.deadletter = vC17_pid(sys, "deadletter", 3)
	target := vC17_pid(sys, "target", 0)
	target.eventsStream = &vC17Stream{}
	sender := vC17_pid(sys, "sender", 1)
	stopping := vNondetBool("stopping")
	hasSystem := vNondetBool("hasSystem")
	if stopping {
		sys.shuttingDown.Store(true)
	}
	if !hasSystem {
		target.actorSystem = nil
	}
	// scheduling pre-state: idle, already scheduled, or being processed by a worker
	pre := vChoose("schedState", 3)
	if pre == 1 {
		vAssert(target.schedState.TrySchedule(), "harness: idle -> scheduled")
	}
	if pre == 2 {
		vAssert(target.schedState.TrySchedule() && target.schedState.TakeForProcessing(), "harness: idle -> processing")
	}
	kind := vCase("kind")
	msg := vC17_message(kind)
	rctx := &ReceiveContext{message: msg, sender: sender, self: target}
	target.doReceive(rctx)

	rejected := stopping && hasSystem && !vC17_isSystem[kind]
	if rejected {
		vAssert(target.mailbox.Len() == 0 && target.systemMailbox.Len() == 0, "while the system stops a user message is not enqueued")
		vAssert(vC17_scheduled == 0, "while the system stops a user message does not schedule the actor")
		vAssert(len(vC17_told) == 1, "a message refused at shutdown goes to dead letters exactly once")
		if len(vC17_told) == 1 {
			t := vC17_told[0]
			cmd, ok := t.msg.(*commands.SendDeadletter)
			vAssert(ok && t.to == sys.deadletter, "the refusal is a SendDeadletter told to the dead-letter actor")
			if ok {
				vAssert(cmd.Deadletter.Message == msg && cmd.Deadletter.Reason == gerrors.ErrSystemShuttingDown.Error(), "the dead letter carries the refused message and the shutting-down reason")
				vAssert(cmd.Deadletter.Receiver == target.address && cmd.Deadletter.Sender == sender.address, "the dead letter names the original sender and receiver")
			}
		}
		vCover("rejected")
	} else {
		vAssert(len(vC17_told) == 0, "an accepted message produces no dead letter")
		if vC17_isControl[kind] {
			vAssert(target.systemMailbox.Len() == 1 && target.mailbox.Len() == 0, "a control message is enqueued once, in the system mailbox")
			vCover("control-accepted")
		} else {
			vAssert(target.systemMailbox.Len() == 0 && target.mailbox.Len() == 1, "a non-control message is enqueued once, in the user mailbox")
		}
		if pre == 0 {
			vAssert(vC17_scheduled == 1, "an accepted message schedules an idle actor exactly once")
		} else {
			vAssert(vC17_scheduled == 0, "an actor that is already scheduled or running is not scheduled again")
		}
		if stopping && hasSystem {
			vCover("system-message-passes-gate")
		}
	}
	vCover("end")
}

// ---- (e) after Shutdown(pid) returned ----------------------------------------------------------------------------------

func vC17_noopPID(pid *PID)                                      {}
func vC17_noopErr(pid *PID, err error)                           {}
func vC17_submitSupervision(pid *PID, signal *supervisionSignal) {}

// m1 was accepted (enqueued, actor scheduled) before the stop; the stop returns; then a Tell, an Ask, a raw delivery
// (doReceive, the path internal senders use) and the worker turn for the queue happen
func vC17_afterStop() {
	vC17_resetGhosts()
	sys := vC17_system()
	root := vC17_pid(sys, "root", 3)
	sys.noSender = vC17_pid(sys, "nosender", 3)
	a := vC17_pid(sys, "a", 0)
	snd := vC17_pid(sys, "snd", 1)
	vAssert(sys.actors.addRootNode(root) == nil && sys.actors.addNode(root, a) == nil && sys.actors.addNode(root, snd) == nil, "harness: tree")
	nBefore := vChoose("queuedBefore", 3)
	for i := 0; i < 2; i++ {
		if i < nBefore {
			a.doReceive(&ReceiveContext{message: &vC17Msg{tag: i}, self: a, sender: snd})
		}
	}
	if vNondetBool("systemStopping") {
		sys.shuttingDown.Store(true)
	}
	vAssert(a.Shutdown(context.Background()) == nil, "Shutdown succeeds")
	vAssert(vC17_postStops[0] == 1, "Shutdown ran PostStop once")
	vAssert(!a.IsRunning() && !a.isStateSet(runningState), "after Shutdown the actor is not running")
	recvAtStop := vC17_receives[0]
	vAssert(recvAtStop == 0, "harness: no turn ran before the stop")
	schedBefore := vC17_scheduled
	lenBefore := a.mailbox.Len()

	// public sends are refused
	vAssert(errors.Is(snd.Tell(context.Background(), a, &vC17Msg{tag: 5}), gerrors.ErrDead), "Tell to a stopped actor fails with ErrDead")
	_, err := snd.Ask(context.Background(), a, &vC17Msg{tag: 6}, 1000)
	vAssert(errors.Is(err, gerrors.ErrDead), "Ask to a stopped actor fails with ErrDead")
	vAssert(a.mailbox.Len() == lenBefore && a.systemMailbox.Len() == 0 && vC17_scheduled == schedBefore, "a refused send is neither enqueued nor schedules the stopped actor")

	// the worker turn for what was accepted before the stop (and a second Shutdown on top) never reaches the handler
	w := &worker{dispatcher: a.dispatcher}
	a.runTurn(w)
	vAssert(vC17_receives[0] == 0, "no user handler runs for a stopped actor (messages accepted before the stop are dropped by the turn)")
	vAssert(a.Shutdown(context.Background()) == nil && vC17_postStops[0] == 1, "a second Shutdown is a no-op: PostStop is not run again")
	if nBefore == 2 {
		vCover("two-queued")
	}
	vCover("end")
}

// a system actor (reserved name) can only be stopped while the system is stopping: this is what makes the shutting-down
// flag, set first by actorSystem.shutdown, a precondition of the guardians' teardown
func vC17_systemActor() {
	vC17_resetGhosts()
	sys := vC17_system()
	root := vC17_pid(sys, "GoAktRootGuardian", 3)
	sys.noSender = vC17_pid(sys, "GoAktNoSender", 3)
	g := vC17_pid(sys, "GoAktDeadletter", 0)
	vAssert(sys.actors.addRootNode(root) == nil && sys.actors.addNode(root, g) == nil, "harness: tree")
	stopping := vNondetBool("systemStopping")
	if stopping {
		sys.shuttingDown.Store(true)
	}
	err := g.Shutdown(context.Background())
	if stopping {
		vAssert(err == nil && vC17_postStops[0] == 1 && !g.IsRunning(), "while the system stops a system actor is stopped: PostStop once, not running")
		vCover("stopped")
	} else {
		vAssert(errors.Is(err, gerrors.ErrShutdownForbidden) && vC17_postStops[0] == 0 && g.IsRunning(), "a system actor cannot be stopped while the system is running")
		vCover("forbidden")
	}
	vCover("end")
}

// ---- (c) the order of actorSystem.shutdown ---------------------------------------------------------------------------

const (
	vC17evPassivator = iota + 1
	vC17evScheduler
	vC17evHooks
	vC17evDCWatch
	vC17evDCController
	vC17evPreShutdown
	vC17evUser
	vC17evSingleton
	vC17evRelocator
	vC17evDeadletter
	vC17evDeathWatch
	vC17evPoison
	vC17evTopic
	vC17evNoSender
	vC17evSysGuardian
	vC17evRoot
	vC17evDeleteRoot
	vC17evStreamClose
	vC17evCluster
	vC17evRemoting
	vC17evReset
	vC17evSignalStop
	vC17evUnknownPID
	vC17nEv
)

var (
	vC17_seq     [vC17nEv]int // position of the step in the teardown (first occurrence), -1 = did not run
	vC17_cnt     [vC17nEv]int // how often the step ran
	vC17_nev     int
	vC17_sys     *actorSystem
	vC17_fail    [vC17nEv]bool // which step reports an error
	vC17_errs    [vC17nEv]error
	vC17_flagBad bool // some step ran while shuttingDown was not set
)

func vC17_mark(code int) {
	if vC17_cnt[code] == 0 {
		vC17_seq[code] = vC17_nev
	}
	vC17_cnt[code]++
	vC17_nev++
}

func vC17_ev(code int) {
	vC17_mark(code)
	if vC17_sys != nil && !vC17_sys.shuttingDown.Load() {
		vC17_flagBad = true
	}
}

func vC17_res(code int) error {
	vC17_ev(code)
	if vC17_fail[code] {
		return vC17_errs[code]
	}
	return nil
}

// substituted (*PID).Shutdown: which guardian is being stopped
func vC17_seqShutdown(pid *PID, ctx context.Context) error {
	x := vC17_sys
	code := vC17evUnknownPID
	switch pid {
	case x.userGuardian:
		code = vC17evUser
	case x.singletonManager:
		code = vC17evSingleton
	case x.relocator:
		code = vC17evRelocator
	case x.deadletter:
		code = vC17evDeadletter
	case x.deathWatch:
		code = vC17evDeathWatch
	case x.topicActor:
		code = vC17evTopic
	case x.noSender:
		code = vC17evNoSender
	case x.systemGuardian:
		code = vC17evSysGuardian
	case x.rootGuardian:
		code = vC17evRoot
	}
	return vC17_res(code)
}

func vC17_seqPoison(x *actorSystem, ctx context.Context) error        { return vC17_res(vC17evPoison) }
func vC17_seqPassivatorStop(m *passivationManager, c context.Context) { vC17_ev(vC17evPassivator) }
func vC17_seqSchedulerStop(s *scheduler, c context.Context)           { vC17_ev(vC17evScheduler) }
func vC17_seqHooks(x *actorSystem, ctx context.Context) error         { return vC17_res(vC17evHooks) }
func vC17_seqDCWatch(x *actorSystem)                                  { vC17_ev(vC17evDCWatch) }
func vC17_seqDCController(x *actorSystem, ctx context.Context) error {
	return vC17_res(vC17evDCController)
}
func vC17_seqPreShutdown(x *actorSystem) (*internalpb.PeerState, error) {
	return nil, vC17_res(vC17evPreShutdown)
}
func vC17_seqCluster(x *actorSystem, ctx context.Context, actors []*PID, ps *internalpb.PeerState) error {
	return vC17_res(vC17evCluster)
}
func vC17_seqRemoting(x *actorSystem, ctx context.Context) error { return vC17_res(vC17evRemoting) }
func vC17_seqLocalActors(x *actorSystem) []*PID                  { return nil }
func vC17_seqDeleteNode(t *tree, pid *PID) {
	if pid == vC17_sys.rootGuardian {
		vC17_ev(vC17evDeleteRoot)
	} else {
		vC17_ev(vC17evUnknownPID)
	}
}

// reset and signalStop run in the deferred epilogue; reset clears shuttingDown, so they do not go through vC17_ev's flag test
func vC17_seqReset(x *actorSystem) {
	vC17_mark(vC17evReset)
	x.shuttingDown.Store(false)
}
func vC17_seqSignalStop(d *dispatcher) { vC17_mark(vC17evSignalStop) }

func vC17_pos(code int) (first, count int) {
	if vC17_cnt[code] == 0 {
		return -1, 0
	}
	return vC17_seq[code], vC17_cnt[code]
}

// substituted go.uber.org/multierr.Combine / AppendInto: the first non-nil error (only nil-ness is asserted)
func vC17_combine(errs ...error) error {
	var out error
	for i := 0; i < len(errs) && i < 6; i++ {
		if errs[i] != nil && out == nil {
			out = errs[i]
		}
	}
	return out
}
func vC17_appendInto(into *error, err error) bool {
	if err == nil {
		return false
	}
	if *into == nil {
		*into = err
	}
	return true
}

func vC17_sequence() {
	vC17_resetGhosts()
	sys := vC17_system()
	vC17_sys, vC17_flagBad = sys, false
	sys.eventsStream = &vC17Stream{}
	sys.dispatcher = &dispatcher{}
	sys.passivator = &passivationManager{}
	sys.scheduler = &scheduler{}
	mk := func(name string) *PID { return vC17_pid(sys, name, 3) }
	sys.userGuardian, sys.deadletter, sys.deathWatch = mk("GoAktUserGuardian"), mk("GoAktDeadletter"), mk("GoAktDeathWatch")
	sys.noSender, sys.systemGuardian, sys.rootGuardian = mk("GoAktNoSender"), mk("GoAktSystemGuardian"), mk("GoAktRootGuardian")
	hasSingleton, hasRelocator, hasTopic := vNondetBool("hasSingleton"), vNondetBool("hasRelocator"), vNondetBool("hasTopic")
	if hasSingleton {
		sys.singletonManager = mk("GoAktSingletonManager")
	}
	if hasRelocator {
		sys.relocator = mk("GoAktRelocator")
	}
	if hasTopic {
		sys.topicActor = mk("GoAktTopicActor")
	}
	// at most one step of the sequence reports an error (which one: symbolic)
	failing := vCase("failingStep") // 0 = none
	for c := 1; c < vC17nEv; c++ {
		vC17_fail[c] = c == failing
		vC17_errs[c] = errors.New("step failed")
	}
	vAssume(failing != vC17evPassivator && failing != vC17evScheduler && failing != vC17evDCWatch && failing != vC17evDeleteRoot &&
		failing != vC17evStreamClose && failing != vC17evReset && failing != vC17evSignalStop && failing != vC17evUnknownPID) // these return nothing
	vAssume(hasSingleton || failing != vC17evSingleton)
	vAssume(hasRelocator || failing != vC17evRelocator)
	vAssume(hasTopic || failing != vC17evTopic)

	err := sys.shutdown(context.Background())

	vAssert(!vC17_flagBad, "the shutting-down flag is set before any teardown step runs (guardians, grains, hooks, cluster)")
	_, unknown := vC17_pos(vC17evUnknownPID)
	vAssert(unknown == 0, "only the system's own guardians are stopped / only the root guardian is deleted")
	pUser, nUser := vC17_pos(vC17evUser)
	pPoison, nPoison := vC17_pos(vC17evPoison)
	pPass, nPass := vC17_pos(vC17evPassivator)
	pSched, nSched := vC17_pos(vC17evScheduler)
	pSysG, nSysG := vC17_pos(vC17evSysGuardian)
	pRoot, nRoot := vC17_pos(vC17evRoot)
	pDL, nDL := vC17_pos(vC17evDeadletter)
	pDW, nDW := vC17_pos(vC17evDeathWatch)
	pNoS, nNoS := vC17_pos(vC17evNoSender)
	pCl, nCl := vC17_pos(vC17evCluster)
	pRem, nRem := vC17_pos(vC17evRemoting)
	pReset, nReset := vC17_pos(vC17evReset)
	pSig, nSig := vC17_pos(vC17evSignalStop)
	for c := 1; c < vC17nEv; c++ {
		_, n := vC17_pos(c)
		vAssert(n <= 1, "no teardown step runs twice")
	}
	vAssert(nUser == 1 && nPass == 1 && nSched == 1, "the passivation manager, the scheduler and the user guardian are always stopped, once")
	vAssert(pPass < pUser && pSched < pUser, "passivation and scheduled deliveries are stopped before any actor is stopped")
	vAssert(nCl == 1 && nRem == 1 && pCl < pRem, "cluster and remoting are shut down exactly once on every path, cluster first")
	vAssert(pUser < pCl, "the node leaves the cluster only after the user actors were stopped")
	vAssert(nReset == 1 && nSig == 1 && pReset == vC17_nev-2 && pSig == vC17_nev-1, "the system state is reset and the dispatcher told to stop last, once")
	if nDL == 1 {
		vAssert(pUser < pDL, "the user guardian is stopped before the dead-letter actor")
	}
	if nDW == 1 {
		vAssert(pUser < pDW, "the user guardian is stopped before the death watch")
	}
	if nPoison == 1 {
		vAssert(pUser < pPoison, "grains are deactivated after the user actors were stopped")
	}
	if nSysG == 1 {
		vAssert(nPoison == 1 && pPoison < pSysG && pUser < pSysG && nDL == 1 && pDL < pSysG && nDW == 1 && pDW < pSysG && nNoS == 1 && pNoS < pSysG,
			"the system guardian is stopped after the user guardian, the dead-letter actor, the death watch, the grains and NoSender")
	}
	if nRoot == 1 {
		vAssert(nSysG == 1 && pSysG < pRoot, "the root guardian is stopped last of the guardians")
		vAssert(pRoot < pCl, "cluster / remoting go down after the last guardian")
	}
	guardianFailed := failing == vC17evUser || failing == vC17evSingleton || failing == vC17evRelocator || failing == vC17evDeadletter ||
		failing == vC17evDeathWatch || failing == vC17evTopic || failing == vC17evNoSender || failing == vC17evSysGuardian || failing == vC17evRoot
	if !guardianFailed {
		// the complete sequence, in order
		exp := [24]int{}
		n := 0
		add := func(c int, present bool) {
			if present {
				exp[n] = c
				n++
			}
		}
		add(vC17evPassivator, true)
		add(vC17evScheduler, true)
		add(vC17evHooks, true)
		add(vC17evDCWatch, true)
		add(vC17evDCController, true)
		add(vC17evPreShutdown, true)
		add(vC17evUser, true)
		add(vC17evSingleton, hasSingleton)
		add(vC17evRelocator, hasRelocator)
		add(vC17evDeadletter, true)
		add(vC17evDeathWatch, true)
		add(vC17evPoison, true)
		add(vC17evTopic, hasTopic)
		add(vC17evNoSender, true)
		add(vC17evSysGuardian, true)
		add(vC17evRoot, true)
		add(vC17evDeleteRoot, true)
		add(vC17evStreamClose, true)
		add(vC17evCluster, true)
		add(vC17evRemoting, true)
		add(vC17evReset, true)
		add(vC17evSignalStop, true)
		// every expected step ran once, nothing else ran, and consecutive expected steps ran in that order
		same := vC17_nev == n
		for i := 0; i < 24; i++ {
			if i < n && vC17_cnt[exp[i]] != 1 {
				same = false
			}
			if i+1 < n && vC17_seq[exp[i]] >= vC17_seq[exp[i+1]] {
				same = false
			}
		}
		vAssert(same, "when no guardian fails to stop, every guardian present is stopped exactly once and the whole teardown runs in the documented order")
		if failing == 0 {
			vAssert(err == nil, "a clean stop reports no error")
			vCover("clean")
		} else {
			vAssert(err != nil, "an error of a hook / data-center / cluster / remoting / grain step is reported by Stop")
			vCover("non-guardian-step-failed")
		}
	} else {
		vAssert(err != nil, "a guardian that fails to stop makes Stop report an error")
		vCover("guardian-failed")
		if failing == vC17evUser {
			vCover("user-guardian-failed")
			vAssert(nCl == 1 && nRem == 1, "an error from the user guardian's stop still leads to cluster and remoting shutdown")
			// the teardown that must not depend on a user hook's return value
			vAssert(nPoison == 1, "grains are deactivated even when stopping the user actors reported an error")
			vAssert(nSysG == 1 && nRoot == 1 && nDL == 1 && nDW == 1, "the system actors are stopped even when stopping the user actors reported an error")
		}
	}
	vAssert(!sys.shuttingDown.Load(), "harness: reset ran")
	vCover("end")
}

// ---- (b) stopping a subtree: real Shutdown / doStop / freeChildren over the real tree ----------------------------------

// errgroup: Go runs the function at once on the caller's goroutine (the children of one parent are stopped one after the
// other; that the real group runs them concurrently and Wait joins them is trusted). The first error is kept per group.
type vC17Eg struct {
	g   *errgroup.Group
	err error
}

var (
	vC17_egs [6]vC17Eg
	vC17_neg int
)

func vC17_egWithContext(ctx context.Context) (*errgroup.Group, context.Context) {
	g := &errgroup.Group{}
	if vC17_neg < 6 {
		vC17_egs[vC17_neg] = vC17Eg{g: g}
	}
	vC17_neg++
	return g, ctx
}

func vC17_egGo(g *errgroup.Group, f func() error) {
	err := f()
	for i := 0; i < 6; i++ {
		if vC17_egs[i].g == g && vC17_egs[i].err == nil {
			vC17_egs[i].err = err
		}
	}
}

func vC17_egWait(g *errgroup.Group) error {
	var err error
	for i := 0; i < 6; i++ {
		if vC17_egs[i].g == g {
			err = vC17_egs[i].err
		}
	}
	return err
}

// ghost actor of the tree entries: PostStop has a begin and an end (other threads may run in between), may fail, and
// checks on entry that every child that was running when the teardown began has completed its own PostStop
type vC17Node struct{ idx int }

const vC17nNodes = 4

var (
	vC17_tBegan    [vC17nNodes]int
	vC17_tDone     [vC17nNodes]int
	vC17_tParent   [vC17nNodes]int  // index of the parent actor, -1 = child of the guardian
	vC17_tFail     [vC17nNodes]bool // PostStop returns an error
	vC17_tInStop   int              // number of PostStop calls in progress
	vC17_stopDone  bool             // the system-level stop (thread 0) has returned
	vC17_errPS     = errors.New("PostStop failed")
	vC17_treeTells int
)

func (a *vC17Node) PreStart(*Context) error { return nil }
func (a *vC17Node) Receive(*ReceiveContext) {}
func (a *vC17Node) PostStop(*Context) error {
	for c := 0; c < vC17nNodes; c++ {
		if vC17_tParent[c] == a.idx {
			vAssert(vC17_tDone[c] >= 1 || vC17_tFail[c], "a parent's PostStop starts only after the PostStop of each of its children completed")
		}
	}
	vAssert(!vC17_stopDone, "no PostStop starts after the stop of the subtree returned")
	vC17_tBegan[a.idx]++
	vC17_tInStop++
	vYield()
	vC17_tInStop--
	if vC17_tFail[a.idx] {
		return vC17_errPS
	}
	vC17_tDone[a.idx]++
	return nil
}

// Mode C only: the tree bookkeeping is replaced by the static topology of the harness (the real tree operations under a
// stop are C09's subject): children(pid) = the actors registered under pid, node(id) = found, removeDescendant / UnWatch /
// freeWatchees / freeWatchers = no-ops. What stays real and shared: every PID's state word, stopLocker, behavior stack.
var (
	vC17_kids      [vC17nNodes][]*PID
	vC17_dummyNode = &pidNode{}
)

func vC17_children(t *tree, pid *PID) []*PID {
	if nd, ok := pid.actor.(*vC17Node); ok {
		return vC17_kids[nd.idx]
	}
	return nil
}
func vC17_node(t *tree, id string) (*pidNode, bool)           { return vC17_dummyNode, true }
func vC17_removeDescendant(t *tree, parentID, childID string) {}
func vC17_unwatch(pid *PID, cid *PID)                         {}
func vC17_nilErrCtx(pid *PID, ctx context.Context) error      { return nil }
func vC17_noopCtx(pid *PID, ctx context.Context)              {}

func vC17_treeTell(pid *PID, ctx context.Context, to *PID, message any) error {
	vC17_treeTells++
	return nil
}

// guardian -> n0 -> {n1 -> n3, n2}  (size: how many of n0..n3 exist; n3 is n1's child)
func vC17_mkTree(size int) (*actorSystem, [vC17nNodes]*PID) {
	vC17_resetGhosts()
	sys := vC17_system()
	root := vC17_pid(sys, "guardian", 3)
	sys.noSender = vC17_pid(sys, "nosender", 3)
	vAssert(sys.actors.addRootNode(root) == nil, "harness: guardian registers")
	var n [vC17nNodes]*PID
	names := [vC17nNodes]string{"n0", "n1", "n2", "n3"}
	parents := [vC17nNodes]int{-1, 0, 0, 1}
	vC17_neg, vC17_tInStop, vC17_stopDone, vC17_treeTells = 0, 0, false, 0
	for i := 0; i < vC17nNodes; i++ {
		vC17_tBegan[i], vC17_tDone[i], vC17_tFail[i], vC17_tParent[i] = 0, 0, false, -2
		vC17_egs[i] = vC17Eg{}
		vC17_kids[i] = nil
		if i >= size {
			continue
		}
		n[i] = vC17_pid(sys, names[i], i)
		n[i].actor = &vC17Node{idx: i}
		vC17_tParent[i] = parents[i]
		pp := root
		if parents[i] >= 0 {
			pp = n[parents[i]]
		}
		vAssert(sys.actors.addNode(pp, n[i]) == nil, "harness: actor registers under its parent")
		if parents[i] >= 0 {
			vC17_kids[parents[i]] = append(vC17_kids[parents[i]], n[i])
		}
	}
	return sys, n
}

func vC17_treeFinal(n [vC17nNodes]*PID, size int) {
	for i := 0; i < vC17nNodes; i++ {
		if i < size {
			vAssert(vC17_tBegan[i] <= 1, "PostStop runs at most once per actor, whoever stops it")
		}
	}
	if vAllDone() {
		for i := 0; i < vC17nNodes; i++ {
			if i < size {
				vAssert(vC17_tDone[i] == 1, "when every stop returned, every actor of the subtree ran PostStop exactly once")
				vAssert(!n[i].isStateSet(runningState) && !n[i].IsRunning(), "when every stop returned, no actor of the subtree is running")
			}
		}
		vCover("all-done")
	}
}

// two callers stop the same subtree at the same time (the system's Stop and, say, a user's Shutdown of the same actor)
func vC17_treeTwoStops() {
	size := vCase("size")
	sys, n := vC17_mkTree(size)
	sys.shuttingDown.Store(true)
	vGo("stopA", func() { _ = n[0].Shutdown(context.Background()) })
	vGo("stopB", func() { _ = n[0].Shutdown(context.Background()) })
	vRun()
	vC17_treeFinal(n, size)
	vCover("end")
}

// the subtree is stopped from the top (thread 0: what the guardian does for each of its children at system stop) while one
// of the children is being stopped on its own (its PoisonPill turn, a parent's ctx.Stop(child), a passivation)
func vC17_treeChildStop() {
	size := vCase("size")
	sys, n := vC17_mkTree(size)
	sys.shuttingDown.Store(true)
	vGo("stopTop", func() { _ = n[0].Shutdown(context.Background()); vC17_stopDone = true })
	vGo("stopChild", func() { _ = n[1].Shutdown(context.Background()) })
	vRun()
	vC17_treeFinal(n, size)
	vCover("end")
}

// sequential: one actor's PostStop returns an error (which one: symbolic)
func vC17_treeFailing() {
	size := vCase("size")
	sys, n := vC17_mkTree(size)
	sys.shuttingDown.Store(true)
	f := vChoose("failing", vC17nNodes)
	vAssume(f < size)
	for i := 0; i < vC17nNodes; i++ {
		vC17_tFail[i] = i == f
	}
	err := n[0].Shutdown(context.Background())
	vAssert(err != nil, "a failing PostStop is reported by the stop of the subtree")
	for i := 0; i < vC17nNodes; i++ {
		if i < size {
			vAssert(vC17_tBegan[i] <= 1, "PostStop runs at most once per actor")
			vAssert(!n[i].IsRunning(), "after the stop returned no actor of the subtree is running, even when a PostStop failed")
			vAssert(vC17_tBegan[i] == 1, "every running actor of the subtree gets its PostStop, even when another actor's PostStop reported an error")
		}
	}
	if f != 0 {
		vCover("descendant-failed")
	}
	vCover("end")
}

// ---- (d) grains: real poisonAllGrains, receive, runTurn, dispatchOne, handlePoisonPill, handlePassivationPill, deactivate --

type vC17Grain struct{ idx int }

var (
	vC17_g          [2]*grainPID
	vC17_gReady     [2]chan struct{} // one token per dispatcher.schedule / worker.reschedule of grain i
	vC17_gInRecv    [2]int
	vC17_gInDeact   [2]int
	vC17_gDeactBeg  [2]int
	vC17_gDeactEnd  [2]int
	vC17_gReceived  [2]int
	vC17_poisonDone bool
)

func (g *vC17Grain) OnActivate(ctx context.Context, props *GrainProps) error { return nil }
func (g *vC17Grain) OnReceive(gc *GrainContext) {
	vAssert(vC17_gInDeact[g.idx] == 0, "OnReceive of a grain never runs while its OnDeactivate is in progress")
	vC17_gInRecv[g.idx]++
	vYield()
	vC17_gReceived[g.idx]++
	vC17_gInRecv[g.idx]--
}
func (g *vC17Grain) OnDeactivate(ctx context.Context, props *GrainProps) error {
	vAssert(vC17_gInRecv[g.idx] == 0, "OnDeactivate of a grain never runs while its OnReceive is in progress")
	vAssert(!vC17_poisonDone, "no OnDeactivate starts after the grain teardown of Stop returned")
	vC17_gDeactBeg[g.idx]++
	vC17_gInDeact[g.idx]++
	vYield()
	vC17_gInDeact[g.idx]--
	vC17_gDeactEnd[g.idx]++
	return nil
}

func vC17_gSchedule(d *dispatcher, s schedulable) {
	if g, ok := s.(*grainPID); ok {
		if g == vC17_g[0] {
			vC17_gReady[0] <- struct{}{}
		} else {
			vC17_gReady[1] <- struct{}{}
		}
	}
}
func vC17_gReschedule(w *worker, s schedulable)      { vC17_gSchedule(w.dispatcher, s) }
func vC17_gRecovery(pid *grainPID, gc *GrainContext) {}

func vC17_mkGrain(sys *actorSystem, i int, name string) *grainPID {
	id := &GrainIdentity{kind: "k", name: name, cachedStr: "k/" + name}
	g := &grainPID{grain: &vC17Grain{idx: i}, identity: id, mailbox: newGrainMailbox(0), responses: newGrainMailbox(0), actorSystem: sys,
		logger: log.DiscardLogger, dispatcher: sys.dispatcher, dependencies: xsync.NewMap[string, extension.Dependency](), config: newGrainConfig(),
		deactivated: make(chan types.Unit)}
	g.activated.Store(true)
	sys.grains.Set(id.String(), g)
	vC17_g[i] = g
	vC17_gReady[i] = make(chan struct{}, 4)
	vC17_gInRecv[i], vC17_gInDeact[i], vC17_gDeactBeg[i], vC17_gDeactEnd[i], vC17_gReceived[i] = 0, 0, 0, 0, 0
	return g
}

func vC17_gWorker(i int, turns int) {
	w := &worker{dispatcher: vC17_g[i].dispatcher}
	for t := 0; t < turns; t++ {
		<-vC17_gReady[i]
		vC17_g[i].runTurn(w)
	}
}

// Stop's grain teardown with traffic in flight: grain 0 has a passivation pill already queued (the manager fired just before
// it was stopped) and/or receives a user message from a sender that passed the TellGrain gate before the flag was set;
// grain 1 (n == 2) is idle. One worker per grain.
func vC17_grains() {
	n := vCase("grains")
	vC17_resetGhosts()
	sys := vC17_system()
	sys.dispatcher = &dispatcher{throughput: 2}
	sys.grains = xsync.NewMap[string, *grainPID]()
	vC17_poisonDone = false
	g0 := vC17_mkGrain(sys, 0, "g0")
	if n == 2 {
		vC17_mkGrain(sys, 1, "g1")
	}
	traffic := vCase("traffic") // 0: a passivation pill is queued; 1: a message is in flight; 2: both
	pill := traffic == 0 || traffic == 2
	if pill {
		g0.deactivateAfter.Store(1)
		vAssert(g0.enqueuePassivationPill(), "harness: passivation pill queued")
	}
	sys.shuttingDown.Store(true)
	var perr error
	vGo("stop", func() { perr = sys.poisonAllGrains(context.Background()); vC17_poisonDone = true })
	vGo("w0", func() { vC17_gWorker(0, 2) })
	if traffic >= 1 {
		vGo("send", func() { g0.receive(&GrainContext{message: 1, pid: g0, ctx: context.Background(), self: g0.identity}) })
	}
	if n == 2 {
		vGo("w1", func() { vC17_gWorker(1, 1) })
	}
	vRun()
	for i := 0; i < 2; i++ {
		if i < n {
			vAssert(vC17_gDeactBeg[i] <= 1, "OnDeactivate runs at most once per active grain")
		}
	}
	if vThreadDone(0) {
		vAssert(perr == nil, "the grain teardown succeeds when every grain drains")
		for i := 0; i < 2; i++ {
			if i < n {
				vAssert(vC17_gDeactEnd[i] == 1, "when the grain teardown of Stop returned, every active grain ran OnDeactivate exactly once")
				if vAllDone() {
					vAssert(!vC17_g[i].isActive(), "when the grain teardown of Stop returned and every turn ended, no grain is active")
				}
			}
		}
		vAssert(sys.grains.Len() == 0, "when the grain teardown of Stop returned, the grain registry is empty")
		vCover("teardown-returned")
		if pill {
			vCover("teardown-with-passivation-pill")
		}
		if vC17_gReceived[0] == 1 {
			vCover("teardown-with-message-handled")
		}
	}
	vCover("end")
}

// ---- (f) a TellGrain in flight while the system stops ---------------------------------------------------------------------

type vC17Registry struct{}

func (vC17Registry) Register(any)                       {}
func (vC17Registry) Deregister(any)                     {}
func (vC17Registry) Exists(any) bool                    { return true }
func (vC17Registry) TypesMap() map[string]reflect.Type  { return nil }
func (vC17Registry) Type(any) (reflect.Type, bool)      { return nil, false }
func (vC17Registry) TypeOf(string) (reflect.Type, bool) { return nil, false }
func vC17_validateID(g *GrainIdentity) error            { return nil }

var vC17_gActivations [2]int

// substituted (*grainPID).activate: OnActivate of the ghost grain succeeded; the state write of the real activate
func vC17_gActivate(pid *grainPID, ctx context.Context) error {
	if g, ok := pid.grain.(*vC17Grain); ok {
		vC17_gActivations[g.idx]++
	}
	pid.activated.Store(true)
	return nil
}

// substituted (*actorSystem).localSend: its first step (the real ensureGrainProcess) and the enqueue; the reply wait is dropped
func vC17_localSend(x *actorSystem, ctx context.Context, id *GrainIdentity, message any, timeout time.Duration, synchronous bool) (any, error) {
	pid, err := x.ensureGrainProcess(ctx, id)
	if err != nil {
		return nil, err
	}
	pid.receive(&GrainContext{message: message, pid: pid, ctx: ctx, self: id})
	return nil, nil
}

// grain g0 is registered; it is active, or inactive (passivated earlier; the next send re-activates it). A TellGrain runs
// while Stop sets the shutting-down flag and tears the grains down (the two steps of actorSystem.shutdown, in its order).
func vC17_grainLateSend() {
	vC17_resetGhosts()
	sys := vC17_system()
	sys.dispatcher = &dispatcher{throughput: 2}
	sys.grains = xsync.NewMap[string, *grainPID]()
	sys.reflection = newReflection(vC17Registry{})
	vC17_poisonDone = false
	g0 := vC17_mkGrain(sys, 0, "g0")
	vC17_gActivations[0] = 1
	if vCase("active") == 0 {
		g0.activated.Store(false)
		vC17_gActivations[0] = 0
	}
	var perr, terr error
	vGo("stop", func() {
		sys.shuttingDown.Store(true)
		perr = sys.poisonAllGrains(context.Background())
		vC17_poisonDone = true
	})
	vGo("tell", func() { terr = sys.TellGrain(context.Background(), g0.identity, 1) })
	vGo("w0", func() { vC17_gWorker(0, 2) })
	vRun()
	vAssert(vC17_gDeactBeg[0] <= vC17_gActivations[0], "OnDeactivate runs at most once per activation")
	if vThreadDone(0) && vThreadDone(1) && vStuck() {
		vAssert(perr == nil, "the grain teardown succeeds")
		vAssert(vC17_gDeactEnd[0] == vC17_gActivations[0] && !g0.isActive(), "when Stop's grain teardown and every send in flight returned, no grain is active and every activation was deactivated")
		if terr != nil {
			vCover("send-refused")
		}
		if vC17_gReceived[0] == 1 {
			vCover("send-handled")
		}
		vCover("quiescent")
	}
	vCover("end")
}
