//go:build verif

package actor

func init() {
	vRegister("vC04_unbounded", vC04_unbounded)
	vRegister("vC04_segmented", vC04_segmented)
	vRegister("vC04_nonblocking", vC04_nonblocking)
	vRegister("vC04_fair", vC04_fair)
	vRegister("vC04_boundedPriority", vC04_boundedPriority)
	vRegister("vC04_priorityOrder", vC04_priorityOrder)
}

var vC04_got [6]int
var vC04_n int
var vC04_acc [4]bool // accepted (Enqueue returned nil): index 0 -> tag 11, 1 -> 12, 2 -> 21, 3 -> 22

var vC04_s1, vC04_s2 *PID

// substituted for deriveSenderKey (PID.ID() needs a full address): two distinct senders
func vC04_senderKey(rc *ReceiveContext) string {
	if rc.sender == vC04_s1 {
		return "s1"
	}
	return "s2"
}

// substituted for senderLoadOrStore (its test hook pointer is set in an explicit init function, which the lazy
// package-initialiser evaluation does not run): the default implementation
func vC04_loadOrStore(m *UnboundedFairMailbox, key string, value any) (any, bool) {
	return m.senders.LoadOrStore(key, value)
}

func vC04_ctx(tag int) *ReceiveContext { return &ReceiveContext{message: tag} }

func vC04_tagIndex(tag int) int {
	switch tag {
	case 11:
		return 0
	case 12:
		return 1
	case 21:
		return 2
	}
	return 3
}

func vC04_enq(m Mailbox, tag int, sender *PID) {
	c := vC04_ctx(tag)
	c.sender = sender
	if err := m.Enqueue(c); err == nil {
		vC04_acc[vC04_tagIndex(tag)] = true
	}
}

func vC04_deq(m Mailbox) bool {
	v := m.Dequeue()
	if v == nil {
		return false
	}
	if vC04_n < 6 {
		vC04_got[vC04_n] = v.message.(int)
	}
	vC04_n++
	return true
}

// two producers (11,12 | 21), one consumer doing up to k dequeues concurrently, then a sequential drain at quiescence
func vC04_scenario(m Mailbox, k int, fifo bool) {
	vC04_n = 0
	vC04_acc = [4]bool{}
	s1, s2 := &PID{}, &PID{}
	vC04_s1, vC04_s2 = s1, s2
	vGo("p1", func() { vC04_enq(m, 11, s1); vC04_enq(m, 12, s1) })
	vGo("p2", func() { vC04_enq(m, 21, s2) })
	vGo("c", func() {
		for i := 0; i < k; i++ {
			vC04_deq(m)
		}
	})
	vRun()
	vAssume(vAllDone())
	// quiescent drain as runTurn does it: a nil Dequeue only ends the turn if IsEmpty agrees
	for i := 0; i < 6; i++ {
		if m.IsEmpty() {
			break
		}
		vC04_deq(m)
	}
	vAssert(m.IsEmpty(), "a bounded number of dequeues drains a quiescent mailbox")
	cnt := [4]int{}
	pos := [4]int{-1, -1, -1, -1}
	for i := 0; i < vC04_n && i < 6; i++ {
		j := vC04_tagIndex(vC04_got[i])
		cnt[j]++
		pos[j] = i
	}
	for j := 0; j < 3; j++ {
		if vC04_acc[j] {
			vAssert(cnt[j] >= 1, "an accepted message is never lost")
			vAssert(cnt[j] <= 1, "an accepted message is never dequeued twice")
		} else {
			vAssert(cnt[j] == 0, "a rejected message is never dequeued")
		}
	}
	vAssert(cnt[3] == 0 && vC04_n <= 3, "nothing is dequeued that was not enqueued")
	if fifo && vC04_acc[0] && vC04_acc[1] {
		vAssert(pos[0] < pos[1], "messages of one sender are dequeued in send order")
	}
	if vC04_acc[0] && vC04_acc[1] && vC04_acc[2] {
		vCover("all-accepted")
	}
	vCover("end")
}

func vC04_unbounded() { vC04_scenario(NewUnboundedMailbox(), 3, true) }
func vC04_segmented() { vC04_scenario(NewUnboundedSegmentedMailbox(), 3, true) }
func vC04_fair()      { vC04_scenario(NewUnboundedFairMailbox(), 3, true) }

// capacity 2: one of three concurrent enqueues may be rejected, but only when the mailbox really is full
func vC04_nonblocking() {
	m := NewNonBlockingBoundedMailbox(2)
	vC04_scenario(m, 1, true)
	if !(vC04_acc[0] && vC04_acc[1] && vC04_acc[2]) {
		vCover("rejected")
	}
}

// smaller tag = higher priority
func vC04_prio(m1, m2 any) bool { return m1.(int) < m2.(int) }

// bounded priority mailbox, capacity 1, two concurrent producers and no consumer: never more than capacity is accepted
func vC04_boundedPriority() {
	m := NewBoundedPriorityMailbox(1, vC04_prio)
	vC04_n = 0
	vC04_acc = [4]bool{}
	vGo("p1", func() { vC04_enq(m, 11, nil) })
	vGo("p2", func() { vC04_enq(m, 21, nil) })
	vRun()
	vAssume(vAllDone())
	acc := 0
	if vC04_acc[0] {
		acc++
	}
	if vC04_acc[2] {
		acc++
	}
	vAssert(acc <= 1, "a bounded mailbox never accepts more than its capacity")
	vAssert(acc >= 1, "a bounded mailbox rejects only when it is full")
	vAssert(m.Len() == int64(acc), "Len equals the number of accepted, undequeued messages")
	for i := 0; i < 3; i++ {
		if m.IsEmpty() {
			break
		}
		vC04_deq(m)
	}
	vAssert(vC04_n == acc, "every accepted message is dequeued exactly once (bounded priority)")
	vCover("end")
}

// priority order (sequential): messages come out by priority, not arrival
func vC04_priorityOrder() {
	m := NewBoundedPriorityMailbox(3, vC04_prio)
	a, b, c := vNondetInt("a"), vNondetInt("b"), vNondetInt("c")
	vAssume(a >= 0 && a < 100 && b >= 0 && b < 100 && c >= 0 && c < 100 && a != b && b != c && a != c)
	_ = m.Enqueue(vC04_ctx(a))
	_ = m.Enqueue(vC04_ctx(b))
	_ = m.Enqueue(vC04_ctx(c))
	vAssert(m.Enqueue(vC04_ctx(7)) != nil, "the fourth message is rejected at capacity 3")
	x := m.Dequeue().message.(int)
	y := m.Dequeue().message.(int)
	z := m.Dequeue().message.(int)
	vAssert(x < y && y < z, "messages are dequeued in priority order")
	vAssert(m.Dequeue() == nil && m.IsEmpty(), "the mailbox is empty afterwards")
	vCover("end")
}
