//go:build verif

package actor

import (
	"context"
	"runtime"
	"time"

	gerrors "github.com/tochemey/goakt/v4/errors"
	"github.com/tochemey/goakt/v4/eventstream"
	"github.com/tochemey/goakt/v4/internal/address"
	"github.com/tochemey/goakt/v4/internal/commands"
	"github.com/tochemey/goakt/v4/log"
	"github.com/tochemey/goakt/v4/supervisor"
)

func init() {
	vRegister("vC07_failure", vC07_failure)
	vRegister("vC07_lookup", vC07_lookup)
}

// ---- environment fakes -------------------------------------------------------------------------------------------------

// the part of the actor system the supervision code talks to: the real actors tree and NoSender
type vC07Sys struct {
	ActorSystem
	t        *tree
	noSender *PID
}

func (s *vC07Sys) tree() *tree        { return s.t }
func (s *vC07Sys) NoSender() *PID     { return s.noSender }
func (s *vC07Sys) isStopping() bool   { return false }
func (s *vC07Sys) Logger() log.Logger { return log.DiscardLogger }

type vC07Told struct {
	from, to *PID
	msg      any
}

var (
	vC07_told      []vC07Told // substituted (*PID).Tell
	vC07_shutdowns []*PID     // substituted (*PID).Shutdown
	vC07_restarts  []*PID     // substituted (*PID).restartChild
	vC07_delays    []time.Duration
	vC07_restartBy []*PID
	vC07_shutFails bool
)

func vC07_tell(pid *PID, ctx context.Context, to *PID, message any) error {
	vC07_told = append(vC07_told, vC07Told{pid, to, message})
	return nil
}

var vC07_errShutdown = gerrors.ErrDead

func vC07_shutdown(pid *PID, ctx context.Context) error {
	vC07_shutdowns = append(vC07_shutdowns, pid)
	if vC07_shutFails {
		return vC07_errShutdown
	}
	pid.setState(runningState, false)
	pid.setState(suspendedState, false)
	return nil
}

func vC07_restartChild(pid *PID, spid *PID, sup *supervisor.Supervisor, delay time.Duration) {
	vC07_restartBy = append(vC07_restartBy, pid)
	vC07_restarts = append(vC07_restarts, spid)
	vC07_delays = append(vC07_delays, delay)
}

// substituted for the package's errorType (reflection; only feeds a debug log line)
func vC07_errorType(err error) string { return supervisor.VC07ErrorType(err) }

func vC07_count(l []*PID, p *PID) int {
	n := 0
	for i := 0; i < len(l); i++ {
		if l[i] == p {
			n++
		}
	}
	return n
}

// ---- configuration domain --------------------------------------------------------------------------------------------

const vC07NTypes = 5 // PanicError, PanicNilError, AnyError (as a thrown error), E1, E2

func vC07_error(t int) error {
	switch t {
	case 0:
		return gerrors.NewPanicError(gerrors.ErrInvalidMessage)
	case 1:
		return &runtime.PanicNilError{}
	case 2:
		return &gerrors.AnyError{}
	case 3:
		return &supervisor.VC07E1{}
	}
	if vNondetBool("e2ByPointer") {
		return &supervisor.VC07E2{}
	}
	return supervisor.VC07E2{}
}

func vC07_noop(*supervisor.Supervisor) {}

type vC07Config struct {
	strategy            supervisor.Strategy
	has                 [vC07NTypes]bool // model of the directive table after NewSupervisor
	dir                 [vC07NTypes]supervisor.Directive
	maxRetries          uint32
	timeout             time.Duration
	initial, max, reset time.Duration
}

// a supervisor built by the real constructor from symbolic options + the reference model of what it must contain
func vC07_supervisor(strategy int) (*supervisor.Supervisor, *vC07Config) {
	c := &vC07Config{}
	c.strategy = supervisor.Strategy(strategy)
	// defaults of NewSupervisor
	c.has[0], c.dir[0] = true, supervisor.StopDirective
	c.has[1], c.dir[1] = true, supervisor.RestartDirective
	var opts [vC07NTypes + 3]supervisor.SupervisorOption
	opts[0] = supervisor.WithStrategy(c.strategy)
	// per-type rules (the AnyError rule goes through WithAnyErrorDirective)
	for t := 0; t < vC07NTypes; t++ {
		opt := supervisor.SupervisorOption(vC07_noop)
		if vNondetBool("hasRule") {
			d := supervisor.Directive(vChoose("directive", 4))
			if t == 2 {
				opt = supervisor.WithAnyErrorDirective(d)
			} else {
				opt = supervisor.WithDirective(vC07_error(t), d)
			}
			c.has[t], c.dir[t] = true, d
		}
		opts[1+t] = opt
	}
	if c.has[2] { // an any-error rule replaces every other rule
		for t := 0; t < vC07NTypes; t++ {
			if t != 2 {
				c.has[t] = false
			}
		}
	}
	opts[vC07NTypes+1] = vC07_noop
	if vNondetBool("withRetry") {
		c.maxRetries = vNondetUint32("maxRetries")
		c.timeout = time.Duration(vNondetInt64("timeout"))
		vAssume(c.timeout > -(1<<40) && c.timeout < 1<<40)
		opts[vC07NTypes+1] = supervisor.WithRetry(c.maxRetries, c.timeout)
	} else {
		c.timeout = -1 // NewSupervisor default
	}
	opts[vC07NTypes+2] = vC07_noop
	if vNondetBool("withBackoff") {
		i, m, r := time.Duration(vNondetInt64("initialDelay")), time.Duration(vNondetInt64("maxDelay")), time.Duration(vNondetInt64("resetAfter"))
		vAssume(i < 1<<40 && i > -(1<<40) && m < 1<<40 && m > -(1<<40) && r < 1<<40 && r > -(1<<40))
		opts[vC07NTypes+2] = supervisor.WithExponentialBackoff(i, m, r)
		if i > 0 { // documented normalisation
			if m < i {
				m = i
			}
			if r <= 0 {
				r = m
			}
			c.initial, c.max, c.reset = i, m, r
		}
	}
	return supervisor.NewSupervisor(opts[:]...), c
}

// the directive the configuration prescribes for an error of type t: its own rule, else the any-error rule, else none
func (c *vC07Config) lookup(t int) (supervisor.Directive, bool) {
	if c.has[t] {
		return c.dir[t], true
	}
	if c.has[2] {
		return c.dir[2], true
	}
	return 0, false
}

// reference backoff for small fault counts: min(initial * 2^(n-1), max), 0 when backoff is off
func vC07_refBackoff(n int64, initial, max time.Duration) time.Duration {
	if initial <= 0 || n < 1 {
		return 0
	}
	d := initial
	for i := int64(1); i < 8; i++ {
		if i < n {
			if d > max/2 {
				return max
			}
			d *= 2
		}
	}
	if d > max {
		return max
	}
	return d
}

// ---- the supervisor's own lookup API ---------------------------------------------------------------------------------------

func vC07_lookup() {
	sup, c := vC07_supervisor(vChoose("strategy", 2))
	vAssert(sup.Strategy() == c.strategy, "Strategy returns the configured strategy")
	vAssert(sup.MaxRetries() == c.maxRetries && sup.Timeout() == c.timeout, "MaxRetries/Timeout return the configured budget")
	vAssert(sup.InitialDelay() == c.initial && sup.MaxDelay() == c.max && sup.BackoffResetAfter() == c.reset, "backoff getters return the configured (normalised) backoff")
	t := vChoose("errType", vC07NTypes)
	d, ok := sup.Directive(vC07_error(t))
	vAssert(ok == c.has[t], "Directive finds a rule exactly for the configured error types")
	if ok {
		vAssert(d == c.dir[t], "Directive returns the directive configured for the error's type")
		vCover("rule-found")
	}
	ad, aok := sup.AnyErrorDirective()
	vAssert(aok == c.has[2] && (!aok || ad == c.dir[2]), "AnyErrorDirective returns the any-error rule")
	rules := sup.Rules()
	n := 0
	for t := 0; t < vC07NTypes; t++ {
		if c.has[t] {
			n++
		}
	}
	vAssert(len(rules) == n, "Rules lists exactly the configured rules")
	if c.has[2] && c.has[2] != c.has[0] {
		vCover("any-error-replaced-defaults")
	}
	vCover("end")
}

// ---- one failure of a child in a small family --------------------------------------------------------------------------

func vC07_pid(sys *vC07Sys, name string) *PID {
	addr := address.New(name, "sys", "host", 9000)
	p := &PID{actor: vC07Actor{}, address: addr, path: newPath(addr), logger: log.DiscardLogger, actorSystem: sys, eventsStream: &vC07Stream{}}
	p.setState(runningState, true)
	return p
}

type vC07Actor struct{}

func (vC07Actor) PreStart(*Context) error { return nil }
func (vC07Actor) Receive(*ReceiveContext) {}
func (vC07Actor) PostStop(*Context) error { return nil }

// minimal events stream (Publish counts suspensions)
type vC07Stream struct{ suspended int }

func (*vC07Stream) AddSubscriber() eventstream.Subscriber      { return nil }
func (*vC07Stream) RemoveSubscriber(eventstream.Subscriber)    {}
func (*vC07Stream) SubscribersCount(string) int                { return 0 }
func (*vC07Stream) Subscribe(eventstream.Subscriber, string)   {}
func (*vC07Stream) Unsubscribe(eventstream.Subscriber, string) {}
func (*vC07Stream) Broadcast(any, []string)                    {}
func (*vC07Stream) Close()                                     {}
func (s *vC07Stream) Publish(topic string, msg any) {
	if _, ok := msg.(*ActorSuspended); ok {
		s.suspended++
	}
}

func vC07_failure() {
	// the family first (everything concrete), then the symbolic configuration
	sys := &vC07Sys{t: newTree()}
	sys.noSender = vC07_pid(sys, "nosender")
	parent := vC07_pid(sys, "parent")
	child := vC07_pid(sys, "child")
	var sib [2]*PID
	nsib := vCase("siblings")
	vAssert(sys.t.addRootNode(parent) == nil, "harness: tree root")
	vAssert(sys.t.addNode(parent, child) == nil, "harness: tree child")
	sibNames := [2]string{"sib0", "sib1"}
	for i := 0; i < nsib; i++ {
		sib[i] = vC07_pid(sys, sibNames[i])
		vAssert(sys.t.addNode(parent, sib[i]) == nil, "harness: tree sibling")
	}
	sup, c := vC07_supervisor(vCase("strategy"))
	child.supervisor = sup
	for i := 0; i < nsib; i++ {
		// a sibling may already be suspended by an earlier failure of its own
		if vNondetBool("siblingSuspended") {
			sib[i].setState(suspendedState, true)
		}
	}
	// arbitrary fault history of the family
	all := [3]*PID{child, sib[0], sib[1]}
	var preCount, preLast [3]int64
	t0 := time.Now().UnixNano()
	for i := 0; i <= nsib; i++ {
		preCount[i], preLast[i] = vNondetInt64("faults"), vNondetInt64("lastFaultAt")
		vAssume(preCount[i] >= 0 && preCount[i] <= 6 && preLast[i] >= 0 && preLast[i] <= t0) // 0 = no fault so far; never in the future
		all[i].consecutiveFaults.Store(preCount[i])
		all[i].lastFaultAtNano.Store(preLast[i])
	}
	wasSuspended := vNondetBool("childAlreadySuspended")
	if wasSuspended {
		child.setState(suspendedState, true)
	}
	vC07_told, vC07_shutdowns, vC07_restarts, vC07_delays, vC07_restartBy = nil, nil, nil, nil, nil
	vC07_shutFails = vNondetBool("shutdownFails")

	// the child's handler fails with an error of type t while handling `message`
	t := vCase("errType")
	err := vC07_error(t)
	message := &vC07Msg{}
	child.notifyParent(newSupervisionSignal(err, message))

	want, found := c.lookup(t)
	// ---- what the child itself does
	if !found {
		vAssert(child.isStateSet(suspendedState) && len(vC07_told) == 0, "no rule and no any-error rule: the child is suspended and the parent is not involved")
		vCover("no-rule")
	} else if want == supervisor.ResumeDirective {
		vAssert(!child.isStateSet(suspendedState) && child.isStateSet(runningState) && len(vC07_told) == 0, "Resume: the child keeps running (a previously suspended one is reinstated), the parent is not involved")
		vAssert(child.isStateSet(passivationSkipNextState), "Resume: the next passivation decision is skipped")
		vCover("resume")
	} else {
		vAssert(child.isStateSet(suspendedState), "Stop/Restart/Escalate: the child is suspended until the parent has decided")
		vAssert(len(vC07_told) == 1, "Stop/Restart/Escalate: exactly one notification is sent")
		if len(vC07_told) == 1 {
			told := vC07_told[0]
			p, isP := told.msg.(*commands.Panicking)
			vAssert(told.from == child && told.to == parent && isP, "the notification is a Panicking message from the child to its parent")
			if isP {
				vAssert(p.Directive == want, "the notification carries the directive configured for the error type (own rule, else any-error rule)")
				vAssert(p.Strategy == c.strategy && p.Supervisor == sup && p.Err == err && p.Message == any(message) && p.Address == child.address,
					"the notification carries the strategy, supervisor, error, failing message and the child's address")
				// ---- what the parent does with it (dispatchOne -> handlePanicking(sender, msg))
				vC07_told = nil
				parent.handlePanicking(told.from, p)
				vC07_parentSide(c, sup, parent, child, sib, nsib, want, preCount, preLast, message, err)
			}
		}
	}
	if !found || want == supervisor.ResumeDirective {
		vAssert(len(vC07_shutdowns) == 0 && len(vC07_restarts) == 0, "no stop and no restart without a Stop/Restart directive")
	}
	vCover("end")
}

type vC07Msg struct{ _ int }

func vC07_parentSide(c *vC07Config, sup *supervisor.Supervisor, parent, child *PID, sib [2]*PID, nsib int, want supervisor.Directive,
	preCount, preLast [3]int64, message any, err error) {
	oneForAll := c.strategy == supervisor.OneForAllStrategy
	all := [3]*PID{child, sib[0], sib[1]}
	switch want {
	case supervisor.StopDirective:
		vAssert(vC07_count(vC07_shutdowns, child) == 1, "Stop: the failing child is stopped exactly once")
		for i := 0; i < nsib; i++ {
			if oneForAll {
				vAssert(vC07_count(vC07_shutdowns, sib[i]) == 1, "Stop under one-for-all: every sibling is stopped exactly once")
				vCover("stop-one-for-all")
			} else {
				vAssert(vC07_count(vC07_shutdowns, sib[i]) == 0, "Stop under one-for-one: siblings are left alone")
			}
		}
		vAssert(len(vC07_restarts) == 0 && len(vC07_told) == 0, "Stop: nothing is restarted or escalated")
		if !vC07_shutFails {
			_, still := vC07_node(parent, child)
			vAssert(!still, "Stop: a stopped child leaves the actors tree")
		}
		vCover("stop")
	case supervisor.RestartDirective:
		// reset window: backoff's resetAfter when configured, else the retry timeout
		window := c.reset
		if window <= 0 {
			window = c.timeout
		}
		// every group member's consecutive-fault counter is bumped (after a reset when its last fault is older than the window)
		group := 1
		if oneForAll {
			group = 1 + nsib
		}
		var faults int64
		for i := 0; i < 3; i++ {
			if i <= nsib {
				now := all[i].lastFaultAtNano.Load()
				got := all[i].consecutiveFaults.Load()
				if i < group {
					exp := preCount[i]
					if window > 0 && preLast[i] > 0 && now-preLast[i] > int64(window) {
						exp = 0
						vCover("fault-counter-reset")
					}
					vAssert(got == exp+1 && now >= preLast[i], "Restart: each group member's consecutive-fault counter is bumped once (reset first when its last fault is older than the window)")
					if i == 0 {
						faults = got
					}
				} else {
					vAssert(got == preCount[i] && now == preLast[i], "Restart under one-for-one: the siblings' fault counters are untouched")
				}
			}
		}
		exhausted := c.maxRetries > 0 && window > 0 && faults > int64(c.maxRetries)
		if exhausted {
			vAssert(len(vC07_restarts) == 0, "Restart with an exhausted budget (positive window): nothing is restarted")
			vAssert(child.isStateSet(suspendedState), "Restart with an exhausted budget: the failing child stays suspended")
			for i := 0; i < nsib; i++ {
				if oneForAll {
					vAssert(sib[i].isStateSet(suspendedState), "exhausted budget under one-for-all: the siblings are suspended too")
				}
			}
			vCover("budget-exhausted")
		} else {
			vAssert(len(vC07_restarts) == group, "Restart: one restart per group member")
			delay := vC07_refBackoff(faults, c.initial, c.max)
			for i := 0; i < 3; i++ {
				if i <= nsib {
					if i < group {
						vAssert(vC07_count(vC07_restarts, all[i]) == 1, "Restart: the failing child (and under one-for-all every sibling) is restarted exactly once")
					} else {
						vAssert(vC07_count(vC07_restarts, all[i]) == 0, "Restart under one-for-one: siblings are not restarted")
					}
				}
			}
			for i := 0; i < len(vC07_delays); i++ {
				vAssert(vC07_delays[i] == delay && vC07_restartBy[i] == parent, "Restart: scheduled by the parent after the backoff delay min(initial*2^(faults-1), max) of the failing child's fault count")
			}
			if delay > 0 && delay < c.max {
				vCover("backoff-growing")
			}
			if oneForAll && nsib > 0 {
				vCover("restart-one-for-all")
			}
			vCover("restart")
		}
		vAssert(len(vC07_shutdowns) == 0 && len(vC07_told) == 0, "Restart: nothing is stopped or escalated")
	case supervisor.EscalateDirective:
		vAssert(len(vC07_told) == 1 && len(vC07_shutdowns) == 0 && len(vC07_restarts) == 0, "Escalate: one signal is sent, nothing is stopped or restarted")
		if len(vC07_told) == 1 {
			sig, isSig := vC07_told[0].msg.(*PanicSignal)
			vAssert(isSig && vC07_told[0].from == child && vC07_told[0].to == parent, "Escalate: a PanicSignal goes from the child to its parent")
			if isSig {
				vAssert(sig.Message() == message, "Escalate: the signal carries the message that failed")
			}
		}
		vAssert(child.isStateSet(suspendedState), "Escalate: the child stays suspended")
		vCover("escalate")
	}
}

func vC07_node(parent, child *PID) (*pidNode, bool) {
	return parent.ActorSystem().tree().node(child.ID())
}
