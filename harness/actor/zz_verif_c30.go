//go:build verif

package actor

import (
	"context"
	"sync"

	"github.com/tochemey/goakt/v4/internal/cluster"
	"github.com/tochemey/goakt/v4/internal/internalpb"
	"github.com/tochemey/goakt/v4/log"
)

func init() {
	vRegister("vC30_twoNodes", vC30_twoNodes)
	vRegister("vC30_reactivation", vC30_reactivation)
	vRegister("vC30_failedActivation", vC30_failedActivation)
}

// ---- fake cluster registry for grains: every operation is atomic (one mutex), as the real olric-backed one
type vC30Registry struct {
	mu     sync.Mutex
	grains map[string]*internalpb.Grain
}

type vC30Cluster struct {
	cluster.Cluster
	reg *vC30Registry
}

func (c *vC30Cluster) GrainExists(ctx context.Context, id string) (bool, error) {
	c.reg.mu.Lock()
	_, ok := c.reg.grains[id]
	c.reg.mu.Unlock()
	return ok, nil
}
func (c *vC30Cluster) GetGrain(ctx context.Context, id string) (*internalpb.Grain, error) {
	c.reg.mu.Lock()
	g, ok := c.reg.grains[id]
	c.reg.mu.Unlock()
	if !ok {
		return nil, cluster.ErrGrainNotFound
	}
	return g, nil
}
func (c *vC30Cluster) PutGrain(ctx context.Context, g *internalpb.Grain) error {
	c.reg.mu.Lock()
	c.reg.grains[g.GetGrainId().GetValue()] = g
	c.reg.mu.Unlock()
	return nil
}
func (c *vC30Cluster) RemoveGrain(ctx context.Context, id string) error {
	c.reg.mu.Lock()
	delete(c.reg.grains, id)
	c.reg.mu.Unlock()
	return nil
}

// substituted for cluster.PutGrainIfAbsent (the real cluster type does this atomically in the store)
func vC30_putIfAbsent(ctx context.Context, cl cluster.Cluster, g *internalpb.Grain) error {
	c := cl.(*vC30Cluster)
	c.reg.mu.Lock()
	defer c.reg.mu.Unlock()
	if _, ok := c.reg.grains[g.GetGrainId().GetValue()]; ok {
		return cluster.ErrGrainAlreadyExists
	}
	c.reg.grains[g.GetGrainId().GetValue()] = g
	return nil
}

var vC30_sysA, vC30_sysB *actorSystem
var vC30_active [2]bool
var vC30_rolledBack bool

func vC30_nodeOf(x *actorSystem) int {
	if x == vC30_sysB {
		return 1
	}
	return 0
}
func vC30_host(x *actorSystem) string {
	if x == vC30_sysB {
		return "b"
	}
	return "a"
}
func vC30_port(x *actorSystem) int { return 1 }

var vC30_procNode map[*grainPID]*actorSystem

func vC30_toWire(pid *grainPID) (*internalpb.Grain, error) {
	x := vC30_procNode[pid]
	return &internalpb.Grain{GrainId: &internalpb.GrainId{Value: "k:g"}, Host: vC30_host(x), Port: 1}, nil
}

func vC30_newSystem(reg *vC30Registry) *actorSystem {
	x := &actorSystem{logger: log.DiscardLogger, name: "sys"}
	x.cluster = &vC30Cluster{reg: reg}
	x.clusterEnabled.Store(true)
	x.started.Store(true)
	return x
}

// one activation attempt as ensureNewGrainProcess performs it: the REAL ownership decision, then (ghost) activation and
// the publication finalizeGrainActivation makes
func vC30_activate(x *actorSystem, id *GrainIdentity, process *grainPID) bool {
	n := vC30_nodeOf(x)
	_, err := x.ensureGrainOwnership(context.Background(), id, process)
	if err != nil {
		return false
	}
	vC30_active[n] = true
	vAssert(!(vC30_active[0] && vC30_active[1]), "a grain is never active on two nodes at the same time")
	w, _ := vC30_toWire(process)
	_ = x.getCluster().PutGrain(context.Background(), w)
	return true
}

// deactivation as grainPID.deactivate leaves the registry: instance gone, cluster record removed
func vC30_deactivate(x *actorSystem) {
	vC30_active[vC30_nodeOf(x)] = false
	_ = x.getCluster().RemoveGrain(context.Background(), "k:g")
}

func vC30_setup() (*GrainIdentity, *grainPID, *grainPID) {
	reg := &vC30Registry{grains: map[string]*internalpb.Grain{}}
	vC30_sysA, vC30_sysB = vC30_newSystem(reg), vC30_newSystem(reg)
	vC30_active = [2]bool{}
	pa, pb := &grainPID{}, &grainPID{}
	vC30_procNode = map[*grainPID]*actorSystem{pa: vC30_sysA, pb: vC30_sysB}
	return &GrainIdentity{kind: "k", name: "g", cachedStr: "k:g"}, pa, pb
}

// two nodes race to activate the same grain identity
func vC30_twoNodes() {
	id, pa, pb := vC30_setup()
	okA, okB := false, false
	vGo("nodeA", func() { okA = vC30_activate(vC30_sysA, id, pa) })
	vGo("nodeB", func() { okB = vC30_activate(vC30_sysB, id, pb) })
	vRun()
	if vAllDone() {
		vCover("all-done")
		vAssert(!(okA && okB), "two nodes never both activate the grain")
		if okA || okB {
			vCover("activated")
		}
	}
	vCover("end")
}

// node A activates, deactivates and activates again while node B tries once
func vC30_reactivation() {
	id, pa, pb := vC30_setup()
	vGo("nodeA", func() {
		if vC30_activate(vC30_sysA, id, pa) {
			vC30_deactivate(vC30_sysA)
			vC30_activate(vC30_sysA, id, pa)
		}
	})
	vGo("nodeB", func() { vC30_activate(vC30_sysB, id, pb) })
	vRun()
	if vAllDone() {
		vCover("all-done")
	}
	vCover("end")
}

// one activation attempt whose OnActivate may fail: the REAL ownership decision, then the outcome as
// finalizeGrainActivation leaves the registry (success: record published; failure: the claim is rolled back only when
// THIS call made it)
func vC30_attempt(x *actorSystem, id *GrainIdentity, process *grainPID, fail bool) bool {
	n := vC30_nodeOf(x)
	claimed, err := x.ensureGrainOwnership(context.Background(), id, process)
	if err != nil {
		return false
	}
	if fail {
		if claimed {
			reg := x.cluster.(*vC30Cluster).reg
			reg.mu.Lock()
			g := reg.grains["k:g"]
			vAssert(g == nil || g.GetHost() == vC30_host(x), "the rollback of a failed activation never removes a registry record that names another node")
			delete(reg.grains, "k:g")
			reg.mu.Unlock()
			vC30_rolledBack = true
		}
		return false
	}
	vC30_active[n] = true
	w, _ := vC30_toWire(process)
	_ = x.getCluster().PutGrain(context.Background(), w)
	return true
}

// activations that may fail on either node; node B tries again after a failure. Nobody deactivates, so at the end the
// registry must name the node that holds the grain (a failed activation must not take another node's record with it)
func vC30_failedActivation() {
	id, pa, pb := vC30_setup()
	failA, failB := vNondetBool("failA"), vNondetBool("failB")
	vC30_rolledBack = false
	vGo("nodeA", func() { vC30_attempt(vC30_sysA, id, pa, failA) })
	vGo("nodeB", func() {
		if !vC30_attempt(vC30_sysB, id, pb, failB) {
			vC30_attempt(vC30_sysB, id, pb, false)
		}
	})
	vRun()
	// (that two nodes can both end up active here when the owner record vanishes between a lost claim and the owner lookup
	// is known finding C30-1: the rollback of a failed activation is a second way for the record to vanish; not re-asserted)
	if vAllDone() {
		vCover("all-done")
		if vC30_rolledBack {
			vCover("rolled-back")
		}
		if vC30_active[1] {
			vCover("B-active")
		}
	}
	vCover("end")
}
