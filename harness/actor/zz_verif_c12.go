//go:build verif

package actor

import (
	"context"
	"time"

	"github.com/tochemey/goakt/v4/eventstream"
	"github.com/tochemey/goakt/v4/internal/address"
	"github.com/tochemey/goakt/v4/log"
	"github.com/tochemey/goakt/v4/passivation"
)

func init() {
	vRegister("vC12_timeInit", vC12_timeInit)
	vRegister("vC12_timeStep", vC12_timeStep)
	vRegister("vC12_timeHistory2", vC12_timeHistory2)
	vRegister("vC12_timeHistory3", vC12_timeHistory3)
	vRegister("vC12_race", vC12_race)
	vRegister("vC12_countInit", vC12_countInit)
	vRegister("vC12_countStep", vC12_countStep)
	vRegister("vC12_countHistory3", vC12_countHistory3)
	vRegister("vC12_countHistory4", vC12_countHistory4)
	vRegister("vC12_countReregister", vC12_countReregister)
	vRegister("vC12_longlived", vC12_longlived)
}

type vC12Actor struct{}

func (vC12Actor) PreStart(*Context) error { return nil }
func (vC12Actor) Receive(*ReceiveContext) {}
func (vC12Actor) PostStop(*Context) error { return nil }

// events stream fake: counts what the runtime publishes
type vC12Stream struct{ suspended, reinstated, passivated int }

func (s *vC12Stream) AddSubscriber() eventstream.Subscriber      { return nil }
func (s *vC12Stream) RemoveSubscriber(eventstream.Subscriber)    {}
func (s *vC12Stream) SubscribersCount(string) int                { return 0 }
func (s *vC12Stream) Subscribe(eventstream.Subscriber, string)   {}
func (s *vC12Stream) Unsubscribe(eventstream.Subscriber, string) {}
func (s *vC12Stream) Broadcast(any, []string)                    {}
func (s *vC12Stream) Close()                                     {}
func (s *vC12Stream) Publish(topic string, msg any) {
	switch msg.(type) {
	case *ActorSuspended:
		s.suspended++
	case *ActorReinstated:
		s.reinstated++
	case *ActorPassivated:
		s.passivated++
	}
}

const vC12Slack = int64(100 * time.Millisecond) // the documented activity-coalescing slack (passivationTouchInterval)

// ---- ghost state (what an observer of the actor knows)
var (
	vC12_T           int64 // configured timeout (time-based)
	vC12_N           int   // configured message count (count-based)
	vC12_lastHandled int64 // clock reading stamped on the latest handled message (0 = none)
	vC12_started     int64 // clock reading when the actor was started
	vC12_sinceReg    int   // messages handled since the latest registration with the manager (PostStart included)
	vC12_postStart   int   // 1 when PostStart is one of them
	vC12_paused      bool  // PausePassivation / suspend seen, no ResumePassivation / reinstate since
	vC12_suspended   bool
	vC12_stopping    bool
	vC12_stops       int
	vC12_kind        int  // 0 time-based, 1 count-based, 2 long-lived
	vC12_known       bool // exclude the known re-registration scenario (it has its own entry)
)

// substituted for (*PID).doStop (which needs a whole actor system): records the stop and leaves the PID as doStop does.
// Reached only through tryPassivation in these harnesses, so every call is a passivation.
func vC12_doStop(pid *PID, ctx context.Context) error {
	tp := time.Now().UnixNano()
	vC12_stops++
	vAssert(vC12_stops == 1, "an actor is passivated (PostStop) at most once")
	vAssert(vC12_kind != 2, "a long-lived actor is never passivated")
	vAssert(!vC12_paused, "an actor is not passivated while passivation is paused")
	vAssert(!vC12_suspended, "an actor is not passivated while suspended")
	vAssert(!vC12_stopping, "an actor is not passivated while stopping")
	if vC12_kind == 0 {
		if vC12_lastHandled != 0 {
			vAssert(tp-vC12_lastHandled >= vC12_T-vC12Slack, "time-based: no message was handled within the last T (minus the 100ms coalescing slack)")
		}
		vAssert(tp-vC12_started >= vC12_T, "time-based: not passivated earlier than T after it was started")
	}
	if vC12_kind == 1 {
		vAssert(vC12_sinceReg-vC12_postStart >= vC12_N, "count-based: at least N user messages were handled since registration")
	}
	pid.setState(runningState, false)
	pid.reset()
	return nil
}

func vC12_newPID(strategy passivation.Strategy) (*PID, *passivationManager, *vC12Stream) {
	addr := address.New("a", "sys", "host", 9000)
	m := newPassivationManager(log.DiscardLogger)
	m.started.Store(true) // started; the harness plays the manager's run loop
	es := &vC12Stream{}
	pid := &PID{actor: vC12Actor{}, address: addr, path: newPath(addr), logger: log.DiscardLogger, mailbox: NewUnboundedMailbox(),
		systemMailbox: NewUnboundedMailbox(), passivationManager: m, eventsStream: es}
	withPassivationStrategy(strategy)(pid)
	bs := newBehaviorStack()
	bs.Push(pid.actor.Receive)
	pid.behaviorStack = bs
	pid.setState(runningState, true)
	vC12_lastHandled, vC12_sinceReg, vC12_postStart = 0, 0, 0
	vC12_paused, vC12_suspended, vC12_stopping, vC12_stops, vC12_known = false, false, false, 0, false
	t0 := time.Now()
	vAssume(t0.UnixNano() >= vC12Slack) // wall clock: far beyond 100ms after the epoch
	vC12_started = t0.UnixNano()
	pid.startPassivation() // as newPID does
	return pid, m, es
}

// what handleReceived does around the user's behavior for one message taken in a turn that started at `now`
func vC12_handle(pid *PID) {
	now := time.Now()
	pid.markActivity(now)
	pid.recordProcessedMessage()
	vC12_lastHandled = now.UnixNano()
	vC12_sinceReg++
}

// one iteration of the manager's run loop that found a time-based entry (the deadline test is trigger's own)
func vC12_wake(m *passivationManager) {
	if e, _ := m.nextEntry(); e != nil {
		m.trigger(e)
	}
}

// one iteration of the manager's run loop that found a message-count trigger
func vC12_drain(m *passivationManager) {
	select {
	case e := <-m.messageTriggers:
		m.processMessageEntry(e)
	default:
	}
}

// observer's bookkeeping for resumePassivation
func vC12_onResume(m *passivationManager) {
	if !vC12_paused && vC12_kind == 1 {
		// not paused: resumePassivation registers the strategy afresh
		if vC12_known {
			vAssume(len(m.messageTriggers) == 0) // known finding C12-2 (see vC12_countReregister)
		}
		vC12_sinceReg, vC12_postStart = 0, 0
		vCover("re-registered")
	}
	vC12_paused = false
}

// 0 message handled, 1 PausePassivation, 2 ResumePassivation, 3 suspend, 4 reinstate, 5 manager wakes (timer/trigger)
func vC12_event(pid *PID, m *passivationManager, ev int) {
	switch ev {
	case 0:
		vC12_handle(pid)
		vCover("handled")
	case 1:
		pid.pausePassivation() // dispatchOne on *PausePassivation
		vC12_paused = true
		vCover("paused")
	case 2:
		vC12_onResume(m)
		pid.resumePassivation() // dispatchOne on *ResumePassivation
		vCover("resumed")
	case 3:
		pid.suspend("failure")
		vC12_suspended, vC12_paused = true, true
		vCover("suspended")
	case 4:
		// doReinstate returns at once unless the actor is suspended (or stopping; reinstating a stopping actor that is not
		// suspended is not part of the event alphabet)
		vAssume(vC12_suspended || !vC12_stopping)
		if vC12_suspended {
			vC12_onResume(m) // doReinstate resumes passivation
			vCover("reinstated")
		}
		pid.doReinstate()
		vC12_suspended = false
	case 5:
		if vC12_kind == 1 {
			vC12_drain(m)
		} else {
			vC12_wake(m)
		}
	}
}

func vC12_after(pid *PID, m *passivationManager, es *vC12Stream) {
	if vC12_stops > 0 {
		vAssert(!pid.isStateSet(runningState), "a passivated actor is no longer running")
		vAssert(len(m.entries) == 0 && len(m.queue) == 0, "a passivated actor is gone from the passivation manager")
		vAssert(es.passivated == 1, "exactly one ActorPassivated event")
		vCover("passivated")
	} else {
		vAssert(pid.isStateSet(runningState), "an actor that was not passivated is still running")
		vAssert(es.passivated == 0, "no ActorPassivated event without passivation")
	}
}

// ---------------------------------------------------------------- time-based

func vC12_bit(b bool, s pidState) uint32 {
	if b {
		return uint32(s)
	}
	return 0
}

// the invariant linking the observer's view, the PID and the manager's entry (time-based); `now` = a clock reading
func vC12_timeInv(pid *PID, m *passivationManager, now int64) bool {
	L, P := pid.latestReceiveTimeNano.Load(), pid.lastPassivationTouch.Load()
	// activity stamps: never in the future, the coalesced stamp lags the latest one by less than the slack
	if !(L <= now && ((L == 0 && P == 0) || (P > 0 && P <= L && L-P < vC12Slack))) {
		return false
	}
	if !(vC12_lastHandled <= L && (L == 0 || L >= vC12_started) && vC12_started <= now) {
		return false
	}
	// flags mirror what happened
	if pid.isStateSet(passivationPausedState) != vC12_paused || pid.isStateSet(suspendedState) != vC12_suspended ||
		pid.isStateSet(stoppingState) != vC12_stopping || !pid.isStateSet(runningState) {
		return false
	}
	e, ok := m.entries[pid.ID()]
	if !ok {
		return len(m.entries) == 0 && len(m.queue) == 0
	}
	if len(m.entries) != 1 || e.target != passivationParticipant(pid) || e.id != pid.ID() || int64(e.timeout) != vC12_T {
		return false
	}
	if _, isTime := e.strategy.(*passivation.TimeBasedStrategy); !isTime {
		return false
	}
	if e.index == -1 {
		return len(m.queue) == 0
	}
	// queued: never while paused, and the deadline is a full timeout after the coalesced activity stamp and after the start
	d := e.deadline.UnixNano()
	return e.index == 0 && len(m.queue) == 1 && m.queue[0] == e && !e.paused && d >= P+vC12_T && d >= vC12_started+vC12_T
}

func vC12_timeSetup() (*PID, *passivationManager, *vC12Stream) {
	vC12_kind = 0
	T := vNondetInt64("timeout")
	vAssume(T > 0 && T < 1<<40)
	vC12_T = T
	return vC12_newPID(passivation.NewTimeBasedStrategy(time.Duration(T)))
}

func vC12_timeInit() {
	pid, m, _ := vC12_timeSetup()
	vAssert(vC12_timeInv(pid, m, time.Now().UnixNano()), "time-based: the invariant holds for a freshly started actor")
	vAssert(len(m.queue) == 1, "a freshly started time-based actor is scheduled")
	vCover("end")
}

// one event from an arbitrary state satisfying the invariant
func vC12_timeStep() {
	pid, m, es := vC12_timeSetup()
	e := m.entries[pid.ID()]
	// arbitrary observer history
	vC12_paused, vC12_suspended, vC12_stopping = vNondetBool("paused"), vNondetBool("suspended"), vNondetBool("stopping")
	vC12_lastHandled = vNondetInt64("lastHandled")
	vAssume(vC12_lastHandled >= 0)
	// arbitrary PID state
	pid.state.Store(uint32(runningState) | vC12_bit(vC12_paused, passivationPausedState) | vC12_bit(vC12_suspended, suspendedState) |
		vC12_bit(vC12_stopping, stoppingState) | vC12_bit(vNondetBool("skipNext"), passivationSkipNextState))
	pid.latestReceiveTimeNano.Store(vNondetInt64("latest"))
	pid.lastPassivationTouch.Store(vNondetInt64("lastTouch"))
	// arbitrary manager state for this actor
	e.paused = vNondetBool("entryPaused")
	e.deadline = time.Unix(0, vNondetInt64("deadline"))
	switch vCase("entry") {
	case 0: // unknown to the manager
		delete(m.entries, pid.ID())
		m.queue = m.queue[:0]
		e.index = -1
		vCover("pre-unregistered")
	case 1: // registered, not queued
		m.queue = m.queue[:0]
		e.index = -1
		vCover("pre-unqueued")
	default:
		vCover("pre-queued")
	}
	now := time.Now().UnixNano()
	vAssume(vC12_timeInv(pid, m, now))
	vC12_event(pid, m, vCase("event"))
	if vC12_stops == 0 {
		vAssert(vC12_timeInv(pid, m, time.Now().UnixNano()), "time-based: every event preserves the invariant")
	}
	vC12_after(pid, m, es)
	vCover("end")
}

// short histories from a freshly started actor: the first two events are chosen by case split, the rest by the solver
func vC12_timeHistory(K int) {
	pid, m, es := vC12_timeSetup()
	for k := 0; k < K; k++ {
		if vC12_stops == 0 { // a passivated actor is dead: the history ends there
			ev := 0
			switch k {
			case 0:
				ev = vCase("e1")
			case 1:
				ev = vCase("e2")
			default:
				ev = vChoose("event", 6)
			}
			vC12_event(pid, m, ev)
		}
	}
	vC12_after(pid, m, es)
	vCover("end")
}

func vC12_timeHistory2() { vC12_timeHistory(2) }
func vC12_timeHistory3() { vC12_timeHistory(3) }

// the window between trigger's deadline test (under the manager's lock) and tryPassivation: a message may be handled there.
// The manager's own passivateFn hook is used to place the message; the hook then does what passivate does.
func vC12_race() {
	pid, m, es := vC12_timeSetup()
	vAssume(vC12_T > int64(time.Second))
	m.passivateFn = func(e *passivationEntry) bool {
		if vNondetBool("messageInTheWindow") {
			vC12_handle(pid)
			vCover("message-in-window")
		}
		return e.target.passivationTry(passivationReason(e))
	}
	if vNondetBool("earlierMessage") {
		vC12_handle(pid)
	}
	vC12_wake(m)
	vC12_after(pid, m, es)
	vCover("end")
}

// ---------------------------------------------------------------- count-based

func vC12_countInv(pid *PID, m *passivationManager) bool {
	if pid.isStateSet(passivationPausedState) != vC12_paused || pid.isStateSet(suspendedState) != vC12_suspended ||
		pid.isStateSet(stoppingState) != vC12_stopping || !pid.isStateSet(runningState) {
		return false
	}
	if !(vC12_postStart >= 0 && vC12_postStart <= 1 && vC12_postStart <= vC12_sinceReg) || len(m.queue) != 0 {
		return false
	}
	e, ok := m.entries[pid.ID()] // a live actor stays registered
	if !ok || len(m.entries) != 1 || e.target != passivationParticipant(pid) || e.id != pid.ID() || e.maxMessages != vC12_N || e.index != -1 {
		return false
	}
	if _, isCount := e.strategy.(*passivation.MessagesCountBasedStrategy); !isCount {
		return false
	}
	C := pid.processedCount.Load()
	// the manager's baseline counts from the registration; a raised trigger means the threshold was reached
	if int64(vC12_sinceReg) != C-e.baseline+1 || e.paused != vC12_paused {
		return false
	}
	if e.pending && C < e.baseline+int64(vC12_N) {
		return false
	}
	queued := len(m.messageTriggers) == 1
	return len(m.messageTriggers) <= 1 && queued == e.enqueued && (!queued || e.pending)
}

func vC12_countSetup() (*PID, *passivationManager, *vC12Stream) {
	vC12_kind = 1
	N := vNondetInt("maxMessages")
	vAssume(N >= 1 && N <= 1<<30)
	vC12_N = N
	return vC12_newPID(passivation.NewMessageCountBasedStrategy(N))
}

func vC12_countInit() {
	pid, m, _ := vC12_countSetup()
	vAssert(vC12_countInv(pid, m), "count-based: the invariant holds for a freshly started actor")
	vC12_handle(pid) // PostStart, fired by newPID right after registration, is counted as a processed message
	vC12_postStart = 1
	vAssert(vC12_countInv(pid, m), "count-based: the invariant holds after PostStart")
	vAssert(len(m.messageTriggers) == 0, "PostStart alone never raises the trigger")
	vCover("end")
}

func vC12_countStep() {
	pid, m, es := vC12_countSetup()
	e := m.entries[pid.ID()]
	vC12_paused, vC12_suspended, vC12_stopping = vNondetBool("paused"), vNondetBool("suspended"), vNondetBool("stopping")
	vC12_sinceReg, vC12_postStart = vNondetInt("sinceReg"), vNondetInt("postStart")
	vAssume(vC12_sinceReg >= 0 && vC12_sinceReg < 1<<40)
	pid.state.Store(uint32(runningState) | vC12_bit(vC12_paused, passivationPausedState) | vC12_bit(vC12_suspended, suspendedState) |
		vC12_bit(vC12_stopping, stoppingState) | vC12_bit(vNondetBool("skipNext"), passivationSkipNextState))
	C := vNondetInt64("processed")
	vAssume(C >= 0 && C < 1<<40)
	pid.processedCount.Store(C)
	e.baseline = vNondetInt64("baseline")
	e.paused, e.pending, e.enqueued = vNondetBool("entryPaused"), vNondetBool("pending"), vNondetBool("enqueued")
	if vCase("entry") == 1 {
		m.messageTriggers <- e
		vCover("pre-trigger-queued")
	}
	vC12_known = true
	vAssume(vC12_countInv(pid, m))
	vC12_event(pid, m, vCase("event"))
	if vC12_stops == 0 {
		vAssert(vC12_countInv(pid, m), "count-based: every event preserves the invariant")
	}
	vC12_after(pid, m, es)
	vCover("end")
}

func vC12_countHistory(K int) {
	pid, m, es := vC12_countSetup()
	vAssume(vC12_N <= 2)
	vC12_handle(pid) // PostStart
	vC12_postStart = 1
	vC12_known = true
	for k := 0; k < K; k++ {
		if vC12_stops == 0 {
			vC12_event(pid, m, vChoose("event", 6))
		}
	}
	vC12_after(pid, m, es)
	vCover("end")
}

func vC12_countHistory3() { vC12_countHistory(3) }
func vC12_countHistory4() { vC12_countHistory(4) }

// the scenario excluded above: the threshold is reached (trigger queued), then a ResumePassivation reaches the actor while it
// is not paused (this registers the strategy afresh: baseline reset), then the manager serves the stale trigger
func vC12_countReregister() {
	pid, m, es := vC12_countSetup()
	vAssume(vC12_N <= 2)
	vC12_handle(pid) // PostStart
	vC12_postStart = 1
	for k := 0; k < 2; k++ {
		if len(m.messageTriggers) == 0 {
			vC12_handle(pid)
		}
	}
	vAssume(len(m.messageTriggers) == 1)
	vC12_sinceReg, vC12_postStart = 0, 0
	pid.resumePassivation()
	vC12_drain(m)
	if vC12_stops > 0 {
		vCover("passivated-by-stale-trigger")
	}
	vAssert(es.passivated == vC12_stops, "one ActorPassivated event per passivation")
	vCover("end")
}

// ---------------------------------------------------------------- long-lived

func vC12_longlived() {
	vC12_kind = 2
	pid, m, es := vC12_newPID(passivation.NewLongLivedStrategy())
	vAssert(len(m.entries) == 0, "a long-lived actor is not registered with the passivation manager")
	for k := 0; k < 3; k++ {
		vC12_event(pid, m, vChoose("event", 6))
	}
	vAssert(!pid.tryPassivation("forced"), "tryPassivation refuses a long-lived actor")
	vAssert(vC12_stops == 0 && es.passivated == 0, "a long-lived actor is never stopped by passivation")
	vAssert(pid.isStateSet(runningState), "a long-lived actor keeps running")
	vCover("end")
}
