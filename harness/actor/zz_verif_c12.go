//go:build verif

package actor

import (
	"context"
	"time"

	"github.com/tochemey/goakt/v4/eventstream"
	"github.com/tochemey/goakt/v4/internal/address"
	"github.com/tochemey/goakt/v4/log"
	"github.com/tochemey/goakt/v4/passivation"
)

func init() {
	vRegister("vC12_time1", vC12_time1)
	vRegister("vC12_time2", vC12_time2)
	vRegister("vC12_time3", vC12_time3)
	vRegister("vC12_time4", vC12_time4)
	vRegister("vC12_time5", vC12_time5)
	vRegister("vC12_time6", vC12_time6)
	vRegister("vC12_race", vC12_race)
	vRegister("vC12_count4", vC12_count4)
	vRegister("vC12_count5", vC12_count5)
	vRegister("vC12_count6", vC12_count6)
	vRegister("vC12_longlived", vC12_longlived)
}

type vC12Actor struct{}

func (vC12Actor) PreStart(*Context) error { return nil }
func (vC12Actor) Receive(*ReceiveContext) {}
func (vC12Actor) PostStop(*Context) error { return nil }

// events stream fake: counts what the runtime publishes
type vC12Stream struct{ suspended, reinstated, passivated int }

func (s *vC12Stream) AddSubscriber() eventstream.Subscriber      { return nil }
func (s *vC12Stream) RemoveSubscriber(eventstream.Subscriber)    {}
func (s *vC12Stream) SubscribersCount(string) int                { return 0 }
func (s *vC12Stream) Subscribe(eventstream.Subscriber, string)   {}
func (s *vC12Stream) Unsubscribe(eventstream.Subscriber, string) {}
func (s *vC12Stream) Broadcast(any, []string)                    {}
func (s *vC12Stream) Close()                                     {}
func (s *vC12Stream) Publish(topic string, msg any) {
	switch msg.(type) {
	case *ActorSuspended:
		s.suspended++
	case *ActorReinstated:
		s.reinstated++
	case *ActorPassivated:
		s.passivated++
	}
}

// ---- ghost state
var (
	vC12_T           int64 // configured timeout (time-based)
	vC12_N           int   // configured message count (count-based)
	vC12_lastHandled int64 // clock reading stamped on the latest handled message (0 = none)
	vC12_registered  int64 // clock reading when the actor was started
	vC12_sinceReg    int   // user messages handled since the latest registration with the manager
	vC12_paused      bool
	vC12_suspended   bool
	vC12_stops       int
	vC12_kind        int // 0 time-based, 1 count-based, 2 long-lived
)

// substituted for (*PID).doStop (which needs a whole actor system): records the stop and leaves the PID as doStop does.
// Reached only through tryPassivation in these harnesses, so every call is a passivation.
func vC12_doStop(pid *PID, ctx context.Context) error {
	tp := time.Now().UnixNano()
	vC12_stops++
	vAssert(vC12_stops == 1, "an actor is passivated (PostStop) at most once")
	vAssert(vC12_kind != 2, "a long-lived actor is never passivated")
	vAssert(!vC12_paused, "an actor is not passivated while passivation is paused")
	vAssert(!vC12_suspended, "an actor is not passivated while suspended")
	if vC12_kind == 0 {
		if vC12_lastHandled != 0 {
			vAssert(tp-vC12_lastHandled >= vC12_T-int64(100*time.Millisecond), "time-based: no message was handled within the last T (minus the 100ms coalescing slack)")
		}
		vAssert(tp-vC12_registered >= vC12_T, "time-based: not passivated earlier than T after it was started")
	}
	if vC12_kind == 1 {
		vAssert(vC12_sinceReg >= vC12_N, "count-based: at least N user messages were handled since registration")
	}
	pid.setState(runningState, false)
	pid.reset()
	return nil
}

func vC12_newPID(strategy passivation.Strategy) (*PID, *passivationManager, *vC12Stream) {
	addr := address.New("a", "sys", "host", 9000)
	m := newPassivationManager(log.DiscardLogger)
	m.started.Store(true) // started; the harness plays the manager's run loop
	es := &vC12Stream{}
	pid := &PID{actor: vC12Actor{}, address: addr, path: newPath(addr), logger: log.DiscardLogger, mailbox: NewUnboundedMailbox(),
		systemMailbox: NewUnboundedMailbox(), passivationManager: m, eventsStream: es}
	withPassivationStrategy(strategy)(pid)
	bs := newBehaviorStack()
	bs.Push(pid.actor.Receive)
	pid.behaviorStack = bs
	pid.setState(runningState, true)
	vC12_lastHandled, vC12_sinceReg, vC12_paused, vC12_suspended, vC12_stops = 0, 0, false, false, 0
	t0 := time.Now()
	vAssume(t0.UnixNano() > 0)
	vC12_registered = t0.UnixNano()
	pid.startPassivation() // as newPID does
	return pid, m, es
}

// what handleReceived does around the user's behavior for one message taken in a turn that started at `now`
func vC12_handle(pid *PID, user bool) {
	now := time.Now()
	pid.markActivity(now)
	pid.recordProcessedMessage()
	vC12_lastHandled = now.UnixNano()
	if user {
		vC12_sinceReg++
	}
}

// one iteration of the manager's run loop that found a time-based entry (the deadline test is trigger's own)
func vC12_wake(m *passivationManager) {
	if e, _ := m.nextEntry(); e != nil {
		m.trigger(e)
	}
}

// one iteration of the manager's run loop that found a message-count trigger
func vC12_drain(m *passivationManager) {
	select {
	case e := <-m.messageTriggers:
		m.processMessageEntry(e)
	default:
	}
}

// 0 message handled, 1 PausePassivation, 2 ResumePassivation, 3 suspend, 4 reinstate, 5 manager wakes (timer/trigger)
func vC12_event(pid *PID, m *passivationManager) {
	switch vChoose("event", 6) {
	case 0:
		vC12_handle(pid, true)
		vCover("handled")
	case 1:
		pid.pausePassivation() // dispatchOne on *PausePassivation
		vC12_paused = true
		vCover("paused")
	case 2:
		wasPaused := vC12_paused
		pid.resumePassivation() // dispatchOne on *ResumePassivation
		vC12_paused = false
		if !wasPaused && vC12_kind == 1 {
			vC12_sinceReg = 0 // not paused: resumePassivation registers the strategy afresh
		}
		vCover("resumed")
	case 3:
		pid.suspend("failure")
		vC12_suspended, vC12_paused = true, true
		vCover("suspended")
	case 4:
		if vC12_suspended {
			vCover("reinstated")
			vC12_paused = false // doReinstate resumes passivation
		}
		pid.doReinstate()
		vC12_suspended = false
	case 5:
		if vC12_kind == 1 {
			vC12_drain(m)
		} else {
			vC12_wake(m)
		}
	}
}

func vC12_after(pid *PID, m *passivationManager, es *vC12Stream) {
	if vC12_stops > 0 {
		vAssert(!pid.isStateSet(runningState), "a passivated actor is no longer running")
		vAssert(len(m.entries) == 0 && len(m.queue) == 0, "a passivated actor is gone from the passivation manager")
		vAssert(es.passivated == 1, "exactly one ActorPassivated event")
		vCover("passivated")
	} else {
		vAssert(pid.isStateSet(runningState), "an actor that was not passivated is still running")
		vAssert(es.passivated == 0, "no ActorPassivated event without passivation")
	}
}

func vC12_time(K int) {
	vC12_kind = 0
	T := vNondetInt64("timeout")
	vAssume(T > 0 && T < 1<<40)
	vC12_T = T
	pid, m, es := vC12_newPID(passivation.NewTimeBasedStrategy(time.Duration(T)))
	for k := 0; k < K; k++ {
		if vC12_stops == 0 { // a passivated actor is dead: the history ends there
			vC12_event(pid, m)
		}
	}
	vC12_after(pid, m, es)
	vCover("end")
}

func vC12_time1() { vC12_time(1) }
func vC12_time2() { vC12_time(2) }
func vC12_time3() { vC12_time(3) }
func vC12_time4() { vC12_time(4) }
func vC12_time5() { vC12_time(5) }
func vC12_time6() { vC12_time(6) }

// the window between trigger's deadline test (under the manager's lock) and tryPassivation: a message may be handled there.
// The manager's own passivateFn hook is used to place the message; the hook then does what passivate does.
func vC12_race() {
	vC12_kind = 0
	T := vNondetInt64("timeout")
	vAssume(T > int64(time.Second) && T < 1<<40)
	vC12_T = T
	pid, m, es := vC12_newPID(passivation.NewTimeBasedStrategy(time.Duration(T)))
	m.passivateFn = func(e *passivationEntry) bool {
		if vNondetBool("messageInTheWindow") {
			vC12_handle(pid, true)
			vCover("message-in-window")
		}
		return e.target.passivationTry(passivationReason(e))
	}
	if vNondetBool("earlierMessage") {
		vC12_handle(pid, true)
	}
	vC12_wake(m)
	vC12_after(pid, m, es)
	vCover("end")
}

func vC12_count(K int) {
	vC12_kind = 1
	N := vNondetInt("maxMessages")
	vAssume(N >= 1 && N <= 3)
	vC12_N = N
	pid, m, es := vC12_newPID(passivation.NewMessageCountBasedStrategy(N))
	vC12_handle(pid, false) // PostStart, fired by newPID right after registration, is counted as a processed message
	for k := 0; k < K; k++ {
		if vC12_stops == 0 { // a passivated actor is dead: the history ends there
			vC12_event(pid, m)
		}
	}
	vC12_after(pid, m, es)
	vCover("end")
}

func vC12_count4() { vC12_count(4) }
func vC12_count5() { vC12_count(5) }
func vC12_count6() { vC12_count(6) }

func vC12_longlived() {
	vC12_kind = 2
	pid, m, es := vC12_newPID(passivation.NewLongLivedStrategy())
	vAssert(len(m.entries) == 0, "a long-lived actor is not registered with the passivation manager")
	for k := 0; k < 3; k++ {
		vC12_event(pid, m)
	}
	vAssert(!pid.tryPassivation("forced"), "tryPassivation refuses a long-lived actor")
	vAssert(vC12_stops == 0 && es.passivated == 0, "a long-lived actor is never stopped by passivation")
	vAssert(pid.isStateSet(runningState), "a long-lived actor keeps running")
	vCover("end")
}
