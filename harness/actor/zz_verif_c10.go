//go:build verif

package actor

import (
	"context"

	"github.com/tochemey/goakt/v4/log"
)

func init() {
	vRegister("vC10_step", vC10_step)
}

// ---- shared by C09/C10: PIDs living in a real tree of a bare actor system ----------------------------------

type vTSent struct {
	from, to *PID
	msg      any
}

var vT_sent []vTSent

// substituted for (*PID).Tell: records the message (the real Tell would put it into the receiver's mailbox)
func vT_tell(pid *PID, ctx context.Context, to *PID, message any) error {
	vT_sent = append(vT_sent, vTSent{from: pid, to: to, msg: message})
	return nil
}

// substituted for (*PID).Equals (case-insensitive comparison of the two IDs, strings.EqualFold): exact comparison of the
// IDs. The harness IDs are distinct lower-case constants, so both agree on them.
func vT_equals(pid *PID, to *PID) bool {
	if pid == nil && to == nil {
		return true
	}
	if pid == nil || to == nil {
		return false
	}
	return pid.ID() == to.ID()
}

func vT_newSystem() *actorSystem {
	sys := &actorSystem{actors: newTree(), remoteWatches: newRemoteWatchRegistry(), logger: log.DiscardLogger}
	sys.noSender = vT_mkPID(sys, "nosender")
	return sys
}

// a running local PID with a constant path (what newPID derives from the address)
func vT_mkPID(sys *actorSystem, name string) *PID {
	id := "/" + name
	p := &PID{path: &path{host: "host", port: 1, name: name, system: "sys", cachedStr: id, cachedHostPort: "host:1"},
		actorSystem: sys, logger: log.DiscardLogger}
	p.setState(runningState, true)
	return p
}

func vT_contains(list []*PID, x *PID) bool {
	found := false
	for i := 0; i < len(list) && i < 6; i++ {
		if list[i] == x {
			found = true
		}
	}
	return found
}

// number of Terminated messages naming `dead` that `dead` sent to `w`
func vT_terminatedTo(w, dead *PID) int {
	c := 0
	for i := 0; i < len(vT_sent) && i < 12; i++ {
		s := vT_sent[i]
		if t, ok := s.msg.(*Terminated); ok && s.to == w && s.from == dead && t.ActorPath() != nil && t.ActorPath().Equals(dead.Path()) {
			c++
		}
	}
	return c
}

// ---- C10 ----------------------------------------------------------------------------------------------------

// root with three children in an ARBITRARY watch relation (built with the real addWatcher/removeWatcher, concrete
// arguments under symbolic guards so that the tree's map keys stay concrete); one arbitrary Watch or UnWatch; then one of
// the four actors terminates (freeWatchers, the step of doStop that notifies) while every other actor is in an arbitrary
// liveness state. An arbitrary relation followed by one operation covers operation sequences of any length.
func vC10_step() {
	sys := vT_newSystem()
	tr := sys.tree()
	var p [4]*PID
	p[0] = vT_mkPID(sys, "root")
	p[1], p[2], p[3] = vT_mkPID(sys, "a"), vT_mkPID(sys, "b"), vT_mkPID(sys, "c")
	vAssert(tr.addRootNode(p[0]) == nil, "root registers")
	for i := 1; i < 4; i++ {
		vAssert(tr.addNode(p[0], p[i]) == nil, "child registers")
	}
	var model [4][4]bool // model[w][t]: w watches t
	for w := 0; w < 4; w++ {
		for t := 0; t < 4; t++ {
			if w == t {
				continue
			}
			model[w][t] = vNondetBool("watches")
			parentDefault := w == 0 // addNode made the parent watch its child
			if model[w][t] && !parentDefault {
				tr.addWatcher(p[t], p[w])
			}
			if !model[w][t] && parentDefault {
				tr.removeWatcher(p[t], p[w])
			}
		}
	}
	// one arbitrary operation
	ww, tt := vChoose("watcher", 4), vChoose("watchee", 4)
	vAssume(ww != tt)
	un := vNondetBool("unwatch")
	for w := 0; w < 4; w++ {
		for t := 0; t < 4; t++ {
			if w != t && w == ww && t == tt {
				if un {
					p[w].UnWatch(p[t])
					model[w][t] = false
					vCover("unwatch")
				} else {
					p[w].Watch(p[t])
					model[w][t] = true
					vCover("watch")
				}
			}
		}
	}
	// the tree's relation is the model's, in both directions
	for t := 0; t < 4; t++ {
		ws := tr.watchers(p[t])
		es := tr.watchees(p[t])
		for w := 0; w < 4; w++ {
			if w != t {
				vAssert(vT_contains(ws, p[w]) == model[w][t], "watchers(t) holds exactly the actors that watched t and did not unwatch it since")
				vAssert(vT_contains(es, p[w]) == model[t][w], "watchees(w) mirrors watchers(t)")
			}
		}
	}
	// liveness of the bystanders: 0 running, 1 stopped, 2 suspended, 3 stopping, 4 passivating
	var mode [4]int
	for w := 0; w < 4; w++ {
		mode[w] = vChoose("state", 5)
		switch mode[w] {
		case 1:
			p[w].setState(runningState, false)
		case 2:
			p[w].setState(suspendedState, true)
		case 3:
			p[w].setState(stoppingState, true)
		case 4:
			p[w].setState(passivatingState, true)
		}
	}
	t := vCase("terminating")
	vC10_terminate(tr, &p, t, &model, &mode)
	vCover("end")
}

func vC10_terminate(tr *tree, p *[4]*PID, t int, model *[4][4]bool, mode *[4]int) {
	dead := p[t]
	vT_sent = nil
	dead.freeWatchers(context.Background())
	expected := 0
	for w := 0; w < 4; w++ {
		if w == t {
			continue
		}
		got := vT_terminatedTo(p[w], dead)
		if model[w][t] && mode[w] == 0 {
			vAssert(got == 1, "a running watcher that did not unwatch receives exactly one Terminated naming the dead actor")
			expected++
			vCover("notified")
		} else if !model[w][t] {
			vAssert(got == 0, "an actor that never watched, or unwatched before the termination, receives no Terminated")
			vCover("not-watching")
		} else {
			vAssert(got == 0, "a watcher that is not running receives nothing")
			vCover("watcher-not-running")
		}
	}
	vAssert(len(vT_sent) == expected, "no other message is sent")
	// the notified pairs left the relation, so a second termination path cannot notify again
	for w := 0; w < 4; w++ {
		if w != t && model[w][t] && mode[w] == 0 {
			vAssert(!vT_contains(tr.watchers(dead), p[w]) && !vT_contains(tr.watchees(p[w]), dead), "after the notification the pair is no longer in the watch relation")
		}
	}
	vT_sent = nil
	dead.freeWatchers(context.Background())
	vAssert(len(vT_sent) == 0, "running freeWatchers again (another termination path) notifies nobody a second time")
}
