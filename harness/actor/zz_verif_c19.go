//go:build verif

package actor

import (
	"context"
	"errors"
	"time"

	"github.com/reugn/go-quartz/quartz"
	"go.uber.org/atomic"

	gerrors "github.com/tochemey/goakt/v4/errors"
	"github.com/tochemey/goakt/v4/internal/cluster"
	"github.com/tochemey/goakt/v4/internal/xsync"
	"github.com/tochemey/goakt/v4/log"
)

func init() {
	vRegister("vC19_book", vC19_book)
	vRegister("vC19_claim", vC19_claim)
	vRegister("vC19_ttl", vC19_ttl)
	vRegister("vC19_cron", vC19_cron)
}

// ---------------------------------------------------------------------------------------------
// quartz stand-in: a keyed job set that refuses duplicate keys like go-quartz (timing is go-quartz's business and outside the claim)
// ---------------------------------------------------------------------------------------------
type vC19Quartz struct {
	keys    [4]*quartz.JobKey
	jobs    [4]quartz.Job
	present [4]bool
	paused  [4]bool
	deletes int
}

var vC19_errNoJob = errors.New("verif: job not found")

func (q *vC19Quartz) find(k *quartz.JobKey) int {
	for i := 0; i < 4; i++ {
		if q.present[i] && q.keys[i].Equals(k) {
			return i
		}
	}
	return -1
}
func (q *vC19Quartz) Start(context.Context) {}
func (q *vC19Quartz) IsStarted() bool       { return true }
func (q *vC19Quartz) ScheduleJob(d *quartz.JobDetail, t quartz.Trigger) error {
	i := q.find(d.JobKey())
	if i >= 0 {
		return quartz.ErrJobAlreadyExists // like go-quartz: a key that is still queued is refused, the queued job stays
	}
	if i < 0 {
		for j := 3; j >= 0; j-- {
			if !q.present[j] {
				i = j
			}
		}
	}
	if i < 0 {
		return errors.New("verif: job set full")
	}
	q.keys[i], q.jobs[i], q.present[i], q.paused[i] = d.JobKey(), d.Job(), true, false
	return nil
}
func (q *vC19Quartz) GetJobKeys(...quartz.Matcher[quartz.ScheduledJob]) ([]*quartz.JobKey, error) {
	return nil, nil
}
func (q *vC19Quartz) GetScheduledJob(k *quartz.JobKey) (quartz.ScheduledJob, error) {
	if q.find(k) < 0 {
		return nil, quartz.ErrJobNotFound
	}
	return nil, nil
}
func (q *vC19Quartz) DeleteJob(k *quartz.JobKey) error {
	q.deletes++
	i := q.find(k)
	if i < 0 {
		return vC19_errNoJob
	}
	q.present[i] = false
	return nil
}
func (q *vC19Quartz) PauseJob(k *quartz.JobKey) error {
	i := q.find(k)
	if i < 0 {
		return vC19_errNoJob
	}
	q.paused[i] = true
	return nil
}
func (q *vC19Quartz) ResumeJob(k *quartz.JobKey) error {
	i := q.find(k)
	if i < 0 {
		return vC19_errNoJob
	}
	q.paused[i] = false
	return nil
}
func (q *vC19Quartz) Clear() error         { return nil }
func (q *vC19Quartz) Wait(context.Context) {}
func (q *vC19Quartz) Stop()                {}

// ---------------------------------------------------------------------------------------------
// deliveries: (*PID).Tell is substituted by a recorder
// ---------------------------------------------------------------------------------------------
var (
	vC19_tells    int
	vC19_tellTo   *PID
	vC19_tellMsg  any
	vC19_tellFrom *PID
	vC19_tellErr  error
)

func vC19_tell(pid *PID, ctx context.Context, to *PID, message any) error {
	vC19_tells++
	vC19_tellFrom, vC19_tellTo, vC19_tellMsg = pid, to, message
	return vC19_tellErr
}

func vC19_newScheduler(sys *actorSystem, q quartz.Scheduler, started bool) *scheduler {
	return &scheduler{
		started:         atomic.NewBool(started),
		quartzScheduler: q,
		logger:          log.DiscardLogger,
		scheduledKeys:   xsync.NewMap[string, *quartz.JobKey](),
		scheduledMeta:   xsync.NewMap[string, *scheduleMeta](),
		actorSystem:     sys,
	}
}

func vC19_ref(i int) string {
	if i == 0 {
		return "ref-a"
	}
	return "ref-b"
}

type vC19Msg struct{ id int }

// ---------------------------------------------------------------------------------------------
// bookkeeping: K operations over two references against "the set of references that are scheduled and not cancelled"
// ---------------------------------------------------------------------------------------------
func vC19_book() {
	sys := &actorSystem{noSender: &PID{}}
	q := &vC19Quartz{}
	started := vNondetBool("started")
	s := vC19_newScheduler(sys, q, started)
	target := &PID{}
	var live, paused [2]bool
	K := vCase("ops")
	for k := 0; k < K; k++ {
		op := vChoose("op", 6)
		r := vChoose("ref", 2)
		ref := vC19_ref(r)
		switch op {
		case 0, 1:
			var err error
			if op == 0 {
				err = s.ScheduleOnce(&vC19Msg{k}, target, time.Second, WithReference(ref))
			} else {
				err = s.Schedule(&vC19Msg{k}, target, time.Second, WithReference(ref))
			}
			if started && live[r] {
				vAssert(err != nil, "registering a reference that is still scheduled is refused")
				vCover("duplicate-refused")
			} else if started {
				vAssert(err == nil, "scheduling on a started scheduler succeeds")
				live[r], paused[r] = true, false
				vCover("scheduled")
			} else {
				vAssert(errors.Is(err, gerrors.ErrSchedulerNotStarted), "scheduling on a stopped scheduler is refused")
			}
		case 2:
			err := s.CancelSchedule(ref)
			switch {
			case !started:
				vAssert(errors.Is(err, gerrors.ErrSchedulerNotStarted), "cancel on a stopped scheduler is refused")
			case live[r]:
				vAssert(err == nil, "cancelling a live schedule succeeds")
				vCover("cancelled")
			default:
				vAssert(errors.Is(err, gerrors.ErrScheduledReferenceNotFound), "cancelling an unknown or already cancelled reference reports ErrScheduledReferenceNotFound")
				vCover("cancel-unknown")
			}
			live[r] = false
			_, known := s.scheduledKeys.Get(ref)
			_, meta := s.scheduledMeta.Get(ref)
			vAssert(!known && !meta, "cancel removes the reference from the bookkeeping")
			vAssert(q.find(quartz.NewJobKey(ref)) < 0, "after cancel returns the job is no longer scheduled (nothing further can be fired for it)")
		case 3, 4:
			var err error
			if op == 3 {
				err = s.PauseSchedule(ref)
			} else {
				err = s.ResumeSchedule(ref)
			}
			switch {
			case !started:
				vAssert(errors.Is(err, gerrors.ErrSchedulerNotStarted), "pause/resume on a stopped scheduler is refused")
			case live[r]:
				vAssert(err == nil, "pausing/resuming a live schedule succeeds")
				paused[r] = op == 3
				i := q.find(quartz.NewJobKey(ref))
				vAssert(i >= 0 && q.paused[i] == paused[r], "pause/resume reaches exactly the job of that reference")
				vCover("paused-or-resumed")
			default:
				vAssert(errors.Is(err, gerrors.ErrScheduledReferenceNotFound), "pausing/resuming an unknown or cancelled reference reports ErrScheduledReferenceNotFound")
			}
		default:
			infos := s.ListSchedules()
			n := 0
			for i := 0; i < 2; i++ {
				if live[i] && started {
					n++
				}
			}
			vAssert(len(infos) == n, "ListSchedules lists exactly the live schedules")
		}
		// the reference operated on stays manageable exactly while its job is scheduled
		_, knownR := s.scheduledKeys.Get(ref)
		vAssert(knownR == live[r], "a reference stays known to cancel/pause/resume exactly while its job is scheduled (a refused duplicate registration does not orphan the running job)")
		vAssert((q.find(quartz.NewJobKey(ref)) >= 0) == live[r], "a job is queued exactly for a live reference")
		// the other reference is never affected
		o := 1 - r
		_, known := s.scheduledKeys.Get(vC19_ref(o))
		vAssert(known == live[o], "an operation on one reference leaves the other reference's bookkeeping alone")
		vAssert((q.find(quartz.NewJobKey(vC19_ref(o))) >= 0) == live[o], "an operation on one reference leaves the other reference's job alone")
	}
	// firing whatever is still scheduled delivers exactly the scheduled message, once per fire
	for i := 0; i < 2; i++ {
		j := q.find(quartz.NewJobKey(vC19_ref(i)))
		vAssert((j >= 0) == live[i], "a job is scheduled exactly for the live references")
		if j >= 0 {
			vC19_tells, vC19_tellErr = 0, nil
			err := q.jobs[j].Execute(&vC19Ctx{})
			vAssert(err == nil && vC19_tells == 1 && vC19_tellTo == target && vC19_tellFrom == sys.noSender, "one fire = exactly one Tell to the target, from the no-sender PID")
			vCover("fired")
		}
	}
	vCover("end")
}

// ---------------------------------------------------------------------------------------------
// cluster cron tick: N nodes fire the same schedule; real makeJobFn + claimClusterFire + cluster.ClaimScheduleFire
// over one shared put-if-absent registry. The registry access is a single atomic storage operation per node, so the
// interleavings of the nodes are the orders of these operations - the harness runs the nodes in an arbitrary order.
// ---------------------------------------------------------------------------------------------
type vC19Ctx struct {
	hasMeta bool
	runTime int64
}

func (c *vC19Ctx) Deadline() (time.Time, bool) { return time.Time{}, false }
func (c *vC19Ctx) Done() <-chan struct{}       { return nil }
func (c *vC19Ctx) Err() error                  { return nil }
func (c *vC19Ctx) Value(k any) any {
	if k == quartz.JobMetadataContextKey && c.hasMeta {
		return quartz.JobMetadata{RunTime: c.runTime}
	}
	return nil
}

var (
	vC19_regKeys    [4]string
	vC19_regN       int
	vC19_regFail    bool
	vC19_errStorage = errors.New("verif: storage failure")

	vC19_otherFormats bool
)

func vC19_regPut(key string) error {
	if vC19_regFail {
		return vC19_errStorage
	}
	for i := 0; i < 4; i++ {
		if i < vC19_regN && vC19_regKeys[i] == key {
			return cluster.VC19ErrKeyFound
		}
	}
	vC19_regKeys[vC19_regN] = key
	vC19_regN++
	return nil
}

// substituted for fmt.Sprintf in this entry: exact for the one format and the two tick times that occur (asserted)
func vC19_sprintf(format string, a ...any) string {
	if vC19_otherFormats && (format != scheduleFireClaimKeyFormat || len(a) != 2) {
		return "verif-other-text" // descriptions etc. formatted by go-quartz constructors (vC19_cron only)
	}
	vAssert(format == scheduleFireClaimKeyFormat && len(a) == 2, "only the claim key is formatted (harness sanity)")
	ref, _ := a[0].(string)
	rt, _ := a[1].(int64)
	vAssert(rt == vC19_tick(0) || rt == vC19_tick(1), "only the two tick times occur (harness sanity)")
	if rt == vC19_tick(0) {
		return ref + "@1000000000000"
	}
	return ref + "@1060000000000"
}

func vC19_tick(i int) int64 {
	if i == 0 {
		return 1000000000000
	}
	return 1060000000000
}

func vC19_claim() {
	N := vCase("nodes")
	vC19_otherFormats = false
	cluster.VC19Put = vC19_regPut
	vC19_regN, vC19_regFail = 0, false
	ttl := time.Duration(vNondetInt64("ttl"))
	vAssume(ttl >= minScheduleFireClaimTTL && ttl <= maxScheduleFireClaimTTL)
	target := &PID{}
	msg := &vC19Msg{1}
	var told [2]int // deliveries per tick
	sawStale, sawLost, sawErr := false, false, false
	for n := 0; n < N; n++ {
		running := vNondetBool("engineRunning")
		hasCluster := vNondetBool("hasCluster")
		sys := &actorSystem{noSender: &PID{}}
		if hasCluster {
			sys.cluster = cluster.VC19NewCluster(running)
		}
		s := vC19_newScheduler(sys, &vC19Quartz{}, true)
		claim := &scheduleFireClaim{reference: "cron-1", ttl: ttl}
		job := s.makeJobFn(target, msg, newScheduleConfig(WithReference("cron-1")), claim)
		t := vChoose("tick", 2)
		hasMeta := vNondetBool("hasMetadata")
		vC19_regFail = vNondetBool("storageFails")
		// the node handles the tick `lag` after its scheduled time
		before := time.Now().UnixNano()
		vC19_tells, vC19_tellErr = 0, nil
		ok, err := job(&vC19Ctx{hasMeta: hasMeta, runTime: vC19_tick(t)})
		after := time.Now().UnixNano()
		vAssert(vC19_tells <= 1, "one fire delivers at most once")
		if vC19_tells == 1 {
			vAssert(vC19_tellTo == target && vC19_tellMsg == any(msg) && ok && err == nil, "a delivery is the scheduled message to the scheduled target")
		}
		if !hasMeta {
			vAssert(vC19_tells == 1, "without tick metadata the node fails open and delivers")
			vCover("fail-open")
			continue
		}
		if before-vC19_tick(t) > int64(ttl) {
			vAssert(vC19_tells == 0 && err == nil, "a tick older than the claim ttl is skipped without claiming")
			sawStale = true
			continue
		}
		if after-vC19_tick(t) <= int64(ttl) {
			if !hasCluster {
				vAssert(vC19_tells == 0 && errors.Is(err, gerrors.ErrClusterDisabled), "no cluster engine => no delivery, ErrClusterDisabled")
				continue
			}
			if !running || vC19_regFail {
				vAssert(vC19_tells == 0 && err != nil && !ok, "a failed claim (engine down, storage failure) never delivers and reports the error")
				sawErr = true
				continue
			}
			if vC19_tells == 0 {
				vAssert(ok && err == nil && told[t] == 1, "a node skips silently only when another node already delivered this tick")
				sawLost = true
			}
		}
		told[t] += vC19_tells
	}
	vAssert(told[0] <= 1 && told[1] <= 1, "each tick is delivered at most once across all nodes")
	if told[0] == 1 && told[1] == 1 {
		vCover("both-ticks-delivered")
	}
	if sawStale {
		vCover("stale-skipped")
	}
	if sawLost {
		vCover("claim-lost")
	}
	if sawErr {
		vCover("claim-error")
	}
	vCover("end")
}

// ---------------------------------------------------------------------------------------------
// cronClaimTTL is always within [1 min, 24 h]
// ---------------------------------------------------------------------------------------------
type vC19Trigger struct {
	first, second int64
	err1, err2    bool
	calls         int
}

func (t *vC19Trigger) NextFireTime(prev int64) (int64, error) {
	t.calls++
	if t.calls == 1 {
		if t.err1 {
			return 0, errors.New("verif: no next fire time")
		}
		return t.first, nil
	}
	if t.err2 {
		return 0, errors.New("verif: no next fire time")
	}
	return t.second, nil
}
func (t *vC19Trigger) Description() string { return "verif" }

func vC19_ttl() {
	tr := &vC19Trigger{first: vNondetInt64("first"), second: vNondetInt64("second"), err1: vNondetBool("err1"), err2: vNondetBool("err2")}
	d := cronClaimTTL(tr)
	vAssert(d >= time.Minute && d <= 24*time.Hour, "the claim ttl is within [1 min, 24 h]")
	if !tr.err1 && !tr.err2 && tr.second-tr.first >= int64(time.Minute) && tr.second-tr.first <= int64(24*time.Hour) && tr.second >= tr.first {
		vAssert(int64(d) == tr.second-tr.first, "inside the bounds the ttl is the trigger period")
		vCover("period")
	}
	vCover("end")
}

// ---------------------------------------------------------------------------------------------
// registration: the real ScheduleWithCron on a node whose cluster engine is wired but whose actor system has not
// finished starting must still register a CLAIMING schedule (go-quartz's cron parser is substituted: a trigger
// firing every minute). The registered job is then fired twice for the same tick (two handlings racing on the
// shared registry): at most one delivery.
// ---------------------------------------------------------------------------------------------
// substituted for quartz.NewCronTriggerWithLoc
func vC19_newCron(expression string, location *time.Location) (*quartz.CronTrigger, error) {
	return &quartz.CronTrigger{}, nil
}

// substituted for (*quartz.CronTrigger).NextFireTime
func vC19_cronNext(ct *quartz.CronTrigger, prev int64) (int64, error) {
	return prev + int64(time.Minute), nil
}

func vC19_cron() {
	vC19_otherFormats = true
	cluster.VC19Put = vC19_regPut
	vC19_regN, vC19_regFail = 0, false
	sys := &actorSystem{noSender: &PID{}}
	sys.cluster = cluster.VC19NewCluster(true)
	if vNondetBool("systemStarted") {
		sys.started.Store(true)
		sys.clusterEnabled.Store(true)
	}
	q := &vC19Quartz{}
	s := vC19_newScheduler(sys, q, true)
	target := &PID{}
	err := s.ScheduleWithCron(&vC19Msg{1}, target, "0 * * * * *", WithReference("cron-1"))
	vAssert(err == nil, "a cron schedule with an explicit reference is accepted in cluster mode")
	j := q.find(quartz.NewJobKey("cron-1"))
	vAssert(j >= 0, "the cron job is queued")
	told := 0
	for k := 0; k < 2; k++ {
		vC19_tells, vC19_tellErr = 0, nil
		_ = q.jobs[j].Execute(&vC19Ctx{hasMeta: true, runTime: vC19_tick(0)})
		told += vC19_tells
	}
	vAssert(told <= 1, "a cron schedule registered while the cluster engine is wired claims its ticks: one tick handled twice is delivered at most once")
	if told == 1 {
		vCover("delivered-once")
	}
	vCover("end")
}
