//go:build verif

package actor

import (
	"context"
	"time"

	"github.com/tochemey/goakt/v4/extension"
	"github.com/tochemey/goakt/v4/log"
	"github.com/tochemey/goakt/v4/passivation"
)

func init() {
	vRegister("vC06_twoShutdowns", vC06_twoShutdowns)
	vRegister("vC06_passivateVsShutdown", vC06_passivateVsShutdown)
	vRegister("vC06_poisonPill", vC06_poisonPill)
	vRegister("vC06_shutdownVsTurn", vC06_shutdownVsTurn)
}

// ---- ghost actor: records the lifecycle hooks
var vC06_inReceive, vC06_inPostStop int
var vC06_postStops, vC06_receives int
var vC06_postStopBegan bool
var vC06_ready chan struct{}

type vC06Actor struct{}

func (vC06Actor) PreStart(*Context) error { return nil }
func (vC06Actor) Receive(ctx *ReceiveContext) {
	vAssert(vC06_inPostStop == 0, "Receive never starts while PostStop runs on another goroutine")
	vAssert(!vC06_postStopBegan, "no Receive starts after PostStop has started")
	vC06_inReceive++
	vYield()
	vC06_receives++
	vC06_inReceive--
}
func (vC06Actor) PostStop(*Context) error {
	vAssert(vC06_inReceive == 0, "PostStop never runs while Receive is in progress on another goroutine")
	vC06_postStopBegan = true
	vC06_inPostStop++
	vYield()
	vC06_postStops++
	vC06_inPostStop--
	return nil
}

// ---- environment substitutions (see checks/c06.py)
func vC06_noop(pid *PID)                                 {}
func vC06_noopErr(pid *PID, err error)                   {}
func vC06_nilErrCtx(pid *PID, ctx context.Context) error { return nil }
func vC06_noopCtx(pid *PID, ctx context.Context)         {}
func vC06_name(pid *PID) string                          { return "x" }
func vC06_deps(pid *PID) []extension.Dependency          { return nil }
func vC06_newContext(ctx context.Context, actorName string, actorSystem ActorSystem, dependencies ...extension.Dependency) *Context {
	return nil
}
func vC06_markActivity(pid *PID, at time.Time)                   {}
func vC06_submitSupervision(pid *PID, signal *supervisionSignal) {}
func vC06_schedule(d *dispatcher, s schedulable)                 { vC06_ready <- struct{}{} }
func vC06_reschedule(w *worker, s schedulable)                   { vC06_ready <- struct{}{} }

func vC06_newPID() (*PID, *worker) {
	pid := &PID{actor: vC06Actor{}, mailbox: NewUnboundedMailbox(), systemMailbox: NewUnboundedMailbox(), dispatcher: &dispatcher{throughput: 3}, logger: log.DiscardLogger}
	bs := newBehaviorStack()
	bs.Push(pid.actor.Receive)
	pid.behaviorStack = bs
	pid.setState(runningState, true)
	vC06_inReceive, vC06_inPostStop, vC06_postStops, vC06_receives = 0, 0, 0, 0
	vC06_postStopBegan = false
	vC06_ready = make(chan struct{}, 8)
	return pid, &worker{dispatcher: pid.dispatcher}
}

func vC06_send(pid *PID, msg any) {
	pid.doReceive(&ReceiveContext{message: msg, self: pid, ctx: context.Background()})
}

func vC06_worker(pid *PID, w *worker) {
	<-vC06_ready
	pid.runTurn(w)
}

// two external callers stop the same actor
func vC06_twoShutdowns() {
	pid, _ := vC06_newPID()
	vGo("stopA", func() { _ = pid.Shutdown(context.Background()) })
	vGo("stopB", func() { _ = pid.Shutdown(context.Background()) })
	vRun()
	vAssert(vC06_postStops <= 1, "PostStop runs at most once per incarnation")
	if vAllDone() {
		vAssert(vC06_postStops == 1 && !pid.isStateSet(runningState), "a stopped actor ran PostStop once and is no longer running")
		vCover("all-done")
	}
	vCover("end")
}

// the passivation manager fires while somebody stops the actor
func vC06_passivateVsShutdown() {
	pid, _ := vC06_newPID()
	pid.passivationStrategy = passivation.NewTimeBasedStrategy(time.Second)
	vGo("stop", func() { _ = pid.Shutdown(context.Background()) })
	vGo("passivate", func() { _ = pid.tryPassivation("idle") })
	vRun()
	vAssert(vC06_postStops <= 1, "PostStop runs at most once per incarnation (passivation racing a stop)")
	if vAllDone() {
		vAssert(vC06_postStops == 1, "the actor is stopped exactly once")
		vCover("all-done")
	}
	vCover("end")
}

// PoisonPill between two user messages, handled on the actor's own turn
func vC06_poisonPill() {
	pid, w := vC06_newPID()
	vGo("send", func() { vC06_send(pid, 1); vC06_send(pid, new(PoisonPill)); vC06_send(pid, 2) })
	vGo("worker", func() { vC06_worker(pid, w) })
	vGo("worker2", func() { vC06_worker(pid, w) })
	vRun()
	vAssert(vC06_postStops <= 1, "PostStop runs at most once per incarnation (PoisonPill)")
	if vC06_postStops == 1 {
		vCover("stopped")
	}
	vCover("end")
}

// an external Shutdown while a worker is inside the actor's turn
func vC06_shutdownVsTurn() {
	pid, w := vC06_newPID()
	vGo("send", func() { vC06_send(pid, 1); vC06_send(pid, 2) })
	vGo("worker", func() { vC06_worker(pid, w) })
	vGo("stop", func() { _ = pid.Shutdown(context.Background()) })
	vRun()
	vAssert(vC06_postStops <= 1, "PostStop runs at most once per incarnation (external stop)")
	vCover("end")
}
