//go:build verif

package actor

import (
	"context"
	"time"

	"github.com/tochemey/goakt/v4/internal/commands"
)

func init() {
	vRegister("vC44_step", vC44_step)
}

// Work-pulling producer controller (volatile: queue == nil), one arbitrary message from an arbitrary state satisfying Inv.
//
// Job universe: 3 ids. Ghost per job: where it is (nowhere / pending pool / worker w1 / worker w2), its payload byte and
// its producer-visible store sequence. Workers: "w1", "w2" (each bound or not).

const vC44_jobs = 3

// sequence numbers of the pre-state lie below 2^seqBits (case split: 16 in the quick tier, 61 in the thorough tier)
var vC44_seqBound int64

// list lengths the harness inspects: job universe + 1 (a list can never hold more than every job)
var vC44_lim int

var (
	vC44_ids      = [vC44_jobs]string{"j0", "j1", "j2"}
	vC44_names    = [2]string{"w1", "w2"}
	vC44_pay      [vC44_jobs]byte
	vC44_storeSeq [vC44_jobs]int64

	vC44_emitted   int
	vC44_confirmed [vC44_jobs]int // DeliveryConfirmed notices told per job during the step
)

func vC44_idIndex(id string) int {
	r := -1
	for i := 0; i < vC44_jobs; i++ {
		if id == vC44_ids[i] {
			r = i
		}
	}
	return r
}

// substituted for (*workPullingProducerController).tell
func vC44_wtell(x *workPullingProducerController, ctx *ReceiveContext, to *PID, message any) {
	if sm, ok := message.(*commands.SequencedMessage); ok {
		vC44_emitted++
		owner, underDemand, assigned, same := 0, true, true, true
		for w := 0; w < 2; w++ {
			b := x.bindings[vC44_names[w]]
			if b != nil && b.controller == to {
				owner++
				underDemand = underDemand && sm.Seq() <= b.demandUpTo
				assigned = assigned && sm.Seq() > b.confirmedSeq && sm.Seq() <= b.currentSeq
				// the unconfirmed list is ascending and contiguous from confirmedSeq+1 (Inv): the entry sits at a known index
				i := int(sm.Seq() - b.confirmedSeq - 1)
				if i >= 0 && i < len(b.unconfirmed) && i < vC44_lim {
					e := b.unconfirmed[i]
					j := vC44_idIndex(e.messageID)
					same = same && e.workerSeq == sm.Seq() && sm.MessageID() == e.messageID && j >= 0 && vC44_is1(sm.Payload(), vC44_pay[j])
				} else {
					same = false
				}
			}
		}
		vAssert(owner == 1, "a sequenced job goes to the controller of exactly one live binding")
		vAssert(underDemand, "a job is emitted to a worker only at or below that worker's granted demand (workerSeq <= demandUpTo)")
		vAssert(assigned && same && sm.SessionID() == x.sessionID, "the emitted job is the one recorded as unconfirmed for that worker under that sequence (assigned, not yet confirmed), with its payload and the controller's session")
	}
	if dc, ok := message.(*DeliveryConfirmed); ok {
		j := vC44_idIndex(dc.MessageID())
		vAssert(j >= 0 && to == x.producer, "DeliveryConfirmed names an accepted job and goes to the producer")
		if j >= 0 {
			vC44_confirmed[j]++
			vAssert(dc.Seq() == vC44_storeSeq[j], "DeliveryConfirmed carries the job's store sequence")
		}
	}
	vRD_record(to, message)
}

func vC44_is1(b []byte, v byte) bool { return len(b) == 1 && b[0] == v }

// number of times job j is held (pending pool + every binding's unconfirmed list), checking payload/storeSeq on the way
func vC44_count(x *workPullingProducerController, j int) (int, bool) {
	n, intact := 0, true
	for i := 0; i < vC44_lim; i++ {
		if i < len(x.pending) && x.pending[i].messageID == vC44_ids[j] {
			n++
			intact = intact && vC44_is1(x.pending[i].payload.bytes, vC44_pay[j]) && x.pending[i].storeSeq == vC44_storeSeq[j]
		}
	}
	for w := 0; w < 2; w++ {
		b := x.bindings[vC44_names[w]]
		if b != nil {
			for i := 0; i < vC44_lim; i++ {
				if i < len(b.unconfirmed) && b.unconfirmed[i].messageID == vC44_ids[j] {
					n++
					intact = intact && vC44_is1(b.unconfirmed[i].payload.bytes, vC44_pay[j]) && b.unconfirmed[i].storeSeq == vC44_storeSeq[j]
				}
			}
		}
	}
	return n, intact
}

// Inv (1): bindingOrder lists exactly the keys of bindings, each once; nextWorker <= len(bindingOrder)
func vC44_invOrder(x *workPullingProducerController) bool {
	ok := len(x.bindings) == len(x.bindingOrder) && len(x.bindingOrder) <= 2 && x.nextWorker >= 0 && x.nextWorker <= len(x.bindingOrder)
	for i := 0; i < 2; i++ {
		if i < len(x.bindingOrder) {
			b := x.bindings[x.bindingOrder[i]]
			ok = ok && b != nil && (i == 0 || x.bindingOrder[0] != x.bindingOrder[1])
			ok = ok && (x.bindingOrder[i] == vC44_names[0] || x.bindingOrder[i] == vC44_names[1])
		}
	}
	return ok
}

// Inv (2), per binding: 0 <= confirmedSeq <= currentSeq, unconfirmed = ascending contiguous worker sequences
// (confirmedSeq, currentSeq], a controller is set and the binding is filed under its endpoint name
func vC44_invBinding(x *workPullingProducerController, w int) bool {
	b := x.bindings[vC44_names[w]]
	if b == nil {
		return true
	}
	ok := b.endpointName == vC44_names[w] && b.controller != nil && b.confirmedSeq >= 0 && b.confirmedSeq <= b.currentSeq && b.demandUpTo >= 0
	ok = ok && int64(len(b.unconfirmed)) == b.currentSeq-b.confirmedSeq && len(b.unconfirmed) <= vC44_lim
	for i := 0; i < vC44_lim; i++ {
		if i < len(b.unconfirmed) {
			ok = ok && b.unconfirmed[i].workerSeq == b.confirmedSeq+1+int64(i) && vC44_idIndex(b.unconfirmed[i].messageID) >= 0
		}
	}
	return ok
}

// Inv (3): every pending entry is a job of the universe
func vC44_invPending(x *workPullingProducerController) bool {
	ok := len(x.pending) <= vC44_lim
	for i := 0; i < vC44_lim; i++ {
		if i < len(x.pending) {
			ok = ok && vC44_idIndex(x.pending[i].messageID) >= 0
		}
	}
	return ok
}

func vC44_step() {
	vRD_reset()
	vC44_emitted = 0
	vC44_seqBound = int64(1) << vCase("seqBits")
	nJobs := vCase("jobs") // size of the job universe (2 in the quick tier, 3 in the thorough tier)
	vC44_lim = nJobs + 1
	prod, self, other := vRD_pid("p"), vRD_pid("s"), vRD_pid("o")
	ctl := [2]*PID{vRD_pid("a"), vRD_pid("b")}    // current controllers of w1, w2
	ctlNew := [2]*PID{vRD_pid("c"), vRD_pid("d")} // a later incarnation of w1's / w2's controller
	x := &workPullingProducerController{producer: prod, retryInterval: time.Second, sessionID: "S", generation: 1, bindings: make(map[string]*bindingWork)}
	x.deliveryConfirmation = vNondetBool("deliveryConfirmation")

	// ---- bindings
	bound := [2]bool{vNondetBool("w1Bound"), vNondetBool("w2Bound")}
	order := vNondetBool("w2First")
	for k := 0; k < 2; k++ {
		w := k
		if order {
			w = 1 - k
		}
		if bound[w] {
			b := &bindingWork{endpointName: vC44_names[w], controller: ctl[w], registrationNonce: "N"}
			b.confirmedSeq = vNondetInt64("bindingConfirmed")
			b.demandUpTo = vNondetInt64("bindingDemand")
			vAssume(b.confirmedSeq >= 0 && b.confirmedSeq < vC44_seqBound && b.demandUpTo >= 0 && b.demandUpTo < 2*vC44_seqBound)
			b.currentSeq = b.confirmedSeq
			x.bindings[vC44_names[w]] = b
			x.bindingOrder = append(x.bindingOrder, vC44_names[w])
		}
	}
	x.nextWorker = vNondetInt("nextWorker")
	// ---- jobs
	var loc [vC44_jobs]int // 0 nowhere, 1 pending pool, 2 held by w1, 3 held by w2
	var preSeq [vC44_jobs]int64
	for j := 0; j < vC44_jobs; j++ {
		loc[j] = vChoose("jobLocation", 4)
		if j >= nJobs {
			loc[j] = 0 // outside this case's job universe
		}
		vC44_pay[j] = vNondetByte("jobPayload")
		vC44_storeSeq[j] = int64(11 + j) // carried data only: distinct concrete values
		vC44_confirmed[j] = 0
		switch loc[j] {
		case 1:
			x.pending = append(x.pending, pendingWork{messageID: vC44_ids[j], storeSeq: vC44_storeSeq[j], payload: ReliablePayload{bytes: []byte{vC44_pay[j]}}})
		case 2, 3:
			w := loc[j] - 2
			vAssume(bound[w])
			b := x.bindings[vC44_names[w]]
			b.currentSeq++
			preSeq[j] = b.currentSeq
			b.unconfirmed = append(b.unconfirmed, dispatchedWork{messageID: vC44_ids[j], workerSeq: b.currentSeq, storeSeq: vC44_storeSeq[j], payload: ReliablePayload{bytes: []byte{vC44_pay[j]}}})
		}
	}
	x.storeSeq = vNondetInt64("storeSeq")
	vAssume(x.storeSeq >= 0 && x.storeSeq < vC44_seqBound)
	// ---- handshake at rest: Idle, Credit, or StoredAck (store and accept complete synchronously without a queue)
	pendingJob := -1
	switch vChoose("handshake", 3) {
	case 1:
		x.handshake = producerHandshakeCredit
		x.token = "T"
	case 2:
		pendingJob = vChoose("pendingJob", nJobs)
		x.handshake = producerHandshakeStoredAck
		x.token = "T"
		x.pendingMessageID = vC44_ids[pendingJob]
		x.pendingStoreSeq = vC44_storeSeq[pendingJob]
		x.pendingPayload = ReliablePayload{bytes: []byte{vC44_pay[pendingJob]}}
		x.storedMessage = &Stored{sessionID: "S", token: "T", messageID: x.pendingMessageID, seq: x.pendingStoreSeq, endpoint: prod, controller: self}
	}
	if vNondetBool("hasCompleted") {
		x.lastCompletedToken = "T0"
		x.lastCompletedMessageID = vC44_ids[vChoose("completedJob", nJobs)]
	}
	vAssume(vC44_invOrder(x) && vC44_invBinding(x, 0) && vC44_invBinding(x, 1) && vC44_invPending(x))

	// ---- the message
	// case split: 0 RegisterConsumer, 1 Request (plain top-up), 2 Ack, 3 Produced, 4 StoredAck, 5 tick, 6 Terminated,
	// 7 Request with ViaTimeout (asks for a resend)
	kind, viaTimeout := vCase("kind"), false
	if kind == 7 {
		kind, viaTimeout = 1, true
	}
	sender := prod
	senderWorker := -1 // which worker's *current* controller sends
	switch vChoose("sender", 6) {
	case 1:
		sender, senderWorker = ctl[0], 0
	case 2:
		sender, senderWorker = ctl[1], 1
	case 3:
		sender = ctlNew[0]
	case 4:
		sender = ctlNew[1]
	case 5:
		sender = other
	}
	var msg any
	var reqConfirmed, reqUpTo int64
	authentic, legal := false, false
	acceptNow := false
	switch kind {
	case 0: // RegisterConsumer: the system authenticates the sender as the companion of worker endpoint w (or refuses)
		m, err := commands.VRegisterConsumer(vRD_str2("nonceIsCurrent", "N", "N2"))
		vAssume(err == nil)
		msg = m
		w := vChoose("authWorker", 2)
		vRD_workerName = vC44_names[w]
		vRD_resolved = ctl[w]
		if vNondetBool("authNewIncarnation") {
			vRD_resolved = ctlNew[w]
		}
		if vNondetBool("authFails") {
			vRD_resolved, vRD_workerName, vRD_resolvedErr = nil, "", vRD_errCodec
		}
	case 1, 2: // Request / Ack
		sessionCur, nonceCur := vNondetBool("sessionIsCurrent"), vNondetBool("nonceIsCurrent")
		reqConfirmed = vNondetInt64("reqConfirmed")
		if kind == 1 {
			reqUpTo = vNondetInt64("reqUpTo")
			m, err := commands.VRequest(vRD_pick(sessionCur, "S", "S0"), vRD_pick(nonceCur, "N", "N2"), reqConfirmed, reqUpTo, viaTimeout)
			vAssume(err == nil)
			msg = m
		} else {
			m, err := commands.VAck(vRD_pick(sessionCur, "S", "S0"), vRD_pick(nonceCur, "N", "N2"), reqConfirmed)
			vAssume(err == nil)
			msg = m
		}
		if senderWorker >= 0 && bound[senderWorker] && sessionCur && nonceCur {
			authentic = true
			b := x.bindings[vC44_names[senderWorker]]
			legal = reqConfirmed >= 0 && reqConfirmed <= b.currentSeq
			if kind == 1 {
				legal = legal && reqUpTo >= reqConfirmed && reqUpTo <= reqConfirmed+MaxReliableFlowControlWindow
			}
		}
	case 3: // Produced
		msg = &Produced{sessionID: vRD_str2("sessionIsCurrent", "S", "S0"), token: vRD_str2("tokenIsCurrent", "T", "T0"),
			messageID: vC44_ids[vChoose("producedJob", nJobs)], payload: &vRDMsg{data: []byte{vNondetByte("producedPayload")}}}
	case 4: // StoredAck
		sessionCur, tokenCur := vNondetBool("sessionIsCurrent"), vNondetBool("tokenIsCurrent")
		ackJob := vChoose("ackedJob", nJobs)
		msg = &StoredAck{sessionID: vRD_pick(sessionCur, "S", "S0"), token: vRD_pick(tokenCur, "T", "T0"), messageID: vC44_ids[ackJob]}
		acceptNow = sender == prod && sessionCur && tokenCur && x.handshake == producerHandshakeStoredAck && ackJob == pendingJob
	case 5: // tick
		msg = &producerControllerTick{generation: uint64(vChoose("tickGeneration", 2))}
	case 6: // Terminated
		switch vChoose("terminated", 4) {
		case 0:
			msg = &Terminated{actorPath: ctl[0].Path()}
		case 1:
			msg = &Terminated{actorPath: ctl[1].Path()}
		case 2:
			msg = &Terminated{actorPath: other.Path()}
		case 3:
			msg = &Terminated{actorPath: prod.Path()}
		}
	}
	var preCurrent [2]int64
	for w := 0; w < 2; w++ {
		if bound[w] {
			preCurrent[w] = x.bindings[vC44_names[w]].currentSeq
		}
	}
	var preCount [vC44_jobs]int
	for j := 0; j < vC44_jobs; j++ {
		preCount[j], _ = vC44_count(x, j)
		vAssume(preCount[j] <= 1) // Inv: a job is held at most once
	}
	rctx := &ReceiveContext{ctx: context.Background(), self: self, sender: sender, message: msg}

	x.Receive(rctx) // the real handler

	if x.failed {
		// terminal stop of the whole controller (impossible-value guards): nothing further is claimed for this step
		if kind == 0 || kind == 3 || kind == 4 {
			vCover("terminated")
		}
		return
	}
	vAssert(vC44_invOrder(x), "Inv preserved: bindingOrder lists exactly the keys of bindings, each once, and nextWorker <= len(bindingOrder)")
	vAssert(vC44_invBinding(x, 0), "Inv preserved (w1): unconfirmed ascending contiguous in (confirmedSeq, currentSeq]")
	vAssert(vC44_invBinding(x, 1), "Inv preserved (w2): unconfirmed ascending contiguous in (confirmedSeq, currentSeq]")
	vAssert(vC44_invPending(x), "Inv preserved: the pending pool holds accepted jobs only")
	for j := 0; j < vC44_jobs; j++ {
		n, intact := vC44_count(x, j)
		// a held job leaves only by an authenticated, legal confirmation covering its worker sequence
		confirmedNow := preCount[j] == 1 && loc[j] >= 2 && authentic && legal && senderWorker == loc[j]-2 && preSeq[j] <= reqConfirmed
		// a job enters only when the producer acknowledges its Stored (acceptance), and only if it is not already held
		acceptedNow := acceptNow && j == pendingJob && preCount[j] == 0
		want := preCount[j]
		if confirmedNow {
			want = 0
		}
		if acceptedNow {
			want = 1
		}
		vAssert(n == want, "every accepted job is held exactly once (pending pool or one worker's unconfirmed list) until its worker confirms it: none lost, none duplicated")
		vAssert(intact, "a held job keeps its payload and store sequence")
		if x.deliveryConfirmation && confirmedNow {
			vAssert(vC44_confirmed[j] == 1, "each job of the confirmed prefix is reported to the producer exactly once")
		} else {
			vAssert(vC44_confirmed[j] == 0, "no DeliveryConfirmed for a job that was not confirmed in this step")
		}
		if confirmedNow && (kind == 1 || kind == 2) {
			vCover("job-confirmed")
		}
		if acceptedNow && kind == 4 {
			vCover("job-accepted")
		}
		if preCount[j] == 1 && loc[j] >= 2 && n == 1 && (x.bindings[vC44_names[loc[j]-2]] == nil || x.bindings[vC44_names[loc[j]-2]].controller != ctl[loc[j]-2]) && (kind <= 2 || kind == 6) {
			vCover("job-requeued")
		}
	}
	if vC44_emitted > 0 {
		vCover("dispatched")
	}
	for w := 0; w < 2; w++ {
		b := x.bindings[vC44_names[w]]
		if b != nil && b.controller == ctl[w] && bound[w] && b.currentSeq > preCurrent[w] {
			vAssert(b.currentSeq <= b.demandUpTo, "a job is handed only to a binding with free demand (the worker sequence never passes demandUpTo)")
		}
		if b != nil && (!bound[w] || b.controller != ctl[w]) {
			vAssert(b.currentSeq <= b.demandUpTo && b.confirmedSeq == 0, "a new binding starts a fresh sequence space and receives work only under demand")
			if kind == 0 {
				vCover("joined")
			}
		}
	}
	vCover("end")
}
