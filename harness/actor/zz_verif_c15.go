//go:build verif

package actor

import (
	"context"
	"time"

	"github.com/tochemey/goakt/v4/internal/timer"
	"github.com/tochemey/goakt/v4/log"
)

func init() {
	vRegister("vC15_ask", vC15_ask)
}

var vC15_timerCh chan time.Time
var vC15_ready chan struct{}

// substitutions (see checks/c15.py): the timer pool hands out a timer fired by a harness thread; dead-letter
// publication of the timeout and the dispatcher queue are environment
func vC15_timerGet(p *timer.Pool, d time.Duration) *time.Timer      { return &time.Timer{C: vC15_timerCh} }
func vC15_timerPut(p *timer.Pool, t *time.Timer)                    {}
func vC15_deadletter(pid *PID, sender *PID, message any, err error) {}
func vC15_schedule(d *dispatcher, s schedulable)                    { vC15_ready <- struct{}{} }
func vC15_reschedule(w *worker, s schedulable)                      { vC15_ready <- struct{}{} }

// the target's handler: replies with the tag it was asked with
func vC15_dispatchOne(pid *PID, received *ReceiveContext, now time.Time) {
	tag := received.message.(int)
	received.Response(tag)
}

func vC15_ask() {
	target := &PID{mailbox: NewUnboundedMailbox(), systemMailbox: NewUnboundedMailbox(), dispatcher: &dispatcher{throughput: 2}, logger: log.DiscardLogger}
	target.setState(runningState, true)
	w := &worker{dispatcher: target.dispatcher}
	caller := &PID{logger: log.DiscardLogger}
	vC15_timerCh = make(chan time.Time, 1)
	vC15_ready = make(chan struct{}, 4)
	var gotA any
	var errA error
	stale := false
	vGo("askA", func() { gotA, errA = caller.Ask(context.Background(), target, 7, time.Second) })
	vGo("timer", func() { vC15_timerCh <- time.Time{} })
	vGo("worker", func() {
		<-vC15_ready
		target.runTurn(w)
	})
	// a later Ask takes a response channel from the pool and waits on it: it must never see A's reply
	vGo("askB", func() {
		ch := getResponseChannel()
		vYield()
		select {
		case <-ch:
			stale = true
		default:
		}
	})
	vRun()
	vAssert(!stale, "a reply is never delivered to a different Ask call")
	if vThreadDone(0) {
		vCover("ask-returned")
		if errA == nil {
			vAssert(gotA != nil && gotA.(int) == 7, "an Ask that returns a reply returns the reply to its own message")
			vCover("replied")
		} else {
			vCover("timed-out")
		}
	}
	vCover("end")
}
