//go:build verif

package actor

import (
	"context"
	"time"

	"github.com/tochemey/goakt/v4/internal/timer"
	"github.com/tochemey/goakt/v4/log"
)

func init() {
	vRegister("vC15_ask", vC15_ask)
	vRegister("vC15_reuse", vC15_reuse)
}

var vC15_timerCh chan time.Time
var vC15_ready chan struct{}
var vC15_timerChB chan time.Time
var vC15_muteA, vC15_repliedA, vC15_repliedB, vC15_reused bool
var vC15_ctxA *ReceiveContext

// substitutions (see checks/c15.py): the timer pool hands out a timer fired by a harness thread; dead-letter
// publication of the timeout and the dispatcher queue are environment
func vC15_timerGet(p *timer.Pool, d time.Duration) *time.Timer {
	if d == 2*time.Second { // the second asker of vC15_reuse: its deadline never passes
		return &time.Timer{C: vC15_timerChB}
	}
	return &time.Timer{C: vC15_timerCh}
}
func vC15_timerPut(p *timer.Pool, t *time.Timer)                    {}
func vC15_deadletter(pid *PID, sender *PID, message any, err error) {}
func vC15_schedule(d *dispatcher, s schedulable)                    { vC15_ready <- struct{}{} }
func vC15_reschedule(w *worker, s schedulable)                      { vC15_ready <- struct{}{} }

// the target's handler: replies with the tag it was asked with
func vC15_dispatchOne(pid *PID, received *ReceiveContext, now time.Time) {
	tag := received.message.(int)
	switch tag {
	case 0: // filler Tell
	case 7:
		vC15_ctxA = received
		if !vC15_muteA {
			received.Response(tag)
			vC15_repliedA = true
		}
	case 9:
		if received == vC15_ctxA {
			vC15_reused = true
		}
		received.Response(tag)
		vC15_repliedB = true
	}
}

func vC15_ask() {
	target := &PID{mailbox: NewUnboundedMailbox(), systemMailbox: NewUnboundedMailbox(), dispatcher: &dispatcher{throughput: 2}, logger: log.DiscardLogger}
	target.setState(runningState, true)
	w := &worker{dispatcher: target.dispatcher}
	caller := &PID{logger: log.DiscardLogger}
	vC15_timerCh = make(chan time.Time, 1)
	vC15_ready = make(chan struct{}, 4)
	var gotA any
	var errA error
	stale := false
	vGo("askA", func() { gotA, errA = caller.Ask(context.Background(), target, 7, time.Second) })
	vGo("timer", func() { vC15_timerCh <- time.Time{} })
	vGo("worker", func() {
		<-vC15_ready
		target.runTurn(w)
	})
	// a later Ask takes a response channel from the pool and waits on it: it must never see A's reply
	vGo("askB", func() {
		ch := getResponseChannel()
		vYield()
		select {
		case <-ch:
			stale = true
		default:
		}
	})
	vRun()
	vAssert(!stale, "a reply is never delivered to a different Ask call")
	if vThreadDone(0) {
		vCover("ask-returned")
		if errA == nil {
			vAssert(gotA != nil && gotA.(int) == 7, "an Ask that returns a reply returns the reply to its own message")
			vCover("replied")
		} else {
			vCover("timed-out")
		}
	}
	vCover("end")
}

// Pooled-context reuse: A asks (and may never be answered), a filler Tell makes the mailbox recycle A's receive
// context, B's Ask takes that very context from the pool. A's deadline may pass at any moment; B's never does.
// api=0: PID.Ask, api=1: the package-level Ask.
func vC15_reuse() {
	api := vCase("api")
	target := &PID{mailbox: NewUnboundedMailbox(), systemMailbox: NewUnboundedMailbox(), dispatcher: &dispatcher{throughput: 2}, logger: log.DiscardLogger}
	target.setState(runningState, true)
	w := &worker{dispatcher: target.dispatcher}
	caller := &PID{logger: log.DiscardLogger}
	if api == 1 {
		target.actorSystem = &actorSystem{noSender: caller}
	}
	vC15_timerCh = make(chan time.Time, 1)
	vC15_timerChB = make(chan time.Time, 1)
	vC15_ready = make(chan struct{}, 4)
	vC15_muteA = vNondetBool("muteA")
	vC15_repliedA, vC15_repliedB, vC15_reused, vC15_ctxA = false, false, false, nil
	fireA := vNondetBool("fireA")
	for len(contextCh) > 0 { // start from an empty context pool
		<-contextCh
	}
	var gotA, gotB any
	var errA, errB error
	vGo("askA", func() {
		if api == 1 {
			gotA, errA = Ask(context.Background(), target, 7, time.Second)
		} else {
			gotA, errA = caller.Ask(context.Background(), target, 7, time.Second)
		}
	})
	vGo("timer", func() {
		if fireA {
			vC15_timerCh <- time.Time{}
		}
	})
	vGo("worker", func() {
		for i := 0; i < 3; i++ {
			<-vC15_ready
			target.runTurn(w)
		}
	})
	vGo("askB", func() {
		filler := getContext()
		filler.build(context.Background(), caller, target, 0, true)
		target.doReceive(filler)
		vYield()
		_ = getContext() // an unrelated Tell elsewhere takes the oldest pooled context (the pool is FIFO)
		if api == 1 {
			gotB, errB = Ask(context.Background(), target, 9, 2*time.Second)
		} else {
			gotB, errB = caller.Ask(context.Background(), target, 9, 2*time.Second)
		}
	})
	vRun()
	if vThreadDone(0) {
		if errA == nil {
			vAssert(gotA != nil && gotA.(int) == 7, "an Ask that returns a reply returns the reply to its own message (A)")
		} else {
			vCover("A-timed-out")
		}
	}
	if vThreadDone(3) {
		vCover("B-returned")
		vAssert(errB == nil, "an Ask whose deadline has not passed and whose target replies does not fail (B)")
		if errB == nil {
			vAssert(gotB != nil && gotB.(int) == 9, "an Ask that returns a reply returns the reply to its own message (B)")
		}
		if vC15_reused {
			vCover("B-returned-on-A's-context")
		}
	}
	if vStuck() {
		if vC15_repliedB {
			vAssert(vThreadDone(3), "a reply given before the caller's deadline is not lost (B never returns)")
		}
		if vC15_repliedA && !fireA {
			vAssert(vThreadDone(0), "a reply given before the caller's deadline is not lost (A never returns)")
		}
	}
	vCover("end")
}
