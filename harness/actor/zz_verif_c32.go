//go:build verif

package actor

import (
	"github.com/tochemey/goakt/v4/internal/cluster"
	"github.com/tochemey/goakt/v4/internal/internalpb"
)

func init() {
	vRegister("vC32_actors2", vC32_actors2)
	vRegister("vC32_actors3", vC32_actors3)
	vRegister("vC32_grains", vC32_grains)
	vRegister("vC32_relocatableGrains", vC32_relocatableGrains)
}

var vC32_roleNames = [3]string{"", "a", "b"}

func vC32_roleSet(name string) []string {
	var rs []string
	if vNondetBool(name + ".a") {
		rs = append(rs, "a")
	}
	if vNondetBool(name + ".b") {
		rs = append(rs, "b")
	}
	return rs
}

func vC32_count(list []*internalpb.Actor, x *internalpb.Actor) int {
	c := 0
	for i := 0; i < len(list); i++ {
		if list[i] == x {
			c++
		}
	}
	return c
}

func vC32_actors2() { vC32_actors(2) }
func vC32_actors3() { vC32_actors(3) }

func vC32_actors(maxActors int) {
	nPeers := vNondetInt("peers")
	vAssume(nPeers >= 0 && nPeers <= 2)
	leaderRoles := vC32_roleSet("leader")
	allPeers := []*cluster.Peer{{Host: "p1"}, {Host: "p2"}}
	allPeers[0].Roles = vC32_roleSet("p1")
	allPeers[1].Roles = vC32_roleSet("p2")
	peers := allPeers[:nPeers]
	nTargets := nPeers + 1

	nActors := vNondetInt("actors")
	vAssume(nActors >= 0 && nActors <= maxActors)
	all := []*internalpb.Actor{{Address: "x1"}, {Address: "x2"}, {Address: "x3"}}
	var roleIdx [3]int
	var single [3]bool
	for i := 0; i < 3; i++ {
		ri := vNondetInt("role")
		vAssume(ri >= 0 && ri < 3)
		roleIdx[i] = ri
		if ri != 0 {
			r := vC32_roleNames[ri]
			all[i].Role = &r
		}
		if vNondetBool("singleton") {
			all[i].Singleton = &internalpb.SingletonSpec{}
			single[i] = true
		}
	}
	state := &internalpb.PeerState{Actors: map[string]*internalpb.Actor{}}
	actors := all[:nActors]
	state.Actors = vC32_toMap(actors)

	var base []int
	var b [3]int
	if vNondetBool("withLoads") {
		for i := 0; i < 3; i++ {
			b[i] = vNondetInt("load")
			vAssume(b[i] >= 0 && b[i] < 1000000)
		}
		base = b[:nTargets]
	}

	leaderShares, peersShares, unplaceable := allocateActors(leaderRoles, peers, state, base)

	vAssert(len(peersShares) == nTargets, "one share per target (leader + peers)")
	targetRoles := [3][]string{leaderRoles, allPeers[0].Roles, allPeers[1].Roles}
	for i := 0; i < nActors; i++ {
		a := actors[i]
		role := vC32_roleNames[roleIdx[i]]
		inShares := 0
		where := -1
		for t := 0; t < nTargets; t++ {
			c := vC32_count(peersShares[t], a)
			inShares += c
			if c > 0 {
				where = t
			}
		}
		anyEligible := false
		for t := 0; t < nTargets; t++ {
			if role == "" || vC32_has(targetRoles[t], role) {
				anyEligible = true
			}
		}
		un := vC32_count(unplaceable, a)
		if single[i] {
			vAssert(vC32_count(leaderShares, a) == 1 && inShares == 0 && un == 0, "a singleton goes to the leader share exactly once and nowhere else")
			vCover("singleton")
			continue
		}
		vAssert(inShares+un == 1, "every non-singleton actor is placed exactly once or reported unplaceable exactly once")
		vAssert((un == 1) == !anyEligible, "unplaceable exactly when no surviving target advertises the role")
		if where >= 0 {
			vAssert(role == "" || vC32_has(targetRoles[where], role), "the chosen target advertises the actor's role")
			wantLeader := 0
			if where == 0 {
				wantLeader = 1
			}
			vAssert(vC32_count(leaderShares, a) == wantLeader, "the leader share holds exactly the actors placed on the leader")
			vCover("placed")
		} else {
			vCover("unplaceable")
		}
	}
	// least-loaded: first actor (map has a single entry so order is fixed) lands on a minimal-load eligible target
	if nActors == 1 && !single[0] && base != nil {
		role := vC32_roleNames[roleIdx[0]]
		for t := 0; t < nTargets; t++ {
			if len(peersShares[t]) == 1 {
				for u := 0; u < nTargets; u++ {
					if role == "" || vC32_has(targetRoles[u], role) {
						vAssert(b[t] <= b[u], "the chosen target had minimal load among the eligible targets")
					}
				}
				vCover("least-loaded")
			}
		}
	}
	vCover("end")
}

func vC32_has(rs []string, r string) bool {
	for i := 0; i < len(rs); i++ {
		if rs[i] == r {
			return true
		}
	}
	return false
}

func vC32_toMap(actors []*internalpb.Actor) map[string]*internalpb.Actor {
	m := map[string]*internalpb.Actor{}
	for i := 0; i < len(actors); i++ {
		m[actors[i].Address] = actors[i]
	}
	return m
}

func vC32_grains() {
	total := vNondetInt("totalPeers")
	vAssume(total >= 1 && total <= 3)
	n := vNondetInt("grains")
	vAssume(n >= 0 && n <= 5)
	all := []*internalpb.Grain{{}, {}, {}, {}, {}}
	grains := all[:n]
	leader, shares := allocateGrains(total, grains)
	for i := 0; i < n; i++ {
		g := grains[i]
		c := 0
		for j := 0; j < len(leader); j++ {
			if leader[j] == g {
				c++
			}
		}
		for t := 1; t < len(shares); t++ {
			for j := 0; j < len(shares[t]); j++ {
				if shares[t][j] == g {
					c++
				}
			}
		}
		vAssert(c == 1, "every grain is assigned exactly once (leader share + peer shares 1..n)")
	}
	vAssert(len(shares) == 0 || len(shares) == total, "grain shares are aligned to the targets")
	for t := 1; t < len(shares); t++ {
		vAssert(len(shares[t]) == n/total, "peer shares have equal size (the remainder stays on the leader)")
	}
	vCover("end")
}

func vC32_relocatableGrains() {
	g1 := &internalpb.Grain{DisableRelocation: vNondetBool("d1")}
	g2 := &internalpb.Grain{DisableRelocation: vNondetBool("d2")}
	out := relocatableGrains(map[string]*internalpb.Grain{"g1": g1, "g2": g2})
	c1, c2 := 0, 0
	for i := 0; i < len(out); i++ {
		if out[i] == g1 {
			c1++
		}
		if out[i] == g2 {
			c2++
		}
	}
	vAssert((c1 == 1) == !g1.DisableRelocation && c1 <= 1, "a grain is relocatable exactly when relocation is not disabled")
	vAssert((c2 == 1) == !g2.DisableRelocation && c2 <= 1, "a grain is relocatable exactly when relocation is not disabled (2)")
	vCover("end")
}
