//go:build verif

package actor

import "time"

func init() {
	vRegister("vC08_backoff", vC08_backoff)
	vRegister("vC08_monotone", vC08_monotone)
	vRegister("vC08_disabled", vC08_disabled)
	vRegister("vC08_recordFault", vC08_recordFault)
}

// vRefBackoff is the overflow-free reference for min(initial*2^(n-1), max) with initial>0, max>=initial, n>=1.
func vRefBackoff(n int64, initial, max time.Duration) time.Duration {
	shift := n - 1
	if shift >= 63 {
		return max // initial >= 1 so the product is >= 2^63 > max
	}
	// for positive integers: initial*2^s > max  <=>  initial > floor(max / 2^s)
	if initial > max>>uint(shift) {
		return max
	}
	return initial << uint(shift)
}

// what supervisor.WithExponentialBackoff stores: initial > 0 and max >= initial
func vC08_backoff() {
	n := vNondetInt64("faults")
	initial := time.Duration(vNondetInt64("initial"))
	max := time.Duration(vNondetInt64("max"))
	vAssume(initial > 0)
	vAssume(max >= initial)
	vAssume(n >= 1)
	d := backoffDelay(n, initial, max)
	vAssert(d >= 0, "delay is never negative")
	vAssert(d <= max, "delay never exceeds the maximum")
	vAssert(d == vRefBackoff(n, initial, max), "delay equals min(initial*2^(n-1), max)")
	if n-1 >= 62 {
		vCover("shift>=62")
	}
	if d == max {
		vCover("clamped")
	}
	if d < max {
		vCover("unclamped")
	}
	vCover("end")
}

func vC08_monotone() {
	n := vNondetInt64("faults")
	initial := time.Duration(vNondetInt64("initial"))
	max := time.Duration(vNondetInt64("max"))
	vAssume(initial > 0)
	vAssume(max >= initial)
	vAssume(n >= 1)
	vAssume(n < 1<<62)
	d1 := backoffDelay(n, initial, max)
	d2 := backoffDelay(n+1, initial, max)
	vAssert(d2 >= d1, "delay never decreases as faults accumulate")
	vCover("end")
}

func vC08_disabled() {
	n := vNondetInt64("faults")
	initial := time.Duration(vNondetInt64("initial"))
	max := time.Duration(vNondetInt64("max"))
	d := backoffDelay(n, initial, max)
	if initial <= 0 {
		vAssert(d == 0, "zero delay when backoff is disabled (initial<=0)")
		vCover("disabled")
	}
	if n < 1 {
		vAssert(d == 0, "zero delay when there is no fault yet")
		vCover("nofault")
	}
	vCover("end")
}

// recordFault: counter restarts from one when the previous fault is older than a positive window
func vC08_recordFault() {
	pid := &PID{}
	prev := vNondetInt64("prevCount")
	last := vNondetInt64("lastFaultAt")
	window := time.Duration(vNondetInt64("window"))
	vAssume(prev >= 0 && prev < 1<<62)
	vAssume(last >= 0)
	pid.consecutiveFaults.Store(prev)
	pid.lastFaultAtNano.Store(last)
	got := pid.recordFault(window)
	now := pid.lastFaultAtNano.Load()
	if window > 0 && last > 0 && now-last > window.Nanoseconds() {
		vAssert(got == 1, "counter restarts from one after a fault-free window")
		vCover("reset")
	} else {
		vAssert(got == prev+1, "counter increments by one inside the window")
		vCover("increment")
	}
	vAssert(pid.consecutiveFaults.Load() == got, "stored counter equals returned count")
	vCover("end")
}
