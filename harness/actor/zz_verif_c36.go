//go:build verif

package actor

import (
	"context"
	"sync"
	"time"

	"github.com/tochemey/goakt/v4/internal/address"
	"github.com/tochemey/goakt/v4/internal/cluster"
	"github.com/tochemey/goakt/v4/internal/internalpb"
	"github.com/tochemey/goakt/v4/log"
	"github.com/tochemey/goakt/v4/supervisor"
)

func init() {
	vRegister("vC36_sameNode", vC36_sameNode)
	vRegister("vC36_twoLeaders", vC36_twoLeaders)
	vRegister("vC36_waiterCancelled", vC36_waiterCancelled)
}

// ---- fake cluster registry shared by the nodes (only the operations the spawn path uses)
type vC36Registry struct {
	mu     sync.Mutex
	actors map[string]bool
}

type vC36Cluster struct {
	cluster.Cluster
	reg *vC36Registry
}

func (c *vC36Cluster) ActorExists(ctx context.Context, name string) (bool, error) {
	c.reg.mu.Lock()
	ok := c.reg.actors[name]
	c.reg.mu.Unlock()
	return ok, nil
}

func (c *vC36Cluster) PutActor(ctx context.Context, actor *internalpb.Actor) error {
	c.reg.mu.Lock()
	c.reg.actors[actor.GetAddress()] = true
	c.reg.mu.Unlock()
	return nil
}

// ---- ghost: which node runs an instance; how many instances were created per node
var vC36_running [2]bool
var vC36_created [2]int
var vC36_live [2]int // instances created and not rolled back
var vC36_node map[*actorSystem]int

// substituted for (*actorSystem).configPID: creating and starting the actor instance
func vC36_configPID(x *actorSystem, ctx context.Context, name string, actor Actor, opts ...SpawnOption) (*PID, error) {
	id := 0
	if x == vC36_sysB {
		id = 1
	}
	vC36_created[id]++
	vC36_live[id]++
	vAssert(vC36_live[id] <= 1, "one node never runs two instances of the singleton at the same time")
	vC36_running[id] = true
	return &PID{}, nil
}

// substituted for (*actorSystem).completeSpawn: the real cluster publication, roll back the instance on failure
func vC36_completeSpawn(x *actorSystem, ctx context.Context, parent, pid *PID) (*PID, error) {
	if err := x.publishSpawnedActor(ctx, pid); err != nil {
		id := 0
		if x == vC36_sysB {
			id = 1
		}
		vC36_running[id] = false
		vC36_live[id]--
		return nil, err
	}
	return pid, nil
}

func vC36_toSerialize(pid *PID) (*internalpb.Actor, error) {
	return &internalpb.Actor{Address: "single"}, nil
}
func vC36_name(pid *PID) string { return "single" }
func vC36_ref(x *actorSystem, name string) *address.Address {
	return address.NewReference(name, "sys", "host", 9000)
}

var vC36_sysA, vC36_sysB *actorSystem

func vC36_newSystem(reg *vC36Registry) *actorSystem {
	x := &actorSystem{actors: newTree(), logger: log.DiscardLogger, name: "sys"}
	x.cluster = &vC36Cluster{reg: reg}
	x.clusterEnabled.Store(true)
	return x
}

type vC36Actor struct{}

func (vC36Actor) PreStart(*Context) error { return nil }
func (vC36Actor) Receive(*ReceiveContext) {}
func (vC36Actor) PostStop(*Context) error { return nil }

func vC36_spawn(x *actorSystem) (*PID, error) {
	return x.spawnSingletonOnLocal(context.Background(), "single", vC36Actor{}, nil, time.Second, time.Millisecond, 1, &supervisor.Supervisor{})
}

// a stable leader: concurrent SpawnSingleton calls arrive at the same node
func vC36_sameNode() {
	reg := &vC36Registry{actors: map[string]bool{}}
	vC36_sysA = vC36_newSystem(reg)
	vC36_sysB = nil
	vC36_running = [2]bool{}
	vC36_created = [2]int{}
	vC36_live = [2]int{}
	var p1, p2 *PID
	var e1, e2 error
	vGo("c1", func() { p1, e1 = vC36_spawn(vC36_sysA) })
	vGo("c2", func() { p2, e2 = vC36_spawn(vC36_sysA) })
	vRun()
	vAssert(vC36_created[0] <= 1 || (e1 != nil || e2 != nil), "one node never creates two instances that both succeed")
	if vAllDone() {
		vCover("all-done")
		if e1 == nil {
			vCover("c1-ok")
		}
		if e2 == nil {
			vCover("c2-ok")
		}
		if e1 == nil && e2 == nil {
			vAssert(p1 == p2, "concurrent callers on one node receive the same instance")
			vCover("both-ok")
		}
	}
	vCover("end")
}

// a leader change: two nodes both consider themselves the coordinator and spawn the singleton locally
func vC36_twoLeaders() {
	reg := &vC36Registry{actors: map[string]bool{}}
	vC36_sysA = vC36_newSystem(reg)
	vC36_sysB = vC36_newSystem(reg)
	vC36_running = [2]bool{}
	vC36_created = [2]int{}
	vC36_live = [2]int{}
	vGo("nodeA", func() { _, _ = vC36_spawn(vC36_sysA) })
	vGo("nodeB", func() { _, _ = vC36_spawn(vC36_sysB) })
	vRun()
	if vAllDone() {
		vCover("all-done")
		vAssert(!(vC36_running[0] && vC36_running[1]), "at most one instance of the singleton runs cluster-wide")
	}
	vCover("end")
}

// a cancellable context written in the harness (the executor's own context model never cancels)
type vC36Ctx struct {
	context.Context
	done      chan struct{}
	cancelled bool
}

func (c *vC36Ctx) Done() <-chan struct{} { return c.done }
func (c *vC36Ctx) Err() error {
	if c.cancelled {
		return context.Canceled
	}
	return nil
}

// three callers on the leader; the context of the second one is cancelled at an arbitrary moment (a waiter that gives up
// must not let a later caller start a second spawn while the first is still in flight)
func vC36_waiterCancelled() {
	reg := &vC36Registry{actors: map[string]bool{}}
	vC36_sysA = vC36_newSystem(reg)
	vC36_sysB = nil
	vC36_running = [2]bool{}
	vC36_created = [2]int{}
	vC36_live = [2]int{}
	ctx2 := &vC36Ctx{Context: context.Background(), done: make(chan struct{})}
	cancel := func() { ctx2.cancelled = true; close(ctx2.done) }
	spawn := func(ctx context.Context) (*PID, error) {
		return vC36_sysA.spawnSingletonOnLocal(ctx, "single", vC36Actor{}, nil, time.Second, time.Millisecond, 1, &supervisor.Supervisor{})
	}
	var p1, p3 *PID
	var e1, e2, e3 error
	vGo("c1", func() { p1, e1 = spawn(context.Background()) })
	vGo("c2", func() { _, e2 = spawn(ctx2) })
	vGo("c3", func() { p3, e3 = spawn(context.Background()) })
	vGo("cancel", func() { cancel() })
	vRun()
	if vAllDone() {
		vCover("all-done")
		if e2 != nil {
			vCover("waiter-gave-up")
		}
		if e1 == nil && e3 == nil {
			vAssert(p1 == p3, "concurrent callers on one node receive the same instance")
			vCover("both-ok")
		}
	}
	vCover("end")
}
