//go:build verif

package actor

import (
	"context"
	"reflect"
	"time"

	"github.com/flowchartsman/retry"

	"github.com/tochemey/goakt/v4/internal/xsync"
	"github.com/tochemey/goakt/v4/log"
)

func init() {
	vRegister("vC31_turns", vC31_turns)
	vRegister("vC31_deactivate", vC31_deactivate)
	vRegister("vC31_activation", vC31_activation)
	vRegister("vC31_resend", vC31_resend)
}

// ---- ghost grain: records the callbacks of one activation
var vC31_inReceive, vC31_inDeactivate int
var vC31_handled [4]int
var vC31_deactivations int
var vC31_deactivated bool
var vC31_ready chan struct{}

// substituted for (*grainPID).handleGrainContext: OnReceive of the ghost grain
func vC31_onReceive(pid *grainPID, gc *GrainContext) {
	vAssert(vC31_inReceive == 0, "OnReceive of one grain never runs concurrently with itself")
	vAssert(vC31_inDeactivate == 0, "OnReceive never runs concurrently with OnDeactivate")
	vAssert(!vC31_deactivated, "no OnReceive of an activation after its OnDeactivate")
	vC31_inReceive = 1
	id := gc.message.(int)
	vYield()
	vC31_handled[id]++
	vC31_inReceive = 0
}

// substituted for (*grainPID).deactivate: OnDeactivate of the ghost grain + the state writes of the real deactivate
func vC31_deactivateFn(pid *grainPID, ctx context.Context) error {
	vAssert(vC31_inReceive == 0, "OnDeactivate never runs concurrently with OnReceive")
	vC31_inDeactivate = 1
	vYield()
	vC31_deactivations++
	vC31_deactivated = true
	vC31_inDeactivate = 0
	pid.activated.Store(false)
	pid.onPoisonPill.Store(false)
	return nil
}

func vC31_noErr(gc *GrainContext)                   {}
func vC31_errFn(gc *GrainContext, err error)        {}
func vC31_teardown(pid *grainPID)                   {}
func vC31_recovery(pid *grainPID, gc *GrainContext) {}
func vC31_schedule(d *dispatcher, s schedulable)    { vC31_ready <- struct{}{} }
func vC31_reschedule(w *worker, s schedulable)      { vC31_ready <- struct{}{} }

func vC31_newPID() (*grainPID, *worker) {
	pid := &grainPID{mailbox: newGrainMailbox(0), dispatcher: &dispatcher{throughput: 3}, logger: log.DiscardLogger}
	pid.activated.Store(true)
	vC31_inReceive, vC31_inDeactivate, vC31_deactivations = 0, 0, 0
	vC31_deactivated = false
	vC31_handled = [4]int{}
	vC31_ready = make(chan struct{}, 8)
	return pid, &worker{dispatcher: pid.dispatcher}
}

func vC31_send(pid *grainPID, msg any) {
	pid.receive(&GrainContext{message: msg, pid: pid, ctx: context.Background()})
}
func vC31_worker(pid *grainPID, w *worker) {
	<-vC31_ready
	pid.runTurn(w)
}

// two senders, two workers: exclusivity, at-most-once, no lost wake-up
func vC31_turns() {
	pid, w := vC31_newPID()
	vGo("s1", func() { vC31_send(pid, 1); vC31_send(pid, 2) })
	vGo("s2", func() { vC31_send(pid, 3) })
	vGo("w1", func() { vC31_worker(pid, w) })
	vGo("w2", func() { vC31_worker(pid, w) })
	vRun()
	for i := 1; i <= 3; i++ {
		vAssert(vC31_handled[i] <= 1, "a message sent to a grain is handed to OnReceive at most once")
	}
	if vStuck() && vThreadDone(0) && vThreadDone(1) {
		vCover("quiescent")
		if vC31_handled[1]+vC31_handled[2]+vC31_handled[3] < 3 {
			vAssert(len(vC31_ready) > 0, "a pending message implies the grain is scheduled (no lost wake-up)")
			vCover("pending")
		} else {
			vCover("all-handled")
		}
	}
	vCover("end")
}

// a PoisonPill queued between two messages: OnDeactivate once, never overlapping OnReceive, nothing received afterwards
func vC31_deactivate() {
	pid, w := vC31_newPID()
	vGo("s1", func() { vC31_send(pid, 1); vC31_send(pid, new(PoisonPill)); vC31_send(pid, 2) })
	vGo("s2", func() { vC31_send(pid, new(PoisonPill)) })
	vGo("w1", func() { vC31_worker(pid, w) })
	vGo("w2", func() { vC31_worker(pid, w) })
	vRun()
	vAssert(vC31_deactivations <= 1, "OnDeactivate runs at most once per activation")
	if vC31_deactivations == 1 {
		vCover("deactivated")
	}
	vCover("end")
}

// ---- activation: the two activation paths (GrainIdentity/GrainOf: activateGrain -> activateGrainLocally; TellGrain/AskGrain:
// ensureGrainProcess), the activation single-flight, the real (*grainPID).activate and the turn loop, for ONE grain identity

const vC31nInst = 3 // grain instances: 0 = supplied by the GrainIdentity caller's factory, 1 = created from the registry, 2 = the retained process

// ghost grain instance: records its callbacks; OnActivate has a begin and an end (other threads run in between)
type vC31Grain struct{ idx int }

var (
	vC31_actBeg, vC31_actEnd [vC31nInst]int // OnActivate begun / completed, per instance
	vC31_deaBeg, vC31_deaEnd [vC31nInst]int // OnDeactivate begun / completed, per instance
	vC31_inDea               int            // OnDeactivate in progress, over all instances of the identity
	vC31_inAct               [vC31nInst]int // OnActivate in progress
	vC31_recv                [vC31nInst]int // OnReceive calls, per instance
	vC31_msgHandled          [4]int         // OnReceive calls, per message
	vC31_inRecvID            int            // OnReceive in progress, over all instances of the identity
	vC31_made                int            // instances created from the registry
)

// activations of the identity that began and were not deactivated since
func vC31_live() int {
	n := 0
	for i := 0; i < vC31nInst; i++ {
		n += vC31_actBeg[i] - vC31_deaEnd[i]
	}
	return n
}

func (g *vC31Grain) OnActivate(ctx context.Context, props *GrainProps) error {
	vAssert(vC31_live() == 0, "OnActivate never starts while an activation of the same grain identity is in progress or live (one activation per identity at a time)")
	vC31_actBeg[g.idx]++
	vC31_inAct[g.idx]++
	vYield()
	vC31_inAct[g.idx]--
	vC31_actEnd[g.idx]++
	return nil
}

func (g *vC31Grain) OnReceive(gc *GrainContext) {
	vAssert(vC31_inAct[g.idx] == 0 && vC31_actBeg[g.idx] >= 1 && vC31_actEnd[g.idx] == vC31_actBeg[g.idx], "OnActivate of an activation completes before its first OnReceive")
	vAssert(vC31_inRecvID == 0, "OnReceive of one grain identity never runs concurrently with itself (also not on two instances)")
	vAssert(vC31_inDea == 0, "OnReceive never runs concurrently with OnDeactivate")
	vC31_inRecvID++
	vC31_recv[g.idx]++
	id := gc.message.(int)
	vYield()
	vC31_msgHandled[id]++
	vC31_inRecvID--
}

// (an OnReceive after the OnDeactivate of the same activation - a message queued behind the PoisonPill - is finding C31-1 of
// vC31_deactivate and is not asserted again here)
func (g *vC31Grain) OnDeactivate(ctx context.Context, props *GrainProps) error {
	vAssert(vC31_inRecvID == 0, "OnDeactivate never runs concurrently with OnReceive")
	vAssert(vC31_actEnd[g.idx] > vC31_deaBeg[g.idx], "OnDeactivate runs at most once per activation, after its OnActivate")
	vC31_deaBeg[g.idx]++
	vC31_inDea++
	vYield()
	vC31_inDea--
	vC31_deaEnd[g.idx]++
	return nil
}

// the grain kind registry: every kind is registered
type vC31Registry struct{}

func (vC31Registry) Register(any)                       {}
func (vC31Registry) Deregister(any)                     {}
func (vC31Registry) Exists(any) bool                    { return true }
func (vC31Registry) TypesMap() map[string]reflect.Type  { return nil }
func (vC31Registry) Type(any) (reflect.Type, bool)      { return nil, false }
func (vC31Registry) TypeOf(string) (reflect.Type, bool) { return nil, false }

// substituted (*reflection).instantiateGrain (reflect.New of the registered type): a fresh ghost instance
func vC31_instantiate(r *reflection, kind string) (Grain, error) {
	vC31_made++
	return &vC31Grain{idx: 1}, nil
}

// substituted (*GrainIdentity).Validate (regular expressions)
func vC31_validateID(g *GrainIdentity) error { return nil }

// substituted (*retry.Retrier).RunContext (external library): the first attempt
func vC31_runContext(r *retry.Retrier, ctx context.Context, f func(context.Context) error) error {
	return f(ctx)
}

// substituted (*actorSystem).localSend: its first step (the real ensureGrainProcess) and the enqueue; the reply wait is dropped
func vC31_localSend(x *actorSystem, ctx context.Context, id *GrainIdentity, message any, timeout time.Duration, synchronous bool) (any, error) {
	pid, err := x.ensureGrainProcess(ctx, id)
	if err != nil {
		return nil, err
	}
	pid.receive(&GrainContext{message: message, pid: pid, ctx: ctx, self: id})
	return nil, nil
}

// the ready queue: one token channel for the identity (both processes of a duplicated activation land here)
var vC31_readyQ chan *grainPID

func vC31_scheduleQ(d *dispatcher, s schedulable) {
	if g, ok := s.(*grainPID); ok {
		vC31_readyQ <- g
	}
}
func vC31_rescheduleQ(w *worker, s schedulable) { vC31_scheduleQ(w.dispatcher, s) }

func vC31_workerQ(d *dispatcher, turns int) {
	w := &worker{dispatcher: d}
	for t := 0; t < turns; t++ {
		g := <-vC31_readyQ
		g.runTurn(w)
	}
}

func vC31_system() *actorSystem {
	sys := &actorSystem{logger: log.DiscardLogger, name: "sys"}
	sys.started.Store(true)
	sys.dispatcher = &dispatcher{throughput: 2}
	sys.grains = xsync.NewMap[string, *grainPID]()
	sys.registry = vC31Registry{}
	sys.reflection = newReflection(vC31Registry{})
	for i := 0; i < vC31nInst; i++ {
		vC31_actBeg[i], vC31_actEnd[i], vC31_deaBeg[i], vC31_deaEnd[i], vC31_inAct[i], vC31_recv[i] = 0, 0, 0, 0, 0, 0
	}
	vC31_inDea = 0
	vC31_msgHandled = [4]int{}
	vC31_inRecvID, vC31_made = 0, 0
	vC31_readyQ = make(chan *grainPID, 4)
	return sys
}

// One grain identity that is not active: never used / deactivated earlier (no process in the grains map), or its process was
// retained inactive (an OnDeactivate that returned an error keeps the process). Two callers use it at the same time: the first
// resolves it (GrainIdentity / GrainOf -> activateGrain) or sends to it (TellGrain), the second sends to it; one worker runs the turns.
func vC31_activation() {
	sys := vC31_system()
	id := &GrainIdentity{kind: "k", name: "g0", cachedStr: "k/g0"}
	first := vCase("first")       // 0: GrainIdentity/GrainOf path, 1: TellGrain
	retained := vCase("retained") // 1: an inactive process of the identity is in the grains map
	if retained == 1 {
		sys.grains.Set(id.String(), newGrainPID(id, &vC31Grain{idx: 2}, sys, newGrainConfig()))
	}
	var aerr, terr error
	vGo("first", func() {
		if first == 0 {
			_, aerr = sys.activateGrain(context.Background(), id, staticGrainProvider(&vC31Grain{idx: 0}), newGrainConfig())
		} else {
			aerr = sys.TellGrain(context.Background(), id, 1)
		}
	})
	vGo("tell", func() { terr = sys.TellGrain(context.Background(), id, 2) })
	vGo("w", func() { vC31_workerQ(sys.dispatcher, 2) })
	vRun()

	vAssert(vC31_live() <= 1, "at most one activation of a grain identity is live")
	vAssert(vC31_made <= 1, "at most one grain instance is created for a grain identity that is activated once")
	if vThreadDone(0) && vThreadDone(1) {
		vAssert(aerr == nil && terr == nil, "activation and send succeed")
		// every live activation is the registered process of its identity: reachable for passivation, PoisonPill and Stop
		p, ok := sys.grains.Get(id.String())
		vAssert(ok && p.isActive(), "when the callers returned, the identity's registered process is active")
		if ok {
			g := p.grain.(*vC31Grain)
			for i := 0; i < vC31nInst; i++ {
				if i == g.idx {
					vAssert(vC31_actBeg[i] == 1 && vC31_actEnd[i] == 1, "the registered process of the identity was activated exactly once")
				} else {
					vAssert(vC31_actBeg[i] == 0, "no grain instance other than the registered process of the identity was activated (an unregistered one never gets OnDeactivate)")
				}
			}
			if retained == 1 {
				vAssert(g.idx == 2, "a retained process is re-activated in place")
			}
		}
		vCover("callers-returned")
		if vStuck() {
			// the worker drained everything that was scheduled
			if len(vC31_readyQ) == 0 {
				vAssert(vC31_msgHandled[2] == 1, "a message sent to an inactive grain is received exactly once by the activation it triggered or joined")
				if first == 1 {
					vAssert(vC31_msgHandled[1] == 1, "a message sent to an inactive grain is received exactly once by the activation it triggered or joined")
				}
				vCover("all-received")
			}
		}
	}
	for m := 1; m <= 2; m++ {
		vAssert(vC31_msgHandled[m] <= 1, "a message sent to a grain is handed to OnReceive at most once")
	}
	vCover("end")
}

// The identity's grain is active. One caller deactivates it explicitly (TellGrain of a PoisonPill, real handlePoisonPill and
// deactivate), another sends a message; one worker runs the turns. A message whose send starts after the deactivation
// completed (OnDeactivate returned, process unregistered and flagged inactive) must activate a fresh instance that receives it; the new activation never overlaps the old one.
func vC31_resend() {
	sys := vC31_system()
	id := &GrainIdentity{kind: "k", name: "g0", cachedStr: "k/g0"}
	old := newGrainPID(id, &vC31Grain{idx: 2}, sys, newGrainConfig())
	vAssert(old.activate(context.Background()) == nil, "harness: the first activation succeeds")
	sys.grains.Set(id.String(), old)
	var perr, terr error
	sentAfter := false
	vGo("deactivator", func() { perr = sys.TellGrain(context.Background(), id, new(PoisonPill)) })
	vGo("sender", func() {
		sentAfter = !old.isActive() && vC31_deaEnd[2] == 1 // the deactivation is complete: OnDeactivate returned and the process reads inactive
		terr = sys.TellGrain(context.Background(), id, 1)
	})
	vGo("w", func() { vC31_workerQ(sys.dispatcher, 2) })
	vRun()

	vAssert(vC31_live() <= 1, "at most one activation of a grain identity is live")
	vAssert(vC31_made <= 1, "at most one fresh grain instance is created for one re-activation")
	vAssert(vC31_msgHandled[1] <= 1, "a message sent to a grain is handed to OnReceive at most once")
	if vThreadDone(0) && vThreadDone(1) && vStuck() && len(vC31_readyQ) == 0 {
		vAssert(perr == nil && terr == nil, "the sends are accepted")
		vAssert(vC31_deaBeg[2] == 1 && vC31_deaEnd[2] == 1, "an explicit deactivation runs OnDeactivate of the activation exactly once")
		vAssert(!old.isActive(), "the deactivated process is inactive")
		p, ok := sys.grains.Get(id.String())
		vAssert(!ok || p != old, "the deactivated process is no longer the identity's registered process")
		if sentAfter {
			vAssert(vC31_actEnd[1] == 1 && vC31_recv[1] == 1 && vC31_msgHandled[1] == 1, "a message sent after the deactivation activates a fresh instance that receives it")
			vCover("sent-after-deactivation")
		}
		if vC31_actBeg[1] == 1 {
			vAssert(ok && p.isActive() && p.grain.(*vC31Grain).idx == 1 && vC31_live() == 1, "the fresh activation is the identity's registered, active process")
			vCover("fresh-instance")
		} else {
			vAssert(!ok && vC31_live() == 0, "without a fresh activation nothing is registered or live for the identity")
			vCover("handled-by-old-or-dropped")
		}
		vCover("quiescent")
	}
	vCover("end")
}
