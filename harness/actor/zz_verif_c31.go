//go:build verif

package actor

import (
	"context"

	"github.com/tochemey/goakt/v4/log"
)

func init() {
	vRegister("vC31_turns", vC31_turns)
	vRegister("vC31_deactivate", vC31_deactivate)
}

// ---- ghost grain: records the callbacks of one activation
var vC31_inReceive, vC31_inDeactivate int
var vC31_handled [4]int
var vC31_deactivations int
var vC31_deactivated bool
var vC31_ready chan struct{}

// substituted for (*grainPID).handleGrainContext: OnReceive of the ghost grain
func vC31_onReceive(pid *grainPID, gc *GrainContext) {
	vAssert(vC31_inReceive == 0, "OnReceive of one grain never runs concurrently with itself")
	vAssert(vC31_inDeactivate == 0, "OnReceive never runs concurrently with OnDeactivate")
	vAssert(!vC31_deactivated, "no OnReceive of an activation after its OnDeactivate")
	vC31_inReceive = 1
	id := gc.message.(int)
	vYield()
	vC31_handled[id]++
	vC31_inReceive = 0
}

// substituted for (*grainPID).deactivate: OnDeactivate of the ghost grain + the state writes of the real deactivate
func vC31_deactivateFn(pid *grainPID, ctx context.Context) error {
	vAssert(vC31_inReceive == 0, "OnDeactivate never runs concurrently with OnReceive")
	vC31_inDeactivate = 1
	vYield()
	vC31_deactivations++
	vC31_deactivated = true
	vC31_inDeactivate = 0
	pid.activated.Store(false)
	pid.onPoisonPill.Store(false)
	return nil
}

func vC31_noErr(gc *GrainContext)                   {}
func vC31_errFn(gc *GrainContext, err error)        {}
func vC31_teardown(pid *grainPID)                   {}
func vC31_recovery(pid *grainPID, gc *GrainContext) {}
func vC31_schedule(d *dispatcher, s schedulable)    { vC31_ready <- struct{}{} }
func vC31_reschedule(w *worker, s schedulable)      { vC31_ready <- struct{}{} }

func vC31_newPID() (*grainPID, *worker) {
	pid := &grainPID{mailbox: newGrainMailbox(0), dispatcher: &dispatcher{throughput: 3}, logger: log.DiscardLogger}
	pid.activated.Store(true)
	vC31_inReceive, vC31_inDeactivate, vC31_deactivations = 0, 0, 0
	vC31_deactivated = false
	vC31_handled = [4]int{}
	vC31_ready = make(chan struct{}, 8)
	return pid, &worker{dispatcher: pid.dispatcher}
}

func vC31_send(pid *grainPID, msg any) {
	pid.receive(&GrainContext{message: msg, pid: pid, ctx: context.Background()})
}
func vC31_worker(pid *grainPID, w *worker) {
	<-vC31_ready
	pid.runTurn(w)
}

// two senders, two workers: exclusivity, at-most-once, no lost wake-up
func vC31_turns() {
	pid, w := vC31_newPID()
	vGo("s1", func() { vC31_send(pid, 1); vC31_send(pid, 2) })
	vGo("s2", func() { vC31_send(pid, 3) })
	vGo("w1", func() { vC31_worker(pid, w) })
	vGo("w2", func() { vC31_worker(pid, w) })
	vRun()
	for i := 1; i <= 3; i++ {
		vAssert(vC31_handled[i] <= 1, "a message sent to a grain is handed to OnReceive at most once")
	}
	if vStuck() && vThreadDone(0) && vThreadDone(1) {
		vCover("quiescent")
		if vC31_handled[1]+vC31_handled[2]+vC31_handled[3] < 3 {
			vAssert(len(vC31_ready) > 0, "a pending message implies the grain is scheduled (no lost wake-up)")
			vCover("pending")
		} else {
			vCover("all-handled")
		}
	}
	vCover("end")
}

// a PoisonPill queued between two messages: OnDeactivate once, never overlapping OnReceive, nothing received afterwards
func vC31_deactivate() {
	pid, w := vC31_newPID()
	vGo("s1", func() { vC31_send(pid, 1); vC31_send(pid, new(PoisonPill)); vC31_send(pid, 2) })
	vGo("s2", func() { vC31_send(pid, new(PoisonPill)) })
	vGo("w1", func() { vC31_worker(pid, w) })
	vGo("w2", func() { vC31_worker(pid, w) })
	vRun()
	vAssert(vC31_deactivations <= 1, "OnDeactivate runs at most once per activation")
	if vC31_deactivations == 1 {
		vCover("deactivated")
	}
	vCover("end")
}
