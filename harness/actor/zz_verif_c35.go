//go:build verif

package actor

import (
	"context"
	"errors"
	"syscall"
	"time"

	gerrors "github.com/tochemey/goakt/v4/errors"
	"github.com/tochemey/goakt/v4/internal/address"
	"github.com/tochemey/goakt/v4/internal/types"
	"github.com/tochemey/goakt/v4/internal/xsync"
)

func init() {
	vRegister("vC35_across", vC35_across)
	vRegister("vC35_bypass", vC35_bypass)
}

// ---------------------------------------------------------------------------------------------
// Harness-owned clock = base + nominal + latency. Every clock reading, every resolution, every timer
// creation and every delivery lets an arbitrary amount of time pass ("latency": computation,
// scheduling); that time is accumulated in vC35_lat. Time the code under test *asks* to wait for (timer
// durations, and the time a delivery may take within the deadline of the context it was given) is
// accumulated in vC35_nom. elapsed = nom + lat, so the deadline claims "elapsed <= budget + latency,
// for every value of every latency" are asserted as nom <= budget.
// ---------------------------------------------------------------------------------------------
var (
	vC35_base int64
	vC35_nom  int64
	vC35_lat  int64

	vC35_resolves     int
	vC35_timers       int
	vC35_delivers     int
	vC35_cancelFns    int
	vC35_lastResolve  int
	vC35_everPinned   bool
	vC35_seenNF       bool
	vC35_firstNFAt    int64
	vC35_lastResolved *PID
	vC35_lastErr      error
	vC35_deliveredTo  *PID
	vC35_deliverStart int64
	vC35_deliverDL    int64
	vC35_deliverErr   error
	vC35_badTimer     bool
	vC35_inCluster    bool

	vC35_ctx        *vC35Context
	vC35_local      *PID
	vC35_remoteGone *PID
	vC35_remoteLive *PID
	vC35_resp       = &vC35Marker{}
	vC35_errDeliver = errors.New("verif: delivery failed")
)

type vC35Marker struct{ _ int }

type vC35NetErr struct{ timeout bool }

func (e *vC35NetErr) Error() string   { return "verif: net error" }
func (e *vC35NetErr) Timeout() bool   { return e.timeout }
func (e *vC35NetErr) Temporary() bool { return false }

// a context whose cancellation and deadline are owned by the harness
type vC35Context struct {
	done      chan struct{}
	cancelled bool
	deadline  int64 // 0 = none
}

func (c *vC35Context) Deadline() (time.Time, bool) {
	if c.deadline == 0 {
		return time.Time{}, false
	}
	return time.Unix(0, c.deadline), true
}
func (c *vC35Context) Done() <-chan struct{} { return c.done }
func (c *vC35Context) Err() error {
	if c.cancelled {
		return context.Canceled
	}
	return nil
}
func (c *vC35Context) Value(any) any { return nil }

func vC35_tick() {
	d := vNondetInt64("latency")
	vAssume(d >= 0 && d <= 1<<40)
	vC35_lat += d
}

func vC35_clock() int64 { return vC35_base + vC35_nom + vC35_lat }

// substituted for time.Now
func vC35_now() time.Time {
	vC35_tick()
	return time.Unix(0, vC35_clock())
}

// substituted for time.Until
func vC35_until(t time.Time) time.Duration { return t.Sub(vC35_now()) }

// substituted for time.NewTimer: either the timer fires (the clock advances by the requested duration plus
// latency) or the caller's context is cancelled no later than the timer would have fired
func vC35_newTimer(d time.Duration) *time.Timer {
	vC35_timers++
	if d <= 0 || d > relocationHandoffMaxBackoff {
		vC35_badTimer = true
	}
	vC35_tick()
	ch := make(chan time.Time, 1)
	if vNondetBool("timerFires") || vC35_ctx.cancelled {
		if d > 0 {
			vC35_nom += int64(d)
		}
		vC35_tick()
		ch <- time.Unix(0, vC35_clock())
	} else {
		part := vNondetInt64("elapsedBeforeCancel")
		vAssume(part >= 0 && part <= int64(d))
		vC35_nom += part
		vC35_ctx.cancelled = true
		close(vC35_ctx.done)
	}
	return &time.Timer{C: ch}
}

// substituted for (*time.Timer).Stop
func vC35_timerStop(t *time.Timer) bool { return true }

// substituted for context.WithDeadline
func vC35_withDeadline(parent context.Context, d time.Time) (context.Context, context.CancelFunc) {
	p := parent.(*vC35Context)
	c := &vC35Context{done: p.done, cancelled: p.cancelled, deadline: d.UnixNano()}
	return c, func() { vC35_cancelFns++ }
}

// substituted for (*actorSystem).InCluster
func vC35_inClusterFn(x *actorSystem) bool { return vC35_inCluster }

// substituted for (*actorSystem).ActorOf: every resolution has an arbitrary outcome
func vC35_actorOf(x *actorSystem, ctx context.Context, name string) (*PID, error) {
	vC35_resolves++
	vC35_tick()
	k := vChoose("resolve", 5)
	vC35_lastResolve = k
	vC35_lastResolved, vC35_lastErr = nil, nil
	switch k {
	case 0:
		vC35_lastResolved = vC35_local
	case 1:
		vC35_lastResolved = vC35_remoteGone
		vC35_everPinned = true
	case 2:
		vC35_lastResolved = vC35_remoteLive
	case 3:
		switch vChoose("retryableKind", 8) {
		case 0:
			vC35_lastErr = gerrors.NewErrActorNotFound("target")
		case 1:
			vC35_lastErr = gerrors.ErrAddressNotFound
		case 2:
			vC35_lastErr = gerrors.ErrRemoteSendFailure
		case 3:
			vC35_lastErr = gerrors.ErrRequestTimeout
		case 4:
			vC35_lastErr = gerrors.ErrRelocationInProgress
		case 5:
			vC35_lastErr = context.DeadlineExceeded
		case 6:
			vC35_lastErr = syscall.ECONNREFUSED
		default:
			vC35_lastErr = &vC35NetErr{timeout: true}
		}
		if !vC35_seenNF {
			vC35_firstNFAt = vC35_nom
			vC35_seenNF = true
		}
	default:
		if vNondetBool("terminalIsNetErr") {
			vC35_lastErr = &vC35NetErr{timeout: false}
		} else {
			vC35_lastErr = gerrors.ErrActorSystemNotStarted
		}
	}
	return vC35_lastResolved, vC35_lastErr
}

// reference transcription of "retryable" from the documentation of the handoff masking
func vC35_retryable(err error) bool {
	if err == nil {
		return false
	}
	for _, t := range []error{gerrors.ErrActorNotFound, gerrors.ErrAddressNotFound, gerrors.ErrRemoteSendFailure,
		gerrors.ErrRequestTimeout, gerrors.ErrRelocationInProgress, context.DeadlineExceeded, syscall.ECONNREFUSED} {
		if errors.Is(err, t) {
			return true
		}
	}
	if ne, ok := err.(*vC35NetErr); ok {
		return ne.timeout
	}
	return false
}

// the delivery callback: called with the context the code under test built; takes an arbitrary time but
// honours the deadline of that context (plus latency)
func vC35_deliver(ctx context.Context, to *PID) (any, error) {
	vC35_delivers++
	vC35_deliveredTo = to
	c := ctx.(*vC35Context)
	vC35_tick()
	vC35_deliverStart = vC35_nom
	vC35_deliverDL = c.deadline
	dur := vNondetInt64("deliverTime")
	vAssume(dur >= 0 && dur <= 1<<61)
	if c.deadline != 0 {
		allowed := c.deadline - vC35_clock()
		if allowed < 0 {
			allowed = 0
		}
		vAssume(dur <= allowed)
	}
	vC35_nom += dur
	vC35_tick()
	if vNondetBool("deliverFails") {
		vC35_deliverErr = vC35_errDeliver
		return nil, vC35_errDeliver
	}
	vC35_deliverErr = nil
	return vC35_resp, nil
}

// common set-up: an actor system with one departed endpoint that may or may not still be inside its
// handoff window, a local target, a remote target on the departed endpoint and one on a live endpoint
func vC35_setup() *PID {
	vC35_base = vNondetInt64("t0")
	vAssume(vC35_base > 0 && vC35_base < 1<<40)
	vC35_nom, vC35_lat = 0, 0
	vC35_resolves, vC35_timers, vC35_delivers, vC35_cancelFns = 0, 0, 0, 0
	vC35_everPinned, vC35_seenNF, vC35_firstNFAt, vC35_badTimer = false, false, 0, false
	vC35_deliveredTo, vC35_deliverErr, vC35_deliverDL, vC35_deliverStart = nil, nil, 0, 0
	vC35_inCluster = vNondetBool("inCluster")
	sys := &actorSystem{}
	sys.relocatingEndpoints = xsync.NewTTLMap[string, types.Unit](relocationHandoffWindow)
	vC35_local = &PID{}
	vC35_remoteGone = newRemotePID(address.NewReference("target", "sys", "10.0.0.9", 9000), nil)
	vC35_remoteLive = newRemotePID(address.NewReference("target", "sys", "10.0.0.7", 9000), nil)
	if vNondetBool("endpointDeparted") {
		sys.relocatingEndpoints.Set(address.FormatHostPort("10.0.0.9", 9000), types.Unit{})
		age := vNondetInt64("ageOfDeparture")
		vAssume(age >= 0 && age <= 1<<40)
		vC35_base += age
	}
	vC35_ctx = &vC35Context{done: make(chan struct{})}
	return &PID{actorSystem: sys}
}

func vC35_across() {
	pid := vC35_setup()
	maxWait := time.Duration(vNondetInt64("maxWait"))
	vAssume(maxWait >= -(1<<62) && maxWait <= 1<<61)
	got, err := pid.deliverAcrossHandoff(vC35_ctx, "target", maxWait, vC35_deliver)

	vAssert(vC35_delivers <= 1, "the message is delivered at most once")
	vAssert(!vC35_badTimer, "every back-off sleep is positive and at most the maximum back-off")
	if maxWait > 0 {
		vAssert(vC35_nom <= int64(maxWait), "the whole operation (masking + delivery) stays within the caller's timeout, up to latency")
		if vC35_delivers == 1 {
			vAssert(vC35_deliverDL != 0, "with a caller timeout the delivery gets a deadline")
		}
	} else {
		masked := vC35_nom
		if vC35_delivers == 1 {
			masked = vC35_deliverStart
			vAssert(vC35_deliverDL == 0, "without a caller timeout the delivery gets the caller's own context")
		}
		vAssert(masked <= int64(relocationHandoffWindow+relocationNotFoundMaskWindow), "without a caller timeout masking is bounded by the handoff window plus the not-found window, up to latency")
	}
	if !vC35_inCluster {
		vAssert(vC35_resolves == 1 && vC35_timers == 0, "outside a cluster: one resolution, no sleep")
	}
	if vC35_delivers == 1 {
		vAssert(vC35_lastResolve <= 2 && vC35_deliveredTo == vC35_lastResolved, "delivery goes to the target of the last resolution")
		if vC35_deliverErr == nil {
			m, ok := got.(*vC35Marker)
			vAssert(err == nil && ok && m == vC35_resp, "the delivery's response is returned as is")
			vCover("delivered")
		} else {
			vAssert(got == nil && errors.Is(err, vC35_errDeliver), "the delivery's error is returned as is")
			vCover("delivery-failed")
		}
		if vC35_timers > 0 {
			vCover("delivered-after-masking")
		}
	} else {
		vAssert(err != nil && got == nil, "no delivery => an error is returned")
		switch {
		case vC35_lastResolve == 4:
			vAssert(vC35_lastErr == err, "a terminal resolution error is surfaced as is")
			vCover("terminal")
		case vC35_lastResolve == 3:
			vAssert(vC35_lastErr == err && vC35_retryable(err), "masking a failed resolution gives up with that (retryable) error")
			if vC35_inCluster && !vC35_everPinned && vC35_timers > 0 {
				vAssert(vC35_nom-vC35_firstNFAt <= int64(relocationNotFoundMaskWindow), "a name that only ever fails to resolve is masked for at most the not-found window, up to latency")
				vCover("notfound-gave-up")
			}
			if vC35_timers == 0 {
				vCover("notfound-failfast")
			}
		default:
			vAssert(vC35_lastResolve == 1 && errors.Is(err, gerrors.ErrRelocationInProgress) && vC35_retryable(err), "giving up on a target pinned to a departed endpoint reports ErrRelocationInProgress (retryable)")
			vCover("pinned-gave-up")
		}
	}
	if vC35_ctx.cancelled {
		vCover("cancelled")
	}
	if vC35_timers >= 10 {
		vCover("ten-sleeps")
	}
	vCover("end")
}

func vC35_bypass() {
	pid := vC35_setup()
	got, err := pid.deliverBypassingHandoff(vC35_ctx, "target", vC35_deliver)
	vAssert(vC35_resolves == 1, "the asynchronous send resolves exactly once")
	vAssert(vC35_timers == 0, "the asynchronous send never sleeps")
	vAssert(vC35_delivers <= 1, "the message is delivered at most once")
	if vC35_delivers == 1 {
		vAssert(vC35_deliverDL == 0 && vC35_deliveredTo == vC35_lastResolved && vC35_lastResolve <= 2, "delivery uses the caller's context and the resolved target")
		vAssert(vC35_deliverStart == 0, "nothing but latency precedes the delivery")
		if vC35_deliverErr == nil {
			m, ok := got.(*vC35Marker)
			vAssert(err == nil && ok && m == vC35_resp, "the delivery's response is returned as is")
		} else {
			vAssert(got == nil && errors.Is(err, vC35_errDeliver), "the delivery's error is returned as is")
		}
		vCover("delivered")
	} else {
		vAssert(vC35_nom == 0, "failing fast takes no time beyond latency")
		vAssert(err != nil && got == nil, "no delivery => an error is returned")
		if vC35_lastResolve >= 3 {
			vAssert(err == vC35_lastErr, "a failed resolution is surfaced as is")
			vCover("resolution-error")
		} else {
			vAssert(vC35_lastResolve == 1 && vC35_inCluster && errors.Is(err, gerrors.ErrRelocationInProgress) && vC35_retryable(err), "a target pinned to a departed endpoint fails fast with ErrRelocationInProgress (retryable)")
			vCover("pinned-failfast")
		}
	}
	vCover("end")
}
