//go:build verif

package actor

import (
	"context"
	"errors"
	"syscall"
	"time"

	gerrors "github.com/tochemey/goakt/v4/errors"
	"github.com/tochemey/goakt/v4/internal/address"
	"github.com/tochemey/goakt/v4/internal/types"
	"github.com/tochemey/goakt/v4/internal/xsync"
)

func init() {
	vRegister("vC35_across", vC35_across)
	vRegister("vC35_across_e2e", vC35_across_e2e)
	vRegister("vC35_bypass", vC35_bypass)
	vRegister("vC35_sendsync", vC35_sendsync)
}

// ---------------------------------------------------------------------------------------------
// Harness-owned clock. The clock is only observable when it is read (time.Now, time.Until, and the delivery
// looking at its deadline). Every reading is a fresh value that is at least the previous reading plus the time the
// code under test *asked* to wait for since then (timer durations; the time a delivery takes within the deadline it
// was given) - anything beyond that is latency (resolution, computation, scheduling, timer overshoot) and is
// arbitrary. vC35_nom accumulates the requested waiting, so "elapsed <= budget + latency, for every latency" is
// asserted as nom <= budget.
// ---------------------------------------------------------------------------------------------
var (
	vC35_nom     int64 // requested waiting so far
	vC35_pending int64 // requested waiting since the last clock reading

	vC35_resolves     int
	vC35_timers       int
	vC35_delivers     int
	vC35_cancelFns    int
	vC35_lastResolve  int
	vC35_everPinned   bool
	vC35_seenNF       bool
	vC35_firstNFAt    int64
	vC35_lastResolved *PID
	vC35_lastErr      error
	vC35_deliveredTo  *PID
	vC35_deliverStart int64
	vC35_deliverDL    int64
	vC35_deliverErr   error
	vC35_badTimer     bool
	vC35_inCluster    bool
	vC35_ownTimeout   int64
	vC35_maxWait      int64
	vC35_local_checks bool  // per-sleep obligations enabled (deliverAcrossHandoff entries)
	vC35_wantStart    bool  // the next clock reading is the code's `start`
	vC35_codeStart    int64 // the code's own reading of its start time
	vC35_lastRead     int64 // the most recent clock reading handed to the code
	vC35_nfSleepSeen  bool
	vC35_cutSeen      [2]bool
	vC35_nfFirstSleep int64 // clock reading at which the first not-found-masked sleep began

	vC35_ctx        *vC35Context
	vC35_local      *PID
	vC35_remoteGone *PID
	vC35_remoteLive *PID
	vC35_resp       = &vC35Marker{}
	vC35_errDeliver = errors.New("verif: delivery failed")
)

type vC35Marker struct{ _ int }

type vC35NetErr struct{ timeout bool }

func (e *vC35NetErr) Error() string   { return "verif: net error" }
func (e *vC35NetErr) Timeout() bool   { return e.timeout }
func (e *vC35NetErr) Temporary() bool { return false }

// a context whose cancellation and deadline are owned by the harness
type vC35Context struct {
	done      chan struct{}
	cancelled bool
	deadline  int64 // 0 = none
}

func (c *vC35Context) Deadline() (time.Time, bool) {
	if c.deadline == 0 {
		return time.Time{}, false
	}
	return time.Unix(0, c.deadline), true
}
func (c *vC35Context) Done() <-chan struct{} { return c.done }
func (c *vC35Context) Err() error {
	if c.cancelled {
		return context.Canceled
	}
	return nil
}
func (c *vC35Context) Value(any) any { return nil }

// a clock reading
func vC35_read() int64 {
	r := vNondetInt64("clockReading")
	vAssume(r >= vC35_lastRead+vC35_pending && r < 1<<61)
	vC35_pending = 0
	vC35_lastRead = r
	return r
}

// substituted for time.Now
func vC35_now() time.Time {
	r := vC35_read()
	if vC35_wantStart {
		vC35_wantStart = false
		vC35_codeStart = r
	}
	return time.Unix(0, r)
}

// substituted for time.Until
func vC35_until(t time.Time) time.Duration { return t.Sub(vC35_now()) }

// substituted for time.NewTimer: either the timer fires (the clock advances by the requested duration plus
// latency) or the caller's context is cancelled no later than the timer would have fired
func vC35_newTimer(d time.Duration) *time.Timer {
	vC35_timers++
	if d <= 0 || d > relocationHandoffMaxBackoff {
		vC35_badTimer = true
	}
	if vC35_local_checks {
		vC35_sleepObligations(int64(d))
	}
	ch := make(chan time.Time, 1)
	if vNondetBool("timerFires") || vC35_ctx.cancelled {
		if d > 0 {
			vC35_nom += int64(d)
			vC35_pending += int64(d)
		}
		ch <- time.Unix(0, vC35_lastRead+vC35_pending)
	} else {
		part := vNondetInt64("elapsedBeforeCancel")
		vAssume(part >= 0 && part <= int64(d))
		vC35_nom += part
		vC35_pending += part
		vC35_ctx.cancelled = true
		close(vC35_ctx.done)
	}
	return &time.Timer{C: ch}
}

// Per-sleep obligations. c is the clock reading on which the code based the sleep (nothing reads the clock between
// time.Until and time.NewTimer). Together with "a timer of duration d ends d (+latency) later" they give, by induction
// over the retry loop: every sleep ends no later than the deadline of its arm (+latency), hence the masking as a whole.
func vC35_sleepObligations(d int64) {
	c := vC35_lastRead
	end := c + d
	arm := int64(relocationHandoffWindow)
	if vC35_maxWait > 0 && vC35_maxWait < arm {
		arm = vC35_maxWait
	}
	armDL := vC35_codeStart + arm
	if vC35_lastResolve == 1 {
		vAssert(end <= armDL, "a sleep masking a target pinned to a departed endpoint ends within the handoff window and within the caller's timeout")
		vCover("sleep-pinned")
	} else {
		vAssert(vC35_lastResolve == 3, "the code only sleeps after a pinned or a failed resolution")
		if vC35_maxWait > 0 {
			vAssert(end <= vC35_codeStart+vC35_maxWait, "a sleep masking a failed resolution never extends beyond the caller's timeout")
		}
		if !vC35_nfSleepSeen {
			vC35_nfSleepSeen = true
			vC35_nfFirstSleep = c
		}
		armDL = vC35_nfFirstSleep + int64(relocationNotFoundMaskWindow)
		vAssert(end <= armDL, "a sleep masking a failed resolution ends within the not-found window of the first such sleep")
		vCover("sleep-notfound")
	}
	// progress: the back-off never goes below its minimum, so a shorter sleep is one that was cut to end at its arm's
	// deadline - after which that arm gives up. With at most one short sleep per arm and every other sleep lasting at
	// least the minimum back-off inside a bounded window, the retry loop is bounded.
	if d < int64(relocationHandoffMinBackoff) {
		a := 0
		if vC35_lastResolve == 3 {
			a = 1
		}
		vAssert(!vC35_cutSeen[a], "each arm cuts a sleep short at most once (the next attempt on that arm gives up)")
		vC35_cutSeen[a] = true
		vCover("sleep-cut")
	}
}

// substituted for time.Sleep / time.After: any other way of waiting counts as a sleep too
func vC35_sleep(d time.Duration) {
	vC35_timers++
	if d > 0 {
		vC35_nom += int64(d)
		vC35_pending += int64(d)
	}
}
func vC35_after(d time.Duration) <-chan time.Time { return vC35_newTimer(d).C }

// substituted for (*time.Timer).Stop
func vC35_timerStop(t *time.Timer) bool { return true }

// substituted for context.WithDeadline
func vC35_withDeadline(parent context.Context, d time.Time) (context.Context, context.CancelFunc) {
	p := parent.(*vC35Context)
	c := &vC35Context{done: p.done, cancelled: p.cancelled, deadline: d.UnixNano()}
	return c, func() { vC35_cancelFns++ }
}

// substituted for address.FormatHostPort (host + ":" + strconv.Itoa(port)): exact for the only two ports that occur here
// (9000, and 0 for address.NoSender()), which is asserted; avoids a symbolic decimal conversion
func vC35_hostPort(host string, port int) string {
	vAssert(port == 9000 || port == 0, "only the ports 9000 and 0 occur (harness sanity)")
	if port == 9000 {
		return host + ":9000"
	}
	return host + ":0"
}

// substituted for (*actorSystem).InCluster
func vC35_inClusterFn(x *actorSystem) bool { return vC35_inCluster }

// substituted for (*actorSystem).ActorOf: every resolution has an arbitrary outcome
func vC35_actorOf(x *actorSystem, ctx context.Context, name string) (*PID, error) {
	vC35_resolves++
	if vC35_resolves == 1 {
		vC35_wantStart = true
	}
	k := vChoose("resolve", 5)
	vC35_lastResolve = k
	vC35_lastResolved, vC35_lastErr = nil, nil
	switch k {
	case 0:
		vC35_lastResolved = vC35_local
	case 1:
		vC35_lastResolved = vC35_remoteGone
		vC35_everPinned = true
	case 2:
		vC35_lastResolved = vC35_remoteLive
	case 3:
		switch vChoose("retryableKind", 8) {
		case 0:
			vC35_lastErr = gerrors.NewErrActorNotFound("target")
		case 1:
			vC35_lastErr = gerrors.ErrAddressNotFound
		case 2:
			vC35_lastErr = gerrors.ErrRemoteSendFailure
		case 3:
			vC35_lastErr = gerrors.ErrRequestTimeout
		case 4:
			vC35_lastErr = gerrors.ErrRelocationInProgress
		case 5:
			vC35_lastErr = context.DeadlineExceeded
		case 6:
			vC35_lastErr = syscall.ECONNREFUSED
		default:
			vC35_lastErr = &vC35NetErr{timeout: true}
		}
		if !vC35_seenNF {
			vC35_firstNFAt = vC35_nom
			vC35_seenNF = true
		}
	default:
		if vNondetBool("terminalIsNetErr") {
			vC35_lastErr = &vC35NetErr{timeout: false}
		} else {
			vC35_lastErr = gerrors.ErrActorSystemNotStarted
		}
	}
	return vC35_lastResolved, vC35_lastErr
}

// reference transcription of "retryable" from the documentation of the handoff masking
func vC35_retryable(err error) bool {
	if err == nil {
		return false
	}
	for _, t := range []error{gerrors.ErrActorNotFound, gerrors.ErrAddressNotFound, gerrors.ErrRemoteSendFailure,
		gerrors.ErrRequestTimeout, gerrors.ErrRelocationInProgress, context.DeadlineExceeded, syscall.ECONNREFUSED} {
		if errors.Is(err, t) {
			return true
		}
	}
	if ne, ok := err.(*vC35NetErr); ok {
		return ne.timeout
	}
	return false
}

// the delivery callback: called with the context the code under test built; takes an arbitrary time but
// honours its own timeout (if any) and the deadline of that context (plus latency)
func vC35_deliver(ctx context.Context, to *PID) (any, error) {
	vC35_delivers++
	vC35_deliveredTo = to
	c := ctx.(*vC35Context)
	now := vC35_read()
	vC35_deliverStart = vC35_nom
	vC35_deliverDL = c.deadline
	dur := vNondetInt64("deliverTime")
	vAssume(dur >= 0 && dur <= 1<<61)
	if vC35_ownTimeout > 0 {
		// SendSync's callback is pid.Ask(ctx, to, message, timeout): it has the caller's timeout of its own
		vAssume(dur <= vC35_ownTimeout)
	}
	if c.deadline != 0 {
		allowed := c.deadline - now
		if allowed < 0 {
			allowed = 0
		}
		vAssume(dur <= allowed)
	}
	vC35_nom += dur
	vC35_pending += dur
	if vNondetBool("deliverFails") {
		vC35_deliverErr = vC35_errDeliver
		return nil, vC35_errDeliver
	}
	vC35_deliverErr = nil
	return vC35_resp, nil
}

// common set-up: an actor system with one departed endpoint that may or may not still be inside its
// handoff window, a local target, a remote target on the departed endpoint and one on a live endpoint
func vC35_setup() *PID {
	vC35_lastRead = vNondetInt64("t0")
	vAssume(vC35_lastRead > 0 && vC35_lastRead < 1<<40)
	vC35_nom, vC35_pending = 0, 0
	vC35_resolves, vC35_timers, vC35_delivers, vC35_cancelFns = 0, 0, 0, 0
	vC35_everPinned, vC35_seenNF, vC35_firstNFAt, vC35_badTimer = false, false, 0, false
	vC35_cutSeen[0], vC35_cutSeen[1] = false, false
	vC35_local_checks, vC35_wantStart, vC35_codeStart, vC35_nfSleepSeen, vC35_nfFirstSleep, vC35_maxWait = false, false, 0, false, 0, 0
	vC35_deliveredTo, vC35_deliverErr, vC35_deliverDL, vC35_deliverStart = nil, nil, 0, 0
	vC35_inCluster = vNondetBool("inCluster")
	sys := &actorSystem{}
	sys.relocatingEndpoints = xsync.NewTTLMap[string, types.Unit](relocationHandoffWindow)
	vC35_local = &PID{address: address.NewReference("target", "sys", "10.0.0.1", 9000)}
	vC35_remoteGone = newRemotePID(address.NewReference("target", "sys", "10.0.0.9", 9000), nil)
	vC35_remoteLive = newRemotePID(address.NewReference("target", "sys", "10.0.0.7", 9000), nil)
	if vNondetBool("endpointDeparted") {
		// recorded at an arbitrary earlier time: the next clock reading is any later time
		sys.relocatingEndpoints.Set(address.FormatHostPort("10.0.0.9", 9000), types.Unit{})
	}
	vC35_ctx = &vC35Context{done: make(chan struct{})}
	return &PID{actorSystem: sys}
}

// main entry: per-sleep / per-delivery obligations + functional outcome, all loop iterations up to the unwind bound
func vC35_across() { vC35_acrossRun(false) }

// end-to-end entry: the same run with the global "requested waiting <= budget" inequalities, few iterations
func vC35_across_e2e() { vC35_acrossRun(true) }

func vC35_acrossRun(e2e bool) {
	pid := vC35_setup()
	maxWait := time.Duration(vNondetInt64("maxWait"))
	vAssume(maxWait >= -(1<<62) && maxWait <= 1<<61)
	vC35_ownTimeout = int64(maxWait)
	vC35_maxWait = int64(maxWait)
	vC35_local_checks = !e2e
	got, err := pid.deliverAcrossHandoff(vC35_ctx, "target", maxWait, vC35_deliver)

	vAssert(vC35_delivers <= 1, "the message is delivered at most once")
	vAssert(!vC35_badTimer, "every back-off sleep is positive and at most the maximum back-off")
	if maxWait > 0 {
		if vC35_delivers == 1 && vC35_inCluster {
			vAssert(vC35_deliverDL == vC35_codeStart+int64(maxWait), "inside a cluster the delivery is given exactly the caller's remaining budget (deadline = start + timeout)")
		}
		if e2e {
			vAssert(vC35_nom <= int64(maxWait), "the whole operation (masking + delivery) stays within the caller's timeout, up to latency")
		}
	} else {
		masked := vC35_nom
		if vC35_delivers == 1 {
			masked = vC35_deliverStart
			vAssert(vC35_deliverDL == 0, "without a caller timeout the delivery gets the caller's own context")
		}
		if e2e {
			vAssert(masked <= int64(relocationHandoffWindow+relocationNotFoundMaskWindow), "without a caller timeout masking is bounded by the handoff window plus the not-found window, up to latency")
		}
	}
	if !vC35_inCluster {
		vAssert(vC35_resolves == 1 && vC35_timers == 0, "outside a cluster: one resolution, no sleep")
	}
	if vC35_delivers == 1 {
		vAssert(vC35_lastResolve <= 2 && vC35_deliveredTo == vC35_lastResolved, "delivery goes to the target of the last resolution")
		if vC35_deliverErr == nil {
			m, ok := got.(*vC35Marker)
			vAssert(err == nil && ok && m == vC35_resp, "the delivery's response is returned as is")
			vCover("delivered")
		} else {
			vAssert(got == nil && errors.Is(err, vC35_errDeliver), "the delivery's error is returned as is")
			vCover("delivery-failed")
		}
		if vC35_timers > 0 {
			vCover("delivered-after-masking")
		}
	} else {
		vAssert(err != nil && got == nil, "no delivery => an error is returned")
		switch {
		case vC35_lastResolve == 4:
			vAssert(vC35_lastErr == err, "a terminal resolution error is surfaced as is")
			vCover("terminal")
		case vC35_lastResolve == 3:
			vAssert(vC35_lastErr == err && vC35_retryable(err), "masking a failed resolution gives up with that (retryable) error")
			if vC35_inCluster && !vC35_everPinned && vC35_timers > 0 {
				if e2e {
					vAssert(vC35_nom-vC35_firstNFAt <= int64(relocationNotFoundMaskWindow), "a name that only ever fails to resolve is masked for at most the not-found window, up to latency")
				}
				vCover("notfound-gave-up")
			}
			if vC35_timers == 0 {
				vCover("notfound-failfast")
			}
		default:
			vAssert(vC35_lastResolve == 1 && errors.Is(err, gerrors.ErrRelocationInProgress) && vC35_retryable(err), "giving up on a target pinned to a departed endpoint reports ErrRelocationInProgress (retryable)")
			vCover("pinned-gave-up")
		}
	}
	if vC35_ctx.cancelled {
		vCover("cancelled")
	}
	if vC35_timers >= 10 {
		vCover("ten-sleeps")
	}
	if vC35_everPinned && vC35_timers > 0 {
		vCover("pinned-masked")
	}
	vCover("end")
}

func vC35_bypass() {
	pid := vC35_setup()
	vC35_ownTimeout = 0
	got, err := pid.deliverBypassingHandoff(vC35_ctx, "target", vC35_deliver)
	vAssert(vC35_resolves == 1, "the asynchronous send resolves exactly once")
	vAssert(vC35_timers == 0, "the asynchronous send never sleeps")
	vAssert(vC35_delivers <= 1, "the message is delivered at most once")
	if vC35_delivers == 1 {
		vAssert(vC35_deliverDL == 0 && vC35_deliveredTo == vC35_lastResolved && vC35_lastResolve <= 2, "delivery uses the caller's context and the resolved target")
		vAssert(vC35_deliverStart == 0, "nothing but latency precedes the delivery")
		if vC35_deliverErr == nil {
			m, ok := got.(*vC35Marker)
			vAssert(err == nil && ok && m == vC35_resp, "the delivery's response is returned as is")
		} else {
			vAssert(got == nil && errors.Is(err, vC35_errDeliver), "the delivery's error is returned as is")
		}
		vCover("delivered")
	} else {
		vAssert(vC35_nom == 0, "failing fast takes no time beyond latency")
		vAssert(err != nil && got == nil, "no delivery => an error is returned")
		if vC35_lastResolve >= 3 {
			vAssert(err == vC35_lastErr, "a failed resolution is surfaced as is")
			vCover("resolution-error")
		} else {
			vAssert(vC35_lastResolve == 1 && vC35_inCluster && errors.Is(err, gerrors.ErrRelocationInProgress) && vC35_retryable(err), "a target pinned to a departed endpoint fails fast with ErrRelocationInProgress (retryable)")
			vCover("pinned-failfast")
		}
	}
	vCover("end")
}

// ---------------------------------------------------------------------------------------------
// the call site: the real (*PID).SendSync, with (*PID).Ask substituted by the delivery model (it records the context
// and timeout it is given) and (*PID).DiscoverActor by a failing stub. The deadline computed by deliverAcrossHandoff
// must actually reach the Ask.
// ---------------------------------------------------------------------------------------------
var (
	vC35_askTimeout time.Duration
	vC35_askMsg     any
	vC35_discovers  int
)

// substituted for (*PID).Ask
func vC35_ask(pid *PID, ctx context.Context, to *PID, message any, timeout time.Duration) (any, error) {
	vC35_askTimeout, vC35_askMsg = timeout, message
	return vC35_deliver(ctx, to)
}

// substituted for (*PID).DiscoverActor
func vC35_discover(pid *PID, ctx context.Context, actorName string, timeout time.Duration) (*PID, error) {
	vC35_discovers++
	return nil, gerrors.ErrActorNotFound
}

func vC35_sendsync() {
	pid := vC35_setup()
	pid.setState(runningState, true)
	timeout := time.Duration(vNondetInt64("timeout"))
	vAssume(timeout >= -(1<<62) && timeout <= 1<<61)
	vC35_ownTimeout, vC35_maxWait = int64(timeout), int64(timeout)
	vC35_discovers = 0
	msg := &vC35Marker{}
	got, err := pid.SendSync(vC35_ctx, "target", msg, timeout)
	vAssert(vC35_delivers <= 1, "the message is asked at most once")
	if vC35_delivers == 1 {
		vAssert(vC35_askTimeout == timeout && vC35_askMsg == any(msg), "the Ask gets the caller's message and timeout")
		if timeout > 0 && vC35_inCluster {
			vAssert(vC35_deliverDL == vC35_codeStart+int64(timeout), "inside a cluster the Ask runs under the deadline-bounded context (deadline = start + timeout), not the caller's outer context")
			vCover("bounded-ask")
		}
		if timeout > 0 {
			vAssert(vC35_nom <= int64(timeout) || vC35_timers > 0, "an immediate Ask stays within the caller's timeout")
		}
		if vC35_deliverErr == nil {
			m, ok := got.(*vC35Marker)
			vAssert(err == nil && ok && m == vC35_resp, "the response is returned as is")
		}
		if vC35_timers > 0 {
			vCover("asked-after-masking")
		}
	} else {
		vAssert(err != nil && got == nil, "no Ask => an error is returned")
	}
	vCover("end")
}
