//go:build verif

package actor

import (
	"errors"

	"github.com/tochemey/goakt/v4/log"
	"github.com/tochemey/goakt/v4/reentrancy"
)

func init() {
	vRegister("vC16_completeVsCancel", vC16_completeVsCancel)
	vRegister("vC16_sequential", vC16_sequential)
}

var vC16_callbacks [2]int
var vC16_errCancel = errors.New("canceled")

func vC16_newPID(max int) *PID {
	pid := &PID{logger: log.DiscardLogger}
	pid.reentrancy.Store(newReentrancyState(reentrancy.AllowAll, max))
	vC16_callbacks = [2]int{}
	return pid
}

func vC16_register(pid *PID, id string, n int) *requestState {
	st := newRequestState(id, reentrancy.AllowAll, pid)
	st.setCallback(func(any, error) { vC16_callbacks[n]++ })
	if err := pid.registerRequestState(st); err != nil {
		return nil
	}
	return st
}

// the reply arrives on the requester's turn while another goroutine stops the actor (cancelInFlightRequests)
func vC16_completeVsCancel() {
	pid := vC16_newPID(2)
	s0 := vC16_register(pid, "r0", 0)
	s1 := vC16_register(pid, "r1", 1)
	vAssume(s0 != nil && s1 != nil)
	vGo("turn", func() { pid.completeRequest("r0", 42, nil) })
	vGo("stop", func() { pid.cancelInFlightRequests(vC16_errCancel) })
	vRun()
	vAssert(vC16_callbacks[0] <= 1 && vC16_callbacks[1] <= 1, "a request's continuation runs at most once")
	if vAllDone() {
		vCover("all-done")
		re := pid.reentrancy.Load()
		vAssert(re.inFlightCount.Load() == 0, "the in-flight counter returns to zero")
		vAssert(re.blockingCount.Load() == 0, "the blocking counter returns to zero")
		vAssert(re.requestStates.Len() == 0, "no request state is left behind")
	}
	vCover("end")
}

// sequential bookkeeping: limit, exactly-once completion, counters
func vC16_sequential() {
	max := vNondetInt("max")
	vAssume(max >= 0 && max <= 2)
	pid := vC16_newPID(max)
	re := pid.reentrancy.Load()
	n := 0
	s0 := vC16_register(pid, "r0", 0)
	if s0 != nil {
		n++
	}
	s1 := vC16_register(pid, "r1", 1)
	if s1 != nil {
		n++
	}
	s2 := vC16_register(pid, "r2", 1)
	if s2 != nil {
		n++
		vCover("third-accepted")
	} else {
		vAssert(max > 0 && n >= max, "a request is rejected only when the in-flight limit is reached")
		vCover("third-rejected")
	}
	vAssert(max == 0 || int(re.inFlightCount.Load()) <= max, "the in-flight limit is never exceeded")
	vAssert(int(re.inFlightCount.Load()) == n, "the in-flight counter equals the number of registered requests")
	if s0 != nil {
		vAssert(pid.completeRequest("r0", 1, nil), "a registered request is found by its correlation id")
		vAssert(vC16_callbacks[0] == 1, "completion runs the continuation once")
		pid.completeRequest("r0", 2, nil)
		vAssert(vC16_callbacks[0] == 1, "a second reply does not run the continuation again")
		vAssert(int(re.inFlightCount.Load()) == n-1, "completion decrements the in-flight counter once")
	}
	pid.cancelInFlightRequests(vC16_errCancel)
	vAssert(re.inFlightCount.Load() == 0 && re.requestStates.Len() == 0, "cancelling everything returns the counters to zero")
	vCover("end")
}
