//go:build verif

package actor

import (
	"context"
	"errors"
	"time"

	gerrors "github.com/tochemey/goakt/v4/errors"
	"github.com/tochemey/goakt/v4/internal/commands"
	"github.com/tochemey/goakt/v4/log"
	"github.com/tochemey/goakt/v4/reentrancy"
)

func init() {
	vRegister("vC16_completeVsCancel", vC16_completeVsCancel)
	vRegister("vC16_sequential", vC16_sequential)
	vRegister("vC16_mixedModes", vC16_mixedModes)
	vRegister("vC16_retune", vC16_retune)
}

var vC16_callbacks [2]int
var vC16_errCancel = errors.New("canceled")

func vC16_newPID(max int) *PID {
	pid := &PID{logger: log.DiscardLogger}
	pid.reentrancy.Store(newReentrancyState(reentrancy.AllowAll, max))
	vC16_callbacks = [2]int{}
	return pid
}

func vC16_register(pid *PID, id string, n int) *requestState {
	st := newRequestState(id, reentrancy.AllowAll, pid)
	st.setCallback(func(any, error) { vC16_callbacks[n]++ })
	if err := pid.registerRequestState(st); err != nil {
		return nil
	}
	return st
}

// the reply arrives on the requester's turn while another goroutine stops the actor (cancelInFlightRequests)
func vC16_completeVsCancel() {
	pid := vC16_newPID(2)
	s0 := vC16_register(pid, "r0", 0)
	s1 := vC16_register(pid, "r1", 1)
	vAssume(s0 != nil && s1 != nil)
	vGo("turn", func() { pid.completeRequest("r0", 42, nil) })
	vGo("stop", func() { pid.cancelInFlightRequests(vC16_errCancel) })
	vRun()
	vAssert(vC16_callbacks[0] <= 1 && vC16_callbacks[1] <= 1, "a request's continuation runs at most once")
	if vAllDone() {
		vCover("all-done")
		re := pid.reentrancy.Load()
		vAssert(re.inFlightCount.Load() == 0, "the in-flight counter returns to zero")
		vAssert(re.blockingCount.Load() == 0, "the blocking counter returns to zero")
		vAssert(re.requestStates.Len() == 0, "no request state is left behind")
	}
	vCover("end")
}

// sequential bookkeeping: limit, exactly-once completion, counters
func vC16_sequential() {
	max := vNondetInt("max")
	vAssume(max >= 0 && max <= 2)
	pid := vC16_newPID(max)
	re := pid.reentrancy.Load()
	n := 0
	s0 := vC16_register(pid, "r0", 0)
	if s0 != nil {
		n++
	}
	s1 := vC16_register(pid, "r1", 1)
	if s1 != nil {
		n++
	}
	s2 := vC16_register(pid, "r2", 1)
	if s2 != nil {
		n++
		vCover("third-accepted")
	} else {
		vAssert(max > 0 && n >= max, "a request is rejected only when the in-flight limit is reached")
		vCover("third-rejected")
	}
	vAssert(max == 0 || int(re.inFlightCount.Load()) <= max, "the in-flight limit is never exceeded")
	vAssert(int(re.inFlightCount.Load()) == n, "the in-flight counter equals the number of registered requests")
	if s0 != nil {
		vAssert(pid.completeRequest("r0", 1, nil), "a registered request is found by its correlation id")
		vAssert(vC16_callbacks[0] == 1, "completion runs the continuation once")
		pid.completeRequest("r0", 2, nil)
		vAssert(vC16_callbacks[0] == 1, "a second reply does not run the continuation again")
		vAssert(int(re.inFlightCount.Load()) == n-1, "completion decrements the in-flight counter once")
	}
	pid.cancelInFlightRequests(vC16_errCancel)
	vAssert(re.inFlightCount.Load() == 0 && re.requestStates.Len() == 0, "cancelling everything returns the counters to zero")
	vCover("end")
}

// ---------------------------------------------------------------------------------------------------------------------
// Turn-level scenarios: one requesting actor with its real mailbox, stash and turn loop. Messages, replies and
// cancellations arrive through doReceive; the actor is run by runTurn -> dispatchOne -> enableReentrancyStash / stash /
// handleAsyncResponse / handleReceived. The actor's Receive is the script interpreter below; it issues requests through
// ReceiveContext.Request (real PID.request) and retunes the policy through ReceiveContext.Enable/DisableReentrancy.
// Substituted (checks/c16.py): PID.Tell (records the correlation id of the outgoing AsyncRequest, may fail),
// dispatcher.schedule / worker.reschedule (no-ops: the harness runs the turns), PID.submitSupervision (counter).

type vC16Msg struct {
	op, id, id2, mode, max int
	disable, enable        bool
}

const (
	vC16User   = iota // ordinary user message number id
	vC16Req2          // issue requests 0 and 1 in the same Receive (overrides mode, max)
	vC16Script        // Request 0 (override id); [DisableReentrancy]; [EnableReentrancy(mode, max)]; Request 1 (override id2)
)

var (
	vC16_target     *PID
	vC16_errSend    = errors.New("send failed")
	vC16_tellFail   [2]bool            // the outgoing Tell of request i fails
	vC16_corr       [2]string          // correlation id seen by the (substituted) Tell
	vC16_calls      [2]RequestCall     // handle of an admitted request
	vC16_reqMode    [2]reentrancy.Mode // reference model: mode request i was admitted with (Off = not admitted)
	vC16_done       [2]int             // how often the continuation of request i ran
	vC16_gMode      reentrancy.Mode    // reference model of the actor's policy
	vC16_gMax       int
	vC16_inTurn     bool
	vC16_handled    [2]int
	vC16_order      [2]int
	vC16_nHandled   int
	vC16_supervised int
	vC16_payload    int    // payload of a successful reply
	vC16_result     [2]any // what the continuation of request i received
	vC16_err        [2]error
)

func vC16_tell(pid *PID, ctx context.Context, to *PID, message any) error {
	req, ok := message.(*commands.AsyncRequest)
	vAssert(ok && to == vC16_target && req.CorrelationID != "", "a request is sent to its target as an AsyncRequest carrying a correlation id")
	i := req.Message.(int)
	if vC16_tellFail[i] {
		return vC16_errSend
	}
	vC16_corr[i] = req.CorrelationID
	return nil
}
func vC16_noSchedule(d *dispatcher, s schedulable)         {}
func vC16_noReschedule(w *worker, s schedulable)           {}
func vC16_supervision(pid *PID, signal *supervisionSignal) { vC16_supervised++ }

// Only for checks that stop the real dispatchOne (C02 substitutes it in its own entries): the same routing for the message
// kinds of these scenarios: the reentrancy stash gate, then async responses, then the actor's Receive.
func vC16_dispatchOne(pid *PID, received *ReceiveContext, now time.Time) {
	if pid.enableReentrancyStash(received) {
		vAssert(pid.stash(received) == nil, "a held message is accepted by the stash")
		return
	}
	switch msg := received.Message().(type) {
	case *commands.AsyncResponse:
		pid.handleAsyncResponse(received, msg)
	default:
		pid.handleReceived(received, now)
	}
}

// reference model: admitted requests whose continuation has not run yet
func vC16_outstanding(blockingOnly bool) int {
	n := 0
	for i := 0; i < 2; i++ {
		if vC16_reqMode[i] != reentrancy.Off && vC16_done[i] == 0 && (!blockingOnly || vC16_reqMode[i] == reentrancy.StashNonReentrant) {
			n++
		}
	}
	return n
}

func vC16_request(rctx *ReceiveContext, i, override int) {
	eff := vC16_gMode
	inFlight := vC16_outstanding(false)
	if override >= 0 {
		eff = reentrancy.Mode(override)
	}
	// one call site: the option applies WithReentrancyMode only when the script asks for a per-call override
	call := rctx.Request(vC16_target, i, func(c *requestConfig) {
		if override >= 0 {
			WithReentrancyMode(reentrancy.Mode(override))(c)
		}
	})
	allowed := eff != reentrancy.Off && (vC16_gMax == 0 || inFlight < vC16_gMax)
	if call == nil {
		vAssert(!allowed || vC16_tellFail[i], "a request is rejected only when requests are off, the in-flight limit is reached or the send failed")
		vCover("request-rejected")
		return
	}
	vAssert(eff != reentrancy.Off, "no request is admitted while the policy (or the per-call override) is Off")
	vAssert(vC16_gMax == 0 || inFlight < vC16_gMax, "the in-flight limit is never exceeded")
	vAssert(!vC16_tellFail[i], "a request whose send failed is not reported as started")
	vC16_reqMode[i] = eff
	vC16_calls[i] = call
	call.Then(func(result any, err error) {
		vAssert(vC16_inTurn, "a continuation runs on the requesting actor's turn")
		vC16_done[i]++
		vC16_result[i], vC16_err[i] = result, err
	})
}

// the requesting actor's Receive
func vC16_receive(rctx *ReceiveContext) {
	vAssert(vC16_outstanding(true) == 0, "no ordinary message is handled while a blocking request is outstanding")
	m := rctx.Message().(*vC16Msg)
	switch m.op {
	case vC16User:
		vC16_handled[m.id]++
		if vC16_nHandled < 2 {
			vC16_order[vC16_nHandled] = m.id
		}
		vC16_nHandled++
	case vC16Req2:
		vC16_request(rctx, 0, m.mode)
		vC16_request(rctx, 1, m.max)
	case vC16Script:
		vC16_request(rctx, 0, m.id)
		if m.disable {
			rctx.DisableReentrancy()
			vC16_gMode = reentrancy.Off
		}
		if m.enable {
			err := rctx.EnableReentrancy(reentrancy.New(reentrancy.WithMode(reentrancy.Mode(m.mode)), reentrancy.WithMaxInFlight(m.max)))
			vAssert(err == nil, "a valid policy is accepted")
			vC16_gMode, vC16_gMax = reentrancy.Mode(m.mode), m.max
		}
		vC16_request(rctx, 1, m.id2)
	}
}

func vC16_newActor(mode reentrancy.Mode, max int) (*PID, *worker) {
	vC16_tellFail = [2]bool{}
	pid := &PID{mailbox: NewUnboundedMailbox(), systemMailbox: NewUnboundedMailbox(), dispatcher: &dispatcher{throughput: 3}, logger: log.DiscardLogger}
	bs := newBehaviorStack()
	bs.Push(vC16_receive)
	pid.behaviorStack = bs
	pid.setState(runningState, true)
	pid.reentrancy.Store(newReentrancyState(mode, max)) // as pid_option.go withReentrancy does at spawn
	vC16_target = &PID{logger: log.DiscardLogger}
	vC16_target.setState(runningState, true)
	vC16_corr, vC16_calls, vC16_reqMode, vC16_done = [2]string{}, [2]RequestCall{}, [2]reentrancy.Mode{}, [2]int{}
	vC16_gMode, vC16_gMax = mode, max
	vC16_handled, vC16_order, vC16_nHandled, vC16_supervised, vC16_inTurn = [2]int{}, [2]int{}, 0, 0, false
	vC16_result, vC16_err = [2]any{}, [2]error{}
	return pid, &worker{dispatcher: pid.dispatcher}
}

// the dispatcher runs the actor until its mailbox is drained (two turns of throughput 3 are enough for every script below:
// asserted at the end); afterwards the real counters agree with the reference model
func vC16_drain(pid *PID, w *worker) {
	vC16_inTurn = true
	pid.runTurn(w)
	pid.runTurn(w)
	vC16_inTurn = false
	re := pid.reentrancy.Load()
	vAssert(int(re.inFlightCount.Load()) == vC16_outstanding(false), "the in-flight counter equals the number of outstanding requests")
	vAssert(int(re.blockingCount.Load()) == vC16_outstanding(true), "the blocking counter equals the number of outstanding blocking requests")
	vAssert(re.requestStates.Len() == vC16_outstanding(false), "exactly the outstanding requests are tracked")
}

func vC16_send(pid *PID, w *worker, m *vC16Msg) {
	pid.doReceive(&ReceiveContext{message: m, self: pid, ctx: context.Background()})
	vC16_drain(pid, w)
}

// the outcome of request i arrives: a reply, an error reply, or the requester's own RequestCall.Cancel (which travels
// through the mailbox as an error reply)
func vC16_complete(pid *PID, w *worker, i int, errReply, cancel bool) {
	if vC16_calls[i] == nil {
		return
	}
	if cancel {
		vAssert(vC16_calls[i].Cancel() == nil, "cancelling a pending request succeeds")
		vCover("cancelled")
	} else {
		resp := &commands.AsyncResponse{CorrelationID: vC16_corr[i]}
		if errReply {
			resp.Error = "boom"
		} else {
			resp.Message = vC16_payload
		}
		pid.doReceive(&ReceiveContext{message: resp, self: pid, sender: vC16_target, ctx: context.Background()})
	}
	vC16_drain(pid, w)
	vAssert(vC16_done[i] == 1, "the continuation of a request has run exactly once when its outcome was processed")
	if cancel {
		vAssert(vC16_result[i] == nil && errors.Is(vC16_err[i], gerrors.ErrRequestCanceled), "a cancelled request completes with ErrRequestCanceled")
	} else if errReply {
		vAssert(vC16_result[i] == nil && vC16_err[i] != nil, "an error reply completes the request with an error")
	} else {
		vAssert(vC16_result[i] == any(vC16_payload) && vC16_err[i] == nil, "a reply completes the request with the reply's payload")
	}
}

func vC16_finish(pid *PID, nUser int) {
	re := pid.reentrancy.Load()
	vAssert(pid.mailbox.IsEmpty() && pid.schedState.Load() == dispatchIdle, "harness: the actor is quiescent")
	for i := 0; i < 2; i++ {
		if vC16_reqMode[i] != reentrancy.Off {
			vAssert(vC16_done[i] == 1, "every admitted request completes exactly once")
		} else {
			vAssert(vC16_done[i] == 0, "a rejected request has no continuation run")
		}
	}
	vAssert(re.inFlightCount.Load() == 0 && re.blockingCount.Load() == 0, "the in-flight counters return to zero")
	vAssert(re.requestStates.Len() == 0, "no request state is left behind")
	vAssert(pid.stashState == nil || pid.stashState.box.IsEmpty(), "no message stays held once no blocking request is outstanding")
	for k := 0; k < nUser; k++ {
		vAssert(vC16_handled[k] == 1, "every accepted message is handled exactly once after the blocking requests completed")
	}
	if nUser == 2 {
		vAssert(vC16_order[0] == 0 && vC16_order[1] == 1, "held messages are handled in arrival order")
	}
	vAssert(vC16_supervised == 0 || vC16_calls[0] == nil || vC16_calls[1] == nil, "only a rejected request reports an error to the supervisor")
}

// arrival orders of {user message 0, user message 1, outcome of request 0, outcome of request 1} with message 0 before 1
var vC16_orders = [12][4]int{
	{0, 1, 2, 3}, {0, 1, 3, 2}, {0, 2, 1, 3}, {0, 3, 1, 2}, {0, 2, 3, 1}, {0, 3, 2, 1},
	{2, 0, 1, 3}, {3, 0, 1, 2}, {2, 0, 3, 1}, {3, 0, 2, 1}, {2, 3, 0, 1}, {3, 2, 0, 1},
}

// One Receive issues two requests: request 0 with the actor's default mode, request 1 with a per-call override (case "modes":
// bit 0 / bit 1 = request 0 / 1 is StashNonReentrant, else AllowAll). Then two user messages and the two outcomes arrive in
// each of the 12 orders, the mailbox being drained after every arrival. Request 1 ends by RequestCall.Cancel in the
// odd-numbered orders. The shape of every history is concrete (a symbolic shape makes every later clone of a held message a
// distinct object per path); the reply payload is symbolic.
func vC16_mixedModes() {
	modes := vCase("modes")
	mode0, mode1 := reentrancy.AllowAll, reentrancy.AllowAll
	if modes&1 != 0 {
		mode0 = reentrancy.StashNonReentrant
	}
	if modes&2 != 0 {
		mode1 = reentrancy.StashNonReentrant
	}
	vC16_payload = vNondetInt("payload")
	for orderIdx := 0; orderIdx < 12; orderIdx++ {
		order := vC16_orders[orderIdx]
		max := [3]int{0, 2, 3}[orderIdx%3] // both requests fit
		pid, w := vC16_newActor(mode0, max)
		vC16_send(pid, w, &vC16Msg{op: vC16Req2, mode: -1, max: int(mode1)})
		vAssert(vC16_calls[0] != nil && vC16_calls[1] != nil, "both requests are admitted")
		for k := 0; k < 4; k++ {
			switch e := order[k]; e {
			case 0, 1:
				vC16_send(pid, w, &vC16Msg{op: vC16User, id: e})
			case 2:
				vC16_complete(pid, w, 0, false, false) // a reply
			case 3:
				vC16_complete(pid, w, 1, true, orderIdx%2 == 1) // an error reply or a cancellation
			}
		}
		vC16_finish(pid, 2)
	}
	vCover("end")
}

// One Receive calls Request, then (case "toggle": 0 nothing, 1 Disable, 2 Disable+Enable, 3 Enable) DisableReentrancy and/or
// EnableReentrancy(newMode, newMax), then Request again; afterwards the two outcomes arrive, each on its own turn. Case
// "policy" is the actor's initial mode; every combination of initial limit 0..2, new limit 0..2, per-call override of the
// second request {none, AllowAll, StashNonReentrant}, new mode = {initial mode, the other one} and outcome order is run.
func vC16_retune() {
	mode := reentrancy.Mode(vCase("policy"))
	toggle := vCase("toggle")
	vC16_payload = vNondetInt("payload")
	for max := 0; max <= 2; max++ {
		for newMax := 0; newMax <= 2; newMax++ {
			for ov := 0; ov < 3; ov++ {
				for k := 0; k < 4; k++ {
					newMode := mode
					if k&2 != 0 {
						newMode = 3 - mode
					}
					vC16_retuneOnce(mode, max, toggle, newMode, newMax, [3]int{-1, 1, 2}[ov], k&1 != 0)
				}
			}
		}
	}
	vCover("end")
}

func vC16_retuneOnce(mode reentrancy.Mode, max, toggle int, newMode reentrancy.Mode, newMax, override1 int, first bool) {
	m := &vC16Msg{op: vC16Script, id: -1, id2: override1, mode: int(newMode), max: newMax, disable: toggle == 1 || toggle == 2, enable: toggle == 2 || toggle == 3}
	pid, w := vC16_newActor(mode, max)
	vC16_send(pid, w, m)
	vAssert(vC16_calls[0] != nil, "the first request is admitted")
	if first {
		vC16_complete(pid, w, 1, true, false)
	}
	vC16_complete(pid, w, 0, false, false)
	if !first {
		vC16_complete(pid, w, 1, true, false)
	}
	vC16_finish(pid, 0)
	if vC16_calls[1] != nil {
		vCover("both-admitted")
	} else {
		vCover("second-rejected")
	}
}
