//go:build verif

package actor

import (
	"context"
	"errors"
	"time"

	gerrors "github.com/tochemey/goakt/v4/errors"
	"github.com/tochemey/goakt/v4/eventstream"
	"github.com/tochemey/goakt/v4/internal/address"
	"github.com/tochemey/goakt/v4/internal/commands"
	"github.com/tochemey/goakt/v4/internal/internalpb"
	"github.com/tochemey/goakt/v4/internal/remoteclient"
	"github.com/tochemey/goakt/v4/internal/xsync"
	"github.com/tochemey/goakt/v4/log"
	"github.com/tochemey/goakt/v4/remote"
)

func init() {
	vRegister("vC18_local", vC18_local)
	vRegister("vC18_actor", vC18_actor)
	vRegister("vC18_actor5", vC18_actor5)
	vRegister("vC18_remote", vC18_remote)
	vRegister("vC18_remoteLeaving", vC18_remoteLeaving)
	vRegister("vC18_batch", vC18_batch)
}

// ---- environment ---------------------------------------------------------------------------------------------------

type vC18Msg struct{ tag int }

type vC18Told struct {
	from, to *PID
	msg      any
}

var (
	vC18_told      []vC18Told // substituted (*PID).Tell
	vC18_scheduled int        // substituted (*dispatcher).schedule
)

func vC18_tell(pid *PID, ctx context.Context, to *PID, message any) error {
	vC18_told = append(vC18_told, vC18Told{pid, to, message})
	return nil
}

func vC18_schedule(d *dispatcher, s schedulable) { vC18_scheduled++ }

// events stream fake: records what is published
type vC18Stream struct{ published []any }

func (*vC18Stream) AddSubscriber() eventstream.Subscriber      { return nil }
func (*vC18Stream) RemoveSubscriber(eventstream.Subscriber)    {}
func (*vC18Stream) SubscribersCount(string) int                { return 0 }
func (*vC18Stream) Subscribe(eventstream.Subscriber, string)   {}
func (*vC18Stream) Unsubscribe(eventstream.Subscriber, string) {}
func (*vC18Stream) Broadcast(any, []string)                    {}
func (*vC18Stream) Close()                                     {}
func (s *vC18Stream) Publish(topic string, msg any)            { s.published = append(s.published, msg) }

// remoting client fake: only the serializer is used; a payload is one byte = the tag of a vC18Msg
type vC18Client struct {
	remoteclient.Client
	ser *vC18Serializer
}

func (c *vC18Client) Serializer(any) remote.Serializer { return c.ser }

type vC18Serializer struct{ msgs [4]*vC18Msg }

var vC18_errDecode = errors.New("decode failed")

func (s *vC18Serializer) Serialize(m any) ([]byte, error) { return []byte{byte(m.(*vC18Msg).tag)}, nil }
func (s *vC18Serializer) Deserialize(b []byte) (any, error) {
	if len(b) != 1 {
		return nil, vC18_errDecode
	}
	return s.msgs[b[0]&3], nil // (no data-dependent branch: everything after it would run under a symbolic path condition)
}

func vC18_pid(sys *actorSystem, name string) *PID {
	addr := address.New(name, "sys", "host", 9000)
	p := &PID{actor: vC18Actor{}, address: addr, path: newPath(addr), logger: log.DiscardLogger, actorSystem: sys, eventsStream: &vC18Stream{},
		mailbox: NewUnboundedMailbox(), systemMailbox: NewUnboundedMailbox(), dispatcher: &dispatcher{}, remoting: sys.remoting}
	p.setState(runningState, true)
	return p
}

type vC18Actor struct{}

func (vC18Actor) PreStart(*Context) error { return nil }
func (vC18Actor) Receive(*ReceiveContext) {}
func (vC18Actor) PostStop(*Context) error { return nil }

// a real actorSystem value with just the parts the dead-letter paths read
func vC18_system() *actorSystem {
	ser := &vC18Serializer{}
	for i := 0; i < 4; i++ {
		ser.msgs[i] = &vC18Msg{tag: i}
	}
	sys := &actorSystem{logger: log.DiscardLogger, actors: newTree(), remoteSenderAddresses: xsync.NewMap[string, *address.Address](),
		remoting: &vC18Client{ser: ser}}
	sys.noSender = vC18_pid(sys, "nosender")
	sys.deadletter = vC18_pid(sys, "deadletter")
	sys.systemGuardian = vC18_pid(sys, "systemguardian")
	vC18_told, vC18_scheduled = nil, 0
	return sys
}

// the one letter in vC18_told, checked field by field
func vC18_checkLetter(sys *actorSystem, from *PID, wantSender, wantReceiver *address.Address, wantMsg any, wantReason string) {
	vAssert(len(vC18_told) == 1, "a dropped message yields exactly one dead letter")
	if len(vC18_told) != 1 {
		return
	}
	t := vC18_told[0]
	cmd, ok := t.msg.(*commands.SendDeadletter)
	vAssert(ok && t.to == sys.deadletter && t.from == from, "the dead letter is a SendDeadletter command told to the dead-letter actor")
	if ok {
		d := cmd.Deadletter
		vAssert(d.Message == wantMsg, "the dead letter carries the original message")
		vAssert(d.Sender != nil && d.Sender.String() == wantSender.String(), "the dead letter carries the original sender (NoSender when there is none)")
		vAssert(d.Receiver != nil && d.Receiver.String() == wantReceiver.String(), "the dead letter carries the original receiver")
		if wantReason != "" { // "" = the reason is a formatted/joined string, opaque in the model: not compared
			vAssert(d.Reason == wantReason, "the dead letter carries the reason of the drop")
		}
	}
}

// ---- local drops: full non-blocking mailbox, unhandled message, system shutting down -----------------------------------------

func vC18_message(kind int) any {
	switch kind {
	case 0:
		return &vC18Msg{tag: 7}
	case 1:
		return new(PostStart) // exempt; user mailbox
	case 2:
		return new(Terminated) // exempt; control
	case 3:
		return &commands.SendDeadletter{} // exempt; control
	case 4:
		return new(PoisonPill) // control, system message
	case 5:
		return new(PausePassivation) // control, system message
	case 7:
		return NewPanicSignal(&vC18Msg{tag: 8}, "boom", time.Time{}) // control, system message (an escalated failure)
	case 8:
		return &commands.AsyncResponse{} // system message, user mailbox
	}
	return &commands.AsyncRequest{} // system message, user mailbox (the envelope of ReceiveContext.Request)
}

func vC18_local() {
	sys := vC18_system()
	target := vC18_pid(sys, "target")
	realSender := vC18_pid(sys, "sender")
	box := NewNonBlockingBoundedMailbox(2)
	target.mailbox = box
	// sender: none, NoSender, or a real actor
	var sender *PID
	who := vChoose("sender", 3)
	if who == 1 {
		sender = sys.noSender
	}
	if who == 2 {
		sender = realSender
	}
	wantSender := sys.noSender.address
	if who == 2 {
		wantSender = realSender.address
	}
	kind := vCase("message")
	msg := vC18_message(kind)
	exempt := kind == 1 || kind == 2 || kind == 3
	control := kind == 2 || kind == 3 || kind == 4 || kind == 5 || kind == 7
	system := kind != 0
	// earlier traffic: 0..2 messages already wait in the bounded mailbox (2 = full)
	fill := vChoose("queued", 3)
	for i := 0; i < 2; i++ {
		if i < fill {
			vAssert(box.Enqueue(&ReceiveContext{message: &vC18Msg{tag: i}, self: target}) == nil, "harness: pre-fill")
		}
	}
	rctx := &ReceiveContext{message: msg, sender: sender, self: target}
	switch vCase("cause") {
	case 0: // delivery into a possibly full mailbox
		target.doReceive(rctx)
		dropped := !control && fill == 2
		if dropped {
			vAssert(box.Len() == 2 && vC18_scheduled == 0, "a refused message is neither enqueued nor does it schedule the actor")
			if exempt {
				vAssert(len(vC18_told) == 0, "PostStart/Terminated/SendDeadletter never become dead letters")
			} else {
				vC18_checkLetter(sys, target, wantSender, target.address, msg, gerrors.ErrMailboxFull.Error())
				vCover("mailbox-full-letter")
			}
		} else {
			vAssert(len(vC18_told) == 0, "an accepted message is not reported as a dead letter")
			vAssert(vC18_scheduled == 1, "an accepted message schedules the idle actor")
			if control {
				vAssert(target.systemMailbox.Len() == 1 && box.Len() == int64(fill), "a control message is queued once, in the system mailbox")
			} else {
				vAssert(target.systemMailbox.Len() == 0 && box.Len() == int64(fill)+1, "a user message is queued once, in the mailbox")
			}
			vCover("accepted")
		}
	case 1: // the handler calls Unhandled
		rctx.Unhandled()
		if exempt {
			vAssert(len(vC18_told) == 0, "PostStart/Terminated/SendDeadletter never become dead letters")
		} else {
			vC18_checkLetter(sys, target, wantSender, target.address, msg, gerrors.ErrUnhandled.Error())
			vCover("unhandled-letter")
		}
		vAssert(box.Len() == int64(fill) && vC18_scheduled == 0, "Unhandled does not enqueue or schedule anything")
	default: // the system is shutting down
		sys.shuttingDown.Store(true)
		target.doReceive(rctx)
		if !system {
			vC18_checkLetter(sys, target, wantSender, target.address, msg, gerrors.ErrSystemShuttingDown.Error())
			vAssert(box.Len() == int64(fill) && target.systemMailbox.Len() == 0 && vC18_scheduled == 0, "a message refused at shutdown is neither enqueued nor scheduled")
			vCover("shutdown-letter")
		} else if !(fill == 2 && !control) {
			vAssert(len(vC18_told) == 0 && vC18_scheduled == 1, "system messages are still delivered while the system shuts down")
		}
	}
	vCover("end")
}

// ---- the dead-letter actor: counts and publishes every letter once -------------------------------------------------------

func vC18_actor()  { vC18_letters(3) }
func vC18_actor5() { vC18_letters(5) }

func vC18_letters(K int) {
	sys := vC18_system()
	es := &vC18Stream{}
	x := newDeadLetter()
	dl := sys.deadletter
	dl.eventsStream = es
	dl.actor = x
	x.Receive(&ReceiveContext{message: new(PostStart), self: dl})
	recv := [2]*PID{vC18_pid(sys, "r0"), vC18_pid(sys, "r1")}
	snd := vC18_pid(sys, "s")
	var per [2]int64
	var msgs [5]*vC18Msg
	var to [5]int
	for k := 0; k < K; k++ {
		msgs[k] = &vC18Msg{tag: k}
		to[k] = vChoose("receiver", 2)
		r := recv[0]
		if to[k] == 1 {
			r = recv[1]
		}
		cmd := &commands.SendDeadletter{Deadletter: commands.Deadletter{Sender: snd.address, Receiver: r.address, Message: msgs[k], Reason: "why"}}
		x.Receive(&ReceiveContext{message: cmd, self: dl, sender: sys.systemGuardian})
		per[to[k]]++
		vAssert(len(es.published) == k+1, "every letter is published exactly once")
		vAssert(x.count(&commands.DeadlettersCountRequest{}) == int64(k+1), "the total count grows by one per letter")
		vAssert(x.count(&commands.DeadlettersCountRequest{Address: recv[0].address}) == per[0] &&
			x.count(&commands.DeadlettersCountRequest{Address: recv[1].address}) == per[1], "the per-receiver counts grow by one for the letter's receiver only")
	}
	for k := 0; k < K; k++ {
		d, ok := es.published[k].(*Deadletter)
		vAssert(ok, "what is published is a Deadletter event")
		if ok {
			r := recv[0]
			if to[k] == 1 {
				r = recv[1]
			}
			vAssert(d.Message() == any(msgs[k]) && d.Reason() == "why", "the k-th published event carries the k-th message and its reason")
			vAssert(d.Sender().String() == snd.address.String() && d.Receiver().String() == r.address.String(), "the published event names the original sender and receiver")
		}
	}
	if per[0] == 2 {
		vCover("two-for-one-receiver")
	}
	vCover("end")
}

// ---- remote tell arriving for an actor that is gone / stopped ------------------------------------------------------------

func vC18_remote() {
	sys := vC18_system()
	parent := vC18_pid(sys, "parent")
	target := vC18_pid(sys, "target")
	vAssert(sys.actors.addRootNode(parent) == nil, "harness: root")
	remoteSender := address.New("peer", "sys", "otherhost", 9001)
	tag := vChoose("payload", 4)
	wire := &internalpb.RemoteMessage{Receiver: target.address.String(), Message: []byte{byte(tag)}}
	wantSender := sys.noSender.address
	if vCase("hasSender") == 1 { // concrete: a symbolic wire string would drag address.Parse into symbolic parsing (that is C26)
		wire.Sender = remoteSender.String()
		wantSender = remoteSender
	}
	want := sys.remoting.Serializer(nil).(*vC18Serializer).msgs[tag]
	switch vCase("state") {
	case 0: // never spawned here (or already removed from the tree)
		sys.deliverRemoteTellMessage(context.Background(), wire)
		vC18_checkLetter(sys, sys.systemGuardian, wantSender, target.address, want, "") // (the reason is a formatted string: opaque in the model)
		vCover("unknown-actor")
	case 1: // known but stopped
		vAssert(sys.actors.addNode(parent, target) == nil, "harness: node")
		target.setState(runningState, false)
		sys.deliverRemoteTellMessage(context.Background(), wire)
		vC18_checkLetter(sys, sys.systemGuardian, wantSender, target.address, want, "")
		vAssert(target.mailbox.IsEmpty() && vC18_scheduled == 0, "a message for a stopped actor is not enqueued as well")
		vCover("stopped-actor")
	default: // running: delivered, no letter
		vAssert(sys.actors.addNode(parent, target) == nil, "harness: node")
		sys.deliverRemoteTellMessage(context.Background(), wire)
		vAssert(len(vC18_told) == 0, "a delivered remote message is not reported as a dead letter")
		vAssert(target.mailbox.Len() == 1 && vC18_scheduled == 1, "a delivered remote message is enqueued once and schedules the actor")
		got := target.mailbox.Dequeue()
		vAssert(got != nil && got.message == any(want), "the delivered message is the decoded payload")
		vCover("delivered")
	}
	vCover("end")
}

// a remote tell landing while the local target is on its way out: still in the tree and still flagged running, but stopping
// (Shutdown in progress), passivating, or suspended -- "not running" for every sender, local or remote
func vC18_remoteLeaving() {
	sys := vC18_system()
	parent := vC18_pid(sys, "parent")
	target := vC18_pid(sys, "target")
	vAssert(sys.actors.addRootNode(parent) == nil, "harness: root")
	vAssert(sys.actors.addNode(parent, target) == nil, "harness: node")
	remoteSender := address.New("peer", "sys", "otherhost", 9001)
	tag := vChoose("payload", 4)
	wire := &internalpb.RemoteMessage{Receiver: target.address.String(), Message: []byte{byte(tag)}}
	wantSender := sys.noSender.address
	if vCase("hasSender") == 1 {
		wire.Sender = remoteSender.String()
		wantSender = remoteSender
	}
	want := sys.remoting.Serializer(nil).(*vC18Serializer).msgs[tag]
	// any non-empty combination of the three flags (bit mask 1..7); the running flag stays set
	mask := vChoose("leavingFlags", 8)
	vAssume(mask >= 1)
	st := uint32(runningState)
	if mask&1 != 0 {
		st |= uint32(stoppingState)
	}
	if mask&2 != 0 {
		st |= uint32(passivatingState)
	}
	if mask&4 != 0 {
		st |= uint32(suspendedState)
	}
	target.state.Store(st)
	vAssert(!target.IsRunning(), "harness: such an actor does not count as running")
	sys.deliverRemoteTellMessage(context.Background(), wire)
	vC18_checkLetter(sys, sys.systemGuardian, wantSender, target.address, want, "")
	vAssert(target.mailbox.IsEmpty() && target.systemMailbox.IsEmpty() && vC18_scheduled == 0, "a message for an actor that is stopping/passivating/suspended is not enqueued as well")
	if mask == 1 {
		vCover("stopping")
	}
	if mask == 4 {
		vCover("suspended")
	}
	vCover("end")
}

// ---- a failed coalesced batch of n remote tells yields n letters -----------------------------------------------------------

func vC18_batch() {
	sys := vC18_system()
	sys.coalescedFailureQueue = make(chan coalescedFailure, 2)
	sys.coalescedFailureWG.Add(1)
	recv := [2]*address.Address{address.New("r0", "sys", "otherhost", 9001), address.New("r1", "sys", "otherhost", 9001)}
	snd := address.New("s", "sys", "host", 9000)
	n := vCase("n")
	var batch []*internalpb.RemoteMessage
	var to [3]int
	var hasSender [3]bool
	for i := 0; i < n; i++ {
		// receivers and senders alternate (concrete wire strings, see vC18_remote)
		to[i] = i % 2
		r := recv[to[i]]
		m := &internalpb.RemoteMessage{Receiver: r.String(), Message: []byte{byte(i)}}
		hasSender[i] = (i+vCase("firstHasSender"))%2 == 1
		if hasSender[i] {
			m.Sender = snd.String()
		}
		batch = append(batch, m)
	}
	cause := gerrors.ErrRemoteSendFailure
	sys.enqueueCoalescedFailure("otherhost:9001", batch, cause)
	close(sys.coalescedFailureQueue)
	sys.drainCoalescedFailures()
	vAssert(len(vC18_told) == n, "a failed batch of n messages yields n dead letters")
	ser := sys.remoting.Serializer(nil).(*vC18Serializer)
	for i := 0; i < n; i++ {
		if i < len(vC18_told) {
			t := vC18_told[i]
			cmd, ok := t.msg.(*commands.SendDeadletter)
			vAssert(ok && t.to == sys.deadletter && t.from == sys.systemGuardian, "each letter is a SendDeadletter command told to the dead-letter actor")
			if ok {
				d := cmd.Deadletter
				r := recv[0]
				if to[i] == 1 {
					r = recv[1]
				}
				ws := sys.noSender.address
				if hasSender[i] {
					ws = snd
				}
				vAssert(d.Message == any(ser.msgs[i]) && d.Reason == cause.Error(), "the i-th letter carries the i-th message of the batch and the batch's failure")
				vAssert(d.Receiver != nil && d.Receiver.String() == r.String() && d.Sender != nil && d.Sender.String() == ws.String(), "the i-th letter names the original receiver and sender")
			}
		}
	}
	vCover("end")
}
