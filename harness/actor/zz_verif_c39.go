//go:build verif

package actor

import (
	"github.com/tochemey/goakt/v4/crdt"
	"github.com/tochemey/goakt/v4/internal/types"
)

// C39 (replicator level): the REAL replicatorActor.handleUpdate / handleDelta store logic with GCounter values.
// (*replicatorActor).publishDelta is substituted by vC39_publish, which records the delta handed to the transport.

func init() { vRegister("vC39_replicator", vC39_replicator) }

var vC39_out [3]*crdt.GCounter
var vC39_has [3]bool
var vC39_slot int
var vC39_origin = [3]string{"a", "a", "b"}
var vC39_orders = [36][4]int{{2, 1, 0, 0}, {1, 2, 0, 0}, {2, 0, 1, 0}, {2, 1, 1, 0}, {0, 2, 1, 0}, {1, 2, 1, 0}, {2, 2, 1, 0}, {1, 0, 2, 0}, {0, 1, 2, 0}, {1, 1, 2, 0}, {2, 1, 2, 0}, {1, 2, 2, 0}, {2, 0, 0, 1}, {2, 1, 0, 1}, {0, 2, 0, 1}, {1, 2, 0, 1}, {2, 2, 0, 1}, {2, 0, 1, 1}, {0, 2, 1, 1}, {0, 0, 2, 1}, {1, 0, 2, 1}, {2, 0, 2, 1}, {0, 1, 2, 1}, {0, 2, 2, 1}, {1, 0, 0, 2}, {0, 1, 0, 2}, {1, 1, 0, 2}, {2, 1, 0, 2}, {1, 2, 0, 2}, {0, 0, 1, 2}, {1, 0, 1, 2}, {2, 0, 1, 2}, {0, 1, 1, 2}, {0, 2, 1, 2}, {1, 0, 2, 2}, {0, 1, 2, 2}}

func vC39_publish(r *replicatorActor, ctx *ReceiveContext, keyID string, dataType crdt.DataType, delta crdt.ReplicatedData) {
	g, ok := delta.(*crdt.GCounter)
	vAssert(ok && keyID == "k" && dataType == crdt.GCounterType, "the published delta carries the key, its type and a GCounter")
	if ok {
		vC39_out[vC39_slot], vC39_has[vC39_slot] = g, true
	}
}

func vC39_newReplicator(node string) *replicatorActor {
	return &replicatorActor{
		nodeID:        node,
		store:         make(map[string]crdt.ReplicatedData),
		keyTypes:      make(map[string]crdt.DataType),
		subscriptions: make(map[string]types.Unit),
		watchers:      make(map[string][]*PID),
		tombstones:    make(map[string]*tombstone),
		versions:      make(map[string]uint64),
	}
}

func vC39_update(r *replicatorActor, slot int, twice bool) {
	n1, n2 := vNondetUint64("inc"), vNondetUint64("inc")
	vAssume(n1 < 1<<60 && n2 < 1<<60)
	node := r.nodeID
	vC39_slot = slot
	r.handleUpdate(&ReceiveContext{}, &crdt.Update{
		Key:     crdt.GCounterKey("k"),
		Initial: crdt.NewGCounter(),
		Modify: func(cur crdt.ReplicatedData) crdt.ReplicatedData {
			g, ok := cur.(*crdt.GCounter)
			if !ok {
				return cur
			}
			amount := n1
			if twice {
				amount += n2 // two increments in one Modify
				return g.Increment(node, n1).Increment(node, n2)
			}
			return g.Increment(node, amount)
		},
	})
}

func vC39_stateOf(r *replicatorActor) (a, b uint64, ok bool) {
	v, present := r.store["k"]
	g, isG := v.(*crdt.GCounter)
	if !present || !isG {
		return 0, 0, false
	}
	st := g.State()
	return st["a"], st["b"], true
}

func vC39_replicator() {
	ra, rb, rc := vC39_newReplicator("a"), vC39_newReplicator("b"), vC39_newReplicator("c")
	vC39_has = [3]bool{}
	twice := vCase("twice") == 1
	vC39_update(ra, 0, twice)
	vC39_update(rb, 2, false)
	vC39_update(ra, 1, false) // vC39_out: 0,1 = a's deltas, 2 = b's
	vAssert(vC39_has[0] && vC39_has[1] && vC39_has[2], "every update that changes the counter publishes a delta")
	aa, ab, _ := vC39_stateOf(ra)
	ba, bb, _ := vC39_stateOf(rb)
	wantA, wantB := aa, bb // node a's count lives at a, node b's at b (the other side has not seen it)
	vAssert(ab == 0 && ba == 0, "an originator only counts for itself")
	// delivery order at the third replicator: fixed per job (vCase("order") indexes the 36 sequences of 4 deliveries
	// that contain each of the 3 deltas; amounts stay symbolic)
	ord := vC39_orders[vCase("order")]
	for i := 0; i < 4; i++ {
		rc.handleDelta(&ReceiveContext{}, &crdtDelta{KeyID: "k", DataType: crdt.GCounterType, Delta: vC39_out[ord[i]], Origin: vC39_origin[ord[i]]})
	}
	ca, cb, ok := vC39_stateOf(rc)
	vAssert(ok && ca == wantA && cb == wantB, "a replicator that received every delta (any order, one duplicate) stores the merge of the originators' values")
	// a replicator ignores its own deltas
	va := ra.versions["k"]
	ra.handleDelta(&ReceiveContext{}, &crdtDelta{KeyID: "k", DataType: crdt.GCounterType, Delta: vC39_out[0], Origin: "a"})
	xa, xb, _ := vC39_stateOf(ra)
	vAssert(xa == aa && xb == ab && ra.versions["k"] == va, "a replicator ignores deltas it published itself")
	// originators exchange deltas in order
	ra.handleDelta(&ReceiveContext{}, &crdtDelta{KeyID: "k", DataType: crdt.GCounterType, Delta: vC39_out[2], Origin: "b"})
	rb.handleDelta(&ReceiveContext{}, &crdtDelta{KeyID: "k", DataType: crdt.GCounterType, Delta: vC39_out[0], Origin: "a"})
	rb.handleDelta(&ReceiveContext{}, &crdtDelta{KeyID: "k", DataType: crdt.GCounterType, Delta: vC39_out[1], Origin: "a"})
	xa, xb, _ = vC39_stateOf(ra)
	ya, yb, _ := vC39_stateOf(rb)
	vAssert(xa == wantA && xb == wantB && ya == wantA && yb == wantB, "the originating replicators converge after exchanging deltas")
	// a tombstoned key refuses deltas
	rc.tombstones["k"] = &tombstone{}
	vc := rc.versions["k"]
	rc.handleDelta(&ReceiveContext{}, &crdtDelta{KeyID: "k", DataType: crdt.GCounterType, Delta: vC39_out[0], Origin: "a"})
	vAssert(rc.versions["k"] == vc, "a delta for a deleted key is not applied")
	if twice && wantA > 0 && wantB > 0 {
		vCover("two-increments-in-one-update")
	}
	vCover("end")
}
