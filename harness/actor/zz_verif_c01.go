//go:build verif

package actor

import (
	"context"
	"time"

	"github.com/tochemey/goakt/v4/log"
)

func init() {
	vRegister("vC01_basic", vC01_basic)
	vRegister("vC01_restart", vC01_restart)
	vRegister("vC01_restartSuspended", vC01_restartSuspended)
	vRegister("vC02_quiescence", vC02_quiescence)
	vRegister("vC02_throughput1", vC02_throughput1)
}

// ---- ghost state shared by the C01/C02 harnesses
var vC01_inHandler int
var vC01_handled [4]int // how often message i was handed to the handler
var vC01_order [4]int
var vC01_nHandled int
var vC01_ready chan struct{} // abstract ready queue: one token per dispatcher.schedule / worker.reschedule

// substituted for (*PID).dispatchOne: the handler body, with a yield in the middle so that other threads may interleave
func vC01_dispatchOne(pid *PID, received *ReceiveContext, now time.Time) {
	vAssert(vC01_inHandler == 0, "no two handler invocations of one actor are in progress at the same time")
	vC01_inHandler = 1
	id := received.message.(int)
	vYield()
	vC01_handled[id]++
	if vC01_nHandled < 4 {
		vC01_order[vC01_nHandled] = id
	}
	vC01_nHandled++
	vC01_inHandler = 0
}

// substituted for (*dispatcher).schedule and (*worker).reschedule
func vC01_schedule(d *dispatcher, s schedulable) { vC01_ready <- struct{}{} }
func vC01_reschedule(w *worker, s schedulable)   { vC01_ready <- struct{}{} }

func vC01_newPID() (*PID, *worker) {
	pid := &PID{mailbox: NewUnboundedMailbox(), systemMailbox: NewUnboundedMailbox(), dispatcher: &dispatcher{throughput: 2}, logger: log.DiscardLogger}
	w := &worker{dispatcher: pid.dispatcher}
	vC01_inHandler, vC01_nHandled = 0, 0
	vC01_handled = [4]int{}
	vC01_ready = make(chan struct{}, 8)
	return pid, w
}

func vC01_send(pid *PID, id int) { pid.doReceive(&ReceiveContext{message: id, self: pid}) }

// a dispatcher worker: takes a ready token (blocks until one exists) and runs the actor's turn
func vC01_workerOnce(pid *PID, w *worker) {
	<-vC01_ready
	pid.runTurn(w)
}

// 2 senders x 1 message, 2 workers x 1 turn
func vC01_basic() {
	pid, w := vC01_newPID()
	vGo("s1", func() { vC01_send(pid, 1) })
	vGo("s2", func() { vC01_send(pid, 2) })
	vGo("w1", func() { vC01_workerOnce(pid, w) })
	vGo("w2", func() { vC01_workerOnce(pid, w) })
	vRun()
	if vThreadDone(0) && vThreadDone(1) {
		vCover("both-sent")
	}
	if vC01_handled[1] == 1 && vC01_handled[2] == 1 {
		vCover("both-handled")
	}
	vAssert(vC01_handled[1] <= 1 && vC01_handled[2] <= 1, "no message is handled twice")
	vCover("end")
}

// quiescent final state: every sender finished, every worker finished its turn or never got a token
func vC02_check(pid *PID, nSenders, nWorkers, nMsgs int, sent [4]bool) {
	quiet := true
	for i := 0; i < nSenders; i++ {
		quiet = quiet && vThreadDone(i)
	}
	for i := nSenders; i < nSenders+nWorkers; i++ {
		quiet = quiet && (vThreadDone(i) || vThreadIdle(i))
	}
	for id := 1; id <= nMsgs; id++ {
		vAssert(vC01_handled[id] <= 1, "an accepted message is never handled twice")
	}
	if quiet {
		vCover("quiescent")
		for id := 1; id <= nMsgs; id++ {
			if sent[id] && vC01_handled[id] == 0 {
				vCover("pending-at-quiescence")
				// no lost wake-up: a pending message implies the actor sits on the ready queue
				vAssert(len(vC01_ready) > 0, "a pending message implies the actor is scheduled (no lost wake-up)")
				vAssert(pid.schedState.Load() != dispatchIdle, "a pending message implies the actor is not idle")
			}
		}
		if len(vC01_ready) == 0 {
			vAssert(pid.mailbox.IsEmpty(), "with nothing scheduled the mailbox is empty")
		}
	}
}

// sender 1 sends two messages, sender 2 one; two workers, throughput 2
func vC02_quiescence() {
	pid, w := vC01_newPID()
	vGo("s1", func() { vC01_send(pid, 1); vC01_send(pid, 2) })
	vGo("s2", func() { vC01_send(pid, 3) })
	vGo("w1", func() { vC01_workerOnce(pid, w) })
	vGo("w2", func() { vC01_workerOnce(pid, w) })
	vRun()
	vC02_check(pid, 2, 2, 3, [4]bool{false, true, true, true})
	if vC01_nHandled == 3 {
		vCover("all-handled")
		i1, i2 := -1, -1
		for i := 0; i < 3; i++ {
			if vC01_order[i] == 1 {
				i1 = i
			}
			if vC01_order[i] == 2 {
				i2 = i
			}
		}
		vAssert(i1 < i2, "messages of one sender are handled in send order")
	}
	vCover("end")
}

// throughput 1: every turn ends by yielding back to the ready queue
func vC02_throughput1() {
	pid, w := vC01_newPID()
	pid.dispatcher.throughput = 1
	vGo("s1", func() { vC01_send(pid, 1); vC01_send(pid, 2) })
	vGo("w1", func() { vC01_workerOnce(pid, w); vC01_workerOnce(pid, w) })
	vGo("w2", func() { vC01_workerOnce(pid, w) })
	vRun()
	vC02_check(pid, 1, 2, 2, [4]bool{false, true, true, false})
	if vC01_nHandled == 2 {
		vCover("all-handled")
	}
	vCover("end")
}

// ---- restart racing message delivery (real restartSubtree, environment substituted; see checks/c01.py)
type vC01Sys struct{ ActorSystem }

func (vC01Sys) putActorOnCluster(ctx context.Context, pid *PID) error { return nil }
func (vC01Sys) increaseActorsCounter()                                {}

func vC01_noopCancel(pid *PID, err error)                  {}
func vC01_treeNode(t *tree, id string) (*pidNode, bool)    { return nil, true }
func vC01_init(pid *PID, ctx context.Context) error {
	// PreStart of the new incarnation (runs inside init): no Receive of the actor may be in progress
	vAssert(vC01_inHandler == 0, "PreStart of a restarted actor never runs while a Receive is in progress")
	pid.setState(runningState, true)
	return nil
}
func vC01_noop(pid *PID)                                   {}
func vC01_attach(t *tree, parent, pid *PID) error          { return nil }
func vC01_addWatcher(t *tree, pid, watcher *PID)           {}
func vC01_fire(pid *PID, ctx context.Context, message any) {}
func vC01_registerMetrics(pid *PID) error                  { return nil }
func vC01_id(pid *PID) string                              { return "x" }

// a Tell goes through the running-state gate before doReceive
func vC01_tell(pid *PID, id int) {
	if pid.IsRunning() {
		vC01_send(pid, id)
	}
}

func vC01_restart() {
	pid, w := vC01_newPID()
	pid.state.Store(0) // stopped, as after the Shutdown at the start of a user-requested Restart
	node := &restartNode{pid: pid}
	vGo("restart", func() {
		_ = restartSubtree(context.Background(), node, nil, &tree{}, nil, vC01Sys{})
	})
	vGo("s1", func() { vC01_tell(pid, 1) })
	vGo("s2", func() { vC01_tell(pid, 2) })
	vGo("w1", func() { vC01_workerOnce(pid, w) })
	vGo("w2", func() { vC01_workerOnce(pid, w) })
	vRun()
	vAssert(vC01_handled[1] <= 1 && vC01_handled[2] <= 1, "no message is handled twice")
	if vC01_nHandled == 2 {
		vCover("both-handled")
	}
	vCover("end")
}

// supervisor-directed restart of a suspended (not running) actor whose turn may still be in progress: message 1 was
// accepted before the failure and the actor is already scheduled; the restart must wait for the worker that owns the turn
func vC01_restartSuspended() {
	pid, w := vC01_newPID()
	vC01_send(pid, 1) // accepted and scheduled while the actor was still running
	pid.state.Store(0)
	node := &restartNode{pid: pid}
	vGo("restart", func() {
		_ = restartSubtree(context.Background(), node, nil, &tree{}, nil, vC01Sys{})
	})
	vGo("s2", func() { vC01_tell(pid, 2) })
	vGo("w1", func() { vC01_workerOnce(pid, w) })
	vGo("w2", func() { vC01_workerOnce(pid, w) })
	vRun()
	vAssert(vC01_handled[1] <= 1 && vC01_handled[2] <= 1, "no message is handled twice")
	if vC01_nHandled == 2 {
		vCover("both-handled")
	}
	if vThreadDone(0) {
		vCover("restarted")
	}
	vCover("end")
}
