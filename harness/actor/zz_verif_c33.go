//go:build verif

package actor

import (
	"context"
	"errors"
	"time"

	"github.com/flowchartsman/retry"
	"golang.org/x/sync/errgroup"

	"github.com/tochemey/goakt/v4/discovery"
	"github.com/tochemey/goakt/v4/internal/cluster"
	"github.com/tochemey/goakt/v4/internal/internalpb"
	"github.com/tochemey/goakt/v4/internal/remoteclient"
	"github.com/tochemey/goakt/v4/log"
)

func init() {
	vRegister("vC33_dedup", vC33_dedup)
	vRegister("vC33_relocator6", vC33_relocator6)
	vRegister("vC33_relocator5", vC33_relocator5)
	vRegister("vC33_share", vC33_share)
	vRegister("vC33_batches", vC33_batches)
	vRegister("vC33_finish", vC33_finish)
}

var vC33_addrs = [2]string{"h1:1", "h2:1"}
var vC33_hosts = [2]string{"h1", "h2"}

// ------------------------------------------------------------------------------------------------------------------
// (a) beginRelocation / endRelocation / relocationJob against a reference map: at most one job per address in flight

func vC33_dedup() {
	const K = 6
	x := &actorSystem{relocationJobs: make(map[string]*internalpb.PeerState)}
	var states [K]*internalpb.PeerState
	reg := [2]int{-1, -1} // reference: the operation that registered the job in flight, per address
	for k := 0; k < K; k++ {
		op, a := vChoose("op", 3), vChoose("addr", 2)
		states[k] = &internalpb.PeerState{} // every notification comes with its own snapshot (the cluster store clones)
		for c := 0; c < 2; c++ {
			if a != c {
				continue
			}
			switch op {
			case 0:
				ok := x.beginRelocation(vC33_addrs[c], states[k])
				vAssert(ok == (reg[c] < 0), "beginRelocation succeeds exactly when no relocation of that address is in flight")
				if ok {
					reg[c] = k
					vCover("begin")
				} else {
					vCover("duplicate-begin-refused")
				}
			case 1:
				x.endRelocation(vC33_addrs[c])
				reg[c] = -1
			case 2:
				ps, ok := x.relocationJob(vC33_addrs[c])
				vAssert(ok == (reg[c] >= 0), "relocationJob finds a job exactly while one is in flight")
				if reg[c] >= 0 {
					vAssert(ps == states[reg[c]], "relocationJob returns the snapshot registered by the begin that is in flight (not a duplicate's)")
					vCover("job-found")
				}
			}
		}
	}
	vCover("end")
}

// ------------------------------------------------------------------------------------------------------------------
// (b) relocator: real startWorker / handleTerminated / abortRelocation, worker.finish, begin/endRelocation under all
// histories of K events over 2 addresses (node-left notifications incl. duplicates, relocator turns, worker completion / death)

var (
	vC33_spawnFail   bool // outcome of the next ctx.Spawn
	vC33_spawned     *PID
	vC33_spawnName   string
	vC33_watched     *PID
	vC33_toldTo      *PID
	vC33_toldState   *internalpb.PeerState
	vC33_aborts      int
	vC33_abortAddr   string
	vC33_abortState  *internalpb.PeerState
	vC33_workerNames = [8]string{"w0", "w1", "w2", "w3", "w4", "w5", "w6", "w7"}
)

// substitute for (*ReceiveContext).Spawn
func vC33_spawn(rctx *ReceiveContext, name string, actor Actor, opts ...SpawnOption) *PID {
	if vC33_spawnFail {
		return nil
	}
	vC33_spawnName = name
	vC33_spawned = &PID{path: &path{name: name}}
	return vC33_spawned
}

// substitutes for (*ReceiveContext).Watch / Tell
func vC33_watch(rctx *ReceiveContext, cid *PID) { vC33_watched = cid }
func vC33_tell(rctx *ReceiveContext, to *PID, message any) {
	if m, ok := message.(*internalpb.Rebalance); ok {
		vC33_toldTo, vC33_toldState = to, m.GetPeerState()
	}
}

// substitute for (*actorSystem).reportAbortedRelocation (publishes RelocationFailed listing every item of the snapshot)
func vC33_reportAborted(x *actorSystem, ctx context.Context, pid *PID, peersAddress string, peerState *internalpb.PeerState, elapsed time.Duration, cause error) {
	vC33_aborts++
	vC33_abortAddr, vC33_abortState = peersAddress, peerState
}

// substitute for fmt.Sprintf in this entry: the worker name "<reserved>-<sequence>" (distinct per sequence number)
func vC33_sprintf(format string, args ...any) string {
	if format == "%s-%d" && len(args) == 2 {
		if seq, ok := args[1].(uint64); ok && seq < 8 {
			return vC33_workerNames[seq]
		}
	}
	return "?"
}

func vC33_relocator6() { vC33_relocatorRun(6) }
func vC33_relocator5() { vC33_relocatorRun(5) }

func vC33_relocatorRun(K int) {
	sys := &actorSystem{relocationJobs: make(map[string]*internalpb.PeerState), logger: log.DiscardLogger}
	self := &PID{actorSystem: sys}
	r := &relocator{workers: make(map[string]workerJob), pid: self, logger: log.DiscardLogger}
	w := &relocationWorker{pid: self, logger: log.DiscardLogger}
	rctx := &ReceiveContext{self: self, ctx: context.Background()}
	vC33_aborts = 0

	// reference bookkeeping, by job (= index of the node-left event that registered it)
	var states [6]*internalpb.PeerState
	var jobAddr [6]int
	var queued [6]bool  // Rebalance(job) sits in the relocator's mailbox
	var wstate [6]int   // worker of the job: 0 none, 1 relocating, 2 completed (Terminated not yet handled), 3 died (Terminated not yet handled), 4 gone
	var wname [6]string // name of the job's worker
	var aborted [6]bool
	active := [2]int{-1, -1} // job in flight per address
	const (
		evNodeLeft = iota
		evStartWorker
		evWorkerDone
		evWorkerDies
		evTerminated
	)
	for k := 0; k < K; k++ {
		ev := vChoose("event", 5)
		a := vChoose("addr", 2)
		sel := vChoose("job", 6)
		vC33_spawnFail = vNondetBool("spawnFails")
		vAssume(sel < K)
		before := vC33_aborts
		switch ev {
		case evNodeLeft:
			// what handleNodeLeftEvent / dispatchDerivedRebalance do once the snapshot is known: begin, then tell the relocator
			for c := 0; c < 2; c++ {
				if a != c {
					continue
				}
				states[k] = &internalpb.PeerState{Host: vC33_hosts[c], PeersPort: 1}
				ok := sys.beginRelocation(vC33_addrs[c], states[k])
				vAssert(ok == (active[c] < 0), "a departure notification starts a relocation exactly when none is in flight for that address")
				if ok {
					active[c], jobAddr[k], queued[k] = k, c, true
					vCover("relocation-started")
				} else {
					vCover("duplicate-notification-ignored")
				}
			}
		case evStartWorker:
			for j := 0; j < K; j++ {
				if sel != j || !queued[j] {
					continue
				}
				queued[j] = false
				vC33_spawned, vC33_toldTo, vC33_toldState, vC33_watched = nil, nil, nil, nil
				r.startWorker(rctx, states[j])
				if vC33_spawnFail {
					vAssert(vC33_aborts == before+1 && vC33_abortState == states[j] && vC33_abortAddr == vC33_addrs[jobAddr[j]], "a relocation whose worker cannot be spawned is aborted and reported once, with its own snapshot")
					_, still := sys.relocationJob(vC33_addrs[jobAddr[j]])
					vAssert(!still, "an aborted relocation releases its job")
					aborted[j] = true
					active[jobAddr[j]] = -1
					vCover("spawn-failed")
				} else {
					vAssert(vC33_aborts == before, "starting a worker reports nothing")
					vAssert(vC33_spawned != nil && vC33_watched == vC33_spawned && vC33_toldTo == vC33_spawned && vC33_toldState == states[j], "the worker is watched and handed exactly the registered snapshot")
					for o := 0; o < K; o++ {
						vAssert(!(wstate[o] == 1 && jobAddr[o] == jobAddr[j]), "at most one worker relocates an address at any time")
						vAssert(!(wstate[o] != 0 && wstate[o] != 4 && wname[o] == vC33_spawnName), "live workers have distinct names")
					}
					wstate[j], wname[j] = 1, vC33_spawnName
					vCover("worker-started")
				}
			}
		case evWorkerDone:
			for j := 0; j < K; j++ {
				if sel != j || wstate[j] != 1 {
					continue
				}
				w.finish(context.Background(), vC33_addrs[jobAddr[j]]) // what relocate() does last, before the worker stops
				wstate[j] = 2
				active[jobAddr[j]] = -1
				vCover("worker-completed")
			}
		case evWorkerDies:
			for j := 0; j < K; j++ {
				if sel != j || wstate[j] != 1 {
					continue
				}
				wstate[j] = 3
			}
		case evTerminated:
			for j := 0; j < K; j++ {
				if sel != j || (wstate[j] != 2 && wstate[j] != 3) {
					continue
				}
				died := wstate[j] == 3
				wstate[j] = 4
				r.handleTerminated(rctx, &Terminated{actorPath: &path{name: wname[j]}})
				if died {
					vAssert(vC33_aborts == before+1 && vC33_abortState == states[j] && vC33_abortAddr == vC33_addrs[jobAddr[j]], "a relocation whose worker died is aborted and reported once, with its own snapshot")
					_, still := sys.relocationJob(vC33_addrs[jobAddr[j]])
					vAssert(!still, "an aborted relocation releases its job")
					aborted[j] = true
					active[jobAddr[j]] = -1
					vCover("worker-death-aborted")
				} else {
					vAssert(vC33_aborts == before, "the Terminated of a worker that completed aborts nothing (not even a newer relocation of the same address)")
					if active[jobAddr[j]] >= 0 {
						vCover("stale-terminated-with-newer-job")
					}
				}
			}
		}
		// the registry agrees with the reference after every event
		for c := 0; c < 2; c++ {
			ps, ok := sys.relocationJob(vC33_addrs[c])
			vAssert(ok == (active[c] >= 0), "the job registry holds exactly the relocations in flight")
			if active[c] >= 0 {
				vAssert(ps == states[active[c]], "the registered job is the one that started the relocation in flight")
			}
		}
	}
	vCover("end")
}

// ------------------------------------------------------------------------------------------------------------------
// (c) one peer's share: real relocateShare / sendBatches / sendBatch / reassignByRole / leastLoadedEligibleSurvivor /
// survivingPeersExcept / buildRelocateBatchRequests / recordUnsent / releaseUndeliverableLazyGrains / relocationFailures

type vC33Call struct {
	req  *internalpb.RelocateBatchRequest
	host string
	ok   bool
	bad  *internalpb.Actor // the actor the peer reported as failed in its response (nil = none)
}

var (
	vC33_calls     int
	vC33_log       [12]vC33Call
	vC33_errPeer   = errors.New("peer unreachable")
	vC33_errStore  = errors.New("registry unavailable")
	vC33_localA    [4]*internalpb.Actor
	vC33_localG    [4]*internalpb.Grain
	vC33_nLocalA   int
	vC33_nLocalG   int
	vC33_released  [4]*internalpb.Grain
	vC33_relFailed [4]bool
	vC33_nReleased int
)

type vC33Remoting struct{ remoteclient.Client }

func (r *vC33Remoting) RelocateBatch(_ context.Context, host string, _ int, req *internalpb.RelocateBatchRequest) (*internalpb.RelocateBatchResponse, error) {
	fails, reports := vNondetBool("sendFails"), vNondetBool("peerReportsFailure")
	i := vC33_calls
	vAssume(i < 12)
	vC33_calls++
	vC33_log[i] = vC33Call{req: req, host: host, ok: !fails}
	if fails {
		return nil, vC33_errPeer
	}
	resp := &internalpb.RelocateBatchResponse{}
	if reports && len(req.GetActors()) > 0 {
		bad := req.GetActors()[0]
		vC33_log[i].bad = bad
		resp.Failures = append(resp.Failures, &internalpb.RelocationFailure{Id: bad.GetAddress(), Message: "spawn failed on peer"})
	}
	return resp, nil
}

// substitute for (*retry.Retrier).RunContext (external library): call f until it succeeds, at most relocationBatchMaxAttempts times
func vC33_runContext(r *retry.Retrier, ctx context.Context, f func(context.Context) error) error {
	var err error
	for i := 0; i < relocationBatchMaxAttempts; i++ {
		if err = f(ctx); err == nil {
			return nil
		}
	}
	return err
}

// substitute for enqueueRelocation (local re-creation on the leader; errgroup goroutines): the items are taken locally
func vC33_enqueue(ctx context.Context, eg *errgroup.Group, system ActorSystem, logger log.Logger, departedNode string, actors []*internalpb.Actor, grains []*internalpb.Grain, record func(id string, grain bool, err error)) {
	for i := 0; i < len(actors); i++ {
		vC33_localA[vC33_nLocalA] = actors[i]
		vC33_nLocalA++
	}
	for i := 0; i < len(grains); i++ {
		vC33_localG[vC33_nLocalG] = grains[i]
		vC33_nLocalG++
	}
}

// substitute for (*actorSystem).releaseGrainForLazyRelocation (cluster registry): may fail
func vC33_release(x *actorSystem, ctx context.Context, grain *internalpb.Grain, departedNode string) error {
	failed := vNondetBool("releaseFails")
	vC33_released[vC33_nReleased] = grain
	vC33_relFailed[vC33_nReleased] = failed
	vC33_nReleased++
	if failed {
		return vC33_errStore
	}
	return nil
}

func vC33_roles(name string) []string {
	if vNondetBool(name) {
		return []string{"a"}
	}
	return nil
}

func vC33_share() {
	vC33_calls, vC33_nLocalA, vC33_nLocalG, vC33_nReleased = 0, 0, 0, 0
	shape := vCase("shape") // 10*actors + grains of the share, one job per shape; +100 = three peers (target + two other survivors), no roles
	wide := shape >= 100
	nA, nG := (shape%100)/10, shape%10
	nPeers := vChoose("peers", 2) + 1 // the target + at most one other survivor
	leaderRoles := vC33_roles("leaderHasRole")
	allPeers := []*cluster.Peer{{Host: "p1", RemotingPort: 9}, {Host: "p2", RemotingPort: 9}, {Host: "p3", RemotingPort: 9}}
	allPeers[0].Roles = vC33_roles("targetHasRole")
	allPeers[1].Roles = vC33_roles("otherHasRole")
	needs := [2]bool{vNondetBool("actor1NeedsRole"), vNondetBool("actor2NeedsRole")}
	if wide {
		nPeers, leaderRoles, needs = 3, nil, [2]bool{false, false}
		allPeers[0].Roles, allPeers[1].Roles = nil, nil
	}
	peers := allPeers[:nPeers]
	roleA := "a"
	actors := []*internalpb.Actor{{Address: "x1"}, {Address: "x2"}}
	for i := 0; i < 2; i++ {
		if needs[i] {
			actors[i].Role = &roleA
		}
	}
	grains := []*internalpb.Grain{{GrainId: &internalpb.GrainId{Value: "g1"}}, {GrainId: &internalpb.GrainId{Value: "g2"}}}
	eager := [2]bool{vNondetBool("grain1Eager"), vNondetBool("grain2Eager")}
	for i := 0; i < 2; i++ {
		grains[i].EagerRelocation = eager[i]
	}
	actors, grains = actors[:nA], grains[:nG]

	sys := &actorSystem{logger: log.DiscardLogger, clusterNode: &discovery.Node{Roles: leaderRoles}}
	w := &relocationWorker{remoting: &vC33Remoting{}, pid: &PID{actorSystem: sys}, logger: log.DiscardLogger}
	failures := &relocationFailures{}
	requests := buildRelocateBatchRequests("dead:1", actors, grains)
	// every item of the share is in exactly one request
	for i := 0; i < nA; i++ {
		c := 0
		for q := 0; q < 4; q++ {
			if q < len(requests) {
				c += vC33_countA(requests[q].GetActors(), actors[i])
			}
		}
		vAssert(c == 1 && len(requests) <= 4, "every actor of a share is in exactly one batch request")
	}
	for i := 0; i < nG; i++ {
		c := 0
		for q := 0; q < 4; q++ {
			if q < len(requests) {
				c += vC33_countG(requests[q].GetGrains(), grains[i])
			}
		}
		vAssert(c == 1 && len(requests) <= 4, "every grain of a share is in exactly one batch request")
	}

	w.relocateShare(context.Background(), requests, peers[0], peers, failures)

	failed := failures.items()
	fa, fg := splitFailures(failed)
	vAssert(len(fa)+len(fg) == len(failed), "splitFailures partitions the failures")
	for i := 0; i < nA; i++ {
		a := actors[i]
		delivered, reported, local := 0, 0, 0
		for c := 0; c < 12; c++ {
			if c < vC33_calls && vC33_log[c].ok {
				delivered += vC33_countA(vC33_log[c].req.GetActors(), a)
			}
			if c < vC33_calls && vC33_log[c].bad == a {
				reported++
			}
		}
		for c := 0; c < 4; c++ {
			if c < vC33_nLocalA && vC33_localA[c] == a {
				local++
			}
		}
		inFailed := 0
		for c := 0; c < 8; c++ {
			if c < len(fa) && fa[c] == a.GetAddress() {
				inFailed++
			}
		}
		vAssert(len(fa) <= 8, "failure list stays within the harness bound")
		vAssert(delivered+local <= 1, "an actor is handed to at most one node")
		vAssert(inFailed == reported+(1-delivered-local), "an actor is listed as failed exactly when no node accepted it, or the accepting peer reported it failed - and only once")
		if delivered == 0 && local == 0 {
			vCover("actor-lost")
		}
		if local == 1 {
			vCover("actor-taken-by-leader")
		}
		if delivered == 1 && vC33_calls > 1 {
			vCover("actor-delivered")
		}
	}
	for i := 0; i < nG; i++ {
		g := grains[i]
		delivered, local, released, relFailed := 0, 0, 0, 0
		for c := 0; c < 12; c++ {
			if c < vC33_calls && vC33_log[c].ok {
				delivered += vC33_countG(vC33_log[c].req.GetGrains(), g)
			}
		}
		for c := 0; c < 4; c++ {
			if c < vC33_nLocalG && vC33_localG[c] == g {
				local++
			}
		}
		for c := 0; c < 4; c++ {
			if c < vC33_nReleased && vC33_released[c] == g {
				released++
				if vC33_relFailed[c] {
					relFailed++
				}
			}
		}
		inFailed := 0
		for c := 0; c < 8; c++ {
			if c < len(fg) && fg[c] == g.GetGrainId().GetValue() {
				inFailed++
			}
		}
		vAssert(len(fg) <= 8, "failure list stays within the harness bound")
		vAssert(delivered+local <= 1, "a grain is handed to at most one node")
		if eager[i] {
			vAssert(released == 0 && inFailed == 1-delivered-local, "an eager grain is listed as failed exactly when no node accepted it, once")
		} else {
			vAssert(released == 1-delivered-local && inFailed == relFailed, "a lazy grain nobody accepted has its directory entry released once; it is listed as failed only if that release fails")
			if released == 1 {
				vCover("lazy-grain-released")
			}
		}
	}
	if wide {
		failedCalls := 0
		for c := 0; c < 12; c++ {
			if c < vC33_calls && !vC33_log[c].ok && vC33_log[c].host != "p1" {
				failedCalls++
			}
		}
		if failedCalls >= 2*relocationBatchMaxAttempts && len(failed) >= 2 {
			vCover("two-survivors-unreachable")
		}
	}
	vCover("end")
}

func vC33_countA(list []*internalpb.Actor, x *internalpb.Actor) int {
	c := 0
	for i := 0; i < 3; i++ { // lists in this harness hold at most 3 items (constant bound: no loop-feasibility queries)
		if i < len(list) && list[i] == x {
			c++
		}
	}
	return c
}

func vC33_countG(list []*internalpb.Grain, x *internalpb.Grain) int {
	c := 0
	for i := 0; i < 3; i++ {
		if i < len(list) && list[i] == x {
			c++
		}
	}
	return c
}

// recordUnsent on an arbitrary suffix of the batch list: every actor / eager grain of the unsent suffix once, nothing else
func vC33_batches() {
	actors := []*internalpb.Actor{{Address: "x1"}, {Address: "x2"}, {Address: "x3"}}
	grains := []*internalpb.Grain{{GrainId: &internalpb.GrainId{Value: "g1"}}, {GrainId: &internalpb.GrainId{Value: "g2"}}, {GrainId: &internalpb.GrainId{Value: "g3"}}}
	var eager [3]bool
	for i := 0; i < 3; i++ {
		eager[i] = vNondetBool("eager")
		grains[i].EagerRelocation = eager[i]
	}
	nA, nG := vCase("actors"), vCase("grains") // list lengths are split into jobs
	requests := buildRelocateBatchRequests("dead:1", actors[:nA], grains[:nG])
	from := vCase("sent") // number of batches delivered before the peer became unreachable
	if from > len(requests) {
		from = len(requests)
	}
	failures := &relocationFailures{}
	recordUnsent(requests[from:], vC33_errPeer, failures)
	fa, fg := splitFailures(failures.items())
	for i := 0; i < 3; i++ {
		inUnsent, inAll := 0, 0
		for q := 0; q < len(requests); q++ {
			c := vC33_countA(requests[q].GetActors(), actors[i])
			inAll += c
			if q >= from {
				inUnsent += c
			}
		}
		want := 0
		if i < nA {
			want = 1
		}
		vAssert(inAll == want, "every actor of the share is in exactly one batch request")
		n := 0
		for c := 0; c < len(fa); c++ {
			if fa[c] == actors[i].GetAddress() {
				n++
			}
		}
		vAssert(n == inUnsent, "recordUnsent lists exactly the actors of the unsent batches, once each")
	}
	for i := 0; i < 3; i++ {
		inUnsent, inAll := 0, 0
		for q := 0; q < len(requests); q++ {
			c := vC33_countG(requests[q].GetGrains(), grains[i])
			inAll += c
			if q >= from {
				inUnsent += c
			}
		}
		want := 0
		if i < nG {
			want = 1
		}
		vAssert(inAll == want, "every grain of the share is in exactly one batch request")
		n := 0
		for c := 0; c < len(fg); c++ {
			if fg[c] == grains[i].GetGrainId().GetValue() {
				n++
			}
		}
		if eager[i] {
			vAssert(n == inUnsent, "recordUnsent lists exactly the eager grains of the unsent batches, once each")
		} else {
			vAssert(n == 0, "unsent lazy grains are not listed as failed (documented: they self-heal)")
		}
	}
	if from < len(requests) && from > 0 {
		vCover("some-sent-some-unsent")
	}
	vCover("end")
}

// ------------------------------------------------------------------------------------------------------------------
// (e) completion bookkeeping vs. duplicate notifications: real relocationWorker.finish / relocator.abortRelocation with a
// cluster store; a duplicate node-left notification for the SAME departure may be handled at any point (also while the
// store round trip of the bookkeeping is in progress) and must never start a second relocation of that departure

type vC33Store struct {
	cluster.Store
	sys     *actorSystem
	peers   map[string]*internalpb.PeerState
	dupAt   int // where the duplicate notification is handled: 0 before, 1 at the start of DeletePeerState, 2 after it took effect, 3 afterwards
	started int // relocations started by duplicate notifications
	found   int // duplicate notifications that still found the departure's snapshot
}

func (s *vC33Store) GetPeerState(_ context.Context, addr string) (*internalpb.PeerState, bool) {
	ps, ok := s.peers[addr]
	if !ok {
		return nil, false
	}
	return &internalpb.PeerState{Host: ps.Host, PeersPort: ps.PeersPort, Actors: ps.Actors}, true // the stores hand out clones
}

func (s *vC33Store) DeletePeerState(ctx context.Context, addr string) error {
	if s.dupAt == 1 {
		s.duplicate(addr)
	}
	delete(s.peers, addr)
	if s.dupAt == 2 {
		s.duplicate(addr)
	}
	return nil
}

// what handleNodeLeftEvent does on the leader once the notification arrived (transcribed): snapshot lookup, begin, dispatch
func (s *vC33Store) duplicate(addr string) {
	ps, ok := s.GetPeerState(context.Background(), addr)
	if !ok {
		return // no snapshot: not this departure's relocation set any more (crash-recovery derivation is outside this entry)
	}
	s.found++
	if s.sys.beginRelocation(addr, ps) {
		s.started++
	}
}

func vC33_finish() {
	sys := &actorSystem{relocationJobs: make(map[string]*internalpb.PeerState), logger: log.DiscardLogger}
	store := &vC33Store{sys: sys, peers: map[string]*internalpb.PeerState{}}
	sys.clusterStore = store
	self := &PID{actorSystem: sys}
	w := &relocationWorker{pid: self, logger: log.DiscardLogger}
	r := &relocator{workers: make(map[string]workerJob), pid: self, logger: log.DiscardLogger}
	rctx := &ReceiveContext{self: self, ctx: context.Background()}
	addr := vC33_addrs[0]
	snapshot := &internalpb.PeerState{Host: vC33_hosts[0], PeersPort: 1, Actors: map[string]*internalpb.Actor{"x1": {Address: "x1"}}}
	store.peers[addr] = snapshot
	store.dupAt = vChoose("duplicateAt", 4)
	aborts := vNondetBool("relocationAborted") // the relocation ends through the relocator's abort path instead of the worker's finish

	// the departure is notified: its relocation starts
	job, _ := store.GetPeerState(context.Background(), addr)
	vAssert(sys.beginRelocation(addr, job), "the first notification of a departure starts its relocation")
	if store.dupAt == 0 {
		store.duplicate(addr)
		vCover("duplicate-while-relocating")
	}
	// the relocation ran; its completion bookkeeping
	if aborts {
		r.abortRelocation(rctx, addr, job, vC33_errPeer)
		vCover("aborted")
	} else {
		w.finish(context.Background(), addr)
		vCover("finished")
	}
	if store.dupAt == 3 {
		store.duplicate(addr)
		vCover("duplicate-afterwards")
	}
	vAssert(store.started == 0, "a duplicate notification of a departure never starts a second relocation of it, whenever it is handled")
	_, still := sys.relocationJob(addr)
	_, kept := store.peers[addr]
	vAssert(!still && !kept, "after the bookkeeping the job is released and the departure's snapshot is gone")
	if store.found > 0 {
		vCover("duplicate-saw-snapshot")
	}
	if store.dupAt == 1 || store.dupAt == 2 {
		vCover("duplicate-during-store-round-trip")
	}
	vCover("end")
}

