//go:build verif

package actor

import (
	"context"
	"time"

	"github.com/tochemey/goakt/v4/internal/commands"
)

func init() {
	vRegister("vC42_producer", vC42_producer)
	vRegister("vC42_consumer", vC42_consumer)
}

// ------------------------------------------------------------------------------------------------------------------
// producer controller: what it emits under sequence s is what it stored under s ("P(s)"), emissions ascend, the
// unconfirmed list is only ever cut at its head up to an authenticated confirmation and extended at currentSeq+1

var (
	vC42_lastEmitted int64
	vC42_emitted     int
	vC42_storedTold  int
)

func vC42_is1(b []byte, v byte) bool { return len(b) == 1 && b[0] == v }

// substituted for (*producerController).tell
func vC42_ptell(x *producerController, ctx *ReceiveContext, to *PID, message any) {
	if sm, ok := message.(*commands.SequencedMessage); ok {
		vC42_emitted++
		vAssert(sm.Seq() > vC42_lastEmitted, "within one step sequenced messages are emitted in ascending sequence order")
		vC42_lastEmitted = sm.Seq()
		vAssert(sm.SessionID() == x.sessionID && !sm.Chunked(), "emissions carry the controller's session")
		found := false
		for i := 0; i < 5; i++ {
			if i < len(x.unconfirmed) && x.unconfirmed[i].seq == sm.Seq() {
				found = true
				e := x.unconfirmed[i]
				vAssert(sm.MessageID() == e.messageID && len(e.payload.bytes) == 1 && vC42_is1(sm.Payload(), e.payload.bytes[0]),
					"a message emitted under sequence s carries the id and payload stored under s")
			}
		}
		if !found {
			vAssert(sm.Seq() == x.pendingSeq && sm.MessageID() == x.pendingMessageID && len(x.pendingPayload.bytes) == 1 && vC42_is1(sm.Payload(), x.pendingPayload.bytes[0]),
				"an emission that is no longer unconfirmed is the just-accepted pending message itself")
		}
	}
	if st, ok := message.(*Stored); ok {
		vC42_storedTold++
		vAssert(to == x.producer && st.Seq() == x.currentSeq && st.MessageID() == x.pendingMessageID && st.Token() == x.token,
			"Stored reports the latest stored sequence and the pending message to the producer")
	}
	vRD_record(to, message)
}

func vC42_producer() {
	vRD_reset()
	vC42_lastEmitted, vC42_emitted, vC42_storedTold = 0, 0, 0
	prod, self, cc, other := vRD_pid("p"), vRD_pid("s"), vRD_pid("c"), vRD_pid("o")
	x := vRD_producerState(prod, cc)
	preCurrent, preConfirmed, preHandshake := x.currentSeq, x.confirmedSeq, x.handshake
	preCC, preNonce := x.consumerController, x.registrationNonce
	var pre [3]UnconfirmedMessage
	preLen := len(x.unconfirmed)
	for i := 0; i < 3; i++ {
		if i < preLen {
			pre[i] = x.unconfirmed[i]
		}
	}

	sender := cc
	switch vChoose("sender", 3) {
	case 1:
		sender = other
	case 2:
		sender = prod
	}
	var msg any
	authentic := false
	var reqConfirmed int64
	producedID, producedByte := "", byte(0)
	producedOK := false
	kind := vChoose("kind", 7)
	switch kind {
	case 0:
		m, err := commands.VRegisterConsumer(vRD_str2("nonceIsCurrent", "N", "N2"))
		vAssume(err == nil)
		msg = m
		switch vChoose("resolved", 3) {
		case 0:
			vRD_resolved = cc
		case 1:
			vRD_resolved = other
		case 2:
			vRD_resolvedErr = vRD_errCodec
		}
	case 1:
		sessionCur, nonceCur := vNondetBool("sessionIsCurrent"), vNondetBool("nonceIsCurrent")
		reqConfirmed = vNondetInt64("reqConfirmed")
		m, err := commands.VRequest(vRD_pick(sessionCur, "S", "S0"), vRD_pick(nonceCur, "N", "N2"), reqConfirmed, vNondetInt64("reqUpTo"), vNondetBool("viaTimeout"))
		vAssume(err == nil)
		msg = m
		authentic = preCC != nil && sender == preCC && sessionCur && nonceCur && preNonce == "N"
	case 2:
		sessionCur, nonceCur := vNondetBool("sessionIsCurrent"), vNondetBool("nonceIsCurrent")
		reqConfirmed = vNondetInt64("ackConfirmed")
		m, err := commands.VAck(vRD_pick(sessionCur, "S", "S0"), vRD_pick(nonceCur, "N", "N2"), reqConfirmed)
		vAssume(err == nil)
		msg = m
		authentic = preCC != nil && sender == preCC && sessionCur && nonceCur && preNonce == "N"
	case 3:
		sessionCur, tokenCur := vNondetBool("sessionIsCurrent"), vNondetBool("tokenIsCurrent")
		producedID, producedByte = vRD_ids[vChoose("producedID", 4)], vNondetByte("producedPayload")
		msg = &Produced{sessionID: vRD_pick(sessionCur, "S", "S0"), token: vRD_pick(tokenCur, "T", "T0"), messageID: producedID, payload: &vRDMsg{data: []byte{producedByte}}}
		producedOK = sender == prod && sessionCur && tokenCur && preHandshake == producerHandshakeCredit
	case 4:
		msg = &StoredAck{sessionID: vRD_str2("sessionIsCurrent", "S", "S0"), token: vRD_str2("tokenIsCurrent", "T", "T0"), messageID: vRD_ids[vChoose("ackedID", 4)]}
	case 5:
		msg = &producerControllerTick{generation: uint64(vChoose("tickGeneration", 2))}
	case 6:
		switch vChoose("terminated", 3) {
		case 0:
			msg = &Terminated{actorPath: cc.Path()}
		case 1:
			msg = &Terminated{actorPath: other.Path()}
		case 2:
			msg = &Terminated{actorPath: prod.Path()}
		}
	}
	rctx := &ReceiveContext{ctx: context.Background(), self: self, sender: sender, message: msg}

	x.Receive(rctx) // the real handler

	// ---- I_p preserved, and the list is only cut at the head / extended at the tail
	vAssert(x.confirmedSeq >= preConfirmed && x.confirmedSeq <= x.currentSeq, "confirmedSeq is monotone and never passes currentSeq")
	vAssert(x.currentSeq == preCurrent || x.currentSeq == preCurrent+1, "without chunking one step stores at most one message")
	vAssert(int64(len(x.unconfirmed)) == x.currentSeq-x.confirmedSeq, "unconfirmed holds exactly the sequences (confirmedSeq, currentSeq]: nothing above the watermark is ever dropped")
	for j := 0; j < 4; j++ {
		if j < len(x.unconfirmed) {
			e := x.unconfirmed[j]
			vAssert(e.seq == x.confirmedSeq+1+int64(j), "unconfirmed stays ascending and contiguous")
			if e.seq <= preCurrent {
				o := pre[int(e.seq-preConfirmed-1)]
				vAssert(e.messageID == o.messageID && len(e.payload.bytes) == 1 && e.payload.bytes[0] == o.payload.bytes[0] && !e.chunk.chunked,
					"a stored message keeps its id and payload until it is confirmed")
			} else {
				vAssert(producedOK && e.messageID == producedID && vC42_is1(e.payload.bytes, producedByte),
					"a new sequence is assigned only to the message the bound producer offers under the open credit")
				vCover("stored")
			}
		}
	}
	if x.currentSeq != preCurrent {
		vAssert(producedOK && vC42_storedTold == 1, "a newly stored message is acknowledged to the producer with Stored")
	}
	if x.confirmedSeq != preConfirmed {
		vAssert((kind == 1 || kind == 2) && authentic && x.confirmedSeq == reqConfirmed && reqConfirmed <= preCurrent,
			"the unconfirmed list is cut only up to a confirmation authenticated for the current registration")
		vCover("cut")
	}
	if vC42_emitted > 0 {
		vCover("emitted")
	}
	if vC42_emitted > 1 {
		vCover("resent-many")
	}
	vCover("end")
}

// ------------------------------------------------------------------------------------------------------------------
// consumer controller (whole messages): the consumer is handed only P(expectedSeq); expectedSeq advances by exactly
// one per matching Confirmed; a Delivery is re-told only while it is in flight

var (
	vC42_base int64   // expectedSeq of the pre-state
	vC42_gID  [6]int  // P(base+k).id (index into vRD_ids)
	vC42_gPay [6]byte // P(base+k).payload
)

// does (id, payload) equal P(seq)?   (seq is within [base, base+6) for everything the invariant admits)
func vC42_isP(seq int64, id string, payload []byte) bool {
	k := seq - vC42_base
	if k < 0 || k >= 6 {
		return false
	}
	return id == vRD_ids[vC42_gID[k]] && vC42_is1(payload, vC42_gPay[k])
}

// I_c (whole messages): expectedSeq = confirmedSeq+1; buffer strictly ascending, every entry of the current session,
// above expectedSeq, within the granted demand, carrying P(seq); len(buffer) <= window;
// inFlight != nil  =>  inFlight is P(expectedSeq) under sequence expectedSeq
func vC42_consumerInv(x *consumerController, consumer *PID) bool {
	ok := x.expectedSeq == x.confirmedSeq+1 && x.confirmedSeq >= 0 && x.requestUpToSeq <= x.confirmedSeq+int64(x.window) && len(x.buffer) <= x.window && len(x.buffer) <= 5
	for i := 0; i < 5; i++ {
		if i < len(x.buffer) {
			b := x.buffer[i]
			ok = ok && b.Seq() > x.expectedSeq && b.Seq() <= x.requestUpToSeq && !b.Chunked() && vC42_isP(b.Seq(), b.MessageID(), b.Payload())
			if i > 0 {
				ok = ok && x.buffer[i-1].Seq() < b.Seq()
			}
		}
	}
	if x.inFlight != nil {
		d := x.inFlight
		m, isMsg := d.payload.(*vRDMsg)
		ok = ok && d.seq == x.expectedSeq && isMsg && m != nil && vC42_isP(d.seq, d.messageID, m.data) && d.endpoint == consumer
	}
	return ok
}

func vC42_consumer() { vC42_consumerStep(vCase("kind")) }

func vC42_consumerStep(kind int) {
	vRD_reset()
	cons, self, pc, other := vRD_pid("c"), vRD_pid("s"), vRD_pid("p"), vRD_pid("o")
	x := &consumerController{consumer: cons, producerName: "producer", resendInterval: time.Second, generation: 1}
	maxWindow := vCase("maxWindow") // 4 in the quick tier, 5 in the thorough tier
	x.window = vNondetInt("window")
	vAssume(x.window >= 1 && x.window <= maxWindow)
	if vNondetBool("resolved") {
		x.producerController = pc
		x.registrationNonce = "N"
		if vNondetBool("adopted") {
			x.sessionID = "S"
		}
	}
	x.confirmedSeq = vNondetInt64("confirmedSeq")
	vAssume(x.confirmedSeq >= 0 && x.confirmedSeq < int64(1)<<vCase("seqBits")) // 16 in the quick tier, 61 in the thorough tier
	x.expectedSeq = x.confirmedSeq + 1
	vC42_base = x.expectedSeq
	for k := 0; k < 6; k++ {
		vC42_gID[k] = vChoose("ghostID", 4)
		vC42_gPay[k] = vNondetByte("ghostPayload")
	}
	x.requestUpToSeq = vNondetInt64("requestUpToSeq")
	nbuf := vCase("bufLen")
	x.buffer = make([]*commands.SequencedMessage, 0, 6)
	for i := 0; i < nbuf; i++ {
		off := vNondetInt64("bufOffset")
		vAssume(off >= 1 && off <= int64(maxWindow))
		x.buffer = append(x.buffer, vC42_sequencedP(x.expectedSeq+off))
	}
	if vNondetBool("inFlight") {
		x.inFlight = &Delivery{sessionID: "S", messageID: vRD_ids[vC42_gID[0]], seq: x.expectedSeq, payload: &vRDMsg{data: []byte{vC42_gPay[0]}}, endpoint: cons, controller: self}
	}
	x.sawValidTraffic = vNondetBool("sawValidTraffic")
	vAssume(vC42_consumerInv(x, cons))
	preExpected, preInFlight := x.expectedSeq, x.inFlight

	sender := pc
	switch vChoose("sender", 3) {
	case 1:
		sender = other
	case 2:
		sender = cons
	}
	var msg any
	var ackNext int64
	ackNewSession, confirmMatches := false, false
	switch kind {
	case 0:
		sessionCur := vNondetBool("sessionIsCurrent")
		ackNext = vNondetInt64("nextSeq")
		m, err := commands.VRegistrationAck(vRD_pick(sessionCur, "S", "S2"), ackNext, vRD_str2("nonceIsCurrent", "N", "N0"))
		vAssume(err == nil && ackNext < 1<<62)
		msg = m
		ackNewSession = !sessionCur || x.sessionID != "S"
	case 1:
		// network invariant: a SequencedMessage of the current session carries P(seq); anything else is arbitrary
		seq := vNondetInt64("inSeq")
		if vNondetBool("inSessionIsCurrent") {
			k := seq - vC42_base
			if k >= 0 && k < 6 {
				msg = vC42_sequencedP(seq)
			} else {
				m, err := commands.VSequenced("S", vRD_ids[vChoose("inID", 4)], seq, []byte{vNondetByte("inPayload")}, false, false, false)
				vAssume(err == nil)
				msg = m
			}
		} else {
			m, err := commands.VSequenced("S2", vRD_ids[vChoose("inID", 4)], seq, []byte{vNondetByte("inPayload")}, false, false, false)
			vAssume(err == nil)
			msg = m
		}
	case 2:
		sessionCur, idMatches := vNondetBool("sessionIsCurrent"), vNondetBool("idMatches")
		cseq := vNondetInt64("confirmedMsgSeq")
		id := vRD_ids[vC42_gID[0]]
		if !idMatches {
			id = "zz"
		}
		msg = &Confirmed{sessionID: vRD_pick(sessionCur, "S", "S2"), messageID: id, seq: cseq}
		confirmMatches = sender == cons && preInFlight != nil && sessionCur && x.sessionID == "S" && idMatches && cseq == preInFlight.seq
	case 3:
		msg = &consumerControllerTick{generation: uint64(vChoose("tickGeneration", 2))}
		vRD_resolved = pc
		if vNondetBool("lookupFails") {
			vRD_resolved, vRD_resolvedErr = nil, vRD_errCodec
		}
	case 4:
		switch vChoose("terminated", 3) {
		case 0:
			msg = &Terminated{actorPath: pc.Path()}
		case 1:
			msg = &Terminated{actorPath: other.Path()}
		case 2:
			msg = &Terminated{actorPath: cons.Path()}
		}
	}
	rctx := &ReceiveContext{ctx: context.Background(), self: self, sender: sender, message: msg}

	x.Receive(rctx) // the real handler

	// ---- what the consumer endpoint was handed during this step
	fresh := 0
	for i := 0; i < 6; i++ {
		if i < len(vRD_msg) {
			d, isDelivery := vRD_msg[i].(*Delivery)
			if isDelivery {
				vAssert(vRD_to[i] == cons, "a Delivery goes to the bound consumer endpoint only")
				if d == preInFlight {
					vAssert(kind == 3 && x.inFlight == preInFlight, "a Delivery is told again only by the tick and only while it is still the unconfirmed one in flight")
					vCover("redelivered")
				} else {
					fresh++
					m, isMsg := d.payload.(*vRDMsg)
					vAssert(x.inFlight == d && d.seq == x.expectedSeq, "a new Delivery is the one in flight and carries exactly expectedSeq (no gap, no reordering)")
					vAssert(isMsg && m != nil && vC42_isP(d.seq, d.messageID, m.data), "the consumer is handed P(expectedSeq): the id and payload produced under that sequence")
					vAssert(preInFlight == nil || confirmMatches, "a new Delivery is handed over only when nothing is in flight or the one in flight was just confirmed")
					vAssert(d.sessionID == x.sessionID, "a Delivery carries the adopted session")
					vCover("delivered")
				}
			}
		}
	}
	vAssert(len(vRD_msg) <= 6, "at most six messages are told per step")
	vAssert(fresh <= 1, "at most one new Delivery per step")
	// ---- expectedSeq moves by exactly one per matching confirmation, or is reset by a new session
	if x.expectedSeq != preExpected {
		if kind == 2 {
			vAssert(confirmMatches && x.expectedSeq == preExpected+1, "expectedSeq advances by exactly one, on the Confirmed that matches the Delivery in flight")
			vCover("advanced")
		} else {
			vAssert(kind == 0 && ackNewSession && x.expectedSeq == ackNext && x.inFlight == nil && len(x.buffer) == 0,
				"otherwise expectedSeq only changes when a new producer session is adopted, which resets delivery state to the acked NextSeq")
			vCover("session-reset")
		}
	} else {
		vAssert(x.inFlight == preInFlight || preInFlight == nil || (kind == 0 && ackNewSession), "the in-flight Delivery is released only by its confirmation or a session reset")
	}
	if x.expectedSeq == preExpected || kind == 2 {
		vAssert(vC42_consumerInv(x, cons), "I_c preserved: buffer ascending above expectedSeq with payload P(seq); inFlight is P(expectedSeq)")
	}
	if len(x.buffer) > nbuf {
		vCover("buffered")
	}
	vCover("end")
}

// the sequenced message the producer emits under seq in the current session: (P(seq).id, P(seq).payload)
func vC42_sequencedP(seq int64) *commands.SequencedMessage {
	k := seq - vC42_base
	vAssume(k >= 0 && k < 6)
	m, err := commands.VSequenced("S", vRD_ids[vC42_gID[k]], seq, []byte{vC42_gPay[k]}, false, false, false)
	vAssume(err == nil)
	return m
}
