//go:build verif

package actor

import (
	"context"
	"errors"
	"time"

	"github.com/tochemey/goakt/v4/crdt"
	"github.com/tochemey/goakt/v4/internal/address"
	"github.com/tochemey/goakt/v4/internal/cluster"
	"github.com/tochemey/goakt/v4/internal/internalpb"
	"github.com/tochemey/goakt/v4/internal/remoteclient"
	"github.com/tochemey/goakt/v4/internal/types"
	"github.com/tochemey/goakt/v4/log"
	"github.com/tochemey/goakt/v4/remote"
)

func init() {
	vRegister("vC41_step", vC41_step)
	vRegister("vC41_init", vC41_init)
}

// ---- an opaque CRDT value (the codec and the merge are the serializer's / C38's business): a tagged integer
type vC41Data struct{ v int }

func (d *vC41Data) Merge(o crdt.ReplicatedData) crdt.ReplicatedData {
	if od, ok := o.(*vC41Data); ok && od != nil && od.v > d.v {
		return &vC41Data{v: od.v}
	}
	return &vC41Data{v: d.v}
}
func (d *vC41Data) Delta() crdt.ReplicatedData { return &vC41Data{v: d.v} }
func (d *vC41Data) ResetDelta()                {}
func (d *vC41Data) Clone() crdt.ReplicatedData { return &vC41Data{v: d.v} }

// ---- local commands
type vC41Update struct {
	key   string
	coord crdt.Coordination
}

func (u vC41Update) KeyID() string                        { return u.key }
func (u vC41Update) CRDTDataType() crdt.DataType          { return crdt.GCounterType }
func (u vC41Update) InitialValue() crdt.ReplicatedData    { return &vC41Data{} }
func (u vC41Update) WriteCoordination() crdt.Coordination { return u.coord }
func (u vC41Update) Apply(cur crdt.ReplicatedData) crdt.ReplicatedData {
	if d, ok := cur.(*vC41Data); ok && d != nil {
		return &vC41Data{v: d.v + 1}
	}
	return &vC41Data{v: 1}
}

type vC41Get struct {
	key   string
	coord crdt.Coordination
}
type vC41GetResponse struct{ data crdt.ReplicatedData }

func (g vC41Get) KeyID() string                         { return g.key }
func (g vC41Get) ReadCoordination() crdt.Coordination   { return g.coord }
func (g vC41Get) Response(data crdt.ReplicatedData) any { return &vC41GetResponse{data: data} }

type vC41Delete struct {
	key   string
	coord crdt.Coordination
}

func (d vC41Delete) KeyID() string                        { return d.key }
func (d vC41Delete) IsDelete()                            {}
func (d vC41Delete) WriteCoordination() crdt.Coordination { return d.coord }

// ---- environment
var (
	vC41_clock     int64 // latest clock reading handed to the code
	vC41_responses []any
	vC41_errDecode = errors.New("verif: undecodable CRDT payload")
	vC41_addr      = new(address.Address)
)

// substituted for time.Now: an arbitrary non-decreasing clock owned by the harness
func vC41_now() time.Time {
	r := vNondetInt64("clockReading")
	vAssume(r >= vC41_clock && r < 1<<61)
	vC41_clock = r
	return time.Unix(0, r)
}

// substituted for (*ReceiveContext).Response / Tell / Err
func vC41_response(rctx *ReceiveContext, resp any)     { vC41_responses = append(vC41_responses, resp) }
func vC41_tell(rctx *ReceiveContext, to *PID, msg any) {}
func vC41_pathToAddress(p Path) *address.Address       { return vC41_addr }

// substituted for ddata.DecodeCRDT / ddata.EncodeCRDT (the value codec is opaque here: C40): any value, or an error
func vC41_decode(pb *internalpb.CRDTData, s remote.Serializer) (crdt.ReplicatedData, error) {
	if pb == nil || vNondetBool("decodeFails") {
		return nil, vC41_errDecode
	}
	return &vC41Data{v: vNondetInt("decodedValue")}, nil
}
func vC41_encode(d crdt.ReplicatedData, s remote.Serializer) (*internalpb.CRDTData, error) {
	if vNondetBool("encodeFails") {
		return nil, vC41_errDecode
	}
	return &internalpb.CRDTData{}, nil
}

// cluster fake: zero or one peer
type vC41Cluster struct{ cluster.Cluster }

func (vC41Cluster) Peers(context.Context) ([]*cluster.Peer, error) {
	switch vChoose("peers", 3) {
	case 0:
		return nil, vC41_errDecode
	case 1:
		return nil, nil
	}
	return []*cluster.Peer{{Host: "h2", RemotingPort: 9001}}, nil
}

// remoting fake: the peer replica may hold any value for any key (it may not have seen the tombstone yet)
type vC41Remoting struct{ remoteclient.Client }

func (vC41Remoting) RemoteLookup(ctx context.Context, host string, port int, name string) (*address.Address, error) {
	if vNondetBool("lookupFails") {
		return nil, vC41_errDecode
	}
	return vC41_addr, nil
}
func (vC41Remoting) RemoteTell(ctx context.Context, from, to *address.Address, message any) error {
	return nil
}
func (vC41Remoting) RemoteAsk(ctx context.Context, from, to *address.Address, message any, timeout time.Duration) (any, error) {
	switch vChoose("peerAnswer", 3) {
	case 0:
		return nil, vC41_errDecode
	case 1:
		return &internalpb.CRDTReadResponse{}, nil // the peer has no value
	}
	return &internalpb.CRDTReadResponse{Data: &internalpb.CRDTData{}}, nil
}

var vC41_keys = [3]string{"k1", "k2", "k3"}

func vC41_key(name string) string { return vC41_keys[vChoose(name, 3)] }

func vC41_pbKey(name string) *internalpb.CRDTKey {
	if vNondetBool(name + "Nil") {
		return nil
	}
	// any wire data type, including unspecified / out of range (rejected by the real codec.DecodeCRDTKey)
	return &internalpb.CRDTKey{Id: vC41_key(name), DataType: internalpb.CRDTDataType(vNondetInt32(name + "Type"))}
}

// a wire key the real codec.DecodeCRDTKey accepts
func vC41_validKey(k *internalpb.CRDTKey) bool {
	return k != nil && k.GetDataType() >= internalpb.CRDTDataType_CRDT_DATA_TYPE_G_COUNTER && k.GetDataType() <= internalpb.CRDTDataType_CRDT_DATA_TYPE_MV_REGISTER
}

func vC41_deadNow(r *replicatorActor, key string) bool {
	ts, dead := r.tombstones[key]
	_, has := r.store[key]
	return dead && ts != nil && !has
}

func vC41_coord(name string) crdt.Coordination { return crdt.Coordination(vChoose(name, 3)) }

func vC41_replicator() (*replicatorActor, *PID) {
	self := vRD_pid("r")
	topic := vRD_pid("t")
	r := &replicatorActor{pid: self, topicActor: topic, logger: log.DiscardLogger, nodeID: "n1",
		store: make(map[string]crdt.ReplicatedData), keyTypes: make(map[string]crdt.DataType), subscriptions: make(map[string]types.Unit),
		watchers: make(map[string][]*PID), tombstones: make(map[string]*tombstone), versions: make(map[string]uint64),
		clusterRef: vC41Cluster{}, remoting: vC41Remoting{}}
	ttl := vNondetInt64("ttl")
	vAssume(ttl > 0 && ttl < 1<<60)
	opts := []crdt.Option{crdt.WithTombstoneTTL(time.Duration(ttl))}
	if vNondetBool("dataCenterEnabled") {
		opts = append(opts, crdt.WithDataCenterReplication())
	}
	r.config = crdt.NewConfig(opts...)
	r.dc.Name = "dc1"
	return r, self
}

// Inv: a tombstoned key has no value in the store
func vC41_inv(r *replicatorActor) bool {
	ok := true
	for i := 0; i < 3; i++ {
		_, dead := r.tombstones[vC41_keys[i]]
		_, has := r.store[vC41_keys[i]]
		ok = ok && !(dead && has)
	}
	return ok
}

// Inv holds initially (PreStart creates empty maps; a snapshot restore only fills the store while tombstones is empty)
func vC41_init() {
	r, _ := vC41_replicator()
	if vNondetBool("restored") {
		r.store[vC41_key("restoredKey")] = &vC41Data{v: 1}
	}
	vAssert(vC41_inv(r), "Inv holds when the replicator starts: no tombstones yet")
	vCover("end")
}

// One arbitrary message handled by the real replicatorActor.Receive from an arbitrary state satisfying Inv.
func vC41_step() {
	vC41_clock, vC41_responses = 0, nil
	r, self := vC41_replicator()
	var preDead [3]bool
	var preAt [3]int64
	for i := 0; i < 3; i++ {
		k := vC41_keys[i]
		switch vChoose("keyState", 3) {
		case 1: // live value
			r.store[k] = &vC41Data{v: vNondetInt("storedValue")}
			r.keyTypes[k] = crdt.GCounterType
			r.versions[k] = vNondetUint64("version")
		case 2: // deleted: tombstone, no value (Inv). keyTypes may still remember the type
			at := vNondetInt64("deletedAt")
			vAssume(at >= 0 && at < 1<<61)
			r.tombstones[k] = &tombstone{keyID: k, dataType: crdt.GCounterType, deletedAt: time.Unix(0, at), deletedBy: vRD_str2("deletedByUs", "n1", "n2")}
			if vNondetBool("typeRemembered") {
				r.keyTypes[k] = crdt.GCounterType
			}
			preDead[i], preAt[i] = true, at
		}
	}
	vAssume(vC41_inv(r))

	sender := vRD_pid("u")
	if vNondetBool("noSender") {
		sender = nil
	}
	var msg any
	getKey := -1
	kind := vCase("kind")
	switch kind {
	case 0:
		msg = vC41Update{key: vC41_key("updateKey"), coord: vC41_coord("writeTo")}
	case 1:
		getKey = vChoose("getKey", 3)
		msg = vC41Get{key: vC41_keys[getKey], coord: vC41_coord("readFrom")}
	case 2:
		msg = vC41Delete{key: vC41_key("deleteKey"), coord: vC41_coord("writeTo")}
	case 3:
		msg = &crdtDelta{KeyID: vC41_key("deltaKey"), DataType: crdt.GCounterType, Delta: &vC41Data{v: vNondetInt("deltaValue")}, Origin: vRD_str2("fromUs", "n1", "n2")}
	case 4:
		msg = &internalpb.CRDTDelta{Key: vC41_pbKey("deltaKey"), OriginNode: vRD_str2("fromUs", "n1", "n2"), Data: &internalpb.CRDTData{}}
	case 5:
		msg = &internalpb.CRDTTombstone{Key: vC41_pbKey("tombKey"), DeletedAtNanos: vNondetInt64("tombAt"), DeletedByNode: vRD_str2("fromUs", "n1", "n2")}
	case 6:
		n := vChoose("entries", 3)
		fs := &internalpb.CRDTFullState{}
		for i := 0; i < n; i++ {
			fs.Entries = append(fs.Entries, &internalpb.CRDTFullStateEntry{Key: vC41_pbKey("entryKey"), Data: &internalpb.CRDTData{}})
		}
		msg = fs
	case 7:
		b := &internalpb.CRDTDeltaBatch{SentAtNanos: vNondetInt64("sentAt")}
		if vNondetBool("hasOrigin") {
			b.OriginDc = &internalpb.DataCenter{Name: vRD_str2("sameDC", "dc1", "dc2")}
		}
		if vNondetBool("hasDelta") {
			b.Deltas = append(b.Deltas, &internalpb.CRDTDelta{Key: vC41_pbKey("batchDeltaKey"), OriginNode: "n3", Data: &internalpb.CRDTData{}})
		}
		if vNondetBool("hasTombstone") {
			b.Tombstones = append(b.Tombstones, &internalpb.CRDTTombstone{Key: vC41_pbKey("batchTombKey"), DeletedAtNanos: vNondetInt64("batchTombAt"), DeletedByNode: "n3"})
		}
		msg = b
	case 8:
		msg = &pruneTick{}
	}
	rctx := &ReceiveContext{ctx: context.Background(), self: self, sender: sender, message: msg}

	r.Receive(rctx) // the real handler

	vAssert(vC41_inv(r), "a tombstoned key has no value in the store after the step (updates, deltas, full-state entries and reads never resurrect it)")
	if kind == 1 && preDead[getKey] {
		shown := false
		for i := 0; i < 2; i++ {
			if i < len(vC41_responses) {
				if g, ok := vC41_responses[i].(*vC41GetResponse); ok && g.data != nil {
					shown = true
				}
			}
		}
		vAssert(!shown, "Get of a tombstoned key exposes no value")
		vCover("get-tombstoned")
	}
	// ---- a replica that has handled a delete / received a tombstone for k holds the tombstone (and no value) afterwards,
	// whatever it knew about k before - including nothing at all (the tombstone may overtake the key's first delta)
	switch kind {
	case 2:
		d := msg.(vC41Delete)
		vAssert(vC41_deadNow(r, d.key), "after a local Delete of k the replica holds a tombstone for k and no value")
		vCover("deleted-locally")
	case 5:
		m := msg.(*internalpb.CRDTTombstone)
		if vC41_validKey(m.GetKey()) && m.GetDeletedByNode() != r.nodeID {
			vAssert(vC41_deadNow(r, m.GetKey().GetId()), "after receiving a peer's tombstone for k the replica holds a tombstone for k and no value, even if it had never seen k")
			vCover("tombstone-received")
		}
	case 7:
		b := msg.(*internalpb.CRDTDeltaBatch)
		foreign := b.GetOriginDc() == nil || b.GetOriginDc().GetName() != r.dc.Name
		if foreign && len(b.GetTombstones()) == 1 && vC41_validKey(b.GetTombstones()[0].GetKey()) {
			vAssert(vC41_deadNow(r, b.GetTombstones()[0].GetKey().GetId()), "after a cross-DC batch carrying a tombstone for k the replica holds a tombstone for k and no value")
			vCover("batch-tombstone-received")
		}
	}
	for i := 0; i < 3; i++ {
		ts, dead := r.tombstones[vC41_keys[i]]
		if preDead[i] && !dead {
			ttl := int64(r.config.TombstoneTTL())
			vAssert(kind == 8 && vC41_clock-preAt[i] > ttl, "a tombstone is removed only by the prune tick, and only once now - deletedAt > TombstoneTTL")
			vCover("expired")
		}
		if preDead[i] && dead && kind == 8 {
			vAssert(vC41_clock-preAt[i] <= int64(r.config.TombstoneTTL()) && ts != nil, "the prune tick keeps every tombstone that has not expired")
			vCover("kept")
		}
		if !preDead[i] && dead {
			vCover("tombstoned")
		}
	}
	vCover("end")
}
