//go:build verif

package actor

import "context"

func init() {
	vRegister("vC21_roundrobin", vC21_roundrobin)
	vRegister("vC21_random", vC21_random)
	vRegister("vC21_fanout", vC21_fanout)
	vRegister("vC21_fresh", vC21_fresh)
}

var vC21_sent []*PID

// substituted for (*ReceiveContext).Tell and (*PID).Tell in the symbolic build (see checks/c21.py)
func vC21_rctxTell(rctx *ReceiveContext, to *PID, message any) { vC21_sent = append(vC21_sent, to) }
func vC21_pidTell(pid *PID, ctx context.Context, to *PID, message any) error {
	vC21_sent = append(vC21_sent, to)
	return nil
}

func vC21_routees(n int) []*PID {
	all := []*PID{{}, {}, {}, {}}
	return all[:n]
}

func vC21_indexOf(routees []*PID, x *PID) int {
	idx := -1
	for i := 0; i < len(routees); i++ {
		if routees[i] == x {
			idx = i
		}
	}
	return idx
}

func vC21_roundrobin() {
	n := vNondetInt("routees")
	vAssume(n >= 1 && n <= 4)
	routees := vC21_routees(n)
	r := &router{routingStrategy: RoundRobinRouting, kind: standardRouter}
	r.roundRobinNext = vNondetUint32("counter")
	ctx := &ReceiveContext{self: &PID{}}
	vC21_sent = nil
	r.dispatchToRoutees(ctx, "m1", routees)
	r.dispatchToRoutees(ctx, "m2", routees)
	vAssert(len(vC21_sent) == 2, "each routed message is sent exactly once (none dropped)")
	i1 := vC21_indexOf(routees, vC21_sent[0])
	i2 := vC21_indexOf(routees, vC21_sent[1])
	vAssert(i1 >= 0 && i2 >= 0, "round-robin picks a routee of the pool")
	vAssert(i2 == (i1+1)%n, "consecutive messages go to consecutive routees mod n, also across the counter wrap")
	vCover("end")
}

// from a fresh router the k-th message goes to routee (k-1) mod n
func vC21_fresh() {
	n := vNondetInt("routees")
	vAssume(n >= 1 && n <= 3)
	routees := vC21_routees(n)
	r := &router{routingStrategy: RoundRobinRouting, kind: standardRouter}
	ctx := &ReceiveContext{self: &PID{}}
	vC21_sent = nil
	for k := 1; k <= 5; k++ {
		r.dispatchToRoutees(ctx, "m", routees)
		vAssert(len(vC21_sent) == k, "one send per message")
		vAssert(vC21_sent[k-1] == routees[(k-1)%n], "k-th message goes to routee (k-1) mod n")
	}
	vCover("end")
}

func vC21_random() {
	n := vNondetInt("routees")
	vAssume(n >= 1 && n <= 4)
	routees := vC21_routees(n)
	r := &router{routingStrategy: RandomRouting, kind: standardRouter}
	ctx := &ReceiveContext{self: &PID{}}
	vC21_sent = nil
	r.dispatchToRoutees(ctx, "m1", routees)
	vAssert(len(vC21_sent) == 1, "random routing sends the message exactly once")
	vAssert(vC21_indexOf(routees, vC21_sent[0]) >= 0, "random routing picks a routee of the pool")
	vCover("end")
}

func vC21_fanout() {
	n := vNondetInt("routees")
	vAssume(n >= 1 && n <= 4)
	routees := vC21_routees(n)
	r := &router{routingStrategy: FanOutRouting, kind: standardRouter}
	ctx := &ReceiveContext{self: &PID{}, ctx: context.Background()}
	vC21_sent = nil
	r.dispatchToRoutees(ctx, "m1", routees)
	vAssert(len(vC21_sent) == n, "fan-out sends exactly one copy per routee")
	for i := 0; i < n; i++ {
		c := 0
		for j := 0; j < len(vC21_sent); j++ {
			if vC21_sent[j] == routees[i] {
				c++
			}
		}
		vAssert(c == 1, "every routee receives the message exactly once")
	}
	vCover("end")
}
