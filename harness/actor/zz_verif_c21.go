//go:build verif

package actor

import "context"

func init() {
	vRegister("vC21_roundrobin", vC21_roundrobin)
	vRegister("vC21_random", vC21_random)
	vRegister("vC21_fanout", vC21_fanout)
	vRegister("vC21_fresh", vC21_fresh)
	vRegister("vC21_hashRing", vC21_hashRing)
	vRegister("vC21_rrPool", vC21_rrPool)
	vRegister("vC21_hashRouter", vC21_hashRouter)
}

var vC21_sent []*PID

// substituted for (*ReceiveContext).Tell and (*PID).Tell in the symbolic build (see checks/c21.py)
func vC21_rctxTell(rctx *ReceiveContext, to *PID, message any) { vC21_sent = append(vC21_sent, to) }
func vC21_pidTell(pid *PID, ctx context.Context, to *PID, message any) error {
	vC21_sent = append(vC21_sent, to)
	return nil
}

func vC21_routees(n int) []*PID {
	all := []*PID{{}, {}, {}, {}}
	return all[:n]
}

func vC21_indexOf(routees []*PID, x *PID) int {
	idx := -1
	for i := 0; i < len(routees); i++ {
		if routees[i] == x {
			idx = i
		}
	}
	return idx
}

func vC21_roundrobin() {
	n := vNondetInt("routees")
	vAssume(n >= 1 && n <= 4)
	routees := vC21_routees(n)
	r := &router{routingStrategy: RoundRobinRouting, kind: standardRouter}
	r.roundRobinNext = vNondetUint32("counter")
	ctx := &ReceiveContext{self: &PID{}}
	vC21_sent = nil
	r.dispatchToRoutees(ctx, "m1", routees)
	r.dispatchToRoutees(ctx, "m2", routees)
	vAssert(len(vC21_sent) == 2, "each routed message is sent exactly once (none dropped)")
	i1 := vC21_indexOf(routees, vC21_sent[0])
	i2 := vC21_indexOf(routees, vC21_sent[1])
	vAssert(i1 >= 0 && i2 >= 0, "round-robin picks a routee of the pool")
	vAssert(i2 == (i1+1)%n, "consecutive messages go to consecutive routees mod n, also across the counter wrap")
	vCover("end")
}

// from a fresh router the k-th message goes to routee (k-1) mod n
func vC21_fresh() {
	n := vNondetInt("routees")
	vAssume(n >= 1 && n <= 3)
	routees := vC21_routees(n)
	r := &router{routingStrategy: RoundRobinRouting, kind: standardRouter}
	ctx := &ReceiveContext{self: &PID{}}
	vC21_sent = nil
	for k := 1; k <= 5; k++ {
		r.dispatchToRoutees(ctx, "m", routees)
		vAssert(len(vC21_sent) == k, "one send per message")
		vAssert(vC21_sent[k-1] == routees[(k-1)%n], "k-th message goes to routee (k-1) mod n")
	}
	vCover("end")
}

func vC21_random() {
	n := vNondetInt("routees")
	vAssume(n >= 1 && n <= 4)
	routees := vC21_routees(n)
	r := &router{routingStrategy: RandomRouting, kind: standardRouter}
	ctx := &ReceiveContext{self: &PID{}}
	vC21_sent = nil
	r.dispatchToRoutees(ctx, "m1", routees)
	vAssert(len(vC21_sent) == 1, "random routing sends the message exactly once")
	vAssert(vC21_indexOf(routees, vC21_sent[0]) >= 0, "random routing picks a routee of the pool")
	vCover("end")
}

func vC21_fanout() {
	n := vNondetInt("routees")
	vAssume(n >= 1 && n <= 4)
	routees := vC21_routees(n)
	r := &router{routingStrategy: FanOutRouting, kind: standardRouter}
	ctx := &ReceiveContext{self: &PID{}, ctx: context.Background()}
	vC21_sent = nil
	r.dispatchToRoutees(ctx, "m1", routees)
	vAssert(len(vC21_sent) == n, "fan-out sends exactly one copy per routee")
	for i := 0; i < n; i++ {
		c := 0
		for j := 0; j < len(vC21_sent); j++ {
			if vC21_sent[j] == routees[i] {
				c++
			}
		}
		vAssert(c == 1, "every routee receives the message exactly once")
	}
	vCover("end")
}

// ---- consistent-hash routing: the hasher is an arbitrary function on the strings that occur (symbolic table)
type vC21Hasher struct{}

var vC21_hv [8]uint64 // hashes of A#0 A#1 B#0 B#1 C#0 C#1 and of the routing keys k1 k2

func (vC21Hasher) HashCode(b []byte) uint64 {
	switch string(b) {
	case "A#0":
		return vC21_hv[0]
	case "A#1":
		return vC21_hv[1]
	case "B#0":
		return vC21_hv[2]
	case "B#1":
		return vC21_hv[3]
	case "C#0":
		return vC21_hv[4]
	case "C#1":
		return vC21_hv[5]
	case "k1":
		return vC21_hv[6]
	case "k2":
		return vC21_hv[7]
	}
	vAssert(len(b) == 3, "harness: hasher asked for a string of another length")
	if len(b) == 3 {
		vAssert(b[1] == '#', "harness: hasher b[1]")
		vAssert(b[0] == 'A' || b[0] == 'B' || b[0] == 'C', "harness: hasher b[0]")
		vAssert(b[2] == '0' || b[2] == '1', "harness: hasher b[2]")
	}
	return 0
}

// substitutions (checks/c21.py): slices.Sort on []uint64, sort.Search and the unsafe string->bytes view
func vC21_sort(keys []uint64) {
	for i := 1; i < len(keys); i++ {
		for j := i; j > 0 && keys[j-1] > keys[j]; j-- {
			keys[j-1], keys[j] = keys[j], keys[j-1]
		}
	}
}
func vC21_search(n int, f func(int) bool) int {
	i, j := 0, n
	for i < j {
		h := int(uint(i+j) >> 1)
		if !f(h) {
			i = h + 1
		} else {
			j = h
		}
	}
	return i
}
func vC21_s2b(s string) []byte { return []byte(s) }

// virtual-node hashes are one of a few fixed placements (concrete, distinct; incl. 0 and the largest uint64), the hashes of
// the routing keys are arbitrary uint64 values
var vC21_layouts = [3][6]uint64{
	{10, 50, 20, 60, 30, 40},
	{0, ^uint64(0), 7, 1 << 63, 8, 1<<63 + 1},
	{5, 6, 1, 2, 3, 4},
}

func vC21_hashes(layout int) {
	for i := 0; i < 6; i++ {
		vC21_hv[i] = vC21_layouts[layout][i]
	}
	vC21_hv[6] = vNondetUint64("hash(k1)")
	vC21_hv[7] = vNondetUint64("hash(k2)")
}

// reference: the member whose virtual node has the smallest hash >= h, else the one with the smallest hash overall
func vC21_owner(h uint64, present [3]bool) int {
	best, bestAny := -1, -1
	var bh, bah uint64
	for v := 0; v < 6; v++ {
		if !present[v/2] {
			continue
		}
		x := vC21_hv[v]
		if bestAny < 0 || x < bah {
			bestAny, bah = v/2, x
		}
		if x >= h && (best < 0 || x < bh) {
			best, bh = v/2, x
		}
	}
	if best >= 0 {
		return best
	}
	return bestAny
}

func vC21_hashRing() {
	vC21_hashes(vCase("layout"))
	names := [3]string{"A", "B", "C"}
	ring := newConsistentHashRing(vC21Hasher{}, 2)
	vAssert(ring.lookup("k1") == "", "an empty ring owns nothing")
	ring.set([]string{"A", "B", "C"})
	vAssert(ring.len() == 6, "every member is placed at virtualNodes points")
	all := [3]bool{true, true, true}
	o1, o2 := ring.lookup("k1"), ring.lookup("k2")
	vAssert((o1 == "A" || o1 == "B" || o1 == "C") && (o2 == "A" || o2 == "B" || o2 == "C"), "every key maps to a member of the ring")
	if o1 == names[vC21_owner(vC21_hv[6], all)] {
		vCover("first-clockwise-virtual-node") // the usual rule; not required by the property, so only a witness
	}
	vAssert(ring.lookup("k1") == o1, "equal keys map to the same member while membership is unchanged")
	if vC21_hv[6] == vC21_hv[7] {
		vAssert(o1 == o2, "keys with equal hashes map to the same member")
	}
	gone := vCase("removed")
	members := make([]string, 0, 2)
	present := all
	present[gone] = false
	for i := 0; i < 3; i++ {
		if i != gone {
			members = append(members, names[i])
		}
	}
	ring.set(members)
	n1, n2 := ring.lookup("k1"), ring.lookup("k2")
	vAssert(n1 != names[gone] && n2 != names[gone] && n1 != "" && n2 != "", "after a removal every key maps to a remaining member")
	if o1 != names[gone] {
		vAssert(n1 == o1, "removing a routee only moves the keys it owned (k1)")
		vCover("kept")
	} else {
		vCover("moved")
	}
	if o2 != names[gone] {
		vAssert(n2 == o2, "removing a routee only moves the keys it owned (k2)")
	}
	if vC21_hv[6] > vC21_hv[0] && vC21_hv[6] > vC21_hv[1] && vC21_hv[6] > vC21_hv[2] && vC21_hv[6] > vC21_hv[3] && vC21_hv[6] > vC21_hv[4] && vC21_hv[6] > vC21_hv[5] {
		vCover("wrap-around")
	}
	vCover("end")
}

// the router arm: rebuildHashRing + dispatchToRoutees with the consistent-hash strategy
func vC21_hashRouter() {
	vC21_hashes(vCase("layout"))
	pa, pb := &PID{}, &PID{}
	pa.setState(runningState, true)
	pb.setState(runningState, true)
	bRunning := vNondetBool("bRunning")
	pb.setState(runningState, bRunning)
	r := &router{routingStrategy: ConsistentHashRouting, kind: standardRouter, hasher: vC21Hasher{}, virtualNodes: 2,
		routeesMap:          map[string]*PID{"A": pa, "B": pb},
		routingKeyExtractor: func(msg any) string { return msg.(string) }}
	r.rebuildHashRing()
	routees := []*PID{pa, pb}
	ctx := &ReceiveContext{self: &PID{}}
	vC21_sent = nil
	r.dispatchToRoutees(ctx, "k1", routees)
	r.dispatchToRoutees(ctx, "k1", routees)
	r.dispatchToRoutees(ctx, "k2", routees)
	vAssert(len(vC21_sent) == 3, "each routed message is sent exactly once (none dropped)")
	vAssert(vC21_indexOf(routees, vC21_sent[0]) >= 0 && vC21_indexOf(routees, vC21_sent[2]) >= 0, "consistent-hash routing picks a routee of the pool")
	if bRunning {
		vAssert(vC21_sent[0] == vC21_sent[1], "messages with equal keys go to the same routee while membership is unchanged")
		if vC21_hv[6] == vC21_hv[7] {
			vAssert(vC21_sent[2] == vC21_sent[0], "keys with equal hashes go to the same routee")
		}
		vCover("all-running")
	} else {
		vCover("owner-not-running") // falls back to a random routee of the list: nothing to assert beyond pool membership
	}
	if vC21_sent[0] != vC21_sent[2] {
		vCover("two-routees-used")
	}
	vCover("end")
}

// substituted for slices.SortFunc on []*PID (checks/c21.py)
func vC21_sortPIDs(x []*PID, cmp func(a, b *PID) int) {
	for i := 1; i < len(x); i++ {
		for j := i; j > 0 && cmp(x[j-1], x[j]) > 0; j-- {
			x[j-1], x[j] = x[j], x[j-1]
		}
	}
}

func vC21_pid(name string) *PID {
	p := &PID{path: &path{host: "host", port: 1, name: name, system: "sys", cachedStr: "/" + name, cachedHostPort: "host:1"}}
	p.setState(runningState, true)
	return p
}

// the whole router arm for Broadcast messages: availableRoutees (a Go map, iterated in an order the solver chooses anew
// for every message: opts map_order) + dispatchToRoutees. n consecutive messages must reach n different routees.
func vC21_rrPool() {
	pids := [3]*PID{vC21_pid("pool-2"), vC21_pid("pool-0"), vC21_pid("pool-1")}
	r := &router{routingStrategy: RoundRobinRouting, kind: standardRouter, poolSize: 3, routeesMap: map[string]*PID{}}
	for i := 0; i < 3; i++ {
		r.routeesMap[pids[i].ID()] = pids[i]
	}
	sender := &PID{}
	vC21_sent = nil
	for k := 0; k < 3; k++ {
		ctx := &ReceiveContext{self: &PID{}, sender: sender, message: NewBroadcast("m")}
		r.handleBroadcast(ctx)
	}
	vAssert(len(vC21_sent) == 3, "each routed message is sent exactly once (none dropped)")
	vAssert(vC21_sent[0] != vC21_sent[1] && vC21_sent[1] != vC21_sent[2] && vC21_sent[0] != vC21_sent[2],
		"n consecutive messages of a round-robin router reach n different routees (the pool has a stable order)")
	vCover("end")
}
