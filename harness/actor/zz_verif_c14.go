//go:build verif

package actor

func init() {
	vRegister("vC14_sequence", vC14_sequence)
	vRegister("vC14_inflight", vC14_inflight)
}

type vC14Actor struct{}

var vC14_called int

func (vC14Actor) PreStart(*Context) error     { return nil }
func (vC14Actor) Receive(ctx *ReceiveContext) { vC14_called = 100 }
func (vC14Actor) PostStop(*Context) error     { return nil }
func vC14_behavior(id int) Behavior           { return func(ctx *ReceiveContext) { vC14_called = id } }

// id of the behavior that would handle the next message (0 = none)
func vC14_current(pid *PID, rctx *ReceiveContext) int {
	vC14_called = 0
	if b := pid.behaviorStack.Peek(); b != nil {
		b(rctx)
	}
	return vC14_called
}

func vC14_newPID() *PID {
	pid := &PID{actor: vC14Actor{}}
	// as in newPID
	bs := newBehaviorStack()
	bs.Push(pid.actor.Receive)
	pid.behaviorStack = bs
	return pid
}

// bounded history: K operations from the initial state against a stack model (ids; default = 100)
func vC14_sequence() {
	pid := vC14_newPID()
	rctx := &ReceiveContext{self: pid}
	var model [8]int
	depth := 1
	model[0] = 100
	vAssert(vC14_current(pid, rctx) == 100, "a new actor uses its default behavior")
	for k := 0; k < 5; k++ {
		op := vNondetInt("op")
		vAssume(op >= 0 && op <= 3)
		id := k + 1
		switch op {
		case 0: // Become: replaces all behaviors with one
			rctx.Become(vC14_behavior(id))
			depth = 1
			model[0] = id
			vCover("become")
		case 1: // BecomeStacked: push
			rctx.BecomeStacked(vC14_behavior(id))
			model[depth] = id
			depth++
			vCover("becomeStacked")
		case 2: // UnBecomeStacked: pop
			rctx.UnBecomeStacked()
			if depth > 0 {
				depth--
			}
			vCover("unbecomeStacked")
		case 3: // UnBecome: only the default behavior remains
			rctx.UnBecome()
			depth = 1
			model[0] = 100
			vCover("unbecome")
		}
		want := 0
		if depth > 0 {
			want = model[depth-1]
		}
		vAssert(vC14_current(pid, rctx) == want, "next message is handled by the behavior the stack model predicts")
		vAssert(pid.behaviorStack.Len() == depth, "stack depth equals the model depth")
	}
	vCover("end")
}

var vC14_trace [4]int
var vC14_n int

// the message being handled finishes under the behavior that started it, even if it switches behavior midway
func vC14_inflight() {
	pid := vC14_newPID()
	rctx := &ReceiveContext{self: pid}
	vC14_n = 0
	op := vNondetInt("op")
	vAssume(op >= 0 && op <= 3)
	first := Behavior(func(ctx *ReceiveContext) {
		vC14_trace[vC14_n] = 1
		vC14_n++
		switch op {
		case 0:
			ctx.Become(vC14_behavior(7))
		case 1:
			ctx.BecomeStacked(vC14_behavior(7))
		case 2:
			ctx.UnBecomeStacked()
		case 3:
			ctx.UnBecome()
		}
		vC14_trace[vC14_n] = 1 // still inside the first behavior
		vC14_n++
	})
	rctx.BecomeStacked(first)
	if b := pid.behaviorStack.Peek(); b != nil {
		b(rctx)
	}
	vAssert(vC14_n == 2 && vC14_trace[0] == 1 && vC14_trace[1] == 1, "the current message finishes under the behavior that started it")
	want := 7
	if op == 2 || op == 3 {
		want = 100
	}
	vAssert(vC14_current(pid, rctx) == want, "the switch takes effect for the next message")
	vCover("end")
}
