//go:build verif

package breaker

import (
	"context"
	"errors"
	"sync/atomic"
	"time"
)

func init() {
	vRegister("vC47_history", vC47_history)
	vRegister("vC47_step", vC47_step)
	vRegister("vC47_complete", vC47_complete)
	vRegister("vC47_buckets", vC47_buckets)
	vRegister("vC47_sanitize", vC47_sanitize)
	vRegister("vC47_probes", vC47_probes)
}

// ---------------------------------------------------------------------------------------------
// injected clock: arbitrary non-decreasing; it advances between calls and while a protected function runs
// ---------------------------------------------------------------------------------------------
var vC47_now int64

func vC47_clock() time.Time { return time.Unix(0, vC47_now) }

func vC47_advance(name string) {
	d := vNondetInt64(name)
	vAssume(d >= 0 && d < 1<<40)
	vC47_now += d
}

// a context whose cancellation is owned by the harness
type vC47Ctx struct{ err error }

func (c *vC47Ctx) Deadline() (time.Time, bool) { return time.Time{}, false }
func (c *vC47Ctx) Done() <-chan struct{}       { return nil }
func (c *vC47Ctx) Err() error                  { return c.err }
func (c *vC47Ctx) Value(any) any               { return nil }

var vC47_errFn = errors.New("verif: protected call failed")

// ---------------------------------------------------------------------------------------------
// reference model. The rolling window is an event log (not a ring): an outcome recorded in bucket index i is
// counted while the current bucket index is < i+num; the bucket grid is re-anchored ("hard reset") when a whole
// window passed without an update, and on every transition to half-open / closed.
// ---------------------------------------------------------------------------------------------
const vC47_maxEv = 8

type vC47Model struct {
	num, dur     int64
	minReq, max  int
	rate         float64
	openTimeout  int64
	state        State
	openUntil    int64
	origin, cur  int64 // grid anchor and current bucket index
	evIdx        [vC47_maxEv]int64
	evOK         [vC47_maxEv]bool
	nEv          int
	inflight     int // half-open tokens held
	opened, shut bool
}

func (m *vC47Model) resetAt(now int64) { m.origin, m.cur, m.nEv = now, 0, 0 }

func (m *vC47Model) advance(now int64) {
	if now-(m.origin+m.cur*m.dur) < m.dur {
		return
	}
	idx := (now - m.origin) / m.dur
	if idx-m.cur >= m.num {
		m.resetAt(now)
		return
	}
	m.cur = idx
}

func (m *vC47Model) totals() (succ, fail uint64) {
	for i := 0; i < vC47_maxEv; i++ {
		if i < m.nEv && m.evIdx[i] > m.cur-m.num {
			if m.evOK[i] {
				succ++
			} else {
				fail++
			}
		}
	}
	return
}

func (m *vC47Model) acquire(now int64) (allowed, token bool) {
	if m.state == Closed {
		return true, false
	}
	if m.state == Open {
		if now < m.openUntil {
			return false, false
		}
		m.state = HalfOpen
		m.resetAt(now)
	}
	if m.inflight < m.max {
		m.inflight++
		return true, true
	}
	return false, false
}

func (m *vC47Model) record(now int64, ok bool) {
	m.advance(now)
	m.evIdx[m.nEv], m.evOK[m.nEv] = m.cur, ok
	m.nEv++
	succ, fail := m.totals()
	total := succ + fail
	if total < uint64(m.minReq) {
		return
	}
	if float64(fail)/float64(total) >= m.rate {
		if m.state != Open {
			m.state = Open
			m.openUntil = now + m.openTimeout
			m.opened = true
		}
		return
	}
	if m.state == HalfOpen {
		m.state = Closed
		m.resetAt(now)
		m.shut = true
	}
}

// ---------------------------------------------------------------------------------------------
// history of K calls against the model; a protected function may itself call the breaker once (a second,
// overlapping call), which is how half-open probe admission is exercised sequentially
// ---------------------------------------------------------------------------------------------
var (
	vC47_b      *CircuitBreaker
	vC47_m      *vC47Model
	vC47_ran    int
	vC47_nested bool
)

// outcome: 0 success, 1 failure, 2 caller cancelled while the function ran (error returned, ctx.Err()==Canceled)
func vC47_call(depth int) {
	b, m := vC47_b, vC47_m
	ctx := &vC47Ctx{}
	if vNondetBool("ctxDoneBefore") {
		ctx.err = context.Canceled
	}
	outcome := vChoose("outcome", 3)
	preState, preUntil, now0 := m.state, m.openUntil, vC47_now
	wantRun, token := false, false
	if ctx.err == nil {
		wantRun, token = m.acquire(now0)
	}
	ran := false
	got, err := b.Execute(ctx, func(c context.Context) (any, error) {
		ran = true
		vC47_ran++
		if depth == 0 && vC47_nested {
			vC47_call(1) // an overlapping call made while this one is in flight
		}
		vC47_advance("callDuration")
		switch outcome {
		case 0:
			return 7, nil
		case 1:
			return nil, vC47_errFn
		default:
			ctx.err = context.Canceled
			return nil, vC47_errFn
		}
	})
	vAssert(ran == wantRun, "a call is admitted exactly when the state machine allows it (closed; half-open with a free probe slot; open only after the open timeout)")
	if !wantRun {
		if ctx.err != nil && !ran {
			ce, isErr := err.(*Error)
			vAssert(isErr && ce.Type == ErrorTypeTimeout && got == nil, "a call whose context is already done is not run and reports a timeout-type error")
			vCover("ctx-done-before")
		} else {
			vAssert(err == error(ErrOpen) && got == nil, "a rejected call reports ErrOpen")
			if preState == Open && now0 < preUntil {
				vCover("rejected-open")
			}
			if preState == HalfOpen {
				vCover("rejected-halfopen-full")
			}
		}
	} else {
		if token {
			m.inflight--
		}
		switch outcome {
		case 0:
			m.record(vC47_now, true)
			v, ok := got.(int)
			vAssert(err == nil && ok && v == 7, "a successful call returns the function's value")
		case 1:
			m.record(vC47_now, false)
			vAssert(err == vC47_errFn, "a failed call returns the function's error")
		default:
			vAssert(err == vC47_errFn, "a cancelled call returns the function's error")
			vCover("cancelled-not-recorded")
		}
	}
	_, _ = preState, preUntil
	vAssert(b.State() == m.state, "the breaker is in the state the state machine predicts")
	if m.state == Open {
		vAssert(b.openUntil.Load() == m.openUntil, "the open period ends openTimeout after the transition to open")
	}
	vAssert(len(b.semCh) == m.inflight, "half-open tokens held = probes in flight")
}

func vC47_setup() {
	num := vCase("buckets")
	dur := int64(vCase("bucketNanos"))
	max := vCase("halfOpenMax")
	rate := vNondetFloat64("failureRate")
	vAssume(rate >= 0 && rate <= 1)
	minReq := vNondetInt("minRequests")
	vAssume(minReq >= 1 && minReq <= 4)
	openTimeout := vNondetInt64("openTimeout")
	vAssume(openTimeout > 0 && openTimeout < 1<<40)
	vC47_now = vNondetInt64("t0")
	vAssume(vC47_now > 0 && vC47_now < 1<<40)
	vC47_ran = 0
	vC47_b = NewCircuitBreaker(WithFailureRate(rate), WithMinRequests(minReq), WithOpenTimeout(time.Duration(openTimeout)),
		WithWindow(time.Duration(dur*int64(num)), num), WithHalfOpenMaxCalls(max), WithClock(vC47_clock))
	vC47_m = &vC47Model{num: int64(num), dur: dur, minReq: minReq, max: max, rate: rate, openTimeout: openTimeout,
		state: Closed, origin: vC47_now}
}

func vC47_history() {
	vC47_setup()
	K := vCase("calls")
	vC47_nested = vCase("nested") == 1
	for k := 0; k < K; k++ {
		vC47_advance("gap")
		vC47_call(0)
		// the rolling totals the breaker reports are those of the model
		gs, gf, _, _ := vC47_b.buckets.snapshot()
		vC47_m.advance(vC47_now)
		s, f := vC47_m.totals()
		vAssert(gs == s && gf == f, "the window totals count exactly the outcomes recorded in the last `buckets` buckets")
	}
	if vC47_m.opened {
		vCover("opened")
	}
	if vC47_m.shut {
		vCover("closed-again")
	}
	if vC47_m.state == HalfOpen {
		vCover("half-open")
	}
	vCover("end")
}

// ---------------------------------------------------------------------------------------------
// one call from an ARBITRARY breaker state (inductive step): any state, any open deadline, any number of probe
// tokens held by other in-flight calls, any ring contents satisfying the representation invariant of vC47_buckets.
// The expected behaviour is written directly from the property (per-bucket semantics), not via the event-log model.
// ---------------------------------------------------------------------------------------------
func vC47_step() {
	n := vCase("buckets")
	dur := int64(vCase("bucketNanos"))
	max := vCase("halfOpenMax")
	rate := vNondetFloat64("failureRate")
	vAssume(rate >= 0 && rate <= 1)
	minReq := vNondetInt("minRequests")
	vAssume(minReq >= 1 && minReq <= 8)
	openTimeout := vNondetInt64("openTimeout")
	vAssume(openTimeout > 0 && openTimeout < 1<<40)
	vC47_now = 0
	b := NewCircuitBreaker(WithFailureRate(rate), WithMinRequests(minReq), WithOpenTimeout(time.Duration(openTimeout)),
		WithWindow(time.Duration(dur*int64(n)), n), WithHalfOpenMaxCalls(max), WithClock(vC47_clock))
	// arbitrary pre-state
	bw := b.buckets
	cursor := vNondetInt("cursor")
	vAssume(cursor >= 0 && cursor < n)
	last := vNondetInt64("lastUpdate")
	vAssume(last >= 0 && last < 1<<40)
	bw.cursor, bw.lastUpdate = cursor, last
	var succOf, failOf [3]uint64
	for j := 0; j < n; j++ {
		i := ((cursor-j)%n + n) % n
		s, f := vNondetUint64("succ"), vNondetUint64("fail")
		vAssume(s <= 1 && f <= 1)
		bw.buf[i] = bucket{succ: s, fail: f, start: last - int64(j)*dur}
		succOf[j], failOf[j] = s, f // j buckets back in time
	}
	st := State(vChoose("state", 3))
	until := vNondetInt64("openUntil")
	vAssume(until >= 0 && until < 1<<41)
	held := vNondetInt("tokensHeld")
	vAssume(held >= 0 && held <= max)
	b.state.Store(int32(st))
	b.openUntil.Store(until)
	for i := 0; i < max; i++ {
		if i < held {
			b.semCh <- struct{}{}
		}
	}
	now0 := vNondetInt64("now")
	vAssume(now0 >= last && now0 < 1<<41)
	vC47_now = now0
	ctx := &vC47Ctx{}
	doneBefore := vNondetBool("ctxDoneBefore")
	if doneBefore {
		ctx.err = context.Canceled
	}
	outcome := vChoose("outcome", 3)
	ran := false
	got, err := b.Execute(ctx, func(c context.Context) (any, error) {
		ran = true
		vC47_advance("callDuration")
		switch outcome {
		case 0:
			return 7, nil
		case 1:
			return nil, vC47_errFn
		default:
			ctx.err = context.Canceled
			return nil, vC47_errFn
		}
	})
	now1 := vC47_now

	// ---- expected behaviour
	wantRun, reanchored := false, false
	postState, postUntil := st, until
	if !doneBefore {
		switch st {
		case Closed:
			wantRun = true
		case Open:
			if now0 >= until {
				postState, reanchored = HalfOpen, true
				wantRun = held < max
			}
		default:
			wantRun = held < max
		}
	}
	recorded := wantRun && outcome != 2
	var ws, wf uint64
	if recorded {
		if !reanchored {
			steps := (now1 - last) / dur
			for j := 0; j < n; j++ {
				if int64(j)+steps < int64(n) {
					ws += succOf[j]
					wf += failOf[j]
				}
			}
		}
		if outcome == 0 {
			ws++
		} else {
			wf++
		}
		if total := ws + wf; total >= uint64(minReq) {
			if float64(wf)/float64(total) >= rate {
				if postState != Open {
					postState, postUntil = Open, now1+openTimeout
					vCover("opened")
				}
			} else if postState == HalfOpen {
				postState = Closed
				ws, wf = 0, 0
				vCover("closed-again")
			}
		}
	}

	vAssert(ran == wantRun, "a call is admitted exactly when: closed; or half-open (also: open past its timeout) with a free probe slot")
	if st == Open && now0 < until && !doneBefore {
		vAssert(!ran && err == error(ErrOpen) && got == nil && b.State() == Open && b.openUntil.Load() == until, "while open and before the open timeout every call is rejected with ErrOpen and nothing changes")
		vCover("rejected-open")
	}
	if !wantRun {
		if doneBefore {
			ce, isErr := err.(*Error)
			vAssert(isErr && ce.Type == ErrorTypeTimeout && got == nil, "a call whose context is already done is not run and reports a timeout-type error")
		} else {
			vAssert(err == error(ErrOpen) && got == nil, "a rejected call reports ErrOpen")
			if st != Open || now0 >= until {
				vCover("rejected-no-probe-slot")
			}
		}
	} else {
		switch outcome {
		case 0:
			v, ok := got.(int)
			vAssert(err == nil && ok && v == 7, "a successful call returns the function's value")
		case 1:
			vAssert(err == vC47_errFn, "a failed call returns the function's error")
		default:
			vAssert(err == vC47_errFn, "a cancelled call returns the function's error")
			vCover("cancelled-not-recorded")
		}
	}
	vAssert(b.State() == postState, "the breaker opens exactly when the window holds >= minRequests outcomes with failure rate >= threshold, closes when a half-open sample is below it, and otherwise keeps its state")
	if postState == Open {
		vAssert(b.openUntil.Load() == postUntil, "the open period ends openTimeout after the transition to open (and is not extended while open)")
	}
	vAssert(len(b.semCh) == held, "the probe token is returned (tokens held by other calls are untouched)")
	if recorded || reanchored {
		gs, gf := bw.totalsLocked()
		vAssert(gs == ws && gf == wf, "the window holds exactly the outcomes of the buckets still inside it (none after a transition to half-open / closed) plus the new one")
	}
	if reanchored {
		vCover("half-open-entered")
	}
	vCover("end")
}

// ---------------------------------------------------------------------------------------------
// the completion half of Execute on its own: a call that was admitted EARLIER (while closed, or as a probe) finishes
// now, when the breaker may meanwhile be in ANY state - in particular Open (other callers opened it) or HalfOpen.
// Real record(success) (+ release() if the call holds a probe token) from an arbitrary state; expected: the reference
// transition relation - Open stays Open with its deadline untouched, only a half-open sample below the threshold
// closes, a sample at/above the threshold opens.
// ---------------------------------------------------------------------------------------------
func vC47_complete() {
	n := vCase("buckets")
	dur := int64(vCase("bucketNanos"))
	max := vCase("halfOpenMax")
	rate := vNondetFloat64("failureRate")
	vAssume(rate >= 0 && rate <= 1)
	minReq := vNondetInt("minRequests")
	vAssume(minReq >= 1 && minReq <= 8)
	openTimeout := vNondetInt64("openTimeout")
	vAssume(openTimeout > 0 && openTimeout < 1<<40)
	vC47_now = 0
	b := NewCircuitBreaker(WithFailureRate(rate), WithMinRequests(minReq), WithOpenTimeout(time.Duration(openTimeout)),
		WithWindow(time.Duration(dur*int64(n)), n), WithHalfOpenMaxCalls(max), WithClock(vC47_clock))
	bw := b.buckets
	cursor := vNondetInt("cursor")
	vAssume(cursor >= 0 && cursor < n)
	last := vNondetInt64("lastUpdate")
	vAssume(last >= 0 && last < 1<<40)
	bw.cursor, bw.lastUpdate = cursor, last
	var succOf, failOf [3]uint64
	for j := 0; j < n; j++ {
		i := ((cursor-j)%n + n) % n
		s, f := vNondetUint64("succ"), vNondetUint64("fail")
		vAssume(s <= 1 && f <= 1)
		bw.buf[i] = bucket{succ: s, fail: f, start: last - int64(j)*dur}
		succOf[j], failOf[j] = s, f
	}
	st := State(vChoose("state", 3))
	until := vNondetInt64("openUntil")
	vAssume(until >= 0 && until < 1<<41)
	held := vNondetInt("tokensHeld")
	vAssume(held >= 0 && held <= max)
	holdsToken := vNondetBool("thisCallHoldsAToken")
	vAssume(!holdsToken || held >= 1)
	b.state.Store(int32(st))
	b.openUntil.Store(until)
	for i := 0; i < max; i++ {
		if i < held {
			b.semCh <- struct{}{}
		}
	}
	now := vNondetInt64("now")
	vAssume(now >= last && now < 1<<41)
	vC47_now = now
	success := vNondetBool("success")

	b.record(success)
	if holdsToken {
		b.release()
	}

	// ---- expected
	postState, postUntil := st, until
	var ws, wf uint64
	steps := (now - last) / dur
	for j := 0; j < n; j++ {
		if int64(j)+steps < int64(n) {
			ws += succOf[j]
			wf += failOf[j]
		}
	}
	if success {
		ws++
	} else {
		wf++
	}
	if total := ws + wf; total >= uint64(minReq) {
		if float64(wf)/float64(total) >= rate {
			if st != Open {
				postState, postUntil = Open, now+openTimeout
				vCover("opened")
			}
		} else if st == HalfOpen {
			postState = Closed
			ws, wf = 0, 0
			vCover("closed-again")
		}
	}
	if st == Open {
		vAssert(b.State() == Open && b.openUntil.Load() == until, "an open breaker stays open, with its deadline untouched, whatever outcome a call admitted earlier records")
		if success {
			vCover("straggler-success-while-open")
		}
	}
	vAssert(b.State() == postState, "recording an outcome moves the breaker only along closed/half-open -> open (threshold reached) and half-open -> closed (sample below threshold)")
	if postState == Open {
		vAssert(b.openUntil.Load() == postUntil, "the open period ends openTimeout after the transition to open (and is not extended while open)")
	}
	gs, gf := bw.totalsLocked()
	vAssert(gs == ws && gf == wf, "the window holds the outcomes of the buckets still inside it plus the new one (none after closing)")
	want := held
	if holdsToken {
		want--
	}
	vAssert(len(b.semCh) == want, "a completing probe returns exactly its own token")
	vCover("end")
}

// ---------------------------------------------------------------------------------------------
// the rolling window alone: one step from an arbitrary ring state (inductive), against per-bucket semantics
// ---------------------------------------------------------------------------------------------
func vC47_buckets() {
	n := vCase("buckets")
	dur := int64(vCase("bucketNanos"))
	vC47_now = 0
	bw := newBuckets(time.Duration(dur*int64(n)), n, vC47_clock)
	// arbitrary ring state satisfying the representation invariant:
	// bucket (cursor - j) mod n starts at lastUpdate - j*dur
	cursor := vNondetInt("cursor")
	vAssume(cursor >= 0 && cursor < n)
	last := vNondetInt64("lastUpdate")
	vAssume(last >= 0 && last < 1<<40)
	bw.cursor, bw.lastUpdate = cursor, last
	var startOf [3]int64
	var succOf, failOf [3]uint64
	for j := 0; j < n; j++ {
		i := ((cursor-j)%n + n) % n
		s, f := vNondetUint64("succ"), vNondetUint64("fail")
		vAssume(s < 1<<20 && f < 1<<20)
		bw.buf[i] = bucket{succ: s, fail: f, start: last - int64(j)*dur}
		startOf[j], succOf[j], failOf[j] = bw.buf[i].start, s, f // j buckets back in time
	}
	now := vNondetInt64("now")
	vAssume(now >= last && now < 1<<41)
	ok := vNondetBool("success")
	succ, fail := bw.add(now, ok)
	// reference: the grid position of now relative to the current bucket
	steps := (now - last) / dur
	var wantS, wantF uint64
	if steps < int64(n) {
		// buckets that started more than n-1 grid steps before now's bucket have been recycled
		for j := 0; j < n; j++ {
			if int64(j)+steps < int64(n) {
				wantS += succOf[j]
				wantF += failOf[j]
			}
		}
		vAssert(bw.lastUpdate == last+steps*dur && bw.lastUpdate <= now && now < bw.lastUpdate+dur, "the current bucket is the grid cell containing now")
		vCover("rotated")
	} else {
		vAssert(bw.lastUpdate == now && bw.cursor == 0, "a stale window is re-anchored at now")
		vCover("stale-reset")
	}
	if ok {
		wantS++
	} else {
		wantF++
	}
	vAssert(succ == wantS && fail == wantF, "totals = outcomes of the buckets still inside the window + the new outcome")
	vAssert(bw.cursor >= 0 && bw.cursor < n, "cursor stays inside the ring")
	for j := 0; j < n; j++ {
		i := ((bw.cursor-j)%n + n) % n
		if steps < int64(n) {
			vAssert(bw.buf[i].start == bw.lastUpdate-int64(j)*dur, "bucket start times stay on the grid (representation invariant)")
		}
	}
	vCover("end")
}

// ---------------------------------------------------------------------------------------------
// options.Sanitize makes every option valid
// ---------------------------------------------------------------------------------------------
func vC47_sanitize() {
	o := &options{
		failureRate:      vNondetFloat64("failureRate"),
		minRequests:      vNondetInt("minRequests"),
		openTimeout:      time.Duration(vNondetInt64("openTimeout")),
		window:           time.Duration(vNondetInt64("window")),
		buckets:          vNondetInt("buckets"),
		halfOpenMaxCalls: vNondetInt("halfOpenMaxCalls"),
	}
	if vNondetBool("withClock") {
		o.clock = vC47_clock
	}
	o.Sanitize()
	vAssert(o.failureRate >= 0 && o.failureRate <= 1, "sanitized failure rate is within [0,1]")
	vAssert(o.minRequests >= 1 && o.openTimeout > 0 && o.window > 0 && o.buckets >= 1 && o.halfOpenMaxCalls >= 1 && o.clock != nil, "sanitized options are all valid")
	vCover("end")
}

// ---------------------------------------------------------------------------------------------
// Mode C: three callers race for the probe slots of a half-open breaker
// ---------------------------------------------------------------------------------------------
func vC47_probes() {
	max := vCase("halfOpenMax")
	vC47_now = 1000
	b := NewCircuitBreaker(WithFailureRate(0.5), WithMinRequests(4), WithOpenTimeout(10), WithWindow(100, 1),
		WithHalfOpenMaxCalls(max), WithClock(vC47_clock))
	// an open breaker whose open period has elapsed: the first caller moves it to half-open
	b.state.Store(int32(Open))
	b.openUntil.Store(500)
	var inflight, peak, admitted, rejected atomic.Int32
	caller := func() {
		_, err := b.Execute(&vC47Ctx{}, func(context.Context) (any, error) {
			n := inflight.Add(1)
			if n > peak.Load() {
				peak.Store(n)
			}
			admitted.Add(1)
			vYield()
			inflight.Add(-1)
			return nil, nil
		})
		if err != nil {
			rejected.Add(1)
		}
	}
	callers := vCase("callers")
	vGo("a", caller)
	vGo("b", caller)
	if callers == 3 {
		vGo("c", caller)
	}
	vRun()
	vAssume(vAllDone())
	vAssert(int(peak.Load()) <= max, "a half-open breaker never runs more than halfOpenMaxCalls probes at the same time")
	vAssert(int(admitted.Load()+rejected.Load()) == callers, "every caller is either admitted or rejected")
	vAssert(len(b.semCh) == 0, "every probe token is returned")
	if rejected.Load() > 0 {
		vCover("some-rejected")
	}
	if int(peak.Load()) == max {
		vCover("cap-reached")
	}
	vCover("end")
}
