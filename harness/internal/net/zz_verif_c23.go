//go:build verif

package net

import (
	"bufio"
	"context"
	"encoding/binary"
	"errors"
	"io"
	"net"
	"time"

	"google.golang.org/protobuf/proto"
	"google.golang.org/protobuf/reflect/protoreflect"
	"google.golang.org/protobuf/reflect/protoregistry"
)

func init() {
	vRegister("vC23_roundtrip", vC23_roundtrip)
	vRegister("vC23_roundtrip_md", vC23_roundtrip_md)
	vRegister("vC23_metadata", vC23_metadata)
	vRegister("vC23_metadata_limit", vC23_metadata_limit)
	vRegister("vC23_deadline", vC23_deadline)
	vRegister("vC23_concat", vC23_concat)
	vRegister("vC23_server", vC23_server)
	vRegister("vC23_robust_plain", vC23_robust_plain)
	vRegister("vC23_robust_md", vC23_robust_md)
	vRegister("vC23_robust_metadata", vC23_robust_metadata)
	vRegister("vC23_robust_response", vC23_robust_response)
	vRegister("vC23_robust_read", vC23_robust_read)
	vRegister("vC23_robust_server", vC23_robust_server)
	vRegister("vC23_detect", vC23_detect)
	vRegister("vC23_detect_md", vC23_detect_md)
	vRegister("vC23_bucket", vC23_bucket)
	vRegister("vC23_pool", vC23_pool)
}

// ---------------------------------------------------------------------------------------------------------------------
// protobuf, opaque: a message is (type name, payload bytes). The substitutes below are an exact inverse pair on the
// payload bytes (Unmarshal(Marshal(m)) = m), Size agrees with Marshal, and a payload starting with 0xFF is "corrupt"
// (Unmarshal fails), so the error path of the frame decoders is reachable.

type vC23Msg struct {
	name    string
	payload []byte
}

func (m *vC23Msg) ProtoReflect() protoreflect.Message { return nil }

type vC23Type struct {
	protoreflect.MessageType
	name string
}

func (t *vC23Type) New() protoreflect.Message { return &vC23Refl{m: &vC23Msg{name: t.name}} }

type vC23Refl struct {
	protoreflect.Message
	m *vC23Msg
}

func (r *vC23Refl) Interface() protoreflect.ProtoMessage { return r.m }

// the registry knows exactly one message type
var vC23_registered string

func vC23_findMessageByName(_ *protoregistry.Types, name protoreflect.FullName) (protoreflect.MessageType, error) {
	if string(name) == vC23_registered {
		return &vC23Type{name: vC23_registered}, nil
	}
	return nil, protoregistry.NotFound
}

func vC23_messageName(m proto.Message) protoreflect.FullName {
	if x, ok := m.(*vC23Msg); ok && x != nil {
		return protoreflect.FullName(x.name)
	}
	return ""
}

func vC23_size(_ proto.MarshalOptions, m proto.Message) int {
	return len(m.(*vC23Msg).payload)
}

// substituted for proto.Size (the serializer sizes the payload with it before MarshalAppend reuses the cached size)
func vC23_protoSize(m proto.Message) int { return len(m.(*vC23Msg).payload) }

func vC23_marshalAppend(_ proto.MarshalOptions, b []byte, m proto.Message) ([]byte, error) {
	return append(b, m.(*vC23Msg).payload...), nil
}

var vC23_errCorrupt = errors.New("harness: corrupt payload")

func vC23_unmarshal(b []byte, m proto.Message) error {
	if len(b) > 0 && b[0] == 0xFF {
		return vC23_errCorrupt
	}
	x := m.(*vC23Msg)
	x.payload = make([]byte, len(b))
	copy(x.payload, b)
	return nil
}

// ---------------------------------------------------------------------------------------------------------------------
// byte stream, opaque: io.ReadFull is substituted by a reader over one global symbolic buffer (the reader argument is
// ignored); short input gives io.EOF / io.ErrUnexpectedEOF like the real function

type vC23Stream struct {
	data []byte
	pos  int
}

var vC23_in vC23Stream

func vC23_readFull(_ io.Reader, buf []byte) (int, error) {
	rest := len(vC23_in.data) - vC23_in.pos
	if rest >= len(buf) {
		copy(buf, vC23_in.data[vC23_in.pos:vC23_in.pos+len(buf)])
		vC23_in.pos += len(buf)
		return len(buf), nil
	}
	copy(buf, vC23_in.data[vC23_in.pos:])
	vC23_in.pos = len(vC23_in.data)
	if rest == 0 {
		return 0, io.EOF
	}
	return rest, io.ErrUnexpectedEOF
}

// a context that carries values, standing in for context.WithValue (package context is not executed)
type vC23Ctx struct {
	context.Context
	parent   *vC23Ctx
	key, val any
}

func (c *vC23Ctx) Value(key any) any {
	for x := c; x != nil; x = x.parent {
		if x.key == key {
			return x.val
		}
	}
	return nil
}

func vC23_withValue(parent context.Context, key, val any) context.Context {
	p, _ := parent.(*vC23Ctx)
	return &vC23Ctx{parent: p, key: key, val: val}
}

// ---------------------------------------------------------------------------------------------------------------------

func vC23_nameStart(c byte) bool {
	return (c >= 'a' && c <= 'z') || (c >= 'A' && c <= 'Z') || c == '_'
}

// a protobuf full name: identifiers separated by dots (first byte a letter or '_', then letters, digits, '_', '.')
func vC23_validName(s string) bool {
	if len(s) == 0 || !vC23_nameStart(s[0]) {
		return false
	}
	for i := 1; i < len(s); i++ {
		c := s[i]
		if !(vC23_nameStart(c) || (c >= '0' && c <= '9') || c == '.') {
			return false
		}
	}
	return true
}

func vC23_bytesEq(a, b []byte) bool {
	if len(a) != len(b) {
		return false
	}
	for i := range a {
		if a[i] != b[i] {
			return false
		}
	}
	return true
}

func vC23_message() *vC23Msg {
	name := vNondetStringN("name", vCase("nameLen"))
	vAssume(vC23_validName(name))
	payload := []byte(vNondetStringN("payload", vCase("payloadLen"))) // lengths are fixed per job, contents symbolic
	vAssume(len(payload) == 0 || payload[0] != 0xFF)                  // a payload protobuf itself can decode
	vC23_registered = name
	return &vC23Msg{name: name, payload: payload}
}

func vC23_sameMessage(got proto.Message, want *vC23Msg) bool {
	g, ok := got.(*vC23Msg)
	return ok && g != nil && g != want && g.name == want.name && vC23_bytesEq(g.payload, want.payload)
}

// frame without metadata: encode, decode, and decode through the client's format detection
func vC23_roundtrip() {
	m := vC23_message()
	s := NewProtoSerializer()
	frame, err := s.MarshalBinary(m)
	vAssert(err == nil, "a registered message is encoded")
	if err != nil {
		return
	}
	vAssert(len(frame) == 8+len(m.name)+len(m.payload), "frame length is 4+4+name+payload")
	vAssert(int(binary.BigEndian.Uint32(frame[:4])) == len(frame), "the length prefix covers the whole frame")
	got, name, err := s.UnmarshalBinary(frame)
	vAssert(err == nil, "an encoded frame decodes")
	if err == nil {
		vAssert(string(name) == m.name, "the decoded type name is the encoded one")
		vAssert(vC23_sameMessage(got, m), "the decoded message equals the encoded one")
	}
	c := &Client{serializer: s}
	got2, md, err := c.unmarshalProtoResponse(frame)
	vAssert(err == nil && md == nil, "a frame without metadata is decoded by the client without metadata")
	if err == nil {
		vAssert(vC23_sameMessage(got2, m), "the client decodes the encoded message")
	}
	if len(frame) >= 12 {
		vCover("frame>=12")
	}
	vCover("end")
}

func vC23_headers(md *Metadata) (k1, v1, k2, v2 string, n int) {
	n = vCase("headers")
	// lengths are fixed per job (contents symbolic); the two keys differ in length, or (headers == 3) are the same key set twice.
	// Keys of equal length and arbitrary contents are covered by vC23_metadata.
	kl, vl := vCase("keyLen"), vCase("valLen")
	k1, v1 = vNondetStringN("k1", kl), vNondetStringN("v1", vl)
	k2, v2 = vNondetStringN("k2", kl+1), vNondetStringN("v2", vl+1)
	if n == 3 {
		k2, n = k1, 2
	}
	if n >= 1 {
		md.Set(k1, v1)
	}
	if n >= 2 {
		md.Set(k2, v2)
	}
	return
}

func vC23_sameHeaders(got *Metadata, k1, v1, k2, v2 string, n int) bool {
	want := map[string]string{}
	if n >= 1 {
		want[k1] = v1
	}
	if n >= 2 {
		want[k2] = v2
	}
	if got == nil || len(got.headers) != len(want) {
		return false
	}
	for k, v := range want {
		if g, ok := got.Get(k); !ok || g != v {
			return false
		}
	}
	return true
}

// frame with metadata: encode, decode directly and through the client's format detection
func vC23_roundtrip_md() {
	m := vC23_message()
	md := NewMetadata()
	k1, v1, k2, v2, n := vC23_headers(md)
	s := NewProtoSerializer()
	frame, err := s.MarshalBinaryWithMetadata(m, md)
	vAssert(err == nil, "a registered message with metadata is encoded")
	if err != nil {
		return
	}
	vAssert(int(binary.BigEndian.Uint32(frame[:4])) == len(frame), "the length prefix covers the whole frame")
	got, gmd, name, err := s.UnmarshalBinaryWithMetadata(frame)
	vAssert(err == nil, "an encoded metadata frame decodes")
	if err == nil {
		vAssert(string(name) == m.name, "the decoded type name is the encoded one")
		vAssert(vC23_sameMessage(got, m), "the decoded message equals the encoded one")
		vAssert(vC23_sameHeaders(gmd, k1, v1, k2, v2, n), "the decoded headers equal the encoded ones")
		if gmd != nil {
			_, has := gmd.GetDeadline()
			vAssert(!has, "no deadline stays no deadline")
		}
	}
	c := &Client{serializer: s}
	got2, gmd2, err := c.unmarshalProtoResponse(frame)
	vAssert(err == nil, "the client decodes a metadata frame")
	if err == nil {
		vAssert(vC23_sameMessage(got2, m), "the client decodes the encoded message of a metadata frame")
		vAssert(vC23_sameHeaders(gmd2, k1, v1, k2, v2, n), "the client decodes the encoded headers")
	}
	vCover("end")
}

// the metadata codec alone, with larger keys and values
func vC23_metadata() {
	md := NewMetadata()
	n := vCase("headers")
	k1, v1 := vNondetString("k1", 3), vNondetString("v1", 3)
	k2, v2 := vNondetString("k2", 3), vNondetString("v2", 3)
	k3, v3 := vNondetString("k3", 3), vNondetString("v3", 3)
	want := map[string]string{}
	if n >= 1 {
		md.Set(k1, v1)
		want[k1] = v1
	}
	if n >= 2 {
		md.Set(k2, v2)
		want[k2] = v2
	}
	if n >= 3 {
		md.Set(k3, v3)
		want[k3] = v3
	}
	b := md.MarshalBinary()
	size := 10
	for k, v := range want {
		size += 4 + len(k) + len(v)
	}
	vAssert(len(b) == size, "encoded metadata has the documented size")
	got := &Metadata{}
	err := got.UnmarshalBinary(b)
	vAssert(err == nil, "encoded metadata decodes")
	if err == nil {
		vAssert(len(got.headers) == len(want), "as many headers decoded as encoded")
		for k, v := range want {
			g, ok := got.Get(k)
			vAssert(ok && g == v, "every encoded header is decoded with its value")
		}
		_, has := got.GetDeadline()
		vAssert(!has, "no deadline stays no deadline")
	}
	if n == 3 && k1 != k2 && k2 != k3 && k1 != k3 {
		vCover("three-keys")
	}
	vCover("end")
}

// the wire limit of the metadata codec: keys and values "shorter than 65536 bytes" travel behind a 2-byte length, so a key
// or a value of 65534 or of exactly 65535 bytes (the largest a uint16 describes) must survive like any other. One header
// sits at the limit (key or value, by job; all of its bytes symbolic), a second ordinary header follows it.
func vC23_metadata_limit() {
	n := vCase("fieldLen")
	big := vNondetStringN("big", n)
	small := vNondetStringN("small", 1)
	k2, v2 := vNondetStringN("k2", 2), vNondetStringN("v2", 1) // a key of another length: the two headers are distinct
	bigIsKey := vCase("bigIsKey") == 1
	k1, v1 := small, big
	if bigIsKey {
		k1, v1 = big, small
	}
	md := NewMetadata()
	md.Set(k1, v1)
	md.Set(k2, v2)
	nHeaders := 2
	b := md.MarshalBinary()
	if nHeaders == 2 {
		vAssert(len(b) == 10+4+len(k1)+len(v1)+4+len(k2)+len(v2), "encoded metadata has the documented size")
	}
	got := &Metadata{}
	err := got.UnmarshalBinary(b)
	vAssert(err == nil, "metadata with a header at the wire limit decodes")
	if err != nil {
		return
	}
	vAssert(len(got.headers) == nHeaders, "as many headers decoded as encoded, also with a key or value at the wire limit")
	g2, ok2 := got.Get(k2)
	vAssert(ok2 && g2 == v2, "the ordinary header after the long one is decoded with its value")
	if nHeaders == 2 {
		g1, ok1 := got.Get(k1)
		vAssert(ok1 && len(g1) == len(v1) && g1 == v1, "the header whose key or value is at the wire limit is decoded with its value")
	}
	_, has := got.GetDeadline()
	vAssert(!has, "no deadline stays no deadline")
	vCover("end")
}

// a clock the harness can read back: substituted for time.Now in vC23_deadline (arbitrary non-decreasing readings)
var vC23_clock []int64

func vC23_now() time.Time {
	t := vNondetInt64("now")
	vAssume(t > 1 && t < 1<<62) // later than 1ns after the epoch (a re-based deadline of exactly 0 would read as "none"), before 2116
	if n := len(vC23_clock); n > 0 {
		vAssume(t >= vC23_clock[n-1])
	}
	vC23_clock = append(vC23_clock, t)
	return time.Unix(0, t)
}

// deadline: travels as remaining time, re-based on the receiver's clock
func vC23_deadline() {
	d := vNondetInt64("deadline")
	vAssume(d > 0 && d < 1<<62) // a deadline after 1970 and before 2116 (0 is "no deadline")
	md := NewMetadata()
	md.SetDeadline(time.Unix(0, d))
	g0, ok0 := md.GetDeadline()
	vAssert(ok0 && g0.UnixNano() == d, "GetDeadline returns what SetDeadline stored")
	vC23_clock = nil
	b := md.MarshalBinary()
	got := &Metadata{}
	err := got.UnmarshalBinary(b)
	vAssert(err == nil, "encoded metadata decodes")
	if err != nil {
		return
	}
	vAssert(len(vC23_clock) == 2, "the clock is read once by the encoder and once by the decoder")
	if len(vC23_clock) != 2 {
		return
	}
	sent, received := vC23_clock[0], vC23_clock[1]
	gd, has := got.GetDeadline()
	vAssert(has, "a deadline stays a deadline")
	if has {
		// re-based by the time between encode and decode; a deadline that expires exactly at encode time is nudged by 1ns
		want := d + (received - sent)
		if d == sent {
			want = received - 1
			vCover("nudged")
		}
		vAssert(gd.UnixNano() == want, "the decoded deadline is the encoded one shifted by exactly the clock time elapsed between encode and decode")
		diff := gd.UnixNano() - d
		vAssert(diff >= -1 && diff <= received-sent, "the decoded deadline is within clock tolerance of the encoded one")
		if diff > 0 {
			vCover("clock-advanced")
		}
		if gd.UnixNano() < received {
			vCover("already-expired")
		}
	}
	md.SetDeadline(time.Time{})
	_, has0 := md.GetDeadline()
	vAssert(!has0, "the zero time clears the deadline")
	vCover("end")
}

func vC23_frameOf(s *ProtoSerializer, m *vC23Msg, withMD bool, md *Metadata) []byte {
	var frame []byte
	var err error
	if withMD {
		frame, err = s.MarshalBinaryWithMetadata(m, md)
	} else {
		frame, err = s.MarshalBinary(m)
	}
	vAssume(err == nil)
	return frame
}

// two frames written back to back are read one by one, in order (client side: readProtoFrame + unmarshalProtoResponse)
func vC23_concat() {
	name := vNondetStringN("name", vCase("nameLen"))
	vAssume(vC23_validName(name))
	vC23_registered = name
	pl := vCase("payloadLen")
	p1, p2 := []byte(vNondetStringN("payload1", pl)), []byte(vNondetStringN("payload2", pl+1))
	vAssume((len(p1) == 0 || p1[0] != 0xFF) && (len(p2) == 0 || p2[0] != 0xFF))
	m1, m2 := &vC23Msg{name: name, payload: p1}, &vC23Msg{name: name, payload: p2}
	md1 := NewMetadata()
	hk, hv := vNondetStringN("hk", 1), vNondetStringN("hv", 2)
	md1.Set(hk, hv)
	s := NewProtoSerializer()
	first := vCase("firstWithMetadata") == 1
	f1 := vC23_frameOf(s, m1, first, md1)
	f2 := vC23_frameOf(s, m2, !first, md1)
	vC23_in = vC23Stream{data: append(append([]byte{}, f1...), f2...)}
	c := &Client{serializer: s}
	maxFrame := uint32(max(len(f1), len(f2))) // the limit is inclusive: a frame of exactly the maximum size passes

	r1, err := readProtoFrame(nil, nil, maxFrame)
	vAssert(err == nil && vC23_bytesEq(r1, f1), "the first frame read is the first frame written")
	if err != nil {
		return
	}
	g1, gmd1, err := c.unmarshalProtoResponse(r1)
	vAssert(err == nil && vC23_sameMessage(g1, m1), "the first message read is the first message written")
	vAssert(err != nil || (gmd1 != nil) == first, "metadata is found exactly on the frame that carries it (first)")
	r2, err := readProtoFrame(nil, nil, maxFrame)
	vAssert(err == nil && vC23_bytesEq(r2, f2), "the second frame read is the second frame written")
	if err != nil {
		return
	}
	g2, gmd2, err := c.unmarshalProtoResponse(r2)
	vAssert(err == nil && vC23_sameMessage(g2, m2), "the second message read is the second message written")
	vAssert(err != nil || (gmd2 != nil) == !first, "metadata is found exactly on the frame that carries it (second)")
	w := gmd1
	if !first {
		w = gmd2
	}
	if w != nil {
		v, ok := w.Get(hk)
		vAssert(ok && v == hv, "the header is decoded from the frame that carries it")
	}
	_, err = readProtoFrame(nil, nil, maxFrame)
	vAssert(err == io.EOF, "after the last frame the reader reports end of stream")
	vCover("end")
}

// ---- server read loop ------------------------------------------------------------------------------------------------

type vC23Conn struct{ Connection }

type vC23Seen struct {
	msg proto.Message
	md  *Metadata
}

var vC23_seen []vC23Seen

func vC23_handler(ctx context.Context, _ Connection, req proto.Message) (proto.Message, error) {
	md, _ := FromContext(ctx)
	vC23_seen = append(vC23_seen, vC23Seen{msg: req, md: md})
	return nil, nil
}

func vC23_poolGet(_ *FramePool, n int) []byte { return make([]byte, n) }
func vC23_poolPut(_ *FramePool, _ []byte)     {}
func vC23_getReader(_ net.Conn) *bufio.Reader { return nil }
func vC23_putReader(_ *bufio.Reader)          {}

func vC23_newServer(maxFrame uint32, registered bool) *ProtoServer {
	ps := &ProtoServer{
		server:       &TCPServer{ctx: &vC23Ctx{}},
		handlers:     map[protoreflect.FullName]ProtoHandler{},
		serializer:   NewProtoSerializer(),
		framePool:    &FramePool{},
		maxFrameSize: maxFrame,
	}
	if registered {
		ps.handlers[protoreflect.FullName(vC23_registered)] = vC23_handler
	} else {
		ps.fallback = vC23_handler
	}
	return ps
}

// the server's per-connection loop reads two concatenated frames (one with, one without metadata) and hands the
// messages to the handler in order, each with the metadata of its own frame
func vC23_server() {
	name := vNondetStringN("name", vCase("nameLen"))
	vAssume(vC23_validName(name))
	vC23_registered = name
	pl := vCase("payloadLen")
	p1, p2 := []byte(vNondetStringN("payload1", pl)), []byte(vNondetStringN("payload2", pl+1))
	vAssume((len(p1) == 0 || p1[0] != 0xFF) && (len(p2) == 0 || p2[0] != 0xFF))
	m1, m2 := &vC23Msg{name: name, payload: p1}, &vC23Msg{name: name, payload: p2}
	md := NewMetadata()
	hk, hv := vNondetStringN("hk", 1), vNondetStringN("hv", 2)
	md.Set(hk, hv)
	s := NewProtoSerializer()
	first := vCase("firstWithMetadata") == 1
	f1 := vC23_frameOf(s, m1, first, md)
	f2 := vC23_frameOf(s, m2, !first, md)
	vC23_in = vC23Stream{data: append(append([]byte{}, f1...), f2...)}
	vC23_seen = nil
	ps := vC23_newServer(64, vNondetBool("handlerRegistered"))
	ps.handleConn(vC23Conn{})
	vAssert(len(vC23_seen) == 2, "both frames reach the handler")
	if len(vC23_seen) == 2 {
		vAssert(vC23_sameMessage(vC23_seen[0].msg, m1), "the first message handled is the first one written")
		vAssert(vC23_sameMessage(vC23_seen[1].msg, m2), "the second message handled is the second one written")
		a, b := vC23_seen[0].md, vC23_seen[1].md
		vAssert((a != nil) == first && (b != nil) == !first, "metadata reaches the handler exactly with the frame that carries it")
		w := a
		if !first {
			w = b
		}
		if w != nil {
			v, ok := w.Get(hk)
			vAssert(ok && v == hv && len(w.headers) == 1, "the handler sees the header that was sent")
		}
	}
	vCover("end")
}

// ---- robustness: arbitrary bytes ---------------------------------------------------------------------------------------

func vC23_registry() {
	vC23_registered = vNondetString("registeredName", 3)
}

func vC23_knownErr(err error) bool {
	return errors.Is(err, ErrInvalidMessageLength) || errors.Is(err, ErrUnknownMessageType) || errors.Is(err, ErrUnmarshalBinaryFailed) || errors.Is(err, ErrInvalidMetadata)
}

// UnmarshalBinary on an arbitrary buffer: never panics (every implicit panic is an obligation), truncated or inconsistent
// input is an error, success implies a consistent frame
func vC23_robust_plain() {
	vC23_registry()
	data := vNondetBytes("data", vCase("maxLen"))
	s := NewProtoSerializer()
	msg, name, err := s.UnmarshalBinary(data)
	if err != nil {
		vAssert(msg == nil && name == "", "no message on error")
		vAssert(vC23_knownErr(err), "the error is one of the documented ones")
		vCover("rejected")
	} else {
		total := int(binary.BigEndian.Uint32(data[:4]))
		nameLen := int(binary.BigEndian.Uint32(data[4:8]))
		vAssert(len(data) >= 8 && total >= 8 && total <= len(data) && 8+nameLen <= total, "an accepted frame has consistent length fields")
		vAssert(string(name) == vC23_registered && string(data[8:8+nameLen]) == vC23_registered, "an accepted frame names a registered type")
		g, ok := msg.(*vC23Msg)
		vAssert(ok && vC23_bytesEq(g.payload, data[8+nameLen:total]), "the payload handed to protobuf is the payload region of the frame")
		vCover("accepted")
	}
	if len(data) < 8 {
		vAssert(errors.Is(err, ErrInvalidMessageLength), "a buffer shorter than the header is rejected as invalid length")
	}
	if len(data) >= 8 && int(binary.BigEndian.Uint32(data[:4])) > len(data) {
		vAssert(errors.Is(err, ErrInvalidMessageLength), "a truncated frame is rejected as invalid length")
		vCover("truncated")
	}
	vCover("end")
}

func vC23_robust_md() {
	vC23_registry()
	data := vNondetBytes("data", vCase("maxLen"))
	s := NewProtoSerializer()
	msg, md, name, err := s.UnmarshalBinaryWithMetadata(data)
	if err != nil {
		vAssert(msg == nil && md == nil && name == "", "no message on error")
		vAssert(vC23_knownErr(err), "the error is one of the documented ones")
		vCover("rejected")
	} else {
		total := int(binary.BigEndian.Uint32(data[:4]))
		nameLen := int(binary.BigEndian.Uint32(data[4:8]))
		metaLen := int(binary.BigEndian.Uint32(data[8:12]))
		vAssert(len(data) >= 12 && total >= 12 && total <= len(data) && 12+nameLen+metaLen <= total, "an accepted frame has consistent length fields")
		vAssert(string(name) == vC23_registered, "an accepted frame names a registered type")
		vAssert((md != nil) == (metaLen > 0), "metadata is returned exactly when the frame has a metadata section")
		g, ok := msg.(*vC23Msg)
		vAssert(ok && vC23_bytesEq(g.payload, data[12+nameLen+metaLen:total]), "the payload handed to protobuf is the payload region of the frame")
		if md != nil {
			vCover("accepted-with-metadata")
		}
		vCover("accepted")
	}
	if len(data) < 12 || int(binary.BigEndian.Uint32(data[:4])) > len(data) {
		vAssert(errors.Is(err, ErrInvalidMessageLength), "a truncated frame is rejected as invalid length")
	}
	vCover("end")
}

func vC23_robust_metadata() {
	data := vNondetBytes("data", vCase("maxLen"))
	md := &Metadata{}
	err := md.UnmarshalBinary(data)
	if err != nil {
		vAssert(err == ErrInvalidMetadata, "malformed metadata is rejected with ErrInvalidMetadata")
		vCover("rejected")
	} else {
		count := int(binary.BigEndian.Uint16(data))
		vAssert(len(data) >= 10+4*count, "accepted metadata is long enough for its header count")
		vAssert(len(md.headers) <= count, "no more headers than announced")
		if count == 2 && len(md.headers) == 2 {
			vCover("two-headers")
		}
		if count == 2 && len(md.headers) == 1 {
			vCover("duplicate-key")
		}
		vCover("accepted")
	}
	if len(data) < 10 {
		vAssert(err != nil, "metadata shorter than its fixed part is rejected")
	}
	vCover("end")
}

func vC23_robust_response() {
	vC23_registry()
	data := vNondetBytes("data", vCase("maxLen"))
	c := &Client{serializer: NewProtoSerializer()}
	msg, md, err := c.unmarshalProtoResponse(data)
	if err != nil {
		vAssert(msg == nil && md == nil, "no message on error")
		vCover("rejected")
	} else {
		g, ok := msg.(*vC23Msg)
		vAssert(ok && g.name == vC23_registered, "an accepted response is a message of a registered type")
		if md != nil {
			vCover("accepted-with-metadata")
		} else {
			vCover("accepted-plain")
		}
	}
	if len(data) < 8 || int(binary.BigEndian.Uint32(data[:4])) > len(data) {
		vAssert(err != nil, "a truncated response is rejected")
	}
	vCover("end")
}

// readProtoFrame on an arbitrary stream and an arbitrary limit
func vC23_robust_read() {
	data := vNondetBytes("stream", vCase("maxLen"))
	maxFrame := vNondetUint32("maxFrameSize")
	vC23_in = vC23Stream{data: data}
	frame, err := readProtoFrame(nil, nil, maxFrame)
	if len(data) < 4 {
		vAssert(err != nil && frame == nil, "a stream shorter than the length prefix is an error")
		vCover("short-header")
		return
	}
	total := binary.BigEndian.Uint32(data[:4])
	switch {
	case total < 8:
		vAssert(err == ErrInvalidMessageLength && frame == nil, "a length below the minimum frame is rejected")
		vCover("too-small")
	case total > maxFrame:
		vAssert(err == ErrFrameTooLarge && frame == nil, "a length above the limit is rejected before anything is allocated or read")
		vAssert(vC23_in.pos == 4, "nothing beyond the prefix is consumed for an oversized frame")
		vCover("too-large")
	case int(total) > len(data):
		wantErr := io.ErrUnexpectedEOF
		if len(data) == 4 {
			wantErr = io.EOF // nothing at all after the prefix
		}
		vAssert(err == wantErr && frame == nil, "a truncated body is an error")
		vCover("truncated")
	default:
		vAssert(err == nil, "a complete frame within the limit is returned")
		if err == nil {
			vAssert(len(frame) == int(total) && uint32(len(frame)) <= maxFrame, "the returned buffer has exactly the announced size, within the limit")
			vAssert(vC23_bytesEq(frame, data[:int(total)]), "the returned frame is the stream prefix")
			vAssert(vC23_in.pos == int(total), "exactly one frame is consumed")
		}
		vCover("complete")
	}
	vCover("end")
}

// the server loop on an arbitrary stream: no panic, and whatever reaches the handler is a message of the registered type
func vC23_robust_server() {
	vC23_registry()
	data := vNondetBytes("stream", vCase("maxLen"))
	vC23_in = vC23Stream{data: data}
	vC23_seen = nil
	maxFrame := vNondetUint32("maxFrameSize")
	vAssume(maxFrame <= 32) // so that every admitted frame fits the executor's bound on symbolic allocations (sym_slice_cap)
	ps := vC23_newServer(maxFrame, vNondetBool("handlerRegistered"))
	ps.handleConn(vC23Conn{})
	for i := range vC23_seen {
		g, ok := vC23_seen[i].msg.(*vC23Msg)
		vAssert(ok && g.name == vC23_registered, "only messages of a registered type reach the handler")
	}
	if len(data) < 8 || binary.BigEndian.Uint32(data[:4]) > maxFrame || int(binary.BigEndian.Uint32(data[:4])) > len(data) {
		vAssert(len(vC23_seen) == 0, "a truncated or oversized first frame reaches no handler")
	}
	if len(vC23_seen) == 1 {
		vCover("one-handled")
	}
	if len(vC23_seen) == 2 {
		vCover("two-handled")
	}
	vCover("end")
}

// format detection: a frame without metadata whose type name is a protobuf name is never taken for a metadata frame
func vC23_detect() {
	m := vC23_message()
	s := NewProtoSerializer()
	frame, err := s.MarshalBinary(m)
	vAssume(err == nil)
	_, _, _, err = s.UnmarshalBinaryWithMetadata(frame)
	vAssert(err == ErrInvalidMessageLength, "the metadata decoder refuses a frame without metadata with the error that makes the server fall back")
	vCover("end")
}

// ... and a frame with an (empty or not) metadata section is decoded as such and never accepted by the plain decoder
func vC23_detect_md() {
	m := vC23_message()
	s := NewProtoSerializer()
	var md *Metadata
	if vCase("withMetadata") == 1 {
		md = NewMetadata()
		md.Set(vNondetStringN("hk", 1), vNondetStringN("hv", 2))
	}
	frame2, err := s.MarshalBinaryWithMetadata(m, md)
	if err != nil {
		return
	}
	g, gmd, _, err := s.UnmarshalBinaryWithMetadata(frame2)
	vAssert(err == nil && vC23_sameMessage(g, m) && (gmd != nil) == (md != nil), "a metadata frame is decoded as such, with nil metadata when none was attached")
	_, _, err = s.UnmarshalBinary(frame2)
	vAssert(err != nil, "the plain decoder rejects a metadata frame")
	vCover("end")
}

// ---- frame pool size classes -------------------------------------------------------------------------------------------

func vC23_bucket() {
	n := vNondetInt("n")
	vAssume(n >= 0 && n <= 1<<40)
	idx := bucketIndex(n)
	vAssert(idx >= 0 && idx <= numBuckets, "bucket index in range")
	if idx < numBuckets {
		size := 1 << (minBucketShift + idx)
		vAssert(n <= size, "the chosen bucket can hold n bytes")
		vAssert(idx == 0 || n > size/2, "the chosen bucket is the smallest one that can")
		vCover("pooled")
	} else {
		vAssert(n > 1<<maxBucketShift, "only sizes above the largest bucket are unpooled")
		vCover("oversized")
	}
	c := vNondetInt("cap")
	vAssume(c >= 0)
	e := bucketIndexExact(c)
	if e >= 0 {
		vAssert(e < numBuckets && c == 1<<(minBucketShift+e), "a buffer is returned to the bucket of exactly its capacity")
		vAssert(bucketIndex(c) == e, "Get for that size draws from the same bucket")
		vCover("exact")
	} else {
		pow2 := c != 0 && c&(c-1) == 0
		vAssert(!(pow2 && c >= 1<<minBucketShift && c <= 1<<maxBucketShift), "every bucket-sized buffer is accepted back")
		vCover("dropped")
	}
	vCover("end")
}

func vC23_pool() {
	p := NewFramePool()
	n := vCase("n")
	b := p.Get(n)
	vAssert(len(b) == n && cap(b) >= n, "Get returns exactly n bytes")
	if n > 0 {
		b[0] = 7
	}
	p.Put(b)
	b2 := p.Get(n)
	vAssert(len(b2) == n && cap(b2) >= n, "Get after Put returns exactly n bytes")
	m := vCase("m")
	b3 := p.Get(m)
	vAssert(len(b3) == m && cap(b3) >= m, "Get of another size returns exactly that many bytes")
	vCover("end")
}
