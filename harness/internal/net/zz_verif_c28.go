//go:build verif

package net

import (
	"context"
	"io"
	gonet "net"
	"time"

	"google.golang.org/protobuf/proto"
	"google.golang.org/protobuf/types/known/wrapperspb"
)

func init() {
	vRegister("vC28_single", vC28_single)
	vRegister("vC28_batch", vC28_batch)
	vRegister("vC28_pool", vC28_pool)
}

// ---- ghost connection: the fake server answers the i-th request written on a connection with response id = request id
type vC28Conn struct {
	id       int
	written  [3]int // request ids in write order
	nWritten int
	nRead    int
	closed   bool
	owner    int // 0 = pooled / free
}

func (c *vC28Conn) Read(b []byte) (int, error)         { return 0, io.EOF }
func (c *vC28Conn) Write(b []byte) (int, error)        { return len(b), nil }
func (c *vC28Conn) Close() error                       { c.closed = true; return nil }
func (c *vC28Conn) LocalAddr() gonet.Addr              { return nil }
func (c *vC28Conn) RemoteAddr() gonet.Addr             { return nil }
func (c *vC28Conn) SetDeadline(t time.Time) error      { return nil }
func (c *vC28Conn) SetReadDeadline(t time.Time) error  { return nil }
func (c *vC28Conn) SetWriteDeadline(t time.Time) error { return nil }

var vC28_conns [3]*vC28Conn
var vC28_nDialed int
var vC28_cur *vC28Conn // connection the current caller works on (sequential harnesses)
var vC28_nextReq int

// substitutions (checks/c28.py): dialing, framing and the wire are environment; I/O failures are symbolic
func vC28_dial(c *Client, ctx context.Context) (gonet.Conn, error) {
	if vNondetBool("dialFails") {
		return nil, io.ErrUnexpectedEOF
	}
	k := &vC28Conn{id: vC28_nDialed + 1}
	vC28_conns[vC28_nDialed] = k
	vC28_nDialed++
	return k, nil
}

// marshal: the frame carries the request id in its first byte; a write of that frame is recorded by vC28_write
func vC28_marshal(c *Client, ctx context.Context, msg proto.Message) ([]byte, error) {
	if vNondetBool("marshalFails") {
		return nil, io.ErrShortBuffer
	}
	id := int(msg.(*wrapperspb.Int32Value).Value)
	return []byte{byte(id)}, nil
}

func vC28_write(k *vC28Conn, b []byte) (int, error) {
	if vNondetBool("writeFails") {
		return 0, io.ErrClosedPipe
	}
	if k.nWritten < 3 {
		k.written[k.nWritten] = int(b[0])
	}
	k.nWritten++
	return len(b), nil
}

// readProtoFrame: the next unread response of this connection (FIFO), or a symbolic I/O failure
func vC28_readFrame(r io.Reader, fp *FramePool, max uint32) ([]byte, error) {
	k := r.(*vC28Conn)
	if vNondetBool("readFails") {
		if vNondetBool("readTimesOut") { // the caller's deadline expired before the peer answered: a net.Error with Timeout()
			return nil, vC28Timeout{}
		}
		return nil, io.ErrUnexpectedEOF
	}
	vAssume(k.nRead < k.nWritten) // the server only answers requests it received (otherwise the read blocks)
	id := k.written[k.nRead]
	k.nRead++
	return []byte{byte(id)}, nil
}

type vC28Timeout struct{}

func (vC28Timeout) Error() string   { return "i/o timeout" }
func (vC28Timeout) Timeout() bool   { return true }
func (vC28Timeout) Temporary() bool { return true }

func vC28_unmarshal(c *Client, frame []byte) (proto.Message, *Metadata, error) {
	if vNondetBool("unmarshalFails") {
		return nil, nil, io.ErrNoProgress
	}
	return &wrapperspb.Int32Value{Value: int32(frame[0])}, nil, nil
}

func vC28_framePut(fp *FramePool, b []byte) {}

func vC28_newClient(maxIdle int) *Client {
	vC28_nDialed = 0
	vC28_conns = [3]*vC28Conn{}
	return &Client{maxIdle: maxIdle, idleTimeout: time.Hour, maxFrameSize: 1 << 20}
}

func vC28_pooled(c *Client, k *vC28Conn) bool {
	for i := 0; i < len(c.idle); i++ {
		if c.idle[i].conn == gonet.Conn(k) {
			return true
		}
	}
	return false
}

// one request/response with every I/O step able to fail
func vC28_single() {
	c := vC28_newClient(2)
	resp, err := c.SendProto(context.Background(), &wrapperspb.Int32Value{Value: 7})
	if err == nil {
		vAssert(resp.(*wrapperspb.Int32Value).Value == 7, "a caller receives the response to its own request")
		vCover("ok")
	} else {
		vCover("failed")
	}
	for i := 0; i < vC28_nDialed; i++ {
		k := vC28_conns[i]
		if vC28_pooled(c, k) {
			vAssert(!k.closed && k.nRead == k.nWritten, "a connection returns to the pool only when every request written on it was answered and read")
			vCover("pooled")
		} else {
			vAssert(k.closed, "a connection that is not pooled again is closed (no leak)")
		}
	}
	// a second call on the (possibly reused) connection still gets its own answer
	resp2, err2 := c.SendProto(context.Background(), &wrapperspb.Int32Value{Value: 9})
	if err2 == nil {
		vAssert(resp2.(*wrapperspb.Int32Value).Value == 9, "a caller reusing a pooled connection receives its own response, not a stale one")
		vCover("second-ok")
	}
	vCover("end")
}

// batch: responses come back in request order
func vC28_batch() {
	c := vC28_newClient(2)
	reqs := []proto.Message{&wrapperspb.Int32Value{Value: 3}, &wrapperspb.Int32Value{Value: 4}}
	resps, err := c.SendBatchProto(context.Background(), reqs)
	if err == nil {
		vAssert(len(resps) == 2 && resps[0].(*wrapperspb.Int32Value).Value == 3 && resps[1].(*wrapperspb.Int32Value).Value == 4, "batch responses are returned in request order")
		vCover("ok")
	}
	for i := 0; i < vC28_nDialed; i++ {
		k := vC28_conns[i]
		if vC28_pooled(c, k) {
			vAssert(!k.closed && k.nRead == k.nWritten, "after a batch the connection is pooled only when fully drained")
		} else {
			vAssert(k.closed, "a failed batch closes its connection")
		}
	}
	vCover("end")
}

// concurrent callers: a connection is never handed to two callers at once
func vC28_pool() {
	c := vC28_newClient(1)
	k0 := &vC28Conn{id: 9}
	c.idle = append(c.idle, idleConn{conn: k0, since: time.Now().UnixNano()})
	vC28_conns[0] = k0
	vC28_nDialed = 1
	var g1, g2 gonet.Conn
	vGo("a", func() {
		g1, _ = c.Get(context.Background())
		if g1 != nil {
			c.Put(g1)
		}
	})
	vGo("b", func() { g2, _ = c.Get(context.Background()) })
	vRun()
	if vAllDone() {
		vCover("all-done")
		if g1 != nil && g2 != nil && g1 == g2 {
			// b can only hold the same connection if a had already returned it
			vAssert(vC28_pooled(c, k0) == false, "a connection held by a caller is not in the pool at the same time")
			vCover("reused")
		}
	}
	vCover("end")
}
