//go:build verif

package remoteclient

import (
	"context"

	"google.golang.org/protobuf/proto"

	"github.com/tochemey/goakt/v4/internal/internalpb"
	inet "github.com/tochemey/goakt/v4/internal/net"
	"github.com/tochemey/goakt/v4/internal/xsync"
)

func init() {
	vRegister("vC27_order", vC27_order)
	vRegister("vC27_close", vC27_close)
	vRegister("vC27_fullQueue", vC27_fullQueue)
	vRegister("vC27_oneCoalescer", vC27_oneCoalescer)
}

var vC27_delivered [4]*internalpb.RemoteMessage
var vC27_nDelivered int
var vC27_deadLettered [4]*internalpb.RemoteMessage
var vC27_nDead int
var vC27_fail bool

// substituted for (*inet.Client).SendProto: the transport either delivers the whole batch in order or fails it
func vC27_send(c *inet.Client, ctx context.Context, req proto.Message) (proto.Message, error) {
	if vC27_fail {
		return nil, errCoalescerClosed // any error
	}
	batch := req.(*internalpb.RemoteTellRequest).RemoteMessages
	for i := 0; i < len(batch); i++ {
		if vC27_nDelivered < 4 {
			vC27_delivered[vC27_nDelivered] = batch[i]
		}
		vC27_nDelivered++
	}
	return nil, nil
}

func vC27_errHandler(dest string, msgs []*internalpb.RemoteMessage, err error) {
	for i := 0; i < len(msgs); i++ {
		if vC27_nDead < 4 {
			vC27_deadLettered[vC27_nDead] = msgs[i]
		}
		vC27_nDead++
	}
}

func vC27_new(maxBatch int) *coalescer {
	vC27_nDelivered, vC27_nDead = 0, 0
	vC27_delivered = [4]*internalpb.RemoteMessage{}
	vC27_deadLettered = [4]*internalpb.RemoteMessage{}
	c := &coalescer{dest: "d", in: make(chan *internalpb.RemoteMessage, maxBatch*4), done: make(chan struct{}), maxBatch: maxBatch, errHandler: vC27_errHandler}
	c.wg.Add(1) // as newCoalescer does before starting run()
	return c
}

func vC27_count(list [4]*internalpb.RemoteMessage, n int, m *internalpb.RemoteMessage) (int, int) {
	c, pos := 0, -1
	for i := 0; i < n && i < 4; i++ {
		if list[i] == m {
			c++
			pos = i
		}
	}
	return c, pos
}

// one caller, two messages, a writer; the batch may fail
func vC27_order() {
	c := vC27_new(2)
	vC27_fail = vNondetBool("sendFails")
	m1, m2 := &internalpb.RemoteMessage{}, &internalpb.RemoteMessage{}
	var e1, e2 error
	vGo("caller", func() {
		e1 = c.submit(context.Background(), m1)
		e2 = c.submit(context.Background(), m2)
	})
	vGo("writer", func() { c.run() })
	vGo("closer", func() { c.close() })
	vRun()
	if vStuck() {
		vCover("stuck")
		d1, p1 := vC27_count(vC27_delivered, vC27_nDelivered, m1)
		d2, p2 := vC27_count(vC27_delivered, vC27_nDelivered, m2)
		x1, _ := vC27_count(vC27_deadLettered, vC27_nDead, m1)
		x2, _ := vC27_count(vC27_deadLettered, vC27_nDead, m2)
		vAssert(d1 <= 1 && d2 <= 1, "a message is delivered at most once")
		if d1 == 1 && d2 == 1 {
			vAssert(p1 < p2, "messages of one caller are delivered in send order")
			vCover("both-delivered")
		}
		if e1 == nil && vThreadDone(0) {
			vAssert(d1+x1 >= 1, "an accepted message is delivered or dead-lettered, never silently dropped (first)")
		}
		if e2 == nil && vThreadDone(0) {
			vAssert(d2+x2 >= 1, "an accepted message is delivered or dead-lettered, never silently dropped (second)")
		}
		if x1+x2 > 0 {
			vCover("dead-lettered")
		}
	}
	vCover("end")
}

// maxBatch 1: more queued messages than one batch when the coalescer is closed
func vC27_close() {
	c := vC27_new(1)
	vC27_fail = false
	m1, m2 := &internalpb.RemoteMessage{}, &internalpb.RemoteMessage{}
	var e1, e2 error
	vGo("caller", func() {
		e1 = c.submit(context.Background(), m1)
		e2 = c.submit(context.Background(), m2)
	})
	vGo("closer", func() { c.close() })
	vGo("writer", func() { c.run() })
	vRun()
	if vStuck() && vThreadDone(0) {
		vCover("stuck")
		d1, _ := vC27_count(vC27_delivered, vC27_nDelivered, m1)
		d2, _ := vC27_count(vC27_delivered, vC27_nDelivered, m2)
		x1, _ := vC27_count(vC27_deadLettered, vC27_nDead, m1)
		x2, _ := vC27_count(vC27_deadLettered, vC27_nDead, m2)
		if e1 == nil {
			vAssert(d1+x1 >= 1, "an accepted message is delivered or dead-lettered when the client closes (first)")
		}
		if e2 == nil {
			vAssert(d2+x2 >= 1, "an accepted message is delivered or dead-lettered when the client closes (second)")
		}
	}
	vCover("end")
}

// queue capacity 1: the second submit takes the blocking path while the client is being closed
func vC27_fullQueue() {
	c := vC27_new(1)
	c.in = make(chan *internalpb.RemoteMessage, 1)
	vC27_fail = false
	m1, m2 := &internalpb.RemoteMessage{}, &internalpb.RemoteMessage{}
	var e1, e2 error
	vGo("caller", func() {
		e1 = c.submit(context.Background(), m1)
		e2 = c.submit(context.Background(), m2)
	})
	vGo("closer", func() { c.close() })
	vGo("writer", func() { c.run() })
	vRun()
	if vStuck() && vThreadDone(0) {
		vCover("stuck")
		d1, _ := vC27_count(vC27_delivered, vC27_nDelivered, m1)
		d2, _ := vC27_count(vC27_delivered, vC27_nDelivered, m2)
		x1, _ := vC27_count(vC27_deadLettered, vC27_nDead, m1)
		x2, _ := vC27_count(vC27_deadLettered, vC27_nDead, m2)
		if e1 == nil {
			vAssert(d1+x1 >= 1, "an accepted message is delivered or dead-lettered (full queue, first)")
		}
		if e2 == nil {
			vAssert(d2+x2 >= 1, "an accepted message is delivered or dead-lettered (full queue, blocking submit)")
			vCover("second-accepted")
		}
	}
	vCover("end")
}

// substituted for newCoalescer (it would start the writer goroutine) and (*client).NetClient
var vC27_nCreated int

func vC27_newCoalescer(dest string, nc *inet.Client, cfg coalescingConfig) *coalescer {
	vC27_nCreated++
	return &coalescer{dest: dest, maxBatch: 1}
}
func vC27_netClient(r *client, host string, port int) *inet.Client { return nil }

// two first sends to a destination that has no coalescer yet: both must use the same coalescer (else order is lost)
func vC27_oneCoalescer() {
	r := &client{coalescing: coalescingConfig{maxBatch: 1}, coalescers: xsync.NewMap[string, *coalescer]()}
	vC27_nCreated = 0
	var c1, c2 *coalescer
	vGo("s1", func() { c1 = r.getCoalescer("h", 1) })
	vGo("s2", func() { c2 = r.getCoalescer("h", 1) })
	vRun()
	if vAllDone() {
		vCover("all-done")
		vAssert(c1 != nil && c1 == c2, "all senders to one destination share one coalescer (one ordered queue)")
		vAssert(vC27_nCreated == 1, "exactly one coalescer (and writer) is created per destination")
	}
	vCover("end")
}
