//go:build verif

package remoteclient

import (
	"context"
	nethttp "net/http"
	"time"

	"google.golang.org/protobuf/proto"

	"github.com/tochemey/goakt/v4/internal/address"
	"github.com/tochemey/goakt/v4/internal/internalpb"
	inet "github.com/tochemey/goakt/v4/internal/net"
	"github.com/tochemey/goakt/v4/remote"
)

func init() {
	vRegister("vC29_inject", vC29_inject)
}

// ---------------------------------------------------------------------------------------------------------------------
// environment shared by the client-side (this package) and the server-side (package actor) harness of C29

// VC29Ctx is the only context type in play. A caller's context names the caller; contexts made by the substitute for
// context.WithValue carry (Key, Val); contexts made by the propagator's Extract carry what Extract was given.
type VC29Ctx struct {
	context.Context
	Parent    *VC29Ctx
	Caller    int // >= 0: a caller's own context
	Key, Val  any
	Extracted map[string]string // != nil: made by Extract; the headers it saw (first value of each)
	Multi     bool              // Extract saw a header with a number of values other than one
}

func (c *VC29Ctx) Err() error                  { return nil }
func (c *VC29Ctx) Done() <-chan struct{}       { return nil }
func (c *VC29Ctx) Deadline() (time.Time, bool) { return time.Time{}, false }
func (c *VC29Ctx) Value(key any) any {
	for x := c; x != nil; x = x.Parent {
		if x.Key != nil && x.Key == key {
			return x.Val
		}
	}
	return nil
}

// VC29_withValue stands in for context.WithValue (package context is not executed)
func VC29_withValue(parent context.Context, key, val any) context.Context {
	p, _ := parent.(*VC29Ctx)
	return &VC29Ctx{Parent: p, Caller: -1, Key: key, Val: val}
}

type VC29KV struct{ K, V string }

// VC29Prop is the ContextPropagator: Inject writes the calling caller's headers (one value per key), Extract returns a
// context that records the headers it was given and the context it was derived from
type VC29Prop struct {
	Headers [3][]VC29KV // per caller
}

var _ remote.ContextPropagator = (*VC29Prop)(nil)

func (p *VC29Prop) Inject(ctx context.Context, h nethttp.Header) error {
	c, ok := ctx.(*VC29Ctx)
	if !ok || c.Caller < 0 {
		return nil
	}
	for _, kv := range p.Headers[c.Caller] {
		h[kv.K] = []string{kv.V}
	}
	return nil
}

func (p *VC29Prop) Extract(ctx context.Context, h nethttp.Header) (context.Context, error) {
	parent, _ := ctx.(*VC29Ctx)
	out := &VC29Ctx{Parent: parent, Caller: -1, Extracted: map[string]string{}}
	for k, v := range h {
		if len(v) != 1 {
			out.Multi = true
		}
		if len(v) > 0 {
			out.Extracted[k] = v[0]
		}
	}
	return out, nil
}

// VC29_canon is textproto.CanonicalMIMEHeaderKey for keys made of letters, digits and '-'
func VC29_canon(s string) string {
	b := []byte(s)
	upper := true
	for i, c := range b {
		if upper && c >= 'a' && c <= 'z' {
			b[i] = c - 32
		} else if !upper && c >= 'A' && c <= 'Z' {
			b[i] = c + 32
		}
		upper = c == '-'
	}
	return string(b)
}

func VC29_keyChars(s string) bool {
	for i := 0; i < len(s); i++ {
		c := s[i]
		if !((c >= 'a' && c <= 'z') || (c >= 'A' && c <= 'Z') || (c >= '0' && c <= '9') || c == '-') {
			return false
		}
	}
	return len(s) > 0
}

// VC29_headerSet stands in for net/http.Header.Set
func VC29_headerSet(h nethttp.Header, k, v string) { h[VC29_canon(k)] = []string{v} }

// the send side: the real client.RemoteTell; serializer choice, the per-destination coalescer and the socket are substituted
type vC29Ser struct{ remote.Serializer }

func (vC29Ser) Serialize(m any) ([]byte, error) {
	id, _ := m.(int)
	return []byte{byte(id)}, nil
}

func vC29_resolve(_ *client, _ any) remote.Serializer { return vC29Ser{} }

var VC29Batch []*internalpb.RemoteMessage // what the coalescer accepted, in submission order
var vC29_coalescer = &coalescer{}

func vC29_getCoalescer(_ *client, _ string, _ int) *coalescer { return vC29_coalescer }
func vC29_submit(_ *coalescer, _ context.Context, m *internalpb.RemoteMessage) error {
	VC29Batch = append(VC29Batch, m)
	return nil
}

type VC29Sent struct {
	Ctx context.Context
	Req proto.Message
}

var VC29Requests []VC29Sent // what went to the socket on the non-coalesced path

func vC29_netClient(_ *client, _ string, _ int) *inet.Client { return nil }
func vC29_sendProto(_ *inet.Client, ctx context.Context, req proto.Message) (proto.Message, error) {
	VC29Requests = append(VC29Requests, VC29Sent{Ctx: ctx, Req: req})
	return new(internalpb.RemoteTellResponse), nil
}

var VC29From, VC29To *address.Address // set by VC29_reset

// VC29_tell runs the real RemoteTell for one caller. coalesced chooses the arm.
func VC29_tell(p *VC29Prop, caller int, coalesced bool, message int) error {
	r := &client{contextPropagator: p}
	if p == nil {
		r.contextPropagator = nil
	}
	if coalesced {
		r.coalescing = coalescingConfig{maxBatch: 4}
	}
	return r.RemoteTell(&VC29Ctx{Caller: caller}, VC29From, VC29To, message)
}

func VC29_reset() {
	VC29From = address.NewReference("snd", "sys", "h0", 9000)
	VC29To = address.NewReference("rcv", "sys", "h1", 9001)
	VC29Batch = nil
	VC29Requests = nil
}

// VC29_headers makes the headers of one caller: n keys of 2 and 3 bytes (contents symbolic), values of length 1
func VC29_headers(p *VC29Prop, caller, n int, canonical bool) {
	names := [2]string{"a", "b"}
	for i := 0; i < n; i++ {
		k := vNondetStringN("key"+names[i]+string(rune('0'+caller)), 2+i) // different lengths: the keys of one caller are distinct
		v := vNondetStringN("val"+names[i]+string(rune('0'+caller)), 1)
		vAssume(VC29_keyChars(k))
		if canonical {
			vAssume(VC29_canon(k) == k) // what http.Header.Set, used by every stock propagator, produces
		}
		p.Headers[caller] = append(p.Headers[caller], VC29KV{K: k, V: v})
	}
}

// VC29_want is the header map a caller injected (later writes win, as in the http.Header the propagator fills)
func VC29_want(p *VC29Prop, caller int) map[string]string {
	m := map[string]string{}
	for _, kv := range p.Headers[caller] {
		m[kv.K] = kv.V
	}
	return m
}

func VC29_sameMap(a, b map[string]string) bool {
	if len(a) != len(b) {
		return false
	}
	for k, v := range a {
		if w, ok := b[k]; !ok || w != v {
			return false
		}
	}
	return true
}

// client side alone: injectMessageMetadata snapshots exactly the caller's headers (nil when there are none)
func vC29_inject() {
	p := &VC29Prop{}
	n := vCase("headers")
	VC29_headers(p, 0, n, false)
	r := &client{contextPropagator: p}
	md, err := r.injectMessageMetadata(&VC29Ctx{Caller: 0})
	vAssert(err == nil, "injection succeeds")
	want := VC29_want(p, 0)
	vAssert((len(want) == 0 && md == nil) || (len(want) > 0 && VC29_sameMap(md, want)), "the per-message metadata is exactly the injected header map (nil when nothing was injected)")
	if len(want) == 0 {
		vCover("none")
	}
	md2, err := (&client{}).injectMessageMetadata(&VC29Ctx{Caller: 0})
	vAssert(md2 == nil && err == nil, "no propagator means no per-message metadata")
	vCover("end")
}
