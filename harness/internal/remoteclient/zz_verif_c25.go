//go:build verif

package remoteclient

import (
	"encoding/binary"
	"reflect"

	"github.com/tochemey/goakt/v4/remote"
)

func init() {
	vRegister("vC25_frameTypeName", vC25_frameTypeName)
	vRegister("vC25_dispatch_serialize", vC25_dispatch_serialize)
	vRegister("vC25_dispatch_roundtrip", vC25_dispatch_roundtrip)
	vRegister("vC25_dispatch_robust", vC25_dispatch_robust)
	vRegister("vC25_dispatch_empty", vC25_dispatch_empty)
	vRegister("vC25_resolve", vC25_resolve)
}

func vC25_bytesEq(a, b []byte) bool {
	if len(a) != len(b) {
		return false
	}
	for i := range a {
		if a[i] != b[i] {
			return false
		}
	}
	return true
}

// frameTypeName on an arbitrary buffer
func vC25_frameTypeName() {
	data := vNondetBytes("data", vCase("maxLen"))
	name, ok := frameTypeName(data)
	if ok {
		total := int(binary.BigEndian.Uint32(data[:4]))
		nameLen := int(binary.BigEndian.Uint32(data[4:8]))
		vAssert(len(data) >= 8 && total >= 8 && total <= len(data) && nameLen > 0 && 8+nameLen <= total, "a name is only extracted from a frame with consistent length fields")
		vAssert(string(name) == string(data[8:8+nameLen]), "the extracted name is the name region of the frame")
		vCover("extracted")
	} else {
		vAssert(name == "", "no name when the frame is refused")
		vCover("refused")
	}
	if len(data) < 8 {
		vAssert(!ok, "a buffer shorter than the header has no name")
	}
	vCover("end")
}

// the three real serializers (payload codecs opaque), in the registration order chosen by the job
func vC25_entries() (entries []ifaceEntry, p *remote.ProtoSerializer, c *remote.CBORSerializer, j *remote.JSONSerializer) {
	remote.VC25_setup()
	p, c, j = remote.NewProtoSerializer(), remote.VC25_newCBOR(), remote.NewJSONSerializer()
	ep := ifaceEntry{iface: remote.VC25TProtoIface, serializer: p}
	ec := ifaceEntry{iface: remote.VC25TStructPtr, serializer: c}
	ej := ifaceEntry{iface: remote.VC25TOtherIface, serializer: j}
	switch vCase("order") {
	case 0:
		entries = []ifaceEntry{ep, ec, ej}
	case 1:
		entries = []ifaceEntry{ep, ej, ec}
	case 2:
		entries = []ifaceEntry{ec, ep, ej}
	case 3:
		entries = []ifaceEntry{ec, ej, ep}
	case 4:
		entries = []ifaceEntry{ej, ep, ec}
	case 5:
		entries = []ifaceEntry{ej, ec, ep}
	case 6: // no protobuf serializer registered at all
		entries = []ifaceEntry{ec, ej}
	default:
		entries = []ifaceEntry{ej, ec}
	}
	return
}

func vC25_pos(entries []ifaceEntry, s remote.Serializer) int {
	for i := range entries {
		if entries[i].serializer == s {
			return i
		}
	}
	return len(entries)
}

func vC25_message(kind int) (m any, payload []byte) {
	payload = []byte(vNondetStringN("payload", 2))
	switch kind {
	case 0:
		name := vNondetStringN("protoName", 6)
		remote.VC25ProtoName = name
		m = &remote.VC25Msg{Name: name, Payload: payload}
	case 1:
		m = &remote.VC25Struct{Payload: payload}
	case 2:
		m = string(payload)
	default:
		m = &remote.VC25Other{}
	}
	return
}

// Serialize under dispatch: the first registered serializer that accepts the value produces the bytes; a value nobody
// accepts yields an error and no bytes
func vC25_dispatch_serialize() {
	entries, p, c, j := vC25_entries()
	d := newSerializerDispatch(entries)
	kind := vCase("kind")
	m, _ := vC25_message(kind)
	got, err := d.Serialize(m)
	switch kind {
	case 0:
		if vC25_pos(entries, p) < len(entries) {
			want, _ := p.Serialize(m)
			vAssert(err == nil && vC25_bytesEq(got, want), "a protobuf message is serialized by the protobuf serializer")
		} else {
			vAssert(err != nil && got == nil, "without a protobuf serializer a protobuf message yields an error and no bytes")
		}
	case 1, 2:
		var first remote.Serializer = c
		if vC25_pos(entries, j) < vC25_pos(entries, c) {
			first = j
		}
		want, _ := first.Serialize(m)
		vAssert(err == nil && vC25_bytesEq(got, want), "a registered non-protobuf value is serialized by the first registered serializer that accepts it")
	default:
		vAssert(err != nil && got == nil, "a value no serializer accepts yields an error and no bytes")
	}
	vCover("end")
}

// a frame produced by serializer X is decoded back to an equal value under dispatch, whatever the registration order -
// also when the non-protobuf type name collides with a registered protobuf message name
func vC25_dispatch_roundtrip() {
	entries, p, c, j := vC25_entries()
	d := newSerializerDispatch(entries)
	// (value kind, producing serializer): the five matching pairs and two mismatches
	combos := [7][2]int{{0, 0}, {1, 1}, {1, 2}, {2, 1}, {2, 2}, {0, 1}, {1, 0}}
	combo := combos[vCase("combo")]
	kind := combo[0]
	m, payload := vC25_message(kind)
	var x remote.Serializer = p
	switch combo[1] {
	case 1:
		x = c
	case 2:
		x = j
	}
	if kind != 0 {
		// the protobuf registry knows one message type; its name may collide with the type name "string"
		remote.VC25ProtoName = vNondetStringN("protoName", 6)
	}
	frame, err := x.Serialize(m)
	if err != nil {
		vAssert((kind == 0) != (x == remote.Serializer(p)), "only the matching serializer accepts the value")
		vCover("producer-refuses")
		return
	}
	if vC25_pos(entries, x) == len(entries) {
		return // the producer is not registered on the receiving side
	}
	got, err := d.Deserialize(frame)
	vAssert(err == nil, "a frame produced by a registered serializer is decoded under dispatch")
	if err != nil {
		return
	}
	known := true
	switch g := got.(type) {
	case *remote.VC25Msg:
		vAssert(kind == 0 && g.Name == remote.VC25ProtoName && vC25_bytesEq(g.Payload, payload), "a protobuf frame is decoded to an equal protobuf message")
		vCover("proto")
	case *remote.VC25Struct:
		vAssert(kind == 1 && vC25_bytesEq(g.Payload, payload), "a struct frame is decoded to an equal struct")
		vCover("struct")
	case string:
		vAssert(kind == 2 && g == string(payload), "a primitive frame is decoded to an equal primitive")
		if remote.VC25ProtoName == "string" {
			vCover("name-collision")
		}
		vCover("primitive")
	default:
		known = false
	}
	vAssert(known, "the decoded value has one of the registered types")
	vCover("end")
}

// Deserialize under dispatch on arbitrary bytes
func vC25_dispatch_robust() {
	entries, _, _, _ := vC25_entries()
	remote.VC25ProtoName = vNondetString("protoName", 3)
	d := newSerializerDispatch(entries)
	data := vNondetBytes("data", vCase("maxLen"))
	got, err := d.Deserialize(data)
	if err != nil {
		vAssert(got == nil, "no message on error")
		vCover("rejected")
	} else {
		vAssert(got != nil, "success yields a message")
		vCover("accepted")
	}
	if len(data) < 8 {
		vAssert(err != nil, "a buffer shorter than any frame header is rejected")
	}
	vCover("end")
}

func vC25_dispatch_empty() {
	d := newSerializerDispatch(nil)
	b, err := d.Serialize(&remote.VC25Other{})
	vAssert(b == nil && err == errNoSerializerEncode, "with no serializers Serialize reports errNoSerializerEncode")
	m, err := d.Deserialize(vNondetBytes("data", 8))
	vAssert(m == nil && err == errNoSerializerDecode, "with no serializers Deserialize reports errNoSerializerDecode")
	vCover("end")
}

// ---- resolveSerializer: which serializer is chosen for an outgoing message ---------------------------------------------

type vC25Ser struct {
	remote.Serializer
	id int
}

// reference: the documented dispatch order (WithClientSerializers / remote.WithSerializers):
//  1. exact concrete type - the entry registered with the message's dynamic type
//  2. interface match - the first registered interface the message implements
// registration order decides within each category; nil when nothing matches.
func vC25_refResolve(entries []ifaceEntry, t *remote.VC25RType) remote.Serializer {
	for i := range entries {
		if entries[i].iface.Kind() != reflect.Interface && entries[i].iface == reflect.Type(t) {
			return entries[i].serializer
		}
	}
	for i := range entries {
		if entries[i].iface.Kind() == reflect.Interface && t.Implements(entries[i].iface) {
			return entries[i].serializer
		}
	}
	return nil
}

func vC25_resolve() {
	// NewClient always registers the protobuf serializer for the proto.Message interface first; then up to two user entries
	def := &vC25Ser{id: 0}
	entries := []ifaceEntry{{iface: remote.VC25TProtoIface, serializer: def}}
	user := []ifaceEntry{
		{iface: remote.VC25TMsgPtr, serializer: &vC25Ser{id: 1}},     // concrete protobuf message type
		{iface: remote.VC25TOtherIface, serializer: &vC25Ser{id: 2}}, // an interface both message types implement
		{iface: remote.VC25TStructPtr, serializer: &vC25Ser{id: 3}},  // concrete non-protobuf type
	}
	n := vCase("userEntries")
	a, b := vChoose("first", 3), vChoose("second", 3)
	if n >= 1 {
		entries = append(entries, user[a])
	}
	if n >= 2 {
		vAssume(b != a)
		entries = append(entries, user[b])
	}
	c := &client{serializers: entries}
	c.dispatcher = newSerializerDispatch(entries)

	var m any
	var t *remote.VC25RType
	switch vCase("message") {
	case 0:
		m, t = &remote.VC25Msg{Name: "m"}, remote.VC25TMsgPtr
	case 1:
		m, t = &remote.VC25Struct{}, remote.VC25TStructPtr
	default:
		m, t = &remote.VC25Other{}, remote.VC25TOtherPtr
	}
	got := c.resolveSerializer(m)
	want := vC25_refResolve(entries, t)
	vAssert(got == want, "the serializer registered for the exact concrete type wins over an interface match; registration order decides within a category; nothing registered means no serializer")
	if want == nil {
		vCover("none")
	} else if want != remote.Serializer(def) {
		vCover("user-entry-wins")
	}
	vAssert(c.resolveSerializer(nil) == c.dispatcher, "nil (receive path) resolves to the composite dispatcher")
	vCover("end")
}
