//go:build verif

package remoteclient

import (
	"context"
	"io"
	"sync"

	"google.golang.org/protobuf/proto"
	"google.golang.org/protobuf/types/known/wrapperspb"

	"github.com/tochemey/goakt/v4/internal/address"
	"github.com/tochemey/goakt/v4/internal/internalpb"
	inet "github.com/tochemey/goakt/v4/internal/net"
	"github.com/tochemey/goakt/v4/remote"
)

func init() { vRegister("vC28_payload", vC28_payload) }

// ---- the payload frame pool as environment: any buffer that was Put may be handed out again (what sync.Pool allows)
var vC28p_mu sync.Mutex
var vC28p_free [][]byte

func vC28p_get(fp *inet.FramePool, n int) []byte {
	vC28p_mu.Lock()
	defer vC28p_mu.Unlock()
	if k := len(vC28p_free); k > 0 {
		b := vC28p_free[k-1]
		vC28p_free = vC28p_free[:k-1]
		return b[:n]
	}
	return make([]byte, n, 4)
}
func vC28p_put(fp *inet.FramePool, b []byte) {
	vC28p_mu.Lock()
	vC28p_free = append(vC28p_free, b)
	vC28p_mu.Unlock()
}

// the protobuf framer writes the payload into a pooled frame: one byte carries the message's tag
func vC28p_marshalTo(s *inet.ProtoSerializer, fp *inet.FramePool, msg proto.Message) ([]byte, error) {
	b := fp.Get(1)
	b[0] = byte(msg.(*wrapperspb.Int32Value).Value)
	return b, nil
}
func vC28p_resolve(r *client, message any) remote.Serializer         { return vC28p_proto }
func vC28p_netClient(r *client, host string, port int) *inet.Client { return nil }

var vC28p_proto = &remote.ProtoSerializer{}
var vC28p_to2 string
var vC28p_sent [3]int

// the wire: the request is marshaled and written here; the payload it carries at this moment is what the peer answers
func vC28p_send(c *inet.Client, ctx context.Context, req proto.Message) (proto.Message, error) {
	rm := req.(*internalpb.RemoteAskRequest).RemoteMessages[0]
	vYield()
	want := 1
	if rm.Receiver == vC28p_to2 {
		want = 2
	}
	vAssert(len(rm.Message) == 1 && int(rm.Message[0]) == want, "the request written for an ask carries that ask's own payload (not a recycled frame rewritten by a concurrent ask)")
	vC28p_sent[want]++
	return nil, io.ErrUnexpectedEOF // the reply path is covered by the net.Client entries
}

// two concurrent RemoteAsk calls through one client: serializePayload (pooled frame), the deferred payloadPool.Put and
// SendProto are the real code; the pool hands out any frame that was returned to it
func vC28_payload() {
	r := &client{payloadPool: &inet.FramePool{}}
	from := address.New("caller", "sys", "h", 1)
	to1, to2 := address.New("a1", "sys", "h", 1), address.New("a2", "sys", "h", 1)
	vC28p_to2 = to2.String()
	vC28p_free = nil
	vC28p_sent = [3]int{}
	vGo("ask1", func() { _, _ = r.RemoteAsk(context.Background(), from, to1, &wrapperspb.Int32Value{Value: 1}, 0) })
	vGo("ask2", func() { _, _ = r.RemoteAsk(context.Background(), from, to2, &wrapperspb.Int32Value{Value: 2}, 0) })
	vRun()
	if vAllDone() {
		vCover("all-done")
		vAssert(vC28p_sent[1] == 1 && vC28p_sent[2] == 1, "each ask is written exactly once")
		if len(vC28p_free) == 2 {
			vCover("both-frames-returned")
		}
	}
	vCover("end")
}
