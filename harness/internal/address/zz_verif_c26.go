//go:build verif

package address

func init() {
	vRegister("vC26_roundtrip", vC26_roundtrip)
	vRegister("vC26_roundtrip_ipv6", vC26_roundtrip_ipv6)
	vRegister("vC26_parse_any", vC26_parse_any)
}

func vC26_alnum(c byte) bool {
	return (c >= 'a' && c <= 'z') || (c >= 'A' && c <= 'Z') || (c >= '0' && c <= '9')
}

// transcription of Validate's pattern ^[a-zA-Z0-9][a-zA-Z0-9-_\.]*$
func vC26_validName(s string) bool {
	if len(s) == 0 || !vC26_alnum(s[0]) {
		return false
	}
	for i := 1; i < len(s); i++ {
		c := s[i]
		if !(vC26_alnum(c) || c == '-' || c == '_' || c == '.') {
			return false
		}
	}
	return true
}

// host name / IPv4 literal class
func vC26_validHostname(s string) bool {
	if len(s) == 0 {
		return false
	}
	for i := 0; i < len(s); i++ {
		c := s[i]
		if !(vC26_alnum(c) || c == '-' || c == '.') {
			return false
		}
	}
	return true
}

// IPv6 literal class: hex digits and ':' with at least two colons (e.g. ::1, fe80::1)
func vC26_validIPv6(s string) bool {
	colons := 0
	for i := 0; i < len(s); i++ {
		c := s[i]
		if c == ':' {
			colons++
		} else if !((c >= '0' && c <= '9') || (c >= 'a' && c <= 'f')) {
			return false
		}
	}
	return colons >= 2
}

var vC26_portLo = [6]int{0, 0, 10, 100, 1000, 10000}
var vC26_portHi = [6]int{0, 9, 99, 999, 9999, 65535}

// string lengths and the number of port digits are fixed per job (case split by the driver); contents stay symbolic
func vC26_check(host string) {
	system := vNondetStringN("system", vCase("sysLen"))
	name := vNondetStringN("name", vCase("nameLen"))
	pl := vCase("parentLen") // 0 = no parent
	pname := vNondetStringN("parent", pl)
	port := vNondetInt("port")
	hasParent := pl > 0
	vAssume(vC26_validName(system) && vC26_validName(name))
	pd := vCase("portDigits")
	vAssume(port >= vC26_portLo[pd] && port <= vC26_portHi[pd])
	var a *Address
	if hasParent {
		vAssume(vC26_validName(pname) && pname != name)
		a = NewWithParent(name, system, host, port, New(pname, system, host, port))
		vCover("with-parent")
	} else {
		a = New(name, system, host, port)
		vCover("no-parent")
	}
	s := a.String()
	b, err := Parse(s)
	vAssert(err == nil, "the string form of a valid address parses")
	if err == nil {
		vAssert(b.Equals(a), "parsing the string form yields an equal address")
		if hasParent {
			vAssert(b.Parent() != nil && b.Parent().Name() == pname, "the parent name survives the text form")
		} else {
			vAssert(b.Parent() == nil, "no parent appears from nowhere")
		}
	}
	hp, ok := HostPortOf(s)
	vAssert(ok && hp == a.HostPort(), "host:port extracted from the string equals the address's host and port")
	vCover("end")
}

func vC26_roundtrip() {
	host := vNondetStringN("host", vCase("hostLen"))
	vAssume(vC26_validHostname(host))
	vC26_check(host)
}

func vC26_roundtrip_ipv6() {
	host := vNondetStringN("host", vCase("hostLen"))
	vAssume(vC26_validIPv6(host))
	vC26_check(host)
}

func vC26_parse_any() {
	s := vNondetString("input", 14)
	a, err := Parse(s)
	if err == nil {
		vAssert(a != nil, "a successful parse returns an address")
		vCover("parsed")
	}
	_, _ = HostPortOf(s)
	vCover("end")
}
