//go:build verif

package codec

import (
	"runtime"
	"time"

	"google.golang.org/protobuf/types/known/durationpb"

	gerrors "github.com/tochemey/goakt/v4/errors"
	"github.com/tochemey/goakt/v4/internal/internalpb"
	"github.com/tochemey/goakt/v4/passivation"
	"github.com/tochemey/goakt/v4/reentrancy"
	"github.com/tochemey/goakt/v4/supervisor"
)

func init() {
	vRegister("vC37_supervisor", vC37_supervisor)
	vRegister("vC37_supervisor_nil", vC37_supervisor_nil)
	vRegister("vC37_passivation", vC37_passivation)
	vRegister("vC37_reentrancy", vC37_reentrancy)
}

// substitutes for durationpb.New / (*durationpb.Duration).AsDuration: an exact inverse pair on all of int64, like the real
// pair (which splits by 10^9 with a 64-bit division no solver here finishes)
func vC37_durNew(d time.Duration) *durationpb.Duration {
	return &durationpb.Duration{Seconds: int64(d) >> 30, Nanos: int32(int64(d) & (1<<30 - 1))}
}

func vC37_durAs(x *durationpb.Duration) time.Duration {
	if x == nil {
		return 0
	}
	return time.Duration(x.Seconds<<30 | int64(x.Nanos))
}

// substitute for sort.Slice on the directive rules (reflection-based swapper is outside the encoder): insertion sort with the real less
func vC37_sortSlice(x any, less func(i, j int) bool) {
	rules, ok := x.([]*internalpb.SupervisorDirectiveRule)
	if !ok {
		panic("harness sort.Slice: unexpected slice type")
	}
	for i := 1; i < len(rules); i++ {
		for j := i; j > 0 && less(j, j-1); j-- {
			rules[j], rules[j-1] = rules[j-1], rules[j]
		}
	}
}

func vC37_errOf(i int) error {
	switch i {
	case 0:
		return &gerrors.PanicError{}
	case 1:
		return &gerrors.InternalError{}
	case 2:
		return supervisor.VC37Custom2{}
	case 3:
		return &runtime.PanicNilError{}
	default:
		return &supervisor.VC37Custom1{}
	}
}

func vC37_directive(name string) supervisor.Directive {
	d := vChoose(name, 4)
	return supervisor.Directive(d) // Stop, Resume, Restart, Escalate
}

// any supervisor a user can build with the public options survives Encode -> Decode
func vC37_supervisor() {
	strategy := supervisor.Strategy(vChoose("strategy", 2)) // OneForOne, OneForAll
	withRetry := vNondetBool("withRetry")
	maxRetries := vNondetUint32("maxRetries")
	timeout := time.Duration(vNondetInt64("timeout"))
	// the SHAPE of the rule set (any-error or not, 0..2 typed rules, which error types) is split into one job per shape;
	// everything else stays symbolic. shape = withAny + 2*k, k = 0 | 1+e1 | 1+T+e1*T+e2 over T = vCase("types") error types
	shape, T := vCase("shape"), vCase("types")
	withAny := shape%2 == 1
	k := shape / 2
	nDir, e1, e2 := 0, 0, 0
	if k >= 1+T {
		nDir, e1, e2 = 2, (k-1-T)/T, (k-1-T)%T
	} else if k >= 1 {
		nDir, e1 = 1, k-1
	}
	d1, d2 := vC37_directive("directive1"), vC37_directive("directive2")
	dAny := vC37_directive("anyDirective")
	withBackoff := vNondetBool("withBackoff")
	initial, maxDelay, resetAfter := time.Duration(vNondetInt64("initialDelay")), time.Duration(vNondetInt64("maxDelay")), time.Duration(vNondetInt64("resetAfter"))

	opts := []supervisor.SupervisorOption{supervisor.WithStrategy(strategy)}
	if withRetry {
		opts = append(opts, supervisor.WithRetry(maxRetries, timeout))
	}
	if nDir >= 1 {
		opts = append(opts, supervisor.WithDirective(vC37_errOf(e1), d1))
	}
	if nDir >= 2 {
		opts = append(opts, supervisor.WithDirective(vC37_errOf(e2), d2))
	}
	if withAny {
		opts = append(opts, supervisor.WithAnyErrorDirective(dAny))
	}
	if withBackoff {
		opts = append(opts, supervisor.WithExponentialBackoff(initial, maxDelay, resetAfter))
	}
	s := supervisor.NewSupervisor(opts...)

	spec := EncodeSupervisor(s)
	vAssert(spec != nil, "a supervisor is encoded to a spec")
	got := DecodeSupervisor(spec)
	vAssert(got != nil, "a spec decodes to a supervisor")
	if got == nil {
		return
	}

	vAssert(got.Strategy() == s.Strategy(), "the strategy survives the wire")
	vAssert(got.MaxRetries() == s.MaxRetries(), "the retry budget survives the wire")
	vAssert(got.Timeout() == s.Timeout(), "the retry window survives the wire")
	for i := 0; i < 5; i++ {
		wd, wok := s.Directive(vC37_errOf(i))
		gd, gok := got.Directive(vC37_errOf(i))
		vAssert(wok == gok && (!wok || wd == gd), "the directive configured for an error type survives the wire")
	}
	wd, wok := s.AnyErrorDirective()
	gd, gok := got.AnyErrorDirective()
	vAssert(wok == gok && (!wok || wd == gd), "the any-error directive survives the wire")
	vAssert(len(got.Rules()) == len(s.Rules()), "the decoded supervisor has exactly the configured rules")
	vAssert(got.InitialDelay() == s.InitialDelay() && got.MaxDelay() == s.MaxDelay() && got.BackoffResetAfter() == s.BackoffResetAfter(), "the restart backoff survives the wire")
	if withAny {
		vCover("any-error")
	} else if nDir == 2 && e1 != e2 {
		vCover("two-typed-directives")
	}
	if withBackoff && initial > 0 {
		vCover("backoff")
	}
	if !withRetry {
		vCover("default-retry")
	}
	vCover("end")
}

func vC37_supervisor_nil() {
	vAssert(EncodeSupervisor(nil) == nil && DecodeSupervisor(nil) == nil, "no supervisor stays no supervisor")
	vAssert(EncodeReentrancy(nil) == nil && DecodeReentrancy(nil) == nil, "no reentrancy stays no reentrancy")
	vAssert(EncodePassivationStrategy(nil) == nil && DecodePassivationStrategy(nil) == nil, "no passivation strategy stays none")
	vCover("end")
}

func vC37_passivation() {
	kind := vChoose("kind", 3)
	dur := time.Duration(vNondetInt64("after"))
	n := vNondetInt("maxMessages")
	var in passivation.Strategy
	switch kind {
	case 0:
		in = passivation.NewTimeBasedStrategy(dur)
	case 1:
		in = passivation.NewMessageCountBasedStrategy(n)
	default:
		in = passivation.NewLongLivedStrategy()
	}
	out := DecodePassivationStrategy(EncodePassivationStrategy(in))
	switch kind {
	case 0:
		t, ok := out.(*passivation.TimeBasedStrategy)
		vAssert(ok && t.Timeout() == dur, "a time-based passivation strategy keeps its kind and timeout")
		vCover("time-based")
	case 1:
		c, ok := out.(*passivation.MessagesCountBasedStrategy)
		vAssert(ok && c.MaxMessages() == n, "a message-count passivation strategy keeps its kind and limit")
		vCover("count-based")
	default:
		_, ok := out.(*passivation.LongLivedStrategy)
		vAssert(ok, "a long-lived passivation strategy keeps its kind")
		vCover("long-lived")
	}
	vCover("end")
}

func vC37_reentrancy() {
	mode := reentrancy.Mode(vChoose("mode", 3)) // Off, AllowAll, StashNonReentrant
	n := vNondetInt("maxInFlight")
	in := reentrancy.New(reentrancy.WithMode(mode), reentrancy.WithMaxInFlight(n))
	out := DecodeReentrancy(EncodeReentrancy(in))
	vAssert(out != nil, "a reentrancy configuration decodes to a configuration")
	if out == nil {
		return
	}
	vAssert(out.Mode() == in.Mode(), "the reentrancy mode survives the wire")
	want := in.MaxInFlight() // already clamped to >= 0 by WithMaxInFlight
	if want > 1<<32-1 {
		want = 1<<32 - 1 // the wire field is a uint32 (documented clamp)
		vCover("clamped")
	}
	vAssert(out.MaxInFlight() == want, "maxInFlight survives the wire (clamped to [0, 2^32-1])")
	if n < 0 {
		vCover("negative")
	}
	vCover("end")
}
