//go:build verif

package codec

import (
	"github.com/tochemey/goakt/v4/crdt"
	"github.com/tochemey/goakt/v4/internal/internalpb"
)

func init() { vRegister("vC40_key", vC40_key) }

// CRDT keys round-trip with their type; unknown type tags are rejected
func vC40_key() {
	id := vNondetString("id", 4)
	dt := vNondetInt("dataType")
	vAssume(dt >= int(crdt.GCounterType) && dt <= int(crdt.MVRegisterType))
	pb := EncodeCRDTKey(id, crdt.DataType(dt))
	vAssert(pb != nil && pb.GetDataType() != internalpb.CRDTDataType_CRDT_DATA_TYPE_UNSPECIFIED, "an encoded key never carries the unspecified type tag")
	id2, dt2, err := DecodeCRDTKey(pb)
	vAssert(err == nil && id2 == id && int(dt2) == dt, "a key decodes to the same id and the same CRDT type")
	want := [7]internalpb.CRDTDataType{internalpb.CRDTDataType_CRDT_DATA_TYPE_G_COUNTER, internalpb.CRDTDataType_CRDT_DATA_TYPE_PN_COUNTER, internalpb.CRDTDataType_CRDT_DATA_TYPE_LWW_REGISTER, internalpb.CRDTDataType_CRDT_DATA_TYPE_OR_SET, internalpb.CRDTDataType_CRDT_DATA_TYPE_OR_MAP, internalpb.CRDTDataType_CRDT_DATA_TYPE_FLAG, internalpb.CRDTDataType_CRDT_DATA_TYPE_MV_REGISTER}
	vAssert(pb.GetDataType() == want[dt], "every CRDT type is sent as the wire tag of the same name")
	// arbitrary wire tag
	raw := vNondetInt32("wireTag")
	id3, dt3, err := DecodeCRDTKey(&internalpb.CRDTKey{Id: id, DataType: internalpb.CRDTDataType(raw)})
	if raw >= 1 && raw <= 7 {
		vAssert(err == nil && id3 == id && int32(dt3) == raw-1, "a known wire tag decodes to its CRDT type")
		vCover("known-tag")
	} else {
		vAssert(err != nil, "an unknown or unspecified wire tag is rejected")
		vCover("unknown-tag")
	}
	_, _, err = DecodeCRDTKey(nil)
	vAssert(err != nil, "a missing key is rejected")
	vCover("end")
}
