//go:build verif

package cluster

import (
	goset "github.com/deckarep/golang-set/v2"
	"github.com/tochemey/olric/events"
	"go.uber.org/atomic"

	"github.com/tochemey/goakt/v4/discovery"
	"github.com/tochemey/goakt/v4/log"
)

func init() {
	vRegister("vC34_init", vC34_init)
	vRegister("vC34_step", vC34_step)
	vRegister("vC34_history3", vC34_history3)
	vRegister("vC34_history4", vC34_history4)
	vRegister("vC34_redeparture", vC34_redeparture)
}

// node 0 is the local node (discovery.Node{Host: "h0", PeersPort: 1}.PeersAddress() == "h0:1")
var vC34_names = [4]string{"h0:1", "h1:1", "h2:1", "h3:1"}
var vC34_reasons = [3]string{rebalanceReasonNodeLeft, rebalanceReasonNodeJoin, "manual"}

// the set behind nodeJoinedEventsFilter / nodeLeftEventsFilter: only Add/Contains/Remove are used by the code under test
type vC34Set struct {
	goset.Set[string]
	m map[string]struct{}
}

func (s *vC34Set) Add(v string) bool {
	_, had := s.m[v]
	s.m[v] = struct{}{}
	return !had
}
func (s *vC34Set) Contains(vs ...string) bool {
	if len(vs) != 1 {
		panic("harness set: Contains is only used with one argument")
	}
	_, ok := s.m[vs[0]]
	return ok
}
func (s *vC34Set) Remove(v string) { delete(s.m, v) }

func vC34_newCluster(chanCap int) *cluster {
	return &cluster{
		node:                    &discovery.Node{Host: "h0", PeersPort: 1},
		events:                  make(chan *Event, chanCap),
		nodeJoinedEventsFilter:  &vC34Set{m: map[string]struct{}{}},
		nodeLeftEventsFilter:    &vC34Set{m: map[string]struct{}{}},
		nodeJoinTimestamps:      make(map[string]int64),
		nodeLeftTimestamps:      make(map[string]int64),
		rebalanceJoinNodeEpochs: make(map[string]uint64),
		rebalanceLeftNodeEpochs: make(map[string]uint64),
		rebalanceStartSeen:      make(map[uint64]struct{}),
		rebalanceCompleteSeen:   make(map[uint64]struct{}),
		logger:                  log.DiscardLogger,
		running:                 atomic.NewBool(true),
	}
}

// substitute for (*discovery.Node).PeersAddress (net.JoinHostPort is outside the encoder): same value as the real one for the harness node
func vC34_peersAddress(n *discovery.Node) string { return "h0:1" }

func vC34_index(addr string) int {
	for i := 0; i < 4; i++ {
		if vC34_names[i] == addr {
			return i
		}
	}
	return -1
}

// reference monitor (what a subscriber of Events() may rely on), fed with the inputs and the emitted events only
type vC34Mon struct {
	leftNotified, joinNotified [4]bool // a node-left / node-join notification naming the node was received
	leftOpen, joinedOpen       [4]bool // NodeLeft / NodeJoined was emitted and the opposite event (notification or emission) has not happened since
	lastOut                    [4]int  // last emitted event for the node: 0 none, 1 NodeLeft, 2 NodeJoined
	wantLeft                   [4]bool // a departure was notified while the node was not (still) reported as left, and it was not reported yet
	startSeen, completeSeen    [4]bool // by epoch (1..3)
	leftLatest, joinLatest     int     // the most recently started (first-seen) node-left / node-join rebalance epoch, 0 = none
}

const (
	vC34_join = iota
	vC34_left
	vC34_start
	vC34_complete
	vC34_overdue
)

func vC34_in(m map[string]int64, k string) bool  { _, ok := m[k]; return ok }
func vC34_inE(m map[string]uint64, k string) bool { _, ok := m[k]; return ok }
func vC34_seen(m map[uint64]struct{}, e uint64) bool {
	_, ok := m[e]
	return ok
}

const vC34_nInv = 12

var vC34_invNames = [vC34_nInv]string{
	"invariant: a node with a departure epoch is a pending departure, and its epoch is the latest node-left epoch",
	"invariant: a node with an arrival epoch is a pending arrival, and its epoch is the latest node-join epoch",
	"invariant: once a node-left epoch was seen every pending departure has an epoch",
	"invariant: once a node-join epoch was seen every pending arrival has an epoch",
	"invariant: a pending departure is not in the NodeLeft filter and a pending arrival is not in the NodeJoined filter",
	"invariant: no departure stays pending once the latest node-left epoch has completed (same for arrivals)",
	"invariant: the local node is never pending (arrival or departure) nor in a filter",
	"invariant: pending departures / arrivals were notified",
	"invariant: a node is in the NodeLeft filter exactly while its NodeLeft is not superseded by a join notification / NodeJoined; a NodeJoined not yet superseded is in the NodeJoined filter",
	"invariant: a node in the NodeLeft filter was last reported as left",
	"invariant: a departure that still has to be reported is pending",
	"invariant: the monitor's epochs are the ones the cluster recorded",
}

// representation invariant of the membership bookkeeping + its link to the monitor (evaluated on the real maps)
func vC34_inv(x *cluster, m *vC34Mon) [vC34_nInv]bool {
	var r [vC34_nInv]bool
	for i := 0; i < vC34_nInv; i++ {
		r[i] = true
	}
	ll, jl := x.rebalanceLeftLatestEpoch, x.rebalanceJoinLatestEpoch
	leftSettled := ll != 0 && vC34_seen(x.rebalanceCompleteSeen, ll)
	joinSettled := jl != 0 && vC34_seen(x.rebalanceCompleteSeen, jl)
	for c := 0; c < 4; c++ {
		name := vC34_names[c]
		lt, jt := vC34_in(x.nodeLeftTimestamps, name), vC34_in(x.nodeJoinTimestamps, name)
		le, je := vC34_inE(x.rebalanceLeftNodeEpochs, name), vC34_inE(x.rebalanceJoinNodeEpochs, name)
		lf, jf := x.nodeLeftEventsFilter.Contains(name), x.nodeJoinedEventsFilter.Contains(name)
		if le && !(lt && ll != 0 && x.rebalanceLeftNodeEpochs[name] == ll) {
			r[0] = false
		}
		if je && !(jt && jl != 0 && x.rebalanceJoinNodeEpochs[name] == jl) {
			r[1] = false
		}
		if ll != 0 && lt && !le {
			r[2] = false
		}
		if jl != 0 && jt && !je {
			r[3] = false
		}
		if (lt && lf) || (jt && jf) {
			r[4] = false
		}
		if (leftSettled && lt) || (joinSettled && jt) {
			r[5] = false
		}
		if c == 0 && (jt || jf || lt || lf) {
			r[6] = false
		}
		if (lt && !m.leftNotified[c]) || (jt && !m.joinNotified[c]) {
			r[7] = false
		}
		if m.leftOpen[c] != lf || (m.joinedOpen[c] && !jf) {
			r[8] = false
		}
		if lf && m.lastOut[c] != 1 {
			r[9] = false
		}
		if c != 0 && m.wantLeft[c] && !lt {
			r[10] = false
		}
	}
	if uint64(m.leftLatest) != ll || uint64(m.joinLatest) != jl {
		r[11] = false
	}
	for e := 1; e <= 3; e++ {
		if m.startSeen[e] != vC34_seen(x.rebalanceStartSeen, uint64(e)) || m.completeSeen[e] != vC34_seen(x.rebalanceCompleteSeen, uint64(e)) {
			r[11] = false
		}
	}
	return r
}

// the invariant holds in the initial state
func vC34_init() {
	x := vC34_newCluster(1)
	var m vC34Mon
	inv := vC34_inv(x, &m)
	for i := 0; i < vC34_nInv; i++ {
		vAssert(inv[i], vC34_invNames[i])
	}
	vCover("end")
}

// one notification from an ARBITRARY bookkeeping / monitor state (nodes self,p1..p3; epochs 1..3) satisfying the invariant:
// the step obeys the monitor and re-establishes the invariant -> histories of any length
func vC34_step() {
	x := vC34_newCluster(8)
	var m vC34Mon
	ll, jl := vChoose("leftLatest", 4), vChoose("joinLatest", 4)
	x.rebalanceLeftLatestEpoch, x.rebalanceJoinLatestEpoch = uint64(ll), uint64(jl)
	m.leftLatest, m.joinLatest = ll, jl
	for e := 1; e <= 3; e++ {
		ss, cs := vNondetBool("startSeen"), vNondetBool("completeSeen")
		m.startSeen[e], m.completeSeen[e] = ss, cs
		if ss {
			x.rebalanceStartSeen[uint64(e)] = struct{}{}
		}
		if cs {
			x.rebalanceCompleteSeen[uint64(e)] = struct{}{}
		}
	}
	for c := 0; c < 4; c++ {
		name := vC34_names[c]
		jf, lf := vNondetBool("inJoinedFilter"), vNondetBool("inLeftFilter")
		jt, lt := vNondetBool("pendingJoin"), vNondetBool("pendingLeft")
		je, le := vNondetBool("hasJoinEpoch"), vNondetBool("hasLeftEpoch")
		jev, lev := vChoose("joinEpoch", 3)+1, vChoose("leftEpoch", 3)+1
		m.leftNotified[c], m.joinNotified[c] = vNondetBool("leftNotified"), vNondetBool("joinNotified")
		m.leftOpen[c], m.joinedOpen[c] = vNondetBool("leftOpen"), vNondetBool("joinedOpen")
		m.lastOut[c] = vChoose("lastOut", 3)
		m.wantLeft[c] = vNondetBool("wantLeft")
		if jf {
			x.nodeJoinedEventsFilter.Add(name)
		}
		if lf {
			x.nodeLeftEventsFilter.Add(name)
		}
		if jt {
			x.nodeJoinTimestamps[name] = 1000000
		}
		if lt {
			x.nodeLeftTimestamps[name] = 2000000
		}
		if je {
			x.rebalanceJoinNodeEpochs[name] = uint64(jev)
		}
		if le {
			x.rebalanceLeftNodeEpochs[name] = uint64(lev)
		}
	}
	pre := vC34_inv(x, &m)
	for i := 0; i < vC34_nInv; i++ {
		vAssume(pre[i])
	}
	vC34_notify(x, &m, 5, vCase("kind")) // the kind of notification is split into one job per kind
	post := vC34_inv(x, &m)
	for i := 0; i < vC34_nInv; i++ {
		vAssert(post[i], vC34_invNames[i])
	}
	vCover("end")
}

func vC34_history3() { vC34_run(3, 1) }
func vC34_history4() { vC34_run(4, 2) }

var vC34_caseNames = [2]string{"kind0", "kind1"}

// bounded history of K notifications from the real initial state (the kinds of the first nCase notifications are split
// into one job per combination, everything else is symbolic)
func vC34_run(K int, nCase int) {
	x := vC34_newCluster(K) // a step emits at most one event per earlier notification, so K slots never overflow
	var m vC34Mon
	for k := 0; k < K; k++ {
		if k < nCase {
			vC34_notify(x, &m, k, vCase(vC34_caseNames[k]))
		} else {
			vC34_notify(x, &m, k, vChoose("kind", 5))
		}
	}
	vCover("end")
}

// one notification (kind, the node it names, and for rebalance events epoch and reason), then everything it emitted
func vC34_notify(x *cluster, m *vC34Mon, k int, kind int) {
	n := vChoose("node", 4)
	e := vChoose("epoch", 3) + 1
	r := vChoose("reason", 3)
	ts := int64(k+1) * 1000000
	reason, rnode := vC34_reasons[r], vC34_names[n]
	newDeparture := -1
	// the node / epoch are dispatched over their (small) domains so the handlers run on concrete map keys
	for c := 0; c < 4; c++ {
		if n != c {
			continue
		}
		switch kind {
		case vC34_join:
			m.joinNotified[c] = true
			m.leftOpen[c] = false
			x.trackNodeJoinEvent(events.NodeJoinEvent{NodeJoin: vC34_names[c], Timestamp: ts})
		case vC34_left:
			m.leftNotified[c] = true
			m.joinedOpen[c] = false
			if c != 0 && !m.leftOpen[c] { // not currently reported as left: a new departure (also after a rejoin)
				m.wantLeft[c] = true
				newDeparture = c
			}
			x.trackNodeLeftEvent(events.NodeLeftEvent{NodeLeft: vC34_names[c], Timestamp: ts})
		case vC34_overdue:
			x.emitOverdueNodeLeft(vC34_names[c])
		}
	}
	for c := 1; c <= 3; c++ {
		if e != c {
			continue
		}
		switch kind {
		case vC34_start:
			if r < 2 && !(r == 1 && n == 0) && !m.startSeen[c] {
				m.startSeen[c] = true
				if r == 0 {
					m.leftLatest = c
				} else {
					m.joinLatest = c
				}
			}
			x.processRebalanceStart(events.RebalanceStartEvent{Epoch: uint64(c), Reason: reason, Node: rnode})
		case vC34_complete:
			m.completeSeen[c] = true
			x.processRebalanceComplete(events.RebalanceCompleteEvent{Epoch: uint64(c)})
		}
	}
	leftSettled := m.leftLatest != 0 && m.completeSeen[m.leftLatest]
	joinSettled := m.joinLatest != 0 && m.completeSeen[m.joinLatest]

	// everything the step emitted
	for j := 0; j < cap(x.events); j++ {
		if len(x.events) == 0 {
			break
		}
		ev := <-x.events
		switch p := ev.Payload.(type) {
		case *NodeLeftEvent:
			i := vC34_index(p.Address)
			vAssert(ev.Type == NodeLeft && i >= 0, "a NodeLeft event carries the NodeLeft type and a notified address")
			if i < 0 {
				break
			}
			vAssert(i != 0, "the local node is never reported in a NodeLeft event")
			vAssert(m.leftNotified[i], "NodeLeft is only emitted for a node whose departure was notified")
			vAssert(!m.leftOpen[i], "at most one NodeLeft per node until the opposite event")
			vAssert((kind == vC34_overdue && n == i) || leftSettled, "NodeLeft is emitted only once the latest node-left rebalance epoch has completed, or on the node's timeout")
			m.leftOpen[i], m.joinedOpen[i], m.lastOut[i], m.wantLeft[i] = true, false, 1, false
			if kind == vC34_overdue {
				vCover("left-on-timeout")
			} else if kind == vC34_complete {
				vCover("left-on-complete")
			} else if kind == vC34_start {
				vCover("left-on-late-start")
			} else if kind == vC34_left {
				vCover("left-on-late-notification")
			}
		case *NodeJoinedEvent:
			i := vC34_index(p.Address)
			vAssert(ev.Type == NodeJoined && i >= 0, "a NodeJoined event carries the NodeJoined type and a notified address")
			if i < 0 {
				break
			}
			vAssert(i != 0, "the local node is never reported in a NodeJoined event")
			vAssert(m.joinNotified[i], "NodeJoined is only emitted for a node whose arrival was notified")
			vAssert(!m.joinedOpen[i], "at most one NodeJoined per node until the opposite event")
			vAssert(joinSettled, "NodeJoined is emitted only once the latest node-join rebalance epoch has completed")
			if m.lastOut[i] == 1 {
				vCover("joined-after-left")
			}
			m.joinedOpen[i], m.leftOpen[i], m.lastOut[i] = true, false, 2
			vCover("joined")
		default:
			vAssert(false, "only NodeLeft and NodeJoined events are emitted by the membership handlers")
		}
	}

	{
		for i := 1; i < 4; i++ {
			if newDeparture == i {
				recorded := !m.wantLeft[i] || vC34_in(x.nodeLeftTimestamps, vC34_names[i])
				vAssert(recorded, "a departure notified while the node is not reported as left is recorded (or reported at once)")
				if !recorded {
					m.wantLeft[i] = false // reported above; do not let it fail the remaining obligations as well
				}
			}
			if kind == vC34_overdue && n == i {
				vAssert(!m.wantLeft[i], "a recorded departure is reported when its timeout fires")
			}
			if leftSettled {
				vAssert(!m.wantLeft[i], "a recorded departure is reported once the latest node-left rebalance epoch has completed")
			}
		}
	}
}

// re-departure (failed before fix b6ef16c): p leaves (reported on timeout), rejoins (reported after its epoch), leaves again
func vC34_redeparture() {
	x := vC34_newCluster(4)
	c := vChoose("peer", 3) + 1
	e := uint64(vChoose("epoch", 3) + 1)
	p := vC34_names[c]
	x.trackNodeLeftEvent(events.NodeLeftEvent{NodeLeft: p, Timestamp: 1000000})
	x.emitOverdueNodeLeft(p)
	x.trackNodeJoinEvent(events.NodeJoinEvent{NodeJoin: p, Timestamp: 2000000})
	x.processRebalanceStart(events.RebalanceStartEvent{Epoch: e, Reason: rebalanceReasonNodeJoin, Node: p})
	x.processRebalanceComplete(events.RebalanceCompleteEvent{Epoch: e})
	vAssert(len(x.events) == 2, "the first departure and the arrival are both reported")
	<-x.events
	<-x.events
	x.trackNodeLeftEvent(events.NodeLeftEvent{NodeLeft: p, Timestamp: 3000000})
	x.emitOverdueNodeLeft(p)
	vAssert(len(x.events) == 1, "a node that left, rejoined and leaves again is reported as left again (after its timeout)")
	vCover("end")
}
