//go:build verif

package cluster

import (
	goset "github.com/deckarep/golang-set/v2"
	"github.com/tochemey/olric/events"
	"go.uber.org/atomic"

	"github.com/tochemey/goakt/v4/discovery"
	"github.com/tochemey/goakt/v4/log"
)

func init() {
	vRegister("vC34_history2", vC34_history2)
	vRegister("vC34_history4", vC34_history4)
	vRegister("vC34_history5", vC34_history5)
	vRegister("vC34_history6", vC34_history6)
	vRegister("vC34_history7", vC34_history7)
	vRegister("vC34_progress4", vC34_progress4)
	vRegister("vC34_progress5", vC34_progress5)
	vRegister("vC34_progress6", vC34_progress6)
}

// node 0 is the local node (discovery.Node{Host: "h0", PeersPort: 1}.PeersAddress() == "h0:1")
var vC34_names = [4]string{"h0:1", "h1:1", "h2:1", "h3:1"}
var vC34_reasons = [3]string{rebalanceReasonNodeLeft, rebalanceReasonNodeJoin, "manual"}

// the set behind nodeJoinedEventsFilter / nodeLeftEventsFilter: only Add/Contains/Remove are used by the code under test
type vC34Set struct {
	goset.Set[string]
	m map[string]struct{}
}

func (s *vC34Set) Add(v string) bool {
	_, had := s.m[v]
	s.m[v] = struct{}{}
	return !had
}
func (s *vC34Set) Contains(vs ...string) bool {
	for _, v := range vs {
		if _, ok := s.m[v]; !ok {
			return false
		}
	}
	return true
}
func (s *vC34Set) Remove(v string) { delete(s.m, v) }

func vC34_newCluster(chanCap int) *cluster {
	return &cluster{
		node:                    &discovery.Node{Host: "h0", PeersPort: 1},
		events:                  make(chan *Event, chanCap),
		nodeJoinedEventsFilter:  &vC34Set{m: map[string]struct{}{}},
		nodeLeftEventsFilter:    &vC34Set{m: map[string]struct{}{}},
		nodeJoinTimestamps:      make(map[string]int64),
		nodeLeftTimestamps:      make(map[string]int64),
		rebalanceJoinNodeEpochs: make(map[string]uint64),
		rebalanceLeftNodeEpochs: make(map[string]uint64),
		rebalanceStartSeen:      make(map[uint64]struct{}),
		rebalanceCompleteSeen:   make(map[uint64]struct{}),
		logger:                  log.DiscardLogger,
		running:                 atomic.NewBool(true),
	}
}

// substitute for (*discovery.Node).PeersAddress (net.JoinHostPort is outside the encoder): same value as the real one for the harness node
func vC34_peersAddress(n *discovery.Node) string { return "h0:1" }

// substitute for (*cluster).sendEventLocked in the progress entries: the event channel is assumed to have room (never drops)
func vC34_sendNoDrop(x *cluster, e *Event) {
	if x.events == nil {
		return
	}
	x.events <- e
}

func vC34_index(addr string) int {
	for i := 0; i < 4; i++ {
		if vC34_names[i] == addr {
			return i
		}
	}
	return -1
}

// reference monitor (what a subscriber of Events() may rely on), fed with the inputs and the emitted events only
type vC34Mon struct {
	leftNotified, joinNotified [4]bool // a node-left / node-join notification naming the node was received
	leftOpen, joinedOpen       [4]bool // NodeLeft / NodeJoined was emitted and the opposite event (notification or emission) has not happened since
	lastOut                    [4]int  // last emitted event for the node: 0 none, 1 NodeLeft, 2 NodeJoined
	wantLeft                   [4]bool // a departure was notified while the node was not already reported as left, and it was not reported yet
	startSeen, completeSeen    [4]bool // by epoch (1..3)
	leftLatest, joinLatest     int     // the most recently started (first-seen) node-left / node-join rebalance epoch, 0 = none
}

const (
	vC34_join = iota
	vC34_left
	vC34_start
	vC34_complete
	vC34_overdue
)

func vC34_history2()  { vC34_run(3, false) }
func vC34_history4()  { vC34_run(4, false) }
func vC34_history5()  { vC34_run(5, false) }
func vC34_history6()  { vC34_run(6, false) }
func vC34_history7()  { vC34_run(7, false) }
func vC34_progress4() { vC34_run(4, true) }
func vC34_progress5() { vC34_run(5, true) }
func vC34_progress6() { vC34_run(6, true) }

func vC34_run(K int, progress bool) {
	x := vC34_newCluster(K) // a step emits at most one event per earlier notification, so K slots never overflow
	var m vC34Mon
	for k := 0; k < K; k++ {
		// one notification: kind, the node it names, and (for rebalance events) epoch and reason
		kind := vChoose("kind", 5)
		n := vChoose("node", 4)
		e := vChoose("epoch", 3) + 1
		r := vChoose("reason", 3)
		ts := int64(k+1) * 1000000
		// the node / epoch are dispatched over their (small) domains so the handlers run on concrete map keys
		for c := 0; c < 4; c++ {
			if n != c {
				continue
			}
			switch kind {
			case vC34_join:
				m.joinNotified[c] = true
				m.leftOpen[c] = false
				x.trackNodeJoinEvent(events.NodeJoinEvent{NodeJoin: vC34_names[c], Timestamp: ts})
			case vC34_left:
				m.leftNotified[c] = true
				m.joinedOpen[c] = false
				if m.lastOut[c] != 1 {
					m.wantLeft[c] = true
				}
				x.trackNodeLeftEvent(events.NodeLeftEvent{NodeLeft: vC34_names[c], Timestamp: ts})
			case vC34_overdue:
				x.emitOverdueNodeLeft(vC34_names[c])
			}
		}
		for c := 1; c <= 3; c++ {
			if e != c {
				continue
			}
			switch kind {
			case vC34_start:
				if r < 2 && !(r == 1 && n == 0) && !m.startSeen[c] {
					m.startSeen[c] = true
					if r == 0 {
						m.leftLatest = c
					} else {
						m.joinLatest = c
					}
				}
				x.processRebalanceStart(events.RebalanceStartEvent{Epoch: uint64(c), Reason: vC34_reasons[r], Node: vC34_names[n]})
			case vC34_complete:
				m.completeSeen[c] = true
				x.processRebalanceComplete(events.RebalanceCompleteEvent{Epoch: uint64(c)})
			}
		}
		leftSettled := m.leftLatest != 0 && m.completeSeen[m.leftLatest]
		joinSettled := m.joinLatest != 0 && m.completeSeen[m.joinLatest]

		// everything the step emitted
		for len(x.events) > 0 {
			ev := <-x.events
			switch p := ev.Payload.(type) {
			case *NodeLeftEvent:
				i := vC34_index(p.Address)
				vAssert(ev.Type == NodeLeft && i >= 0, "a NodeLeft event carries the NodeLeft type and a notified address")
				if i < 0 {
					break
				}
				vAssert(i != 0, "the local node is never reported in a NodeLeft event")
				vAssert(m.leftNotified[i], "NodeLeft is only emitted for a node whose departure was notified")
				vAssert(!m.leftOpen[i], "at most one NodeLeft per node until the opposite event")
				vAssert((kind == vC34_overdue && n == i) || leftSettled, "NodeLeft is emitted only once the latest node-left rebalance epoch has completed, or on the node's timeout")
				m.leftOpen[i], m.joinedOpen[i], m.lastOut[i], m.wantLeft[i] = true, false, 1, false
				if kind == vC34_overdue {
					vCover("left-on-timeout")
				} else if kind == vC34_complete {
					vCover("left-on-complete")
				} else if kind == vC34_start {
					vCover("left-on-late-start")
				} else if kind == vC34_left {
					vCover("left-on-late-notification")
				}
			case *NodeJoinedEvent:
				i := vC34_index(p.Address)
				vAssert(ev.Type == NodeJoined && i >= 0, "a NodeJoined event carries the NodeJoined type and a notified address")
				if i < 0 {
					break
				}
				vAssert(i != 0, "the local node is never reported in a NodeJoined event")
				vAssert(m.joinNotified[i], "NodeJoined is only emitted for a node whose arrival was notified")
				vAssert(!m.joinedOpen[i], "at most one NodeJoined per node until the opposite event")
				vAssert(joinSettled, "NodeJoined is emitted only once the latest node-join rebalance epoch has completed")
				if m.lastOut[i] == 1 {
					vCover("joined-after-left")
				}
				m.joinedOpen[i], m.leftOpen[i], m.lastOut[i] = true, false, 2
				vCover("joined")
			default:
				vAssert(false, "only NodeLeft and NodeJoined events are emitted by the membership handlers")
			}
		}

		if progress {
			for i := 1; i < 4; i++ {
				if kind == vC34_overdue && n == i {
					vAssert(!m.wantLeft[i], "a notified departure is reported when its timeout fires")
				}
				if leftSettled {
					vAssert(!m.wantLeft[i], "a notified departure is reported once the latest node-left rebalance epoch has completed")
				}
			}
		}
	}
	vCover("end")
}
