//go:build verif

package cluster

import (
	"context"

	"github.com/tochemey/olric"
	"go.uber.org/atomic"
)

// VC19NewCluster returns a real *cluster engine value (no olric behind it) for the C19 harness in package actor:
// ClaimScheduleFire runs from the real code, its single storage access (putRecordIfAbsent) is substituted by
// vC19_putIfAbsent, which forwards to the registry fake installed in VC19Put.
func VC19NewCluster(running bool) Cluster {
	return &cluster{running: atomic.NewBool(running)}
}

// VC19Put is the shared put-if-absent registry (installed by the harness): nil = stored, olric.ErrKeyFound = present,
// anything else = storage failure.
var VC19Put func(key string) error

// VC19ErrKeyFound is what the registry fake returns for a key that is already present.
var VC19ErrKeyFound = olric.ErrKeyFound

// substituted for (*cluster).putRecordIfAbsent
func vC19_putIfAbsent(x *cluster, ctx context.Context, namespace recordNamespace, key string, value []byte, options ...olric.PutOption) error {
	return VC19Put(string(namespace) + namespaceSeparator + key)
}
