//go:build verif

package commands

// Direct constructors for the wire commands of reliable delivery (their fields are private to this package): one object
// per message whose fields may all be symbolic. Each returns the command's own validate() verdict, which the harnesses
// assume to be nil - so exactly the values the real constructors accept are explored.

func VSequenced(sessionID, messageID string, seq int64, payload []byte, chunked, first, last bool) (*SequencedMessage, error) {
	m := &SequencedMessage{sessionID: sessionID, messageID: messageID, seq: seq, payload: payload, chunked: chunked, firstChunk: chunked && first, lastChunk: chunked && last}
	return m, m.validate()
}

func VRequest(sessionID, nonce string, confirmedSeq, requestUpToSeq int64, viaTimeout bool) (*Request, error) {
	m := &Request{sessionID: sessionID, registrationNonce: nonce, confirmedSeq: confirmedSeq, requestUpToSeq: requestUpToSeq, viaTimeout: viaTimeout}
	return m, m.validate()
}

func VAck(sessionID, nonce string, confirmedSeq int64) (*Ack, error) {
	m := &Ack{sessionID: sessionID, registrationNonce: nonce, confirmedSeq: confirmedSeq}
	return m, m.validate()
}

func VRegistrationAck(sessionID string, nextSeq int64, nonce string) (*RegistrationAck, error) {
	m := &RegistrationAck{sessionID: sessionID, nextSeq: nextSeq, nonce: nonce}
	return m, m.validate()
}

func VRegisterConsumer(nonce string) (*RegisterConsumer, error) {
	m := &RegisterConsumer{nonce: nonce}
	return m, m.validate()
}
