//go:build verif

package commands

import (
	"errors"
	"strings"

	"google.golang.org/protobuf/proto"

	"github.com/tochemey/goakt/v4/internal/internalpb"
	"github.com/tochemey/goakt/v4/remote"
)

func init() {
	vRegister("vC25_delivery_roundtrip", vC25_delivery_roundtrip)
	vRegister("vC25_delivery_decode_any", vC25_delivery_decode_any)
	vRegister("vC25_delivery_reject", vC25_delivery_reject)
}

// protobuf, opaque: the envelope travels through a harness global; the wire bytes are one marker byte.
// Contract: Unmarshal(Marshal(e)) yields an envelope with the same Command.
var vC25_wire *internalpb.DeliveryEnvelope
var vC25_errWire = errors.New("harness: not an encoded envelope")

func vC25_marshalAppend(_ proto.MarshalOptions, b []byte, m proto.Message) ([]byte, error) {
	vC25_wire = m.(*internalpb.DeliveryEnvelope)
	return append(b, 0x01), nil
}

func vC25_unmarshal(b []byte, m proto.Message) error {
	if len(b) != 1 || b[0] != 0x01 || vC25_wire == nil {
		return vC25_errWire
	}
	m.(*internalpb.DeliveryEnvelope).Command = vC25_wire.Command
	return nil
}

// types.IsNil without reflection, for the value universe of this harness
func vC25_isNil(v any) bool {
	switch x := v.(type) {
	case nil:
		return true
	case *RegisterConsumer:
		return x == nil
	case *RegistrationAck:
		return x == nil
	case *Request:
		return x == nil
	case *Ack:
		return x == nil
	case *SequencedMessage:
		return x == nil
	case remote.Serializer:
		return x == nil
	}
	return false
}

func vC25_blank(s string) bool { return strings.TrimSpace(s) == "" }

func vC25_bytesEq(a, b []byte) bool {
	if len(a) != len(b) {
		return false
	}
	for i := range a {
		if a[i] != b[i] {
			return false
		}
	}
	return true
}

// every reliable-delivery command: Serialize succeeds exactly for valid commands, and Deserialize gives back equal fields
func vC25_delivery_roundtrip() {
	sid, nonce, mid := vNondetString("sessionID", 2), vNondetString("nonce", 2), vNondetString("messageID", 2)
	a, b := vNondetInt64("seqA"), vNondetInt64("seqB")
	f1, f2, f3 := vNondetBool("flag1"), vNondetBool("flag2"), vNondetBool("flag3")
	payload := vNondetBytes("payload", 2)
	s := &DeliverySerializer{}
	var m any
	valid := false
	kind := vCase("command")
	switch kind {
	case 0:
		m, valid = &RegisterConsumer{nonce: nonce}, !vC25_blank(nonce)
	case 1:
		m, valid = &RegistrationAck{sessionID: sid, nextSeq: a, nonce: nonce}, !vC25_blank(sid) && a > 0 && !vC25_blank(nonce)
	case 2:
		m, valid = &Request{sessionID: sid, registrationNonce: nonce, confirmedSeq: a, requestUpToSeq: b, viaTimeout: f1}, !vC25_blank(sid) && !vC25_blank(nonce) && a >= 0 && b >= a
	case 3:
		m, valid = &Ack{sessionID: sid, registrationNonce: nonce, confirmedSeq: a}, !vC25_blank(sid) && !vC25_blank(nonce) && a >= 0
	default:
		m, valid = &SequencedMessage{sessionID: sid, messageID: mid, seq: a, payload: payload, chunked: f1, firstChunk: f2, lastChunk: f3}, !vC25_blank(sid) && !vC25_blank(mid) && a > 0 && len(payload) > 0
	}
	frame, err := s.Serialize(m)
	vAssert((err == nil) == valid, "a command is serialized exactly when it is valid")
	if err != nil {
		vAssert(frame == nil, "no bytes for an invalid command")
		vCover("invalid")
		return
	}
	vAssert(len(frame) > 8 && vC25_bytesEq(frame[:8], deliveryFrameMagic[:]), "the frame starts with the delivery magic")
	got, err := s.Deserialize(frame)
	vAssert(err == nil, "a serialized command deserializes")
	if err != nil {
		return
	}
	known := true
	switch g := got.(type) {
	case *RegisterConsumer:
		vAssert(kind == 0 && g.Nonce() == nonce, "RegisterConsumer survives")
	case *RegistrationAck:
		vAssert(kind == 1 && g.SessionID() == sid && g.NextSeq() == a && g.Nonce() == nonce, "RegistrationAck survives")
	case *Request:
		vAssert(kind == 2 && g.SessionID() == sid && g.RegistrationNonce() == nonce && g.ConfirmedSeq() == a && g.RequestUpToSeq() == b && g.ViaTimeout() == f1, "Request survives")
	case *Ack:
		vAssert(kind == 3 && g.SessionID() == sid && g.RegistrationNonce() == nonce && g.ConfirmedSeq() == a, "Ack survives")
	case *SequencedMessage:
		vAssert(kind == 4 && g.sessionID == sid && g.messageID == mid && g.seq == a && vC25_bytesEq(g.payload, payload), "SequencedMessage survives")
		vAssert(g.chunked == f1 && (!f1 || (g.firstChunk == f2 && g.lastChunk == f3)), "chunk markers survive")
		if f1 {
			vCover("chunked")
		}
	default:
		known = false
	}
	vAssert(known, "the decoded value is a delivery command")
	vCover("end")
}

// whatever envelope protobuf decodes (any command kind, sub-messages possibly absent, any field values): no panic, and
// a command is returned only if it is valid
func vC25_delivery_decode_any() {
	sid, nonce := vNondetString("sessionID", 2), vNondetString("nonce", 2)
	a, b := vNondetInt64("seqA"), vNondetInt64("seqB")
	absent := vNondetBool("subMessageAbsent")
	e := &internalpb.DeliveryEnvelope{}
	switch vCase("command") {
	case 0:
		c := &internalpb.DeliveryEnvelope_RegisterConsumer{}
		if !absent {
			c.RegisterConsumer = &internalpb.RegisterConsumer{Nonce: nonce}
		}
		e.Command = c
	case 1:
		c := &internalpb.DeliveryEnvelope_RegistrationAck{}
		if !absent {
			c.RegistrationAck = &internalpb.RegistrationAck{SessionId: sid, NextSeq: a, Nonce: nonce}
		}
		e.Command = c
	case 2:
		c := &internalpb.DeliveryEnvelope_Request{}
		if !absent {
			c.Request = &internalpb.Request{SessionId: sid, RegistrationNonce: nonce, ConfirmedSeq: a, RequestUpToSeq: b}
		}
		e.Command = c
	case 3:
		c := &internalpb.DeliveryEnvelope_Ack{}
		if !absent {
			c.Ack = &internalpb.Ack{SessionId: sid, RegistrationNonce: nonce, ConfirmedSeq: a}
		}
		e.Command = c
	case 4:
		c := &internalpb.DeliveryEnvelope_SequencedMessage{}
		if !absent {
			sm := &internalpb.SequencedMessage{SessionId: sid, MessageId: nonce, Seq: a}
			if vNondetBool("withPayload") {
				sm.Payload = &internalpb.ReliablePayload{Data: vNondetBytes("payload", 2)}
			}
			if vNondetBool("withChunkInfo") {
				sm.ChunkInfo = &internalpb.ChunkInfo{First: vNondetBool("first"), Last: vNondetBool("last")}
			}
			c.SequencedMessage = sm
		}
		e.Command = c
	default: // no command at all
	}
	vC25_wire = e
	frame := append(append([]byte{}, deliveryFrameMagic[:]...), 0x01)
	got, err := (&DeliverySerializer{}).Deserialize(frame)
	if err != nil {
		vAssert(vC25_isNil(got), "no command on error")
		vCover("rejected")
	} else {
		vAssert(!absent && !vC25_isNil(got), "a command is only returned for a complete envelope")
		// what comes back can be serialized again (it passed the same validation)
		_, err2 := (&DeliverySerializer{}).Serialize(got)
		vAssert(err2 == nil, "a decoded command is valid")
		vCover("accepted")
	}
	vCover("end")
}

func vC25_delivery_reject() {
	s := &DeliverySerializer{}
	vC25_wire = nil
	data := vNondetBytes("data", 10)
	got, err := s.Deserialize(data)
	vAssert(err != nil && vC25_isNil(got), "bytes that are not an encoded delivery envelope are refused")
	if len(data) < 8 || !vC25_bytesEq(data[:8], deliveryFrameMagic[:]) {
		vAssert(err == errNotDeliveryFrame, "without the magic prefix the error is errNotDeliveryFrame")
		vCover("no-magic")
	} else {
		vCover("magic")
	}
	b, err := s.Serialize(&struct{ X int }{vNondetInt("x")})
	vAssert(b == nil && err == errNotDeliveryFrame, "a value that is no delivery command yields errNotDeliveryFrame and no bytes")
	b, err = s.Serialize(nil)
	vAssert(b == nil && err != nil, "nil yields an error and no bytes")
	b, err = s.Serialize((*Ack)(nil))
	vAssert(b == nil && err != nil, "a typed nil command yields an error and no bytes")
	vCover("end")
}
