//go:build verif

package queue

func init() {
	vRegister("vC20_mpsc", vC20_mpsc)
	vRegister("vC20_mpmc", vC20_mpmc)
	vRegister("vC20_dbg1", vC20_dbg1)
	vRegister("vC20_dbg2", vC20_dbg2)
}

// two producers (2 + 1 items) and one consumer
func vC20_mpsc() {
	q := NewQueue()
	var got [3]int
	n := 0
	vGo("p1", func() { q.Enqueue(11); q.Enqueue(12) })
	vGo("p2", func() { q.Enqueue(21) })
	vGo("c", func() {
		for i := 0; i < 3; i++ {
			v := q.Dequeue()
			if v != nil {
				got[n] = v.(int)
				n++
			}
		}
	})
	vRun()
	vAssume(vAllDone())
	// drain what is left sequentially (quiescent state)
	for i := 0; i < 3; i++ {
		v := q.Dequeue()
		if v != nil && n < 3 {
			got[n] = v.(int)
			n++
		}
	}
	vAssert(n == 3, "every published event is consumed exactly once (none lost)")
	c11, c12, c21 := 0, 0, 0
	i11, i12 := -1, -1
	for i := 0; i < n; i++ {
		switch got[i] {
		case 11:
			c11++
			i11 = i
		case 12:
			c12++
			i12 = i
		case 21:
			c21++
		}
	}
	vAssert(c11 == 1 && c12 == 1 && c21 == 1, "no event is duplicated or invented")
	vAssert(i11 < i12, "events of one publisher are consumed in publish order")
	vAssert(q.Length() == 0, "length returns to zero")
	vCover("end")
}

// two concurrent consumers of the same queue
func vC20_mpmc() {
	q := NewQueue()
	var gotA, gotB int
	vGo("p1", func() { q.Enqueue(11); q.Enqueue(12) })
	vGo("cA", func() {
		if v := q.Dequeue(); v != nil {
			gotA = v.(int)
		} else {
			gotA = -1
		}
	})
	vGo("cB", func() {
		if v := q.Dequeue(); v != nil {
			gotB = v.(int)
		} else {
			gotB = -1
		}
	})
	vRun()
	vAssume(vAllDone())
	rest := 0
	for i := 0; i < 2; i++ {
		if v := q.Dequeue(); v != nil {
			rest++
		}
	}
	cons := 0
	if gotA > 0 {
		cons++
	}
	if gotB > 0 {
		cons++
	}
	vAssert(gotA != 0 && gotB != 0, "a consumer never receives a cleared (nil) event")
	vAssert(cons+rest == 2, "with two concurrent consumers no event is lost")
	vAssert(gotA <= 0 || gotA != gotB, "with two concurrent consumers no event is delivered twice")
	vCover("end")
}

func vC20_dbg1() {
	q := NewQueue()
	vGo("p1", func() { q.Enqueue(11) })
	vRun()
	vAssume(vAllDone())
	v := q.Dequeue()
	vAssert(v != nil, "DBG1 got something")
	if v != nil {
		vAssert(v.(int) == 11, "DBG1 got 11")
	}
	vAssert(q.Length() == 0, "DBG1 len 0")
	vCover("end")
}

func vC20_dbg2() {
	q := NewQueue()
	got := 0
	vGo("p1", func() { q.Enqueue(11) })
	vGo("c", func() {
		v := q.Dequeue()
		if v != nil {
			got = v.(int)
		}
	})
	vRun()
	vAssume(vAllDone())
	if got == 0 {
		v := q.Dequeue()
		vAssert(v != nil, "DBG2 left in queue")
		vCover("late")
	} else {
		vAssert(got == 11, "DBG2 got 11")
		vCover("early")
	}
	vCover("end")
}
