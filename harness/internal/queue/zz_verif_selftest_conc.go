//go:build verif

package queue

import (
	"sync"
	"sync/atomic"
)

func init() {
	vRegister("vST_atomic", vST_atomic)
	vRegister("vST_race", vST_race)
	vRegister("vST_mutex", vST_mutex)
	vRegister("vST_chan", vST_chan)
	vRegister("vST_join", vST_join)
	vRegister("vST_join2", vST_join2)
}

func vST_atomic() {
	var x int64
	vGo("a", func() { atomic.AddInt64(&x, 1) })
	vGo("b", func() { atomic.AddInt64(&x, 1) })
	vRun()
	vAssume(vAllDone())
	vAssert(x == 2, "two atomic increments are never lost")
	vCover("end")
}

func vST_race() {
	var x int64
	vGo("a", func() { t := atomic.LoadInt64(&x); atomic.StoreInt64(&x, t+1) })
	vGo("b", func() { t := atomic.LoadInt64(&x); atomic.StoreInt64(&x, t+1) })
	vRun()
	vAssume(vAllDone())
	vAssert(x == 2, "EXPECTED-VIOLATION load/store increments can be lost")
	vCover("end")
}

func vST_mutex() {
	var x int64
	var mu sync.Mutex
	f := func() {
		mu.Lock()
		x = x + 1
		mu.Unlock()
	}
	vGo("a", f)
	vGo("b", f)
	vGo("c", f)
	vRun()
	vAssume(vAllDone())
	vAssert(x == 3, "increments under a mutex are never lost")
	vCover("end")
}

func vST_chan() {
	ch := make(chan int, 1)
	var got [2]int
	vGo("prod", func() { ch <- 7; ch <- 9 })
	vGo("cons", func() { got[0] = <-ch; got[1] = <-ch })
	vRun()
	vAssume(vAllDone())
	vAssert(got[0] == 7 && got[1] == 9, "a channel is FIFO")
	vCover("end")
}

type vSTcall struct {
	dups  int
	chans []chan int
}
type vSTgroup struct {
	mu sync.Mutex
	m  map[string]*vSTcall
}

var vST_mark [8]bool

func vST_join() {
	vST_mark = [8]bool{}
	g := &vSTgroup{}
	hit := false
	got := 0
	mode := vCase("mode")
	vGo("a", func() {
		ch := make(chan int, 1)
		g.mu.Lock()
		if mode != 4 {
			if g.m == nil {
				g.m = make(map[string]*vSTcall)
			}
		} else {
			g.m = make(map[string]*vSTcall)
		}
		c := &vSTcall{chans: []chan int{ch}}
		g.m["k"] = c
		g.mu.Unlock()
		vYield()
		g.mu.Lock()
		vST_mark[0] = true
		delete(g.m, "k")
		vST_mark[1] = true
		if mode != 3 {
			n := len(c.chans)
			vST_mark[2] = true
			if n == 2 {
				vST_mark[3] = true
			}
			for _, x := range c.chans {
				vST_mark[4] = true
				x <- 7
				vST_mark[5] = true
			}
		}
		vST_mark[6] = true
		g.mu.Unlock()
		if mode != 1 && mode != 3 {
			<-ch
		}
	})
	vGo("b", func() {
		ch := make(chan int, 1)
		g.mu.Lock()
		if mode != 4 {
			if g.m == nil {
				g.m = make(map[string]*vSTcall)
			}
		}
		if c, ok := g.m["k"]; ok {
			hit = true
			c.dups++
			c.chans = append(c.chans, ch)
			g.mu.Unlock()
			if mode != 2 && mode != 3 {
				got = <-ch
			}
			return
		}
		g.mu.Unlock()
	})
	vRun()
	if hit && vThreadDone(0) {
		vCover("hit-a-done")
	}
	if hit && vThreadDone(1) {
		vCover("hit-b-done")
	}
	if hit && vAllDone() {
		vCover("joined-and-done")
	}
	if hit && vThreadDone(1) {
		if vST_mark[0] {
			vCover("m0")
		}
		if vST_mark[1] {
			vCover("m1")
		}
		if vST_mark[2] {
			vCover("m2")
		}
		if vST_mark[3] {
			vCover("m3")
		}
		if vST_mark[4] {
			vCover("m4")
		}
		if vST_mark[5] {
			vCover("m5")
		}
		if vST_mark[6] {
			vCover("m6")
		}
	}
	_ = got
	vCover("end")
}

func vST_join2() {
	g := &vSTgroup{}
	hit := false
	step := vCase("step")
	vGo("a", func() {
		g.mu.Lock()
		g.m = make(map[string]*vSTcall)
		c := &vSTcall{chans: []chan int{make(chan int, 1)}}
		g.m["k"] = c
		g.mu.Unlock()
		vYield()
		g.mu.Lock()
		delete(g.m, "k")
		g.mu.Unlock()
	})
	vGo("b", func() {
		ch := make(chan int, 1)
		g.mu.Lock()
		if c, ok := g.m["k"]; ok {
			hit = true
			if step >= 1 {
				c.dups++
			}
			if step >= 2 {
				_ = len(c.chans)
			}
			if step >= 3 {
				c.chans = append(c.chans, ch)
			}
		}
		g.mu.Unlock()
	})
	vRun()
	if hit && vAllDone() {
		vCover("hit-done")
	}
	vCover("end")
}
