//go:build verif

package queue

import (
	"sync"
	"sync/atomic"
)

func init() {
	vRegister("vST_atomic", vST_atomic)
	vRegister("vST_race", vST_race)
	vRegister("vST_mutex", vST_mutex)
	vRegister("vST_chan", vST_chan)
}

func vST_atomic() {
	var x int64
	vGo("a", func() { atomic.AddInt64(&x, 1) })
	vGo("b", func() { atomic.AddInt64(&x, 1) })
	vRun()
	vAssume(vAllDone())
	vAssert(x == 2, "two atomic increments are never lost")
	vCover("end")
}

func vST_race() {
	var x int64
	vGo("a", func() { t := atomic.LoadInt64(&x); atomic.StoreInt64(&x, t+1) })
	vGo("b", func() { t := atomic.LoadInt64(&x); atomic.StoreInt64(&x, t+1) })
	vRun()
	vAssume(vAllDone())
	vAssert(x == 2, "EXPECTED-VIOLATION load/store increments can be lost")
	vCover("end")
}

func vST_mutex() {
	var x int64
	var mu sync.Mutex
	f := func() {
		mu.Lock()
		x = x + 1
		mu.Unlock()
	}
	vGo("a", f)
	vGo("b", f)
	vGo("c", f)
	vRun()
	vAssume(vAllDone())
	vAssert(x == 3, "increments under a mutex are never lost")
	vCover("end")
}

func vST_chan() {
	ch := make(chan int, 1)
	var got [2]int
	vGo("prod", func() { ch <- 7; ch <- 9 })
	vGo("cons", func() { got[0] = <-ch; got[1] = <-ch })
	vRun()
	vAssume(vAllDone())
	vAssert(got[0] == 7 && got[1] == 9, "a channel is FIFO")
	vCover("end")
}
