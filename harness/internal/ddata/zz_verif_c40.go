//go:build verif

package ddata

import (
	"errors"

	"github.com/tochemey/goakt/v4/crdt"
	"github.com/tochemey/goakt/v4/internal/internalpb"
)

// C40: decode(encode(x)) has the same observable value and the same causal metadata as x, for ARBITRARY raw states
// (a superset of the reachable ones) built with the exported FromState / FromRawState constructors.

func init() {
	vRegister("vC40_counters", vC40_counters)
	vRegister("vC40_flag_lww", vC40_flag_lww)
	vRegister("vC40_mvregister", vC40_mvregister)
	vRegister("vC40_orset", vC40_orset)
	vRegister("vC40_orset_merge", vC40_orset_merge)
	vRegister("vC40_ormap", vC40_ormap)
	vRegister("vC40_reject", vC40_reject)
}

// element / register value serializer standing for the serializer contract: an exact inverse pair on ints 0..65535
type vC40Ser struct{}

var vC40_errSer = errors.New("vC40: unsupported value")

func (vC40Ser) Serialize(m any) ([]byte, error) {
	v, ok := m.(int)
	if !ok || v < 0 || v > 65535 {
		return nil, vC40_errSer
	}
	return []byte{byte(v), byte(v >> 8)}, nil
}

func (vC40Ser) Deserialize(b []byte) (any, error) {
	if len(b) != 2 {
		return nil, vC40_errSer
	}
	return int(b[0]) | int(b[1])<<8, nil
}

var vC40_nodes = [3]string{"a", "b", "c"}

func vC40_value(name string) int {
	v := vNondetInt(name)
	vAssume(v >= 0 && v <= 65535)
	return v
}

// arbitrary node -> count map over {a,b,c} with its snapshot
func vC40_clock() (map[string]uint64, [3]uint64, [3]bool) {
	m := make(map[string]uint64)
	var s [3]uint64
	var p [3]bool
	for i := 0; i < 3; i++ {
		if vNondetBool("present") {
			v := vNondetUint64("count")
			m[vC40_nodes[i]] = v
			s[i], p[i] = v, true
		}
	}
	return m, s, p
}

func vC40_clockIs(m map[string]uint64, s [3]uint64, p [3]bool) bool {
	n := 0
	for i := 0; i < 3; i++ {
		v, ok := m[vC40_nodes[i]]
		if ok != p[i] || v != s[i] {
			return false
		}
		if ok {
			n++
		}
	}
	return len(m) == n
}

func vC40_roundtrip(x crdt.ReplicatedData) (*internalpb.CRDTData, crdt.ReplicatedData) {
	pb, err := EncodeCRDT(x, vC40Ser{})
	vAssert(err == nil && pb != nil, "a supported CRDT value encodes")
	y, err := DecodeCRDT(pb, vC40Ser{})
	vAssert(err == nil && y != nil, "the encoding of a CRDT value decodes")
	return pb, y
}

// ---------------------------------------------------------------- GCounter, PNCounter

func vC40_counters() {
	inc, si, pi := vC40_clock()
	dec, sd, pd := vC40_clock()
	g := crdt.GCounterFromState(inc)
	pb, y := vC40_roundtrip(g)
	_, isG := pb.Type.(*internalpb.CRDTData_GCounter)
	g2, ok := y.(*crdt.GCounter)
	vAssert(isG && ok, "a GCounter is encoded and decoded as a GCounter")
	if ok {
		vAssert(vC40_clockIs(g2.State(), si, pi), "a decoded GCounter has exactly the per-node counts of the original")
		vAssert(g2.Value() == g.Value(), "a decoded GCounter has the value of the original")
	}
	p := crdt.PNCounterFromState(inc, dec)
	pb, y = vC40_roundtrip(p)
	_, isP := pb.Type.(*internalpb.CRDTData_PnCounter)
	p2, ok := y.(*crdt.PNCounter)
	vAssert(isP && ok, "a PNCounter is encoded and decoded as a PNCounter")
	if ok {
		i2, d2 := p2.State()
		vAssert(vC40_clockIs(i2, si, pi) && vC40_clockIs(d2, sd, pd), "a decoded PNCounter has exactly the increments and the decrements of the original (never swapped)")
		vAssert(p2.Value() == p.Value(), "a decoded PNCounter has the value of the original")
	}
	if pi[0] && pd[1] && si[0] != sd[0] {
		vCover("increments-differ-from-decrements")
	}
	vCover("end")
}

// ---------------------------------------------------------------- Flag, LWWRegister

func vC40_flag_lww() {
	en := vNondetBool("enabled")
	pb, y := vC40_roundtrip(crdt.FlagFromState(en))
	_, isF := pb.Type.(*internalpb.CRDTData_Flag)
	f2, ok := y.(*crdt.Flag)
	vAssert(isF && ok, "a Flag is encoded and decoded as a Flag")
	if ok {
		vAssert(f2.Enabled() == en, "a decoded Flag has the value of the original")
	}
	val, ts, node := vC40_value("val"), vNondetInt64("ts"), vNondetString("node", 3)
	r := crdt.LWWRegisterFromState(any(val), ts, node)
	pb, y = vC40_roundtrip(r)
	_, isL := pb.Type.(*internalpb.CRDTData_LwwRegister)
	r2, ok := y.(*crdt.LWWRegister)
	vAssert(isL && ok, "an LWWRegister is encoded and decoded as an LWWRegister")
	if ok {
		vAssert(r2.Value() == any(val) && r2.Timestamp() == ts && r2.NodeID() == node, "a decoded LWWRegister has the value, timestamp and node of the original")
		// merging the decoded register behaves like merging the original
		o := crdt.LWWRegisterFromState(any(vC40_value("val2")), vNondetInt64("ts2"), vNondetString("node2", 3))
		m1, m2 := r.Merge(o).(*crdt.LWWRegister), r2.Merge(o).(*crdt.LWWRegister)
		vAssert(m1.Value() == m2.Value() && m1.Timestamp() == m2.Timestamp() && m1.NodeID() == m2.NodeID(), "merging a decoded LWWRegister gives what merging the original gives")
	}
	if en && ts < 0 {
		vCover("enabled-flag-and-negative-timestamp")
	}
	vCover("end")
}

// ---------------------------------------------------------------- MVRegister

func vC40_mvregister() {
	n := vNondetInt("entries")
	vAssume(n >= 0 && n <= 3)
	var ents [3]crdt.MVEntry
	for i := 0; i < 3; i++ {
		ents[i] = crdt.MVEntry{Value: any(vC40_value("val")), Dot: crdt.Dot{NodeID: vNondetStringN("node", 1), Counter: vNondetUint64("counter")}}
	}
	clk, sc, pc := vC40_clock()
	r := crdt.MVRegisterFromRawState(ents[:n], clk)
	pb, y := vC40_roundtrip(r)
	_, isM := pb.Type.(*internalpb.CRDTData_MvRegister)
	r2, ok := y.(*crdt.MVRegister)
	vAssert(isM && ok, "an MVRegister is encoded and decoded as an MVRegister")
	if ok {
		e2, c2 := r2.RawState()
		vAssert(len(e2) == n, "a decoded MVRegister has as many entries as the original")
		for i := 0; i < 3; i++ {
			if i < n && i < len(e2) {
				vAssert(e2[i].Value == ents[i].Value && e2[i].Dot == ents[i].Dot, "every entry of a decoded MVRegister has the value and the dot of the original")
			}
		}
		vAssert(vC40_clockIs(c2, sc, pc), "a decoded MVRegister has exactly the clock of the original")
		vAssert(len(r2.Values()) == len(r.Values()), "a decoded MVRegister exposes as many values as the original")
	}
	if n == 2 && pc[0] && pc[2] {
		vCover("two-concurrent-values")
	}
	vCover("end")
}

// ---------------------------------------------------------------- ORSet

var vC40_elems = [2]any{any(1), any(2)}

const vC40_maxDots = 2

type vC40_setS struct {
	n    [2]int
	dots [2][vC40_maxDots]crdt.Dot
}

// arbitrary dot lists (0..2 dots) for the two elements
func vC40_entries() ([]crdt.Entry, vC40_setS) {
	var s vC40_setS
	out := make([]crdt.Entry, 0, 2)
	for e := 0; e < 2; e++ {
		n := vNondetInt("dots")
		vAssume(n >= 0 && n <= vC40_maxDots)
		s.n[e] = n
		var ds [vC40_maxDots]crdt.Dot
		for i := 0; i < vC40_maxDots; i++ {
			ds[i] = crdt.Dot{NodeID: vNondetStringN("node", 1), Counter: vNondetUint64("counter")}
			if i < n {
				s.dots[e][i] = ds[i]
			}
		}
		if n > 0 {
			out = append(out, crdt.Entry{Element: vC40_elems[e], Dots: ds[:n]})
		}
	}
	return out, s
}

func vC40_entriesOf(entries []crdt.Entry) (vC40_setS, bool) {
	var s vC40_setS
	clean := len(entries) <= 2
	for k := 0; k < len(entries); k++ {
		e := -1
		if entries[k].Element == vC40_elems[0] {
			e = 0
		}
		if entries[k].Element == vC40_elems[1] {
			e = 1
		}
		if e < 0 || s.n[e] != 0 || len(entries[k].Dots) == 0 || len(entries[k].Dots) > vC40_maxDots {
			clean = false
		} else {
			s.n[e] = len(entries[k].Dots)
			for i := 0; i < vC40_maxDots; i++ {
				if i < len(entries[k].Dots) {
					s.dots[e][i] = entries[k].Dots[i]
				}
			}
		}
	}
	return s, clean
}

func vC40_orset() {
	ents, se := vC40_entries()
	clk, sc, pc := vC40_clock()
	x := crdt.ORSetFromRawState(ents, clk)
	pb, y := vC40_roundtrip(x)
	_, isS := pb.Type.(*internalpb.CRDTData_OrSet)
	x2, ok := y.(*crdt.ORSet)
	vAssert(isS && ok, "an ORSet is encoded and decoded as an ORSet")
	if ok {
		e2, c2 := x2.RawState()
		s2, clean := vC40_entriesOf(e2)
		vAssert(clean && s2 == se, "a decoded ORSet has exactly the elements and, per element, the dots of the original")
		vAssert(vC40_clockIs(c2, sc, pc), "a decoded ORSet has exactly the clock of the original")
		vAssert(x2.Contains(vC40_elems[0]) == x.Contains(vC40_elems[0]) && x2.Contains(vC40_elems[1]) == x.Contains(vC40_elems[1]) && x2.Len() == x.Len(), "a decoded ORSet has the members of the original")
	}
	if se.n[0] == 2 && se.n[1] == 1 && pc[1] {
		vCover("two-elements-three-dots")
	}
	vCover("end")
}

// merging the decoded set behaves like merging the original. The number of dots per element is fixed per job
// (vCase("shape") selects {x.e1, x.e2, other.e1, other.e2}); dot i of an element belongs to node i; counters and
// clocks are arbitrary.
var vC40_shapes = [8][4]int{{1, 0, 1, 0}, {1, 1, 0, 1}, {2, 0, 1, 0}, {1, 0, 2, 0}, {2, 1, 1, 1}, {1, 2, 2, 0}, {2, 2, 1, 1}, {2, 2, 2, 2}}

func vC40_entriesN(n0, n1 int) []crdt.Entry {
	out := make([]crdt.Entry, 0, 2)
	cnt := [2]int{n0, n1}
	for e := 0; e < 2; e++ {
		if cnt[e] > 0 {
			ds := make([]crdt.Dot, cnt[e])
			for i := 0; i < cnt[e]; i++ {
				ds[i] = crdt.Dot{NodeID: vC40_nodes[i], Counter: vNondetUint64("counter")}
			}
			out = append(out, crdt.Entry{Element: vC40_elems[e], Dots: ds})
		}
	}
	return out
}

func vC40_orset_merge() {
	sh := vC40_shapes[vCase("shape")]
	clk, _, _ := vC40_clock()
	x := crdt.ORSetFromRawState(vC40_entriesN(sh[0], sh[1]), clk)
	_, y := vC40_roundtrip(x)
	x2, ok := y.(*crdt.ORSet)
	vAssert(ok, "an ORSet is decoded as an ORSet")
	if ok {
		oc, _, _ := vC40_clock()
		o := crdt.ORSetFromRawState(vC40_entriesN(sh[2], sh[3]), oc)
		m1e, m1c := x.Merge(o).(*crdt.ORSet).RawState()
		m2e, m2c := x2.Merge(o).(*crdt.ORSet).RawState()
		s1, _ := vC40_entriesOf(m1e)
		s2, _ := vC40_entriesOf(m2e)
		vAssert(s1 == s2, "merging a decoded ORSet yields the elements and dots that merging the original yields")
		for i := 0; i < 3; i++ {
			vAssert(m1c[vC40_nodes[i]] == m2c[vC40_nodes[i]], "merging a decoded ORSet yields the clock that merging the original yields")
		}
		if s1.n[0] < sh[0] {
			vCover("merge-drops-an-observed-dot")
		}
	}
	vCover("end")
}

// ---------------------------------------------------------------- ORMap (k1 -> GCounter, k2 -> PNCounter)

func vC40_ormap() {
	ents, se := vC40_entries()
	clk, sc, pc := vC40_clock()
	vals := make(map[any]crdt.ReplicatedData)
	g1, sg1, pg1 := vC40_clock()
	i2, si2, pi2 := vC40_clock()
	d2, sd2, pd2 := vC40_clock()
	has1, has2 := vNondetBool("hasValue1"), vNondetBool("hasValue2")
	if has1 {
		vals[vC40_elems[0]] = crdt.GCounterFromState(g1)
	}
	if has2 {
		vals[vC40_elems[1]] = crdt.PNCounterFromState(i2, d2)
	}
	x := crdt.ORMapFromRawState(crdt.ORMapRawState{KeyEntries: ents, KeyClock: clk, Values: vals})
	pb, y := vC40_roundtrip(x)
	_, isM := pb.Type.(*internalpb.CRDTData_OrMap)
	x2, ok := y.(*crdt.ORMap)
	vAssert(isM && ok, "an ORMap is encoded and decoded as an ORMap")
	if ok {
		st := x2.RawState()
		s2, clean := vC40_entriesOf(st.KeyEntries)
		vAssert(clean && s2 == se, "a decoded ORMap has exactly the keys and key dots of the original")
		vAssert(vC40_clockIs(st.KeyClock, sc, pc), "a decoded ORMap has exactly the key clock of the original")
		v1, ok1 := st.Values[vC40_elems[0]]
		v2, ok2 := st.Values[vC40_elems[1]]
		vAssert(ok1 == has1 && ok2 == has2 && len(st.Values) == len(vals), "a decoded ORMap stores a value for exactly the keys the original stores one for")
		if ok1 {
			g, isG := v1.(*crdt.GCounter)
			vAssert(isG, "a GCounter value of an ORMap is decoded as a GCounter")
			if isG {
				vAssert(vC40_clockIs(g.State(), sg1, pg1), "a GCounter value of a decoded ORMap has the per-node counts of the original")
			}
		}
		if ok2 {
			p, isP := v2.(*crdt.PNCounter)
			vAssert(isP, "a PNCounter value of an ORMap is decoded as a PNCounter")
			if isP {
				pi, pd := p.State()
				vAssert(vC40_clockIs(pi, si2, pi2) && vC40_clockIs(pd, sd2, pd2), "a PNCounter value of a decoded ORMap has the increments and decrements of the original")
			}
		}
		for e := 0; e < 2; e++ {
			_, g1ok := x.Get(vC40_elems[e])
			_, g2ok := x2.Get(vC40_elems[e])
			vAssert(g1ok == g2ok, "Get finds the same keys in a decoded ORMap as in the original")
		}
		vAssert(x2.Len() == x.Len(), "a decoded ORMap has as many keys as the original")
	}
	if has1 && has2 && se.n[0] > 0 && se.n[1] > 0 && pg1[0] && pd2[1] {
		vCover("two-keys-with-values")
	}
	if has1 && se.n[0] == 0 {
		vCover("value-without-live-key")
	}
	vCover("end")
}

// ---------------------------------------------------------------- rejection

type vC40Other struct{}

func (vC40Other) Merge(o crdt.ReplicatedData) crdt.ReplicatedData { return o }
func (vC40Other) Delta() crdt.ReplicatedData                      { return nil }
func (vC40Other) ResetDelta()                                     {}
func (vC40Other) Clone() crdt.ReplicatedData                      { return vC40Other{} }

func vC40_reject() {
	pb, err := EncodeCRDT(vC40Other{}, vC40Ser{})
	vAssert(err != nil && pb == nil, "an unknown CRDT type is rejected by the encoder")
	y, err := DecodeCRDT(nil, vC40Ser{})
	vAssert(err != nil && y == nil, "a missing payload is rejected by the decoder")
	y, err = DecodeCRDT(&internalpb.CRDTData{}, vC40Ser{})
	vAssert(err != nil && y == nil, "a payload without a type is rejected by the decoder")
	// a value the serializer refuses makes encode fail (no half-built payload)
	bad := crdt.LWWRegisterFromState(any("text"), 1, "a")
	pb, err = EncodeCRDT(bad, vC40Ser{})
	vAssert(err != nil && pb == nil, "a register value the serializer refuses makes the encoder fail")
	// element bytes the serializer refuses make decode fail
	junk := &internalpb.CRDTData{Type: &internalpb.CRDTData_OrSet{OrSet: &internalpb.ORSetData{Entries: []*internalpb.ORSetData_ORSetEntry{{Element: vNondetBytes("element", 3)}}}}}
	y, err = DecodeCRDT(junk, vC40Ser{})
	if len(junk.GetOrSet().GetEntries()[0].GetElement()) != 2 {
		vAssert(err != nil, "element bytes the serializer refuses make the decoder fail")
		vCover("bad-element")
	} else {
		vAssert(err == nil && y != nil, "well-formed element bytes decode")
	}
	vCover("end")
}
