//go:build verif

package xsync

func init() {
	vRegister("vC48_history4", vC48_history4)
	vRegister("vC48_history6", vC48_history6)
	vRegister("vC48_history3", vC48_history3)
	vRegister("vC48_step", vC48_step)
}

var vC48_now int64

// arbitrary non-decreasing clock (each reading advances by an arbitrary amount >= 0)
func vC48_clock() int64 {
	d := vNondetInt64("dt")
	vAssume(d >= 0 && d < 1<<40)
	vC48_now += d
	return vC48_now
}

func vC48_history3() { vC48_history(3) }
func vC48_history4() { vC48_history(4) }
func vC48_history6() { vC48_history(6) }

// history of K operations against a reference map key -> (value, expireAt)
func vC48_history(K int) {
	ttl := vNondetInt64("ttl")
	vAssume(ttl > 0 && ttl < 1<<40)
	vC48_now = 0
	m := &TTLMap[int, int]{ttl: ttl, now: vC48_clock, items: make(map[int]int), order: make([]ttlEntry[int, int], 0, 2)}
	var live [3]bool
	var val [3]int
	var exp [3]int64
	for i := 0; i < K; i++ {
		op := vNondetInt("op")
		k := vNondetInt("key")
		vAssume(op >= 0 && op <= 4)
		vAssume(k >= 0 && k < 3)
		switch op {
		case 0:
			v := vNondetInt("val")
			m.Set(k, v)
			// Set reads the clock exactly once
			live[k], val[k], exp[k] = true, v, vC48_now+ttl
			vCover("set")
		case 1:
			got, ok := m.Get(k)
			want := live[k] && vC48_now < exp[k]
			vAssert(ok == want, "Get finds a key exactly when it was Set less than ttl ago and not deleted since")
			if want {
				vAssert(got == val[k], "Get returns the last value Set for the key")
				vCover("hit")
			} else {
				vCover("miss")
			}
		case 2:
			m.Delete(k)
			live[k] = false
			vCover("delete")
		case 3:
			m.Reset()
			live[0], live[1], live[2] = false, false, false
			vCover("reset")
		case 4:
			n := m.ActiveLen()
			c := 0
			for j := 0; j < 3; j++ {
				if live[j] && vC48_now < exp[j] {
					c++
				}
			}
			vAssert(n == c, "ActiveLen counts exactly the unexpired keys")
		}
	}
	vCover("end")
}

// ---- one inductive step from an arbitrary state satisfying the representation invariant ----

// Inv: every indexed key points at a live slot (head <= i < len) that holds that key; 0 <= head <= len
func vC48_inv(m *TTLMap[int, int]) bool {
	if m.head < 0 || m.head > len(m.order) {
		return false
	}
	for k := 0; k < 3; k++ {
		if i, ok := m.items[k]; ok {
			if i < m.head || i >= len(m.order) || m.order[i].key != k {
				return false
			}
		}
	}
	return len(m.items) <= 3
}

// abstraction: key -> (present, value, expireAt)
func vC48_abs(m *TTLMap[int, int], k int) (bool, int, int64) {
	if i, ok := m.items[k]; ok {
		return true, m.order[i].value, m.order[i].expireAt
	}
	return false, 0, 0
}

func vC48_step() {
	ttl := vNondetInt64("ttl")
	vAssume(ttl > 0 && ttl < 1<<40)
	vC48_now = vNondetInt64("now0")
	vAssume(vC48_now >= 0 && vC48_now < 1<<60)
	// arbitrary pre-state: up to 4 slots, capacity up to 5
	var backing [5]ttlEntry[int, int]
	n := vNondetInt("len")
	c := vNondetInt("cap")
	vAssume(0 <= n && n <= 4 && n <= c && c <= 5)
	for i := 0; i < 4; i++ {
		key := vNondetInt("slotKey")
		vAssume(key >= 0 && key < 3)
		e := vNondetInt64("slotExp")
		vAssume(e >= 0 && e < 1<<61)
		backing[i] = ttlEntry[int, int]{key: key, value: vNondetInt("slotVal"), expireAt: e}
	}
	m := &TTLMap[int, int]{ttl: ttl, now: vC48_clock, items: make(map[int]int), order: backing[:n:c]}
	m.head = vNondetInt("head")
	for k := 0; k < 3; k++ {
		if vNondetBool("present") {
			m.items[k] = vNondetInt("idx")
		}
	}
	vAssume(vC48_inv(m))
	var pre [3]bool
	var preV [3]int
	var preE [3]int64
	for k := 0; k < 3; k++ {
		pre[k], preV[k], preE[k] = vC48_abs(m, k)
	}
	op := vNondetInt("op")
	k := vNondetInt("key")
	vAssume(op >= 0 && op <= 4)
	vAssume(k >= 0 && k < 3)
	v := vNondetInt("val")
	var got int
	var ok bool
	var alen int
	switch op {
	case 0:
		m.Set(k, v)
	case 1:
		got, ok = m.Get(k)
	case 2:
		m.Delete(k)
	case 3:
		m.Reset()
	case 4:
		alen = m.ActiveLen()
	}
	now := vC48_now // every operation reads the clock at most once
	vAssert(vC48_inv(m), "representation invariant is preserved by every operation")
	cnt := 0
	for j := 0; j < 3; j++ {
		p, pv, pe := vC48_abs(m, j)
		unexpired := pre[j] && now < preE[j]
		if unexpired {
			cnt++
		}
		switch {
		case op == 0 && j == k:
			vAssert(p && pv == v && pe == now+ttl, "Set stores the value with expiry now+ttl")
		case op == 2 && j == k:
			vAssert(!p, "Delete removes the key")
		case op == 3:
			vAssert(!p, "Reset removes every key")
		default:
			// untouched keys: an unexpired entry is never lost or altered; an absent one is never revived
			if unexpired {
				vAssert(p && pv == preV[j] && pe == preE[j], "eviction/compaction never lose or alter a live entry")
			}
			if !pre[j] {
				vAssert(!p, "an absent key is never revived")
			}
			if p {
				vAssert(pre[j] && pv == preV[j] && pe == preE[j], "a surviving entry is unchanged")
			}
		}
	}
	if op == 1 {
		want := pre[k] && now < preE[k]
		vAssert(ok == want, "Get finds exactly the unexpired present keys")
		if want {
			vAssert(got == preV[k], "Get returns the stored value")
			vCover("step-hit")
		}
	}
	if op == 4 {
		vAssert(alen == cnt, "ActiveLen counts exactly the unexpired keys")
	}
	if op == 0 && m.head == 0 && n > 0 && len(m.order) < n {
		vCover("compacted")
	}
	vCover("end")
}
