//go:build verif

package stream

import (
	"container/heap"
	"context"
	"time"

	"github.com/tochemey/goakt/v4/actor"
)

func init() {
	vRegister("vC45_flowStep", vC45_flowStep)
	vRegister("vC45_sourceStep", vC45_sourceStep)
	vRegister("vC45_sinkStep", vC45_sinkStep)
	vRegister("vC45_fusedStep", vC45_fusedStep)
	vRegister("vC45_batchStep", vC45_batchStep)
	vRegister("vC45_batchHistory", vC45_batchHistory)
	vRegister("vC45_parallelStep", vC45_parallelStep)
}

// ---- flowActor: one handler step from an arbitrary state --------------------------------------------------

// stage kinds (concrete per job, "cases")
const (
	vKMap = iota
	vKFilter
	vKFlatMap
	vKTryMap
	vKScan
	vKDedup
	vKBuffer
	vKFlatten
)

// user functions: +c, even?, repeat k (k <= 2), fails at f
var (
	vC45_c, vC45_k, vC45_f int
	vC45_acc0            int
)

func vC45_makeFlow(kind int, id, rt int64) *flowActor {
	var st *stage
	switch kind {
	case vKMap:
		st = Map(func(x int) int { return x + vC45_c }).stage
	case vKFilter:
		st = Filter(func(x int) bool { return x%2 == 0 }).stage
	case vKFlatMap:
		st = FlatMap(func(x int) []int {
			if vC45_k == 0 {
				return nil
			}
			if vC45_k == 1 {
				return []int{x}
			}
			return []int{x, x}
		}).stage
	case vKTryMap:
		st = TryMap(func(x int) (int, error) {
			if x == vC45_f {
				return 0, vS_errBoom
			}
			return x + vC45_c, nil
		}).stage
	case vKScan:
		st = Scan(vC45_acc0, func(acc, x int) int { return acc + x }).stage
	case vKDedup:
		st = Deduplicate[int]().stage
	case vKBuffer:
		st = Buffer[int](int(id), DropTail).stage
	default:
		st = Flatten[int]().stage
	}
	cfg := st.config
	if kind != vKBuffer {
		cfg.InitialDemand, cfg.RefillThreshold = id, rt
	}
	return st.actorFn(cfg).(*flowActor)
}

func vC45_flowStep() {
	kind := vCase("kind")
	id := vNondetInt64("initialDemand")
	rt := vNondetInt64("refillThreshold")
	vAssume(id >= 1 && id <= 4 && rt >= 0 && rt < id)
	vC45_c, vC45_k, vC45_f, vC45_acc0 = vNondetInt("c"), vNondetInt("k"), vNondetInt("f"), vNondetInt("acc0")
	vAssume(vC45_k >= 0 && vC45_k <= 2)
	a := vC45_makeFlow(kind, id, rt)
	id, rt = a.config.InitialDemand, a.config.RefillThreshold
	self, up, down := actor.VNewPID(), actor.VNewPID(), actor.VNewPID()
	actor.VReset()
	a.Receive(actor.VCtx(self, &stageWire{subID: "s", upstream: up, downstream: down}))
	vAssert(len(actor.VOut) == 0 && actor.VShutdowns == 0, "wiring a flow stage sends nothing")

	// arbitrary state satisfying the stage invariant
	var model [6]any // reference content of the output buffer
	b := vNondetInt("buffered")
	vAssume(b >= 0 && b <= 3)
	for i := 0; i < 3; i++ {
		if i < b {
			x := vNondetInt("buf")
			a.outputBuf.push(x)
			model[i] = x
		}
	}
	uc, dd := vNondetInt64("upstreamCredit"), vNondetInt64("downstreamDemand")
	vAssume(uc >= 0 && uc <= id && dd >= 0 && dd <= 4)
	a.upstreamCredit, a.downstreamDemand = uc, dd
	a.completing = vNondetBool("completing")
	seq0 := vNondetUint64("seqNo")
	vAssume(seq0 < 1<<62)
	a.seqNo = seq0
	vAssume(dd == 0 || b == 0)         // Inv1: leftover demand and a non-empty buffer never coexist between handlers
	vAssume(!(a.completing && b == 0)) // Inv2: a completing stage with an empty buffer has already shut down
	if kind != vKFlatMap && kind != vKFlatten {
		vAssume(uc+int64(b) <= id) // Inv3 (one-to-at-most-one stages): credit + buffer never exceeds InitialDemand
	}
	prevDedup, hasPrev := vNondetInt("last"), vNondetBool("hasLast")
	if kind == vKDedup && hasPrev {
		_, _ = a.transformFn(prevDedup)
	}

	// one arbitrary message
	op := vChoose("msg", 5)
	var msg any
	var outs [2]any // reference output of the transform for an element
	nouts := 0
	fails := false
	n := vNondetInt64("n")
	x := vNondetInt("x")
	switch op {
	case 0:
		vAssume(n >= 1 && n <= 4)
		msg = &streamRequest{subID: "s", n: n}
	case 1:
		vAssume(uc >= 1 && !a.completing) // network invariant: elements arrive only against credit, never after complete
		var v any = x
		switch kind {
		case vKMap:
			outs[0], nouts = x+vC45_c, 1
		case vKFilter:
			if x%2 == 0 {
				outs[0], nouts = x, 1
			}
		case vKFlatMap:
			outs[0], outs[1], nouts = x, x, vC45_k
		case vKTryMap:
			if x == vC45_f {
				fails = true
			} else {
				outs[0], nouts = x+vC45_c, 1
			}
		case vKScan:
			outs[0], nouts = vC45_acc0+x, 1
		case vKDedup:
			if !(hasPrev && prevDedup == x) {
				outs[0], nouts = x, 1
			}
		case vKBuffer:
			outs[0], nouts = x, 1
		default:
			y := vNondetInt("y")
			ln := vChoose("sliceLen", 3)
			sl := []int{x, y}[:ln]
			v = sl
			outs[0], outs[1], nouts = x, y, ln
		}
		msg = &streamElement{subID: "s", value: v, seqNo: 1}
	case 2:
		vAssume(!a.completing)
		msg = &streamComplete{subID: "s"}
	case 3:
		msg = &streamError{subID: "s", err: vS_errBoom}
	default:
		msg = &streamCancel{subID: "s"}
	}
	actor.VReset()
	a.Receive(actor.VCtx(self, msg))
	o := vS_collect(up, down, "s")
	vAssert(o.other == 0 && actor.VUnhandled == 0 && !o.badSub, "a flow stage only sends elements/complete/error downstream and request/cancel upstream")
	vAssert(!o.lateElem, "no element follows a completion or error")

	// reference: pending = buffer ++ outputs of this element; the first min(demand, len) of them go out
	total := b
	for i := 0; i < 2; i++ {
		if op == 1 && !fails && i < nouts {
			model[total] = outs[i]
			total++
		}
	}
	demand := dd
	if op == 0 {
		demand += n
	}
	want := 0
	if op <= 2 && !fails {
		want = total
		if int64(want) > demand {
			want = int(demand)
		}
	}
	vAssert(o.n == want, "a flow stage emits exactly min(downstream demand, pending outputs) elements")
	for i := 0; i < 5; i++ {
		if i < o.n && i < want {
			vAssert(o.vals[i] == model[i], "emitted elements are the pending outputs in input order")
			vAssert(o.seqs[i] == seq0+uint64(i)+1, "emitted elements carry consecutive sequence numbers")
		}
	}
	stopped := actor.VShutdowns > 0
	switch {
	case op == 1 && fails:
		vAssert(o.errs == 1 && o.err == vS_errBoom && o.completes == 0 && o.cancels == 1 && stopped, "a failing element ends the stream: cancel upstream, that error downstream, stop")
		vCover("element-fails")
	case op == 3:
		vAssert(o.errs == 1 && o.err == vS_errBoom && o.completes == 0 && stopped, "an upstream error is forwarded downstream and the stage stops")
	case op == 4:
		vAssert(o.cancels == 1 && o.errs == 0 && stopped, "a cancel is forwarded upstream and the stage stops")
	default:
		done := (a.completing) && want == total
		vAssert(o.errs == 0 && o.cancels == 0, "no error/cancel in normal operation")
		if done {
			vAssert(o.completes >= 1 && stopped, "once upstream completed and everything buffered was delivered the stage completes downstream and stops")
			if o.completes == 2 {
				vCover("double-complete")
			}
			vCover("completes")
		} else {
			vAssert(o.completes == 0 && !stopped, "the stage completes only after upstream completed and its buffer drained")
			// post-state: ledgers and buffer
			vAssert(a.downstreamDemand == demand-int64(want), "downstream demand ledger = previous + requested - emitted")
			vAssert(a.outputBuf.len() == total-want, "undelivered outputs stay buffered")
			for i := 0; i < 5; i++ {
				if i < total-want {
					vAssert(a.outputBuf.data[a.outputBuf.head+i] == model[want+i], "buffer keeps the undelivered outputs in order")
				}
			}
			ucWant := uc + o.reqN
			if op == 1 {
				ucWant--
			}
			vAssert(a.upstreamCredit == ucWant && ucWant >= 0, "upstream credit ledger = previous - received + requested, never negative")
			vAssert(!o.reqBad && o.reqs <= 1, "at most one upstream request per step, for a positive amount")
			if o.reqs > 0 {
				vAssert(a.upstreamCredit+int64(a.outputBuf.len()) <= id, "the stage never requests more than InitialDemand minus what it already holds")
				vAssert(!a.completing, "no upstream request after upstream completed")
				vCover("requests-upstream")
			}
			vAssert(a.completing || a.upstreamCredit > 0 || a.outputBuf.len() > 0, "a live stage with nothing buffered always has credit outstanding upstream (no stall)")
			// invariant re-established
			vAssert(a.downstreamDemand == 0 || a.outputBuf.len() == 0, "Inv1 preserved")
			if kind != vKFlatMap && kind != vKFlatten {
				vAssert(a.upstreamCredit+int64(a.outputBuf.len()) <= id, "Inv3 preserved")
			}
			if a.outputBuf.len() > 0 {
				vCover("backpressured")
			}
		}
	}
	vCover("end")
}

// ---- pullSourceActor (Of / Range): one step from an arbitrary position -------------------------------------

func vC45_sourceStep() {
	src := vCase("src") // 0 Of, 1 Range
	total := vNondetInt("len")
	p := vNondetInt("consumed")
	vAssume(total >= 0 && total <= 3 && p >= 0 && p <= total && (p < total || total == 0)) // a source that handed out everything has stopped
	var vals [4]any
	var st *stage
	if src == 0 {
		values := make([]int, 0, 3)
		for i := 0; i < 3; i++ {
			if i < total {
				v := vNondetInt("v")
				vals[i] = v
				values = append(values, v)
			}
		}
		st = Of(values...).stages[0]
	} else {
		start := vNondetInt64("start")
		vAssume(start > -(1<<62) && start < 1<<62)
		for i := 0; i < 3; i++ {
			vals[i] = start + int64(i)
		}
		st = Range(start, start+int64(total)).stages[0]
	}
	a := st.actorFn(st.config).(*pullSourceActor)
	self, down := actor.VNewPID(), actor.VNewPID()
	actor.VReset()
	a.Receive(actor.VCtx(self, &stageWire{subID: "s", downstream: down}))
	vAssert(len(actor.VOut) == 0 && actor.VShutdowns == 0, "wiring a source sends nothing")
	if p > 0 {
		_, more := a.pullFn(int64(p))
		vAssert(more, "harness: the prefix does not exhaust the source")
		a.seqNo = uint64(p)
	}
	n := vNondetInt64("n")
	vAssume(n >= 1 && n <= 4)
	cancel := vNondetBool("cancel")
	actor.VReset()
	if cancel {
		a.Receive(actor.VCtx(self, &streamCancel{subID: "s"}))
	} else {
		a.Receive(actor.VCtx(self, &streamRequest{subID: "s", n: n}))
	}
	o := vS_collect(nil, down, "s")
	vAssert(o.other == 0 && actor.VUnhandled == 0 && !o.badSub && o.errs == 0, "a source only sends elements and a completion downstream")
	vAssert(!o.lateElem, "no element follows the completion")
	if cancel {
		vAssert(o.n == 0 && o.completes == 1 && actor.VShutdowns > 0, "a cancelled source completes downstream and stops")
		vCover("cancel")
	} else {
		want := total - p
		if int64(want) > n {
			want = int(n)
		}
		vAssert(o.n == want, "a source emits exactly min(requested, remaining) elements")
		for i := 0; i < 3; i++ {
			if i < o.n && i < want {
				vAssert(o.vals[i] == vals[p+i], "a source emits its values in order, none skipped or repeated")
				vAssert(o.seqs[i] == uint64(p+i+1), "source sequence numbers count the emitted elements")
			}
		}
		if p+want == total {
			vAssert(o.completes == 1 && actor.VShutdowns > 0, "a source completes (once) exactly when its last value was emitted")
			vCover("exhausted")
		} else {
			vAssert(o.completes == 0 && actor.VShutdowns == 0, "a source with remaining values neither completes nor stops")
			vCover("has-more")
		}
	}
	vCover("end")
}

// ---- sinkActor (Collect): one step from an arbitrary state -----------------------------------------------

func vC45_sinkStep() {
	id := vNondetInt64("initialDemand")
	rt := vNondetInt64("refillThreshold")
	vAssume(id >= 1 && id <= 4 && rt >= 0 && rt < id)
	coll, sk := Collect[int]()
	cfg := sk.desc.config
	cfg.InitialDemand, cfg.RefillThreshold = id, rt
	a := sk.desc.actorFn(cfg).(*sinkActor)
	done := 0
	orig := a.onComplete
	a.onComplete = func() { done++; orig() }
	self, up := actor.VNewPID(), actor.VNewPID()
	actor.VReset()
	a.Receive(actor.VCtx(self, &stageWire{subID: "s", upstream: up}))
	o := vS_collect(up, nil, "s")
	vAssert(o.reqs == 1 && o.reqN == id && o.other == 0 && o.cancels == 0 && actor.VShutdowns == 0, "a wired sink requests InitialDemand once")
	vAssert(a.credit == id, "sink credit after wiring")

	// arbitrary state: credit in (RefillThreshold, InitialDemand], k elements collected so far
	c := vNondetInt64("credit")
	vAssume(c > rt && c <= id)
	a.credit = c
	k := vNondetInt("collected")
	vAssume(k >= 0 && k <= 2)
	var prev [3]int
	for i := 0; i < 2; i++ {
		if i < k {
			prev[i] = vNondetInt("prev")
			coll.append(prev[i])
		}
	}
	op := vChoose("msg", 4)
	x := vNondetInt("x")
	var msg any
	switch op {
	case 0:
		msg = &streamElement{subID: "s", value: x, seqNo: 1}
	case 1:
		msg = &streamElement{subID: "s", value: "not an int", seqNo: 1}
	case 2:
		msg = &streamComplete{subID: "s"}
	default:
		msg = &streamError{subID: "s", err: vS_errBoom}
	}
	actor.VReset()
	a.Receive(actor.VCtx(self, msg))
	o = vS_collect(up, nil, "s")
	stopped := actor.VShutdowns > 0
	if stopped {
		_ = a.PostStop(nil) // the runtime runs PostStop after Shutdown
	}
	vAssert(o.other == 0 && actor.VUnhandled == 0 && !o.badSub, "a sink only sends requests and cancel upstream")
	wantLen := k
	if op == 0 {
		wantLen = k + 1
	}
	vAssert(len(coll.items) == wantLen, "the sink consumes exactly the elements it receives")
	for i := 0; i < 3; i++ {
		if i < k && i < len(coll.items) {
			vAssert(coll.items[i] == prev[i], "already consumed elements are unchanged")
		}
	}
	switch op {
	case 0:
		vAssert(len(coll.items) == k+1 && coll.items[k] == x, "the received element is appended")
		vAssert(!stopped && done == 0 && o.cancels == 0 && a.termErr == nil, "consuming an element neither completes nor cancels")
		vAssert(o.reqs <= 1 && !o.reqBad && a.credit == c-1+o.reqN, "sink credit ledger = previous - 1 + requested")
		vAssert(a.credit > rt && a.credit <= id, "sink credit stays in (RefillThreshold, InitialDemand]: it never stalls and never over-requests")
		if o.reqs == 1 {
			vCover("refill")
		} else {
			vCover("no-refill")
		}
	case 1:
		vAssert(stopped && done == 1 && o.cancels == 1 && a.termErr != nil, "a failing consume function (FailFast) records the error, cancels upstream, completes once and stops")
	case 2:
		vAssert(stopped && done == 1 && o.cancels == 0 && a.termErr == nil, "on completion the sink completes once, without error, and stops")
	default:
		vAssert(stopped && done == 1 && o.cancels == 1 && a.termErr == vS_errBoom, "on a stream error the sink records that error, cancels upstream, completes once and stops")
	}
	vCover("end")
}

// ---- fusedFlowActor (TryMap(+c, fails at f) fused with Filter(even)) --------------------------------------

func vC45_fusedStep() {
	id := vNondetInt64("initialDemand")
	rt := vNondetInt64("refillThreshold")
	vAssume(id >= 1 && id <= 4 && rt >= 0 && rt < id)
	vC45_c, vC45_f = vNondetInt("c"), vNondetInt("f")
	_, sk := Collect[int]()
	stages := []*stage{
		Of[int]().stages[0],
		TryMap(func(x int) (int, error) {
			if x == vC45_f {
				return 0, vS_errBoom
			}
			return x + vC45_c, nil
		}).stage,
		Filter(func(x int) bool { return x%2 == 0 }).stage,
		sk.desc,
	}
	fused := applyFusion(stages, FuseStateless)
	vAssert(len(fused) == 3 && fused[0] == stages[0] && fused[2] == stages[3], "fusion merges the two adjacent stateless stages and nothing else")
	cfg := fused[1].config
	cfg.InitialDemand, cfg.RefillThreshold = id, rt
	a := fused[1].actorFn(cfg).(*fusedFlowActor)
	self, up, down := actor.VNewPID(), actor.VNewPID(), actor.VNewPID()
	actor.VReset()
	a.Receive(actor.VCtx(self, &stageWire{subID: "s", upstream: up, downstream: down}))
	o := vS_collect(up, down, "s")
	vAssert(o.reqs == 1 && o.reqN == id && o.other == 0 && o.n == 0 && actor.VShutdowns == 0 && a.credit == id, "a wired fused stage requests InitialDemand once")

	c := vNondetInt64("credit")
	vAssume(c > rt && c <= id)
	a.credit = c
	seq0 := vNondetUint64("seqNo")
	vAssume(seq0 < 1<<62)
	a.seqNo = seq0
	op := vChoose("msg", 5)
	x := vNondetInt("x")
	var msg any
	switch op {
	case 0:
		msg = &streamElement{subID: "s", value: x, seqNo: 1}
	case 1:
		msg = &streamElement{subID: "s", value: "not an int", seqNo: 1}
	case 2:
		msg = &streamComplete{subID: "s"}
	case 3:
		msg = &streamError{subID: "s", err: vS_errBoom}
	default:
		msg = &streamCancel{subID: "s"}
	}
	actor.VReset()
	a.Receive(actor.VCtx(self, msg))
	o = vS_collect(up, down, "s")
	stopped := actor.VShutdowns > 0
	vAssert(o.other == 0 && actor.VUnhandled == 0 && !o.badSub && !o.lateElem, "a fused stage only sends elements/complete/error downstream and request/cancel upstream")
	switch op {
	case 0:
		y := x + vC45_c
		switch {
		case x == vC45_f:
			vAssert(o.n == 0 && o.errs == 1 && o.err == vS_errBoom && o.completes == 0 && stopped, "a failing element ends the stream with that error")
			vCover("fused-fails")
		case y%2 == 0:
			vAssert(o.n == 1 && o.vals[0] == y && o.seqs[0] == seq0+1, "fused stage emits filter(map(x)) when it passes")
			vAssert(o.errs == 0 && o.completes == 0 && !stopped, "no termination on an ordinary element")
			vCover("fused-pass")
		default:
			vAssert(o.n == 0 && o.errs == 0 && o.completes == 0 && !stopped, "a filtered-out element produces nothing")
			vCover("fused-drop")
		}
		if x != vC45_f {
			vAssert(o.reqs <= 1 && !o.reqBad && a.credit == c-1+o.reqN && a.credit > rt && a.credit <= id, "fused credit ledger stays in (RefillThreshold, InitialDemand]")
		}
	case 1:
		vAssert(o.n == 0 && o.errs == 1 && o.err != nil && stopped, "an element of the wrong type ends the stream with an error")
	case 2:
		vAssert(o.n == 0 && o.completes == 1 && o.errs == 0 && stopped, "completion is forwarded once and the stage stops")
	case 3:
		vAssert(o.n == 0 && o.errs == 1 && o.err == vS_errBoom && o.completes == 0 && stopped, "an upstream error is forwarded and the stage stops")
	default:
		vAssert(o.n == 0 && o.cancels == 1 && stopped, "a cancel is forwarded upstream and the stage stops")
	}
	vCover("end")
}

// ---- batchFlowActor (size trigger only; the maxWait timer message is never delivered) ---------------------
// The assertions are the list semantics of Batch(m), independent of how the stage schedules its flushes: batches have 1..m
// elements, their concatenation is the input in order, a batch needs one unit of demand, a full window does not wait when
// there is demand, and the completion is forwarded only after everything received has been emitted.

// emitted batches of one step, concatenated; sizes checked against m
func vC45_batches(o *vSOutbox, m int, out *[8]int) (count int) {
	for b := 0; b < 4; b++ {
		if b < o.n {
			batch, ok := o.vals[b].([]int)
			vAssert(ok && len(batch) >= 1, "a batch is a non-empty []T")
			vAssert(len(batch) <= m, "a batch has at most maxSize elements")
			for i := 0; i < 4; i++ {
				if i < len(batch) && count < 8 {
					out[count] = batch[i]
					count++
				}
			}
		}
	}
	return count
}

func vC45_batchStep() {
	id := vNondetInt64("initialDemand")
	rt := vNondetInt64("refillThreshold")
	m := vNondetInt("maxSize")
	vAssume(id >= 1 && id <= 4 && rt >= 0 && rt < id && m >= 1 && m <= 3)
	st := Batch[int](m, time.Second).stage
	cfg := st.config
	cfg.InitialDemand, cfg.RefillThreshold = id, rt
	a := st.actorFn(cfg).(*batchFlowActor[int])
	self, up, down := actor.VNewSysPID(), actor.VNewPID(), actor.VNewPID()
	actor.VReset()
	a.Receive(actor.VCtx(self, &stageWire{subID: "s", upstream: up, downstream: down}))
	vAssert(len(actor.VOut) == 0 && actor.VShutdowns == 0, "wiring a batch stage sends nothing")

	// arbitrary state (upstream not yet completed): a window that is not full, or a longer one that waits for demand
	w := vNondetInt("window")
	vAssume(w >= 0 && w <= 3)
	var win [5]int
	for i := 0; i < 3; i++ {
		if i < w {
			win[i] = vNondetInt("w")
			a.window = append(a.window, win[i])
		}
	}
	uc, dd := vNondetInt64("upstreamCredit"), vNondetInt64("downstreamDemand")
	vAssume(uc >= 0 && uc <= id && uc+int64(w) <= id && dd >= 0 && dd <= 4)
	vAssume(w < m || dd == 0) // Inv: a full window never waits while there is demand
	a.upstreamCredit, a.downstreamDemand = uc, dd
	a.timerActive = w > 0
	seq0 := vNondetUint64("seqNo")
	vAssume(seq0 < 1<<62)
	a.seqNo = seq0
	op := vChoose("msg", 5)
	n, x := vNondetInt64("n"), vNondetInt("x")
	var msg any
	held, demand := w, dd
	switch op {
	case 0:
		vAssume(n >= 1 && n <= 4)
		msg = &streamRequest{subID: "s", n: n}
		demand += n
	case 1:
		vAssume(uc >= 1)
		msg = &streamElement{subID: "s", value: x, seqNo: 1}
		win[w] = x
		held = w + 1
	case 2:
		msg = &streamComplete{subID: "s"}
	case 3:
		msg = &streamError{subID: "s", err: vS_errBoom}
	default:
		msg = &streamCancel{subID: "s"}
	}
	actor.VReset()
	a.Receive(actor.VCtx(self, msg))
	o := vS_collect(up, down, "s")
	stopped := actor.VShutdowns > 0
	vAssert(o.other == 0 && actor.VUnhandled == 0 && !o.badSub && !o.lateElem, "a batch stage only sends elements/complete/error downstream and request/cancel upstream")
	var out [8]int
	nout := vC45_batches(o, m, &out)
	if op <= 2 {
		vAssert(int64(o.n) <= demand, "a batch is emitted only against downstream demand")
		vAssert(nout <= held, "nothing is emitted that was not received")
		for i := 0; i < 4; i++ {
			if i < nout && i < held {
				vAssert(out[i] == win[i], "the batches, concatenated, are the received elements in arrival order")
			}
		}
		for i := 0; i < 4; i++ {
			if i < o.n {
				vAssert(o.seqs[i] == seq0+uint64(i)+1, "batches are numbered consecutively")
			}
		}
		if o.n >= 1 {
			vCover("batch-emitted")
		}
	}
	switch op {
	case 0, 1:
		vAssert(!stopped && o.completes == 0 && o.errs == 0 && o.cancels == 0, "no termination in normal operation")
		vAssert(a.downstreamDemand == demand-int64(o.n), "demand ledger = previous + requested - batches emitted")
		vAssert(len(a.window) == held-nout, "unemitted elements stay in the window")
		for i := 0; i < 4; i++ {
			if i < held-nout && i < len(a.window) {
				vAssert(a.window[i] == win[nout+i], "the window keeps arrival order")
			}
		}
		vAssert(len(a.window) < m || a.downstreamDemand == 0, "a full window is emitted as soon as there is demand (Inv preserved)")
		ucWant := uc + o.reqN
		if op == 1 {
			ucWant--
		}
		vAssert(o.reqs <= 1 && !o.reqBad && a.upstreamCredit == ucWant && ucWant >= 0, "batch upstream credit ledger")
		vAssert(a.upstreamCredit+int64(len(a.window)) <= id, "a batch stage never holds or requests more than InitialDemand")
		vAssert(a.upstreamCredit > 0 || len(a.window) > 0, "a live batch stage with an empty window has credit outstanding upstream (no stall)")
	case 2:
		vAssert(o.errs == 0 && o.cancels == 0 && o.completes <= 1, "completion produces no failure")
		if o.completes == 1 {
			vAssert(stopped, "a completed batch stage stops")
			vAssert(nout == held, "when the completion is forwarded every received element has been emitted before it (nothing is lost)")
			vCover("completes")
		} else {
			vAssert(!stopped && nout < held && a.downstreamDemand == 0, "the completion is held back only while elements wait for demand")
			vCover("completion-deferred")
		}
		if w > 0 {
			vCover("complete-with-window")
		}
	case 3:
		vAssert(stopped && o.errs == 1 && o.err == vS_errBoom && o.completes == 0, "an upstream error is forwarded and the stage stops")
	default:
		vAssert(stopped && o.cancels == 1 && o.errs == 0, "a cancel is forwarded upstream and the stage stops")
	}
	vCover("end")
}

// Batch from the moment it is wired: a script of message kinds (case split: R request, E element, C completion) with
// arbitrary InitialDemand/RefillThreshold/maxSize, request sizes and element values, respecting the protocol (elements only
// against the credit the stage requested, completion after the last element) against the list semantics of Batch(m).
var vC45_scripts = [...]string{
	"REEC",  // the second element may find no demand: nothing may be lost at completion
	"REER",  // ... and a later request must release a full window
	"REERE", // ... and the next element must not produce an oversized batch
	"REECR", // completion held back for lack of demand, finished by the next request
	"RERE",
	"RRECR",
}

func vC45_batchHistory() {
	const maxK = 5
	script := vC45_scripts[vCase("script")]
	K := len(script)
	id := vNondetInt64("initialDemand")
	rt := vNondetInt64("refillThreshold")
	m := vNondetInt("maxSize")
	vAssume(id >= 1 && id <= 3 && rt >= 0 && rt < id && m >= 1 && m <= 2)
	st := Batch[int](m, time.Second).stage
	cfg := st.config
	cfg.InitialDemand, cfg.RefillThreshold = id, rt
	a := st.actorFn(cfg).(*batchFlowActor[int])
	self, up, down := actor.VNewSysPID(), actor.VNewPID(), actor.VNewPID()
	actor.VReset()
	a.Receive(actor.VCtx(self, &stageWire{subID: "s", upstream: up, downstream: down}))
	var in [maxK]int // elements delivered to the stage
	var out [8]int   // elements the stage emitted (batches concatenated)
	nin, nout := 0, 0
	credit := int64(0) // requested by the stage and not yet delivered
	upDone, stageDone := false, false
	for k := 0; k < K; k++ {
		if stageDone {
			break
		}
		op := 2
		switch script[k] {
		case 'R':
			op = 0
		case 'E':
			op = 1
		}
		n, x := vNondetInt64("n"), vNondetInt("x")
		actor.VReset()
		switch op {
		case 0:
			vAssume(n >= 1 && n <= 3)
			a.Receive(actor.VCtx(self, &streamRequest{subID: "s", n: n}))
		case 1:
			vAssume(credit >= 1 && !upDone)
			in[nin] = x
			nin++
			credit--
			a.Receive(actor.VCtx(self, &streamElement{subID: "s", value: x, seqNo: uint64(nin)}))
		default:
			vAssume(!upDone)
			a.Receive(actor.VCtx(self, &streamComplete{subID: "s"}))
			upDone = true
		}
		o := vS_collect(up, down, "s")
		vAssert(o.other == 0 && o.errs == 0 && o.cancels == 0 && !o.lateElem, "history: only batches and a completion go downstream")
		credit += o.reqN
		var got [8]int
		ngot := vC45_batches(o, m, &got)
		for i := 0; i < 4; i++ {
			if i < ngot && nout < 8 {
				out[nout] = got[i]
				nout++
			}
		}
		if ngot >= 2 {
			vCover("two-elements-in-one-step")
		}
		vAssert(nout <= nin, "history: nothing is emitted that was not received")
		for i := 0; i < maxK; i++ {
			if i < nout {
				vAssert(out[i] == in[i], "history: the batches, concatenated, are a prefix of the input in order")
			}
		}
		if o.completes > 0 {
			stageDone = true
			vAssert(upDone && o.completes == 1 && actor.VShutdowns > 0, "history: the completion is forwarded once, after upstream completed, and the stage stops")
			vAssert(nout == nin, "history: at completion every received element has been emitted (nothing is lost)")
			if nin >= 2 {
				vCover("complete-after-two")
			}
		} else {
			vAssert(actor.VShutdowns == 0, "history: the stage keeps running until it forwards the completion")
			vAssert(nout+len(a.window) == nin, "history: every received element is either emitted or still in the window")
			vAssert(len(a.window) < m || a.downstreamDemand == 0, "history: a full window does not wait while there is demand")
			if upDone {
				vAssert(len(a.window) > 0 && a.downstreamDemand == 0, "history: after upstream completed only missing demand delays the completion")
				vCover("completion-deferred")
			}
		}
	}
	vCover("end")
}

// ---- ParallelMap / OrderedParallelMap (2 workers): one step from an arbitrary state ---------------------------
// State of the stage between two messages: n elements were dispatched so far (inputSeqNo), the results of e of them were
// emitted (ordered: nextEmit = e, exactly the results 1..e), h <= 2 later results wait in the resequencing heap (built with
// the real heap.Push), the remaining ones are with the workers (inFlight).
func vC45_parallelStep() {
	ordered := vCase("ordered") == 1
	vC45_c = vNondetInt("c")
	fn := func(x int) int { return x + vC45_c }
	var st *stage
	if ordered {
		st = OrderedParallelMap(2, fn).stage
	} else {
		st = ParallelMap(2, fn).stage
	}
	a := st.actorFn(st.config).(*parallelMapActor[int, int])
	self, up, down := actor.VNewSysPID(), actor.VNewPID(), actor.VNewPID()
	actor.VSpawnedFns, actor.VSpawnedPIDs = nil, nil
	actor.VReset()
	a.Receive(actor.VCtx(self, &stageWire{subID: "s", upstream: up, downstream: down}))
	o := vS_collect(up, down, "s")
	vAssert(len(actor.VSpawnedFns) == 2 && o.reqs == 1 && o.reqN == 2 && len(actor.VOut) == 1 && actor.VShutdowns == 0, "a wired parallel stage spawns its workers and requests one element per worker")
	w0, w1 := actor.VSpawnedPIDs[0], actor.VSpawnedPIDs[1]

	// the real worker function: replies once, to the stage, with fn(value) under the task's sequence number
	tv, ts := vNondetInt("taskValue"), vNondetUint64("taskSeq")
	actor.VReset()
	_ = actor.VSpawnedFns[vChoose("worker", 2)](context.Background(), &workerTask{seqNo: ts, value: tv, replyTo: self})
	vAssert(len(actor.VOut) == 1 && actor.VOut[0].To == self, "a worker replies exactly once, to the stage")
	if len(actor.VOut) == 1 {
		r, ok := actor.VOut[0].Msg.(*parallelResult)
		vAssert(ok && r.seqNo == ts && r.value == any(tv+vC45_c) && r.err == nil, "a worker's reply carries fn(value) under the task's sequence number")
	}

	// arbitrary state
	e := vNondetUint64("emitted")
	vAssume(e < 1<<40)
	h := 0
	var hs [2]uint64 // sequence numbers waiting in the heap
	var hv [2]int
	if ordered {
		h = vChoose("waiting", 3)
		for i := 0; i < 2; i++ {
			if i < h {
				hs[i], hv[i] = vNondetUint64("heapSeq"), vNondetInt("heapVal")
				vAssume(hs[i] > e+1 && hs[i] <= e+4) // e+1 itself is never waiting: it would have been emitted
				heapPush(a, hs[i], hv[i])
			}
		}
		vAssume(h < 2 || hs[0] != hs[1])
	}
	f := vNondetInt64("inFlight")
	vAssume(f >= 0 && f <= 2)
	n := e + uint64(h) + uint64(f)
	for i := 0; i < 2; i++ {
		if i < h {
			vAssume(hs[i] <= n)
		}
	}
	done := vNondetBool("upstreamDone")
	vAssume(!(done && f == 0)) // a stage whose upstream is done and whose workers are idle has completed
	a.inputSeqNo, a.nextEmit, a.inFlight, a.upstreamDone = n, e, f, done
	a.outSeqNo = e
	a.nextWorker = vChoose("nextWorker", 2)
	nw := a.nextWorker

	op := vChoose("msg", 5)
	x := vNondetInt("x")
	rs, rv := vNondetUint64("resultSeq"), vNondetInt("resultVal")
	var msg any
	switch op {
	case 0:
		vAssume(!done && f <= 1) // at most one element per idle worker is ever requested
		msg = &streamElement{subID: "s", value: x, seqNo: 9}
	case 1:
		vAssume(f >= 1 && rs > e && rs <= n && (h < 1 || rs != hs[0]) && (h < 2 || rs != hs[1])) // a result that is still outstanding
		msg = &parallelResult{seqNo: rs, value: rv}
	case 2:
		vAssume(!done)
		msg = &streamComplete{subID: "s"}
	case 3:
		msg = &streamError{subID: "s", err: vS_errBoom}
	default:
		msg = &streamCancel{subID: "s"}
	}
	actor.VReset()
	a.Receive(actor.VCtx(self, msg))
	o = vS_collect(up, down, "s")
	stopped := actor.VShutdowns > 0
	ntask := 0
	for i := 0; i < len(actor.VOut) && i < 6; i++ {
		if t, ok := actor.VOut[i].Msg.(*workerTask); ok {
			ntask++
			want := w0
			if nw == 1 {
				want = w1
			}
			vAssert(op == 0 && actor.VOut[i].To == want && t.seqNo == n+1 && t.value == any(x) && t.replyTo == self, "an element is handed to the next worker (round robin) under the next input sequence number")
		}
	}
	vAssert(o.other == ntask && actor.VUnhandled == 0 && !o.badSub && !o.lateElem, "a parallel stage only sends tasks to its workers, results/termination downstream, request/cancel upstream")
	switch op {
	case 0:
		vAssert(ntask == 1 && o.n == 0 && !stopped && o.reqs == 0 && o.completes+o.errs == 0, "an element becomes exactly one task")
		vAssert(a.inFlight == f+1 && a.inputSeqNo == n+1 && a.nextWorker == 1-nw, "dispatch bookkeeping")
	case 1:
		vAssert(ntask == 0 && o.errs == 0 && o.cancels == 0, "a result produces no task and no failure")
		want := 1
		if ordered {
			// the run of consecutive sequence numbers starting at e+1 among {rs} + heap
			want = 0
			cur := e + 1
			for r := 0; r < 3; r++ {
				if rs == cur || (h >= 1 && hs[0] == cur) || (h >= 2 && hs[1] == cur) {
					want++
					cur++
				}
			}
			if rs != e+1 {
				want = 0
			}
		}
		vAssert(o.n == want, "OrderedParallelMap emits exactly the results that are next in input order; ParallelMap emits each result at once")
		for i := 0; i < 3; i++ {
			if i < o.n && i < want {
				vAssert(o.seqs[i] == e+uint64(i)+1, "outputs are numbered consecutively")
				if ordered {
					s := e + uint64(i) + 1
					wv := rv
					if h >= 1 && hs[0] == s {
						wv = hv[0]
					}
					if h >= 2 && hs[1] == s {
						wv = hv[1]
					}
					vAssert(o.vals[i] == any(wv), "the i-th output is the result computed for the i-th input")
				} else {
					vAssert(o.vals[i] == any(rv), "the result is emitted unchanged")
				}
			}
		}
		if ordered && want >= 2 {
			vCover("resequenced-run")
		}
		if ordered && want == 0 {
			vCover("held-back")
		}
		if done && f == 1 {
			vAssert(o.completes == 1 && stopped && o.reqs == 0, "after upstream completed, the last result completes the stage (once)")
			if ordered {
				vAssert(want == h+1 && len(a.pending) == 0, "at completion nothing is left in the resequencing heap (every result was emitted)")
			}
			vCover("completes-on-last-result")
		} else {
			vAssert(o.completes == 0 && !stopped, "no completion while upstream is live or results are outstanding")
			wantPending := 0
			if ordered {
				wantPending = h + 1 - want
			}
			vAssert(a.inFlight == f-1 && len(a.pending) == wantPending, "bookkeeping after a result")
			if !done {
				vAssert(o.reqs == 1 && o.reqN == 1, "each result frees a worker: one more element is requested")
			} else {
				vAssert(o.reqs == 0, "nothing is requested after upstream completed")
			}
			if ordered {
				vAssert(a.nextEmit == e+uint64(want), "nextEmit advances by the emitted run")
			}
		}
	case 2:
		vAssert(ntask == 0 && o.n == 0 && o.errs == 0, "completion produces no element")
		if f == 0 {
			vAssert(o.completes == 1 && stopped, "with idle workers the completion is forwarded at once")
		} else {
			vAssert(o.completes == 0 && !stopped && a.upstreamDone, "with busy workers the completion waits for their results")
			vCover("completion-deferred")
		}
	case 3:
		vAssert(o.errs == 1 && o.err == vS_errBoom && o.completes == 0 && stopped, "an upstream error is forwarded and the stage stops")
	default:
		vAssert(o.cancels == 1 && stopped, "a cancel is forwarded upstream and the stage stops")
	}
	vCover("end")
}

func heapPush(a *parallelMapActor[int, int], seq uint64, v int) {
	heap.Push(&a.pending, parallelResult{seqNo: seq, value: v})
}
