//go:build verif

package stream

// helpers shared by the stream checks (C45, C46)

import (
	"errors"

	"github.com/tochemey/goakt/v4/actor"
)

// substituted for stream.newStageID (uuid): stage ids play no role in the data path
func vS_stageID() string { return "stage" }

var vS_errBoom = errors.New("boom")

// ---- what one handler invocation sent, split by destination (U upstream, D downstream) ----

const vSMaxOut = 8

type vSOutbox struct {
	vals      [vSMaxOut]any    // values of the streamElements sent to D, in order
	seqs      [vSMaxOut]uint64 // their seqNo
	n         int
	completes int   // streamComplete sent to D
	errs      int   // streamError sent to D
	err       error // the (last) error sent to D
	lateElem  bool  // a streamElement was sent to D after a streamComplete/streamError
	reqs      int   // streamRequest sent to U
	reqN      int64 // sum of their n
	reqBad    bool  // a request with n <= 0
	cancels   int   // streamCancel sent to U
	other     int   // anything else (wrong destination or unexpected type)
	badSub    bool  // a message with a subID different from the wired one
}

func vS_collect(up, down *actor.PID, subID string) *vSOutbox {
	return vS_collect2(up, subID, down, subID)
}

// upSub: the subscription id the actor uses towards its upstream; subID: towards `down`
func vS_collect2(up *actor.PID, upSub string, down *actor.PID, subID string) *vSOutbox {
	o := &vSOutbox{}
	for i := 0; i < len(actor.VOut) && i < vSMaxOut+4; i++ {
		s := actor.VOut[i]
		switch m := s.Msg.(type) {
		case *streamElement:
			if s.To == down && o.n < vSMaxOut {
				if o.completes+o.errs > 0 {
					o.lateElem = true
				}
				o.vals[o.n], o.seqs[o.n] = m.value, m.seqNo
				o.n++
				if m.subID != subID {
					o.badSub = true
				}
			} else {
				o.other++
			}
		case *streamComplete:
			if s.To == down {
				o.completes++
				if m.subID != subID {
					o.badSub = true
				}
			} else {
				o.other++
			}
		case *streamError:
			if s.To == down {
				o.errs++
				o.err = m.err
			} else {
				o.other++
			}
		case *streamRequest:
			if s.To == up {
				o.reqs++
				o.reqN += m.n
				if m.n <= 0 {
					o.reqBad = true
				}
				if m.subID != upSub {
					o.badSub = true
				}
			} else {
				o.other++
			}
		case *streamCancel:
			if s.To == up {
				o.cancels++
			} else {
				o.other++
			}
		default:
			o.other++
		}
	}
	return o
}

