//go:build verif

package stream

import (
	"context"

	"github.com/tochemey/goakt/v4/actor"
)

func init() {
	vRegister("vC46_hubStep", vC46_hubStep)
	vRegister("vC46_slotStep", vC46_slotStep)
	vRegister("vC46_mergeStep", vC46_mergeStep)
	vRegister("vC46_zipStep", vC46_zipStep)
}

// substituted for stream.spawnSubPipeline (materializes a sub-pipeline in a real actor system): records the stage list.
// The harness instantiates the junction-made terminal stage (hub / merge sink) from it and plays the sub-pipeline itself.
var vC46_spawned [][]*stage

func vC46_spawn(ctx context.Context, system actor.ActorSystem, stages []*stage) {
	vC46_spawned = append(vC46_spawned, stages)
}

// ---- fan-out hubs (Broadcast / Balance / Partition): one handler step from an arbitrary state -------------

const (
	vHBroadcast = iota
	vHBalance
	vHPartition
)

// the fields the three hub types have in common
type vC46Hub struct {
	recv      func(*actor.ReceiveContext)
	slots     *[]*actor.PID
	demand    *[]int64
	pending   *int64
	seqNo     *uint64
	cancelled *int
	nextSlot  *int // balance only
}

type vC46Slot struct {
	recv    func(*actor.ReceiveContext)
	hub     **actor.PID
	pending *int64
}

func vC46_branches(kind int) []Source[int] {
	src := Of[int]() // the upstream sub-pipeline description; it is handed to spawnSubPipeline, never run here
	switch kind {
	case vHBroadcast:
		return Broadcast(src, 2)
	case vHBalance:
		return Balance(src, 2)
	default:
		return Partition(src, 2, func(x int) int { return x }) // routes element x to branch x (out of range for x not in {0,1})
	}
}

func vC46_slotOf(kind int, a actor.Actor) vC46Slot {
	switch kind {
	case vHBroadcast:
		s := a.(*broadcastSlotActor[int])
		return vC46Slot{recv: s.Receive, hub: &s.hub, pending: &s.pendingDemand}
	case vHBalance:
		s := a.(*balanceSlotActor[int])
		return vC46Slot{recv: s.Receive, hub: &s.hub, pending: &s.pendingDemand}
	default:
		s := a.(*partitionSlotActor[int])
		return vC46Slot{recv: s.Receive, hub: &s.hub, pending: &s.pendingDemand}
	}
}

func vC46_hubOf(kind int, a actor.Actor) vC46Hub {
	switch kind {
	case vHBroadcast:
		h := a.(*broadcastHubActor[int])
		return vC46Hub{recv: h.Receive, slots: &h.slots, demand: &h.demand, pending: &h.pending, seqNo: &h.seqNo, cancelled: &h.cancelled}
	case vHBalance:
		h := a.(*balanceHubActor[int])
		return vC46Hub{recv: h.Receive, slots: &h.slots, demand: &h.demand, pending: &h.pending, seqNo: &h.seqNo, cancelled: &h.cancelled, nextSlot: &h.nextSlot}
	default:
		h := a.(*partitionHubActor[int])
		return vC46Hub{recv: h.Receive, slots: &h.slots, demand: &h.demand, pending: &h.pending, seqNo: &h.seqNo, cancelled: &h.cancelled}
	}
}

var vC46_subIDs = [2]string{"b0", "b1"}

// materialize the two branch heads (slot actors) through the real registerSlot and obtain the real hub
func vC46_fanout(kind int) (slot [2]vC46Slot, slotPID, down [2]*actor.PID, hub vC46Hub) {
	br := vC46_branches(kind)
	vAssert(len(br) == 2, "a fan-out with n=2 returns two branch sources")
	vC46_spawned = nil
	for i := 0; i < 2; i++ {
		st := br[i].stages[0]
		slot[i] = vC46_slotOf(kind, st.actorFn(st.config))
		slotPID[i], down[i] = actor.VNewSysPID(), actor.VNewPID()
		actor.VReset()
		slot[i].recv(actor.VCtx(slotPID[i], &stageWire{subID: vC46_subIDs[i], downstream: down[i]}))
		vAssert(len(actor.VOut) == 0 && actor.VShutdowns == 0, "wiring a branch head sends nothing")
		if i == 0 {
			vAssert(len(vC46_spawned) == 0, "the upstream sub-pipeline is not started before every branch is wired")
		}
	}
	vAssert(len(vC46_spawned) == 1 && len(vC46_spawned[0]) == 2, "the upstream sub-pipeline (source + hub) is started exactly once, when the last branch is wired")
	hs := vC46_spawned[0][1]
	hub = vC46_hubOf(kind, hs.actorFn(hs.config))
	return
}

func vC46_hubStep() {
	kind := vCase("hub")
	_, slotPID, _, h := vC46_fanout(kind)
	self, up := actor.VNewPID(), actor.VNewPID()
	actor.VReset()
	h.recv(actor.VCtx(self, &stageWire{subID: "h", upstream: up}))
	vAssert(len(actor.VOut) == 2 && actor.VShutdowns == 0, "a wired hub announces itself to each branch head, nothing else")
	for i := 0; i < 2; i++ {
		if i < len(actor.VOut) {
			m, ok := actor.VOut[i].Msg.(*hubReady)
			vAssert(ok && m.hub == self && actor.VOut[i].To == slotPID[i], "hubReady carries the hub and goes to branch i")
		}
	}

	// arbitrary state
	var d [2]int64
	var act [2]bool
	d[0], d[1] = vNondetInt64("demand0"), vNondetInt64("demand1")
	act[0], act[1] = vNondetBool("active0"), vNondetBool("active1")
	p := vNondetInt64("pending")
	seq0 := vNondetUint64("seqNo")
	next := vChoose("nextSlot", 2)
	vAssume(d[0] >= 0 && d[0] <= 3 && d[1] >= 0 && d[1] <= 3 && p >= 0 && p <= 3 && seq0 < 1<<62)
	vAssume(act[0] || act[1]) // a hub whose branches all cancelled has stopped
	for i := 0; i < 2; i++ {
		(*h.demand)[i] = d[i]
		if !act[i] {
			(*h.slots)[i] = nil
			*h.cancelled++
		}
	}
	*h.pending, *h.seqNo = p, seq0
	if h.nextSlot != nil {
		*h.nextSlot = next
	}
	// Inv: what was requested upstream and has not arrived yet is covered by branch demand
	//   broadcast/partition: pending <= demand of EVERY active branch;  balance: pending <= total demand of active branches
	cover := func(d [2]int64, act [2]bool) int64 {
		if kind == vHBalance {
			var t int64
			for i := 0; i < 2; i++ {
				if act[i] {
					t += d[i]
				}
			}
			return t
		}
		m := int64(-1)
		for i := 0; i < 2; i++ {
			if act[i] && (m < 0 || d[i] < m) {
				m = d[i]
			}
		}
		if m < 0 {
			m = 0
		}
		return m
	}
	vAssume(p <= cover(d, act))

	op := vChoose("msg", 5)
	who := vChoose("slot", 2)
	n := vNondetInt64("n")
	x := vNondetInt("x")
	var msg any
	switch op {
	case 0:
		vAssume(n >= 1 && n <= 3 && act[who])
		msg = &slotDemand{slot: who, n: n}
	case 1:
		vAssume(p >= 1) // elements arrive only against a request
		msg = &streamElement{subID: "h", value: x, seqNo: 7}
	case 2:
		msg = &streamComplete{subID: "h"}
	case 3:
		msg = &streamError{subID: "h", err: vS_errBoom}
	default:
		vAssume(act[who])
		msg = &slotCancel{slot: who}
	}
	actor.VReset()
	h.recv(actor.VCtx(self, msg))
	var o [2]*vSOutbox
	o[0] = vS_collect2(up, "h", slotPID[0], "b0")
	o[1] = vS_collect2(up, "h", slotPID[1], "b1")
	stopped := actor.VShutdowns > 0
	sent := o[0].reqs + o[0].cancels
	for i := 0; i < 2; i++ {
		sent += o[i].n + o[i].completes + o[i].errs
		vAssert(!o[i].badSub && !o[i].lateElem, "messages to a branch carry that branch's subscription id")
		if !act[i] {
			vAssert(o[i].n+o[i].completes+o[i].errs == 0, "a cancelled branch receives nothing more")
		}
	}
	vAssert(len(actor.VOut) == sent && actor.VUnhandled == 0, "a hub only talks to its branch heads and its upstream")

	// reference post-state
	d2, act2, p2 := d, act, p
	switch op {
	case 0:
		d2[who] += n
	case 1:
		p2--
		switch kind {
		case vHBroadcast:
			for i := 0; i < 2; i++ {
				if act[i] {
					vAssert(o[i].n == 1 && o[i].vals[0] == any(x) && o[i].seqs[0] == seq0+1, "Broadcast: every active branch receives the element exactly once")
					d2[i]--
				}
			}
			vCover("broadcast-element")
		case vHBalance:
			chosen := -1
			if act[next] && d[next] > 0 {
				chosen = next
			} else if act[1-next] && d[1-next] > 0 {
				chosen = 1 - next
			}
			vAssert(chosen >= 0, "Balance: an arriving element always finds a branch with demand")
			vAssert(o[0].n+o[1].n == 1, "Balance: the element goes to exactly one branch")
			if chosen >= 0 {
				vAssert(o[chosen].n == 1 && o[chosen].vals[0] == any(x) && o[chosen].seqs[0] == seq0+1, "Balance: the element goes to the next branch (round robin) that has demand")
				d2[chosen]--
			}
			vCover("balance-element")
		default:
			if x >= 0 && x < 2 && act[x] {
				vAssert(o[x].n == 1 && o[x].vals[0] == any(x) && o[x].seqs[0] == seq0+1 && o[1-x].n == 0, "Partition: the element goes to the branch its function selects, and only there")
				d2[x]--
				vCover("partition-element")
			} else {
				vAssert(o[0].n+o[1].n == 0, "Partition: an element for an out-of-range or cancelled branch is dropped (documented)")
				vCover("partition-dropped")
			}
		}
	case 4:
		act2[who] = false
	}
	switch op {
	case 2:
		for i := 0; i < 2; i++ {
			if act[i] {
				vAssert(o[i].completes == 1 && o[i].n == 0 && o[i].errs == 0, "completion reaches every active branch once")
			}
		}
		vAssert(stopped && o[0].reqs == 0, "a completed hub stops")
	case 3:
		for i := 0; i < 2; i++ {
			if act[i] {
				vAssert(o[i].errs == 1 && o[i].err == vS_errBoom && o[i].n == 0 && o[i].completes == 0, "an upstream error reaches every active branch once")
			}
		}
		vAssert(stopped && o[0].reqs == 0, "a failed hub stops")
	default:
		vAssert(o[0].completes+o[1].completes+o[0].errs+o[1].errs == 0, "no termination message in normal operation")
		if op == 4 && !act2[0] && !act2[1] {
			vAssert(stopped && o[0].cancels == 1 && o[0].reqs == 0, "when every branch has cancelled the hub cancels upstream and stops")
			vCover("all-cancelled")
		} else {
			vAssert(!stopped && o[0].cancels == 0, "the hub keeps running while a branch is active")
			for i := 0; i < 2; i++ {
				vAssert((*h.demand)[i] == d2[i] && d2[i] >= 0, "per-branch demand ledger = previous + requested - delivered, never negative")
				vAssert(((*h.slots)[i] != nil) == act2[i], "exactly the cancelled branches are removed")
			}
			vAssert(o[0].reqs <= 1 && !o[0].reqBad, "at most one upstream request per step")
			vAssert(*h.pending == p2+o[0].reqN, "pending = previous - arrived + requested")
			if o[0].reqs == 1 {
				vAssert(p2 == 0, "the hub pulls only when nothing is in flight")
				vCover("pull")
			}
			if p2 == 0 && cover(d2, act2) > 0 {
				vAssert(o[0].reqs == 1 && o[0].reqN == cover(d2, act2), "with nothing in flight the hub pulls exactly what its branches can absorb")
			}
			vAssert(*h.pending <= cover(d2, act2), "Inv preserved: everything in flight is covered by branch demand (no element can arrive without a taker)")
		}
	}
	vCover("end")
}

// ---- branch heads (slot actors): one step ------------------------------------------------------------------

func vC46_slotStep() {
	kind := vCase("hub")
	slot, slotPID, down, _ := vC46_fanout(kind)
	who := vChoose("slot", 2)
	s, self, dn := slot[0], slotPID[0], down[0]
	sub := "b0"
	if who == 1 {
		s, self, dn, sub = slot[1], slotPID[1], down[1], "b1"
	}
	hubPID := actor.VNewPID()
	known := vNondetBool("hubKnown")
	pd := vNondetInt64("pendingDemand")
	vAssume(pd >= 0 && pd <= 4)
	if known {
		*s.hub = hubPID
		vAssume(pd == 0) // buffered demand was flushed when the hub announced itself
	}
	*s.pending = pd
	op := vChoose("msg", 6)
	n, x := vNondetInt64("n"), vNondetInt("x")
	vAssume(n >= 1 && n <= 4)
	var msg any
	elem := &streamElement{subID: sub, value: x, seqNo: 5}
	switch op {
	case 0:
		msg = &streamRequest{subID: sub, n: n}
	case 1:
		vAssume(!known)
		msg = &hubReady{hub: hubPID}
	case 2:
		vAssume(known)
		msg = elem
	case 3:
		vAssume(known)
		msg = &streamComplete{subID: sub}
	case 4:
		vAssume(known)
		msg = &streamError{subID: sub, err: vS_errBoom}
	default:
		msg = &streamCancel{subID: sub}
	}
	actor.VReset()
	s.recv(actor.VCtx(self, msg))
	o := vS_collect(nil, dn, sub)
	stopped := actor.VShutdowns > 0
	// messages to the hub
	var toHubDemand int64
	toHub, toHubCancel := 0, 0
	strange := false
	for i := 0; i < len(actor.VOut) && i < 4; i++ {
		if actor.VOut[i].To == hubPID {
			toHub++
			switch m := actor.VOut[i].Msg.(type) {
			case *slotDemand:
				vAssert(m.slot == who && m.n > 0, "demand is reported for this branch, positive")
				toHubDemand += m.n
			case *slotCancel:
				vAssert(m.slot == who, "cancel names this branch")
				toHubCancel++
			default:
				strange = true
			}
		}
	}
	vAssert(!strange, "a branch head only sends slotDemand/slotCancel to the hub")
	vAssert(len(actor.VOut) == toHub+o.n+o.completes+o.errs && actor.VUnhandled == 0, "a branch head only talks to its hub and its downstream")
	switch op {
	case 0:
		vAssert(!stopped && o.n+o.completes+o.errs == 0, "a request produces nothing downstream")
		if known {
			vAssert(toHubDemand == n && *s.pending == 0, "downstream demand is relayed to the hub unchanged")
		} else {
			vAssert(toHub == 0 && *s.pending == pd+n, "demand arriving before the hub is known is buffered")
			vCover("buffered-demand")
		}
	case 1:
		vAssert(!stopped && *s.hub == hubPID && toHubDemand == pd && *s.pending == 0 && toHubCancel == 0, "when the hub announces itself all buffered demand is relayed, once")
	case 2:
		vAssert(!stopped && o.n == 1 && o.vals[0] == any(x) && o.seqs[0] == 5 && toHub == 0 && o.completes+o.errs == 0, "an element is forwarded downstream unchanged, exactly once")
	case 3:
		vAssert(stopped && o.completes == 1 && o.n+o.errs == 0 && toHub == 0, "completion is forwarded once and the branch head stops")
	case 4:
		vAssert(stopped && o.errs == 1 && o.err == vS_errBoom && o.n+o.completes == 0 && toHub == 0, "an error is forwarded once and the branch head stops")
	default:
		vAssert(stopped && o.n+o.errs == 0 && toHubDemand == 0, "a cancelled branch head stops")
		if known {
			vAssert(toHubCancel == 1, "a cancelled branch head tells the hub")
		} else {
			vAssert(toHub == 0, "nothing can be told to an unknown hub")
			vCover("cancel-before-hub")
		}
	}
	vCover("end")
}

// ---- Merge / Concat source actors: one step ------------------------------------------------------------------

// instantiate the merge sink the junction appended to sub-pipeline `idx` and check what it forwards
func vC46_checkSubSink(self *actor.PID, idx, slot int) {
	st := vC46_spawned[idx]
	vAssert(len(st) == 2 && st[1].kind == sinkKind, "a sub-pipeline is the sub-source followed by the junction's internal sink")
	sk := st[1].actorFn(st[1].config).(*sinkActor)
	sp, up := actor.VNewPID(), actor.VNewPID()
	actor.VReset()
	sk.Receive(actor.VCtx(sp, &stageWire{subID: "x", upstream: up}))
	y := vNondetInt("subValue")
	actor.VReset()
	sk.Receive(actor.VCtx(sp, &streamElement{subID: "x", value: y, seqNo: 1}))
	found := 0
	for i := 0; i < len(actor.VOut) && i < 3; i++ {
		if m, ok := actor.VOut[i].Msg.(*mergeSubValue); ok {
			vAssert(actor.VOut[i].To == self && m.slot == slot && m.value == any(y), "the internal sink forwards each element, tagged with its source index, to the junction")
			found++
		}
	}
	vAssert(found == 1 && actor.VShutdowns == 0, "one mergeSubValue per element")
	actor.VReset()
	sk.Receive(actor.VCtx(sp, &streamComplete{subID: "x"}))
	_ = sk.PostStop(nil)
	found = 0
	for i := 0; i < len(actor.VOut) && i < 3; i++ {
		if m, ok := actor.VOut[i].Msg.(*mergeSubDone); ok {
			vAssert(actor.VOut[i].To == self && m.slot == slot, "the internal sink reports completion of its source to the junction")
			found++
		}
	}
	vAssert(found == 1 && len(actor.VOut) == 1 && actor.VShutdowns > 0, "exactly one mergeSubDone per sub-source (also counting PostStop)")
}

func vC46_mergeStep() {
	concat := vCase("concat") == 1
	var st *stage
	if concat {
		st = Concat(Of[int](), Of[int]()).stages[0]
	} else {
		st = Merge(Of[int](), Of[int]()).stages[0]
	}
	cfg := st.config
	cfg.System = nil
	act := st.actorFn(cfg)
	self, down := actor.VNewPID(), actor.VNewPID()
	vC46_spawned = nil
	actor.VReset()
	var recv func(*actor.ReceiveContext)
	var mrg *mergeSourceActor[int]
	var cct *concatSourceActor[int]
	if concat {
		cct = act.(*concatSourceActor[int])
		recv = cct.Receive
	} else {
		mrg = act.(*mergeSourceActor[int])
		recv = mrg.Receive
	}
	recv(actor.VCtx(self, &stageWire{subID: "s", downstream: down}))
	vAssert(len(actor.VOut) == 0 && actor.VShutdowns == 0, "wiring a junction source sends nothing")
	if concat {
		vAssert(len(vC46_spawned) == 1 && cct.current == 0, "Concat starts only its first sub-source")
		vC46_checkSubSink(self, 0, 0)
	} else {
		vAssert(len(vC46_spawned) == 2, "Merge starts all its sub-sources")
		vC46_checkSubSink(self, 0, 0)
		vC46_checkSubSink(self, 1, 1)
	}

	// arbitrary state
	var model [4]any
	b := vNondetInt("buffered")
	dd := vNondetInt64("demand")
	seq0 := vNondetUint64("seqNo")
	dc := vChoose("subSourcesDone", 2) // 0 or 1 of the two sub-sources finished (2 with an empty buffer = stopped)
	vAssume(b >= 0 && b <= 2 && dd >= 0 && dd <= 3 && seq0 < 1<<62)
	vAssume(dd == 0 || b == 0) // Inv: leftover demand and buffered elements never coexist between handlers
	var q *queue
	if concat {
		q = &cct.buf
		cct.demand, cct.seqNo, cct.current = dd, seq0, dc
		if dc == 1 {
			vC46_spawned = append(vC46_spawned, nil) // the second sub-source was started when the first finished
		}
	} else {
		q = &mrg.buf
		mrg.demand, mrg.seqNo, mrg.doneCount = dd, seq0, dc
	}
	for i := 0; i < 2; i++ {
		if i < b {
			v := vNondetInt("buf")
			q.push(v)
			model[i] = v
		}
	}
	nspawned := len(vC46_spawned)
	op := vChoose("msg", 4)
	n, x := vNondetInt64("n"), vNondetInt("x")
	from := vChoose("from", 2)
	var msg any
	switch op {
	case 0:
		vAssume(n >= 1 && n <= 3)
		msg = &streamRequest{subID: "s", n: n}
	case 1:
		if concat {
			vAssume(from == dc) // only the running sub-source produces
		}
		msg = &mergeSubValue{slot: from, value: x}
		model[b] = x
	case 2:
		if concat {
			vAssume(from == dc)
		}
		msg = &mergeSubDone{slot: from}
	default:
		msg = &streamCancel{subID: "s"}
	}
	actor.VReset()
	recv(actor.VCtx(self, msg))
	o := vS_collect(nil, down, "s")
	stopped := actor.VShutdowns > 0
	vAssert(o.other == 0 && actor.VUnhandled == 0 && !o.badSub && !o.lateElem && o.errs == 0, "a junction source only sends elements and a completion downstream")
	if op == 3 {
		vAssert(o.n == 0 && o.completes == 1 && stopped, "a cancelled junction source completes downstream and stops")
		vCover("end")
		return
	}
	total, demand, dc2 := b, dd, dc
	switch op {
	case 0:
		demand += n
	case 1:
		total++
	case 2:
		dc2++
	}
	want := total
	if int64(want) > demand {
		want = int(demand)
	}
	vAssert(o.n == want, "a junction source emits exactly min(demand, buffered) elements")
	for i := 0; i < 3; i++ {
		if i < o.n && i < want {
			vAssert(o.vals[i] == model[i] && o.seqs[i] == seq0+uint64(i)+1, "elements leave in arrival order (so each source's order is preserved), numbered consecutively")
		}
	}
	if concat && op == 2 && dc == 0 {
		vAssert(len(vC46_spawned) == nspawned+1 && cct.current == 1, "Concat starts the next sub-source exactly when the current one has finished")
		vC46_checkSubSinkConcat(self, nspawned)
		vCover("concat-next")
	} else {
		vAssert(len(vC46_spawned) == nspawned, "no sub-source is started otherwise")
	}
	if dc2 == 2 && want == total {
		vAssert(o.completes == 1 && stopped, "the junction completes (once) when every sub-source finished and everything buffered was delivered")
		vCover("completes")
	} else {
		vAssert(o.completes == 0 && !stopped, "the junction does not complete before every sub-source finished and its buffer drained")
		vAssert(q.len() == total-want, "undelivered elements stay buffered")
		for i := 0; i < 3; i++ {
			if i < total-want {
				vAssert(q.data[q.head+i] == model[want+i], "the buffer keeps arrival order")
			}
		}
		if concat {
			vAssert(cct.demand == demand-int64(want), "demand ledger")
			vAssert(cct.demand == 0 || cct.buf.len() == 0, "Inv preserved")
		} else {
			vAssert(mrg.demand == demand-int64(want) && mrg.doneCount == dc2, "demand ledger and finished-source count")
			vAssert(mrg.demand == 0 || mrg.buf.len() == 0, "Inv preserved")
		}
		if q.len() > 0 {
			vCover("backpressured")
		}
	}
	vCover("end")
}

func vC46_checkSubSinkConcat(self *actor.PID, idx int) { vC46_checkSubSink(self, idx, 1) }

// ---- Zip (zipNSourceActor, two inputs): one step -------------------------------------------------------------

func vC46_zipStep() {
	st := Zip(Of[int](), Of[int]()).stages[0]
	cfg := st.config
	a := st.actorFn(cfg).(*zipNSourceActor[int, []int])
	self, down := actor.VNewPID(), actor.VNewPID()
	vC46_spawned = nil
	actor.VReset()
	a.Receive(actor.VCtx(self, &stageWire{subID: "s", downstream: down}))
	vAssert(len(actor.VOut) == 0 && actor.VShutdowns == 0 && len(vC46_spawned) == 2, "Zip starts all its inputs and sends nothing")
	vC46_checkSubSink(self, 0, 0)
	vC46_checkSubSink(self, 1, 1)

	// arbitrary state: per-input buffers, demand, finished flags
	var m [2][3]int
	var l [2]int
	var fin [2]bool
	l[0], l[1] = vNondetInt("len0"), vNondetInt("len1")
	fin[0], fin[1] = vNondetBool("done0"), vNondetBool("done1")
	dd := vNondetInt64("demand")
	seq0 := vNondetUint64("seqNo")
	vAssume(l[0] >= 0 && l[0] <= 2 && l[1] >= 0 && l[1] <= 2 && dd >= 0 && dd <= 3 && seq0 < 1<<62)
	vAssume(dd == 0 || l[0] == 0 || l[1] == 0)                // Inv1: a formable tuple is emitted as soon as there is demand
	vAssume(!(fin[0] && l[0] == 0) && !(fin[1] && l[1] == 0)) // Inv2: a finished input with an empty buffer has completed the zip
	for s := 0; s < 2; s++ {
		for i := 0; i < 2; i++ {
			if i < l[s] {
				m[s][i] = vNondetInt("buf")
				a.bufs[s].push(m[s][i])
			}
		}
		a.done[s] = fin[s]
	}
	a.demand, a.seqNo = dd, seq0
	op := vChoose("msg", 4)
	n, x := vNondetInt64("n"), vNondetInt("x")
	from := vChoose("from", 2)
	var msg any
	switch op {
	case 0:
		vAssume(n >= 1 && n <= 3)
		msg = &streamRequest{subID: "s", n: n}
		dd += n
	case 1:
		vAssume(!fin[from])
		msg = &mergeSubValue{slot: from, value: x}
		m[from][l[from]] = x
		l[from]++
	case 2:
		vAssume(!fin[from])
		msg = &mergeSubDone{slot: from}
		fin[from] = true
	default:
		msg = &streamCancel{subID: "s"}
	}
	actor.VReset()
	a.Receive(actor.VCtx(self, msg))
	o := vS_collect(nil, down, "s")
	stopped := actor.VShutdowns > 0
	vAssert(o.other == 0 && actor.VUnhandled == 0 && !o.badSub && !o.lateElem && o.errs == 0, "Zip only sends tuples and a completion downstream")
	if op == 3 {
		vAssert(o.n == 0 && o.completes == 1 && stopped, "a cancelled Zip completes downstream and stops")
		vCover("end")
		return
	}
	want := l[0]
	if l[1] < want {
		want = l[1]
	}
	if int64(want) > dd {
		want = int(dd)
	}
	vAssert(o.n == want, "Zip emits exactly min(demand, shortest buffer) tuples")
	for i := 0; i < 3; i++ {
		if i < o.n && i < want {
			t, ok := o.vals[i].([]int)
			vAssert(ok && len(t) == 2, "a tuple holds one element per input")
			if ok && len(t) == 2 {
				vAssert(t[0] == m[0][i] && t[1] == m[1][i], "Zip pairs elements positionally, in input order")
			}
			vAssert(o.seqs[i] == seq0+uint64(i)+1, "tuples are numbered consecutively")
		}
	}
	if want > 0 {
		vCover("tuple")
	}
	exhausted := (fin[0] && l[0]-want == 0) || (fin[1] && l[1]-want == 0)
	if exhausted {
		vAssert(o.completes == 1 && stopped, "Zip completes (once) when a finished input has no element left: no further pair can be formed")
		vCover("completes")
	} else {
		vAssert(o.completes == 0 && !stopped, "Zip does not complete while every finished input still has elements to pair")
		vAssert(a.demand == dd-int64(want), "demand ledger")
		for s := 0; s < 2; s++ {
			vAssert(a.bufs[s].len() == l[s]-want, "unpaired elements stay buffered")
			for i := 0; i < 3; i++ {
				if i < l[s]-want {
					vAssert(a.bufs[s].data[a.bufs[s].head+i] == any(m[s][want+i]), "buffers keep arrival order")
				}
			}
		}
		vAssert(a.demand == 0 || a.bufs[0].len() == 0 || a.bufs[1].len() == 0, "Inv1 preserved")
	}
	vCover("end")
}
