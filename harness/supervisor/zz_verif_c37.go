//go:build verif

package supervisor

import (
	"runtime"

	"github.com/tochemey/goakt/v4/errors"
)

// VC37Custom1 / VC37Custom2 are user-defined error types for typed directives
type VC37Custom1 struct{}

func (*VC37Custom1) Error() string { return "custom1" }

type VC37Custom2 struct{}

func (VC37Custom2) Error() string { return "custom2" }

// substitute for errorType (reflect.TypeOf(err).String() is outside the encoder): the same strings reflect produces
// for the error types the harness uses
func vC37_errorType(err error) string {
	switch err.(type) {
	case nil:
		return "nil"
	case *errors.PanicError:
		return "errors.PanicError"
	case *runtime.PanicNilError:
		return "runtime.PanicNilError"
	case *errors.AnyError:
		return "errors.AnyError"
	case *errors.InternalError:
		return "errors.InternalError"
	case *VC37Custom1:
		return "supervisor.VC37Custom1"
	case VC37Custom2:
		return "supervisor.VC37Custom2"
	}
	return "?"
}
