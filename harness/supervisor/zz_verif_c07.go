//go:build verif

package supervisor

import (
	"runtime"

	"github.com/tochemey/goakt/v4/errors"
)

// error universe of the C07 harnesses (two application error types; E2 has a value receiver, so both E2 and *E2 are errors)
type VC07E1 struct{}

func (*VC07E1) Error() string { return "e1" }

type VC07E2 struct{}

func (VC07E2) Error() string { return "e2" }

// substituted for errorType (reflect.TypeOf(err), pointer stripped, String()): a type switch over the error universe that
// yields one distinct name per type, the same for T and *T
func VC07ErrorType(err error) string {
	if err == nil {
		return "nil"
	}
	switch err.(type) {
	case *errors.PanicError:
		return "errors.PanicError"
	case *runtime.PanicNilError:
		return "runtime.PanicNilError"
	case *errors.AnyError:
		return "errors.AnyError"
	case *VC07E1:
		return "supervisor.VC07E1"
	case VC07E2, *VC07E2:
		return "supervisor.VC07E2"
	}
	return "other"
}
