// CPython 3.11 allocates and frees its 16 KiB frame-stack chunks with mmap/munmap every time the call depth
// crosses a chunk boundary; in this VM that page-fault/TLB traffic dominates deep-recursion workloads.
// This installs an arena allocator that caches freed chunks instead of unmapping them.
#include <stddef.h>
#include <sys/mman.h>

typedef struct {
  void *ctx;
  void *(*alloc)(void *ctx, size_t size);
  void (*free)(void *ctx, void *ptr, size_t size);
} ArenaAllocator;

#define NCLASS 4
#define NCACHE 64
static void *cache[NCLASS][NCACHE];
static int ncached[NCLASS];

static int cls(size_t n) {
  size_t s = 16384;
  for (int i = 0; i < NCLASS; i++, s <<= 1)
    if (n == s) return i;
  return -1;
}

static void *a_alloc(void *ctx, size_t n) {
  int c = cls(n);
  if (c >= 0 && ncached[c] > 0) return cache[c][--ncached[c]];
  void *p = mmap(NULL, n, PROT_READ | PROT_WRITE, MAP_PRIVATE | MAP_ANONYMOUS, -1, 0);
  return p == MAP_FAILED ? NULL : p;
}

static void a_free(void *ctx, void *p, size_t n) {
  int c = cls(n);
  if (c >= 0 && ncached[c] < NCACHE) {
    cache[c][ncached[c]++] = p;
    return;
  }
  munmap(p, n);
}

void verif_install_arena(void (*setter)(ArenaAllocator *)) {
  static ArenaAllocator a = {NULL, a_alloc, a_free};
  setter(&a);
}
