// vdump: load packages of the repository under test (with overlay-injected harness files and optional
// one-line constant shrinks), build go/ssa with instantiated generics, and serialise every function
// reachable from the requested entry points to a JSON IR consumed by the Python symbolic executor.
package main

import (
	"crypto/sha256"
	"encoding/hex"
	"encoding/json"
	"flag"
	"fmt"
	"go/constant"
	"go/token"
	"go/types"
	"os"
	"path/filepath"
	"sort"
	"strings"

	"golang.org/x/tools/go/packages"
	"golang.org/x/tools/go/ssa"
	"golang.org/x/tools/go/ssa/ssautil"
)

type Spec struct {
	Dir      string            `json:"dir"`      // repository root
	Patterns []string          `json:"patterns"` // packages to load (e.g. ./actor)
	Overlay  map[string]string `json:"overlay"`  // virtual path -> real file path
	Replace  []LineReplace     `json:"replace"`  // one-line constant shrinks
	Entries  []string          `json:"entries"`  // fully qualified function names (pkgpath.Func)
	Descend  []string          `json:"descend"`  // package path prefixes whose function bodies are dumped
	Stop     []string          `json:"stop"`     // function full names never traversed / dumped
	Tags     []string          `json:"tags"`
	Out      string            `json:"out"`
}

type LineReplace struct {
	File string `json:"file"`
	Old  string `json:"old"`
	New  string `json:"new"`
}

type dumper struct {
	prog    *ssa.Program
	fset    *token.FileSet
	types   map[string]map[string]any
	typeIDs map[types.Type]string
	funcs   map[string]map[string]any
	work    []*ssa.Function
	seen    map[*ssa.Function]bool
	descend []string
	stop    map[string]bool
	// interface dispatch: concrete types that flow into interfaces
	ifaceTypes map[string]types.Type
	// invoked method names
	invoked   map[string]bool
	methodsD  map[string]map[string]string
	globals   map[string]map[string]any
	files     map[string]bool
	external  map[string]bool
	msets     map[string][]string
	noEnqueue bool
}

func main() {
	specPath := flag.String("spec", "", "spec json")
	flag.Parse()
	raw, err := os.ReadFile(*specPath)
	if err != nil {
		fatal(err)
	}
	var spec Spec
	if err := json.Unmarshal(raw, &spec); err != nil {
		fatal(err)
	}
	overlay := map[string][]byte{}
	for virt, real := range spec.Overlay {
		b, err := os.ReadFile(real)
		if err != nil {
			fatal(err)
		}
		overlay[virt] = b
	}
	for _, r := range spec.Replace {
		p := r.File
		if !filepath.IsAbs(p) {
			p = filepath.Join(spec.Dir, p)
		}
		b, ok := overlay[p]
		if !ok {
			b, err = os.ReadFile(p)
			if err != nil {
				fatal(err)
			}
		}
		s := string(b)
		if strings.Count(s, r.Old) != 1 {
			fmt.Fprintf(os.Stderr, "STALE-ENCODING: %s: expected exactly one occurrence of %q, found %d\n", p, r.Old, strings.Count(s, r.Old))
			os.Exit(3)
		}
		overlay[p] = []byte(strings.Replace(s, r.Old, r.New, 1))
	}
	cfg := &packages.Config{
		Mode: packages.NeedName | packages.NeedFiles | packages.NeedCompiledGoFiles | packages.NeedImports |
			packages.NeedDeps | packages.NeedTypes | packages.NeedSyntax | packages.NeedTypesInfo | packages.NeedTypesSizes | packages.NeedModule,
		Dir:     spec.Dir,
		Overlay: overlay,
		Env:     append(os.Environ(), "GOFLAGS=-mod=mod", "GOPROXY=off", "GOSUMDB=off"),
	}
	if len(spec.Tags) > 0 {
		cfg.BuildFlags = []string{"-tags=" + strings.Join(spec.Tags, ",")}
	}
	pkgs, err := packages.Load(cfg, spec.Patterns...)
	if err != nil {
		fatal(err)
	}
	nerr := 0
	packages.Visit(pkgs, nil, func(p *packages.Package) {
		for _, e := range p.Errors {
			fmt.Fprintf(os.Stderr, "LOAD-ERROR: %s: %v\n", p.PkgPath, e)
			nerr++
		}
	})
	if nerr > 0 {
		os.Exit(4)
	}
	prog, _ := ssautil.AllPackages(pkgs, ssa.InstantiateGenerics)
	prog.Build()

	d := &dumper{prog: prog, fset: prog.Fset, types: map[string]map[string]any{}, typeIDs: map[types.Type]string{},
		funcs: map[string]map[string]any{}, seen: map[*ssa.Function]bool{}, descend: spec.Descend, stop: map[string]bool{},
		ifaceTypes: map[string]types.Type{}, invoked: map[string]bool{}, methodsD: map[string]map[string]string{},
		globals: map[string]map[string]any{}, files: map[string]bool{}, external: map[string]bool{}, msets: map[string][]string{}}
	for _, s := range spec.Stop {
		d.stop[s] = true
	}
	// resolve entries
	for _, e := range spec.Entries {
		i := strings.LastIndex(e, ".")
		pkgPath, name := e[:i], e[i+1:]
		var found *ssa.Function
		for _, p := range prog.AllPackages() {
			if p.Pkg.Path() == pkgPath {
				found = p.Func(name)
			}
		}
		if found == nil {
			fatal(fmt.Errorf("entry %s not found", e))
		}
		d.enqueue(found)
	}
	// fixpoint: functions, then methods of iface types for invoked names
	for {
		for len(d.work) > 0 {
			f := d.work[len(d.work)-1]
			d.work = d.work[:len(d.work)-1]
			d.dumpFunc(f)
		}
		d.resolveInvokes()
		if len(d.work) == 0 {
			break
		}
	}
	// package initialisers of every package owning a referenced global: dumped without traversing callees
	// (the executor evaluates only the slice that initialises the globals it touches)
	for {
		pkgsWithGlobals := map[string]bool{}
		for _, g := range d.globals {
			pkgsWithGlobals[g["pkg"].(string)] = true
		}
		added := false
		for _, p := range prog.AllPackages() {
			if !pkgsWithGlobals[p.Pkg.Path()] {
				continue
			}
			initFn := p.Func("init")
			if initFn == nil || d.seen[initFn] || initFn.Blocks == nil {
				continue
			}
			d.seen[initFn] = true
			d.noEnqueue = true
			d.dumpFunc(initFn)
			d.noEnqueue = false
			added = true
		}
		// function literals of the initialisers (and what they call)
		for {
			for len(d.work) > 0 {
				f := d.work[len(d.work)-1]
				d.work = d.work[:len(d.work)-1]
				d.dumpFunc(f)
			}
			d.resolveInvokes()
			if len(d.work) == 0 {
				break
			}
		}
		if !added {
			break
		}
	}
	// file hashes
	fileHashes := map[string]string{}
	var fl []string
	for f := range d.files {
		fl = append(fl, f)
	}
	sort.Strings(fl)
	for _, f := range fl {
		var b []byte
		if ob, ok := overlay[f]; ok {
			b = ob
		} else {
			b, _ = os.ReadFile(f)
		}
		h := sha256.Sum256(b)
		fileHashes[f] = hex.EncodeToString(h[:8])
	}
	ext := []string{}
	for k := range d.external {
		ext = append(ext, k)
	}
	sort.Strings(ext)
	out := map[string]any{"types": d.types, "funcs": d.funcs, "methods": d.methodsD, "globals": d.globals, "files": fileHashes, "external": ext, "msets": d.msets}
	b, err := json.Marshal(out)
	if err != nil {
		fatal(err)
	}
	if err := os.WriteFile(spec.Out, b, 0o644); err != nil {
		fatal(err)
	}
	fmt.Fprintf(os.Stderr, "vdump: %d funcs, %d types, %d bytes\n", len(d.funcs), len(d.types), len(b))
}

func fatal(err error) {
	fmt.Fprintln(os.Stderr, "vdump:", err)
	os.Exit(2)
}

func (d *dumper) shouldDescend(f *ssa.Function) bool {
	if d.stop[f.String()] {
		return false
	}
	if f.Blocks == nil {
		return false
	}
	var pkgPath string
	if strings.HasPrefix(f.Synthetic, "wrapper for") || strings.HasPrefix(f.Synthetic, "bound method wrapper") || strings.HasPrefix(f.Synthetic, "thunk for") {
		return true
	}
	if f.Pkg != nil {
		pkgPath = f.Pkg.Pkg.Path()
	} else if f.Origin() != nil && f.Origin().Pkg != nil {
		pkgPath = f.Origin().Pkg.Pkg.Path()
	} else if f.Object() != nil && f.Object().Pkg() != nil {
		pkgPath = f.Object().Pkg().Path()
	} else if f.Parent() != nil {
		return d.shouldDescend(f.Parent())
	} else if f.Synthetic != "" {
		// wrappers / bound methods / thunks: descend (they're tiny)
		return true
	}
	for _, p := range d.descend {
		if pkgPath == p || strings.HasPrefix(pkgPath, p+"/") || (strings.HasSuffix(p, "*") && strings.HasPrefix(pkgPath, strings.TrimSuffix(p, "*"))) {
			return true
		}
	}
	return false
}

func (d *dumper) enqueue(f *ssa.Function) {
	if f == nil || d.seen[f] {
		return
	}
	if d.noEnqueue && !(f.Parent() != nil && f.Parent().Name() == "init") {
		// inside package initialisers only their own function literals are traversed
		return
	}
	d.seen[f] = true
	if !d.shouldDescend(f) {
		d.external[f.String()] = true
		// still record signature so the executor can auto-stub
		d.funcs[f.String()] = map[string]any{"name": f.String(), "external": true, "sig": d.typeID(f.Signature), "relname": f.Name(), "pkg": pkgOf(f)}
		return
	}
	d.work = append(d.work, f)
}

func pkgOf(f *ssa.Function) string {
	if f.Pkg != nil {
		return f.Pkg.Pkg.Path()
	}
	if f.Object() != nil && f.Object().Pkg() != nil {
		return f.Object().Pkg().Path()
	}
	if f.Parent() != nil {
		return pkgOf(f.Parent())
	}
	return ""
}

func (d *dumper) pos(p token.Pos) string {
	if !p.IsValid() {
		return ""
	}
	ps := d.fset.Position(p)
	return fmt.Sprintf("%s:%d", ps.Filename, ps.Line)
}

func (d *dumper) typeID(t types.Type) string {
	if t == nil {
		return ""
	}
	t = types.Unalias(t)
	if id, ok := d.typeIDs[t]; ok {
		return id
	}
	id := types.TypeString(t, nil)
	d.typeIDs[t] = id
	if _, ok := d.types[id]; ok {
		return id
	}
	desc := map[string]any{}
	d.types[id] = desc
	switch tt := t.(type) {
	case *types.Basic:
		desc["kind"] = "basic"
		desc["name"] = tt.Name()
		info := tt.Info()
		switch {
		case info&types.IsBoolean != 0:
			desc["cls"] = "bool"
		case info&types.IsInteger != 0:
			desc["cls"] = "int"
			desc["unsigned"] = info&types.IsUnsigned != 0
			desc["bits"] = intBits(tt)
		case info&types.IsFloat != 0:
			desc["cls"] = "float"
			if tt.Kind() == types.Float32 {
				desc["bits"] = 32
			} else {
				desc["bits"] = 64
			}
		case info&types.IsComplex != 0:
			desc["cls"] = "complex"
		case info&types.IsString != 0:
			desc["cls"] = "string"
		case tt.Kind() == types.UnsafePointer:
			desc["cls"] = "unsafeptr"
		case tt.Kind() == types.UntypedNil:
			desc["cls"] = "nil"
		default:
			desc["cls"] = "other"
		}
	case *types.Alias:
		desc["kind"] = "alias"
		desc["underlying"] = d.typeID(types.Unalias(tt))
	case *types.Named:
		desc["kind"] = "named"
		desc["name"] = tt.Obj().Name()
		if tt.Obj().Pkg() != nil {
			desc["pkg"] = tt.Obj().Pkg().Path()
		}
		desc["underlying"] = d.typeID(tt.Underlying())
	case *types.Pointer:
		desc["kind"] = "pointer"
		desc["elem"] = d.typeID(tt.Elem())
	case *types.Struct:
		desc["kind"] = "struct"
		fs := []map[string]any{}
		for i := 0; i < tt.NumFields(); i++ {
			f := tt.Field(i)
			fs = append(fs, map[string]any{"name": f.Name(), "type": d.typeID(f.Type()), "embedded": f.Embedded()})
		}
		desc["fields"] = fs
	case *types.Array:
		desc["kind"] = "array"
		desc["elem"] = d.typeID(tt.Elem())
		desc["len"] = tt.Len()
	case *types.Slice:
		desc["kind"] = "slice"
		desc["elem"] = d.typeID(tt.Elem())
	case *types.Map:
		desc["kind"] = "map"
		desc["key"] = d.typeID(tt.Key())
		desc["elem"] = d.typeID(tt.Elem())
	case *types.Chan:
		desc["kind"] = "chan"
		desc["elem"] = d.typeID(tt.Elem())
	case *types.Signature:
		desc["kind"] = "func"
		ps := []string{}
		for i := 0; i < tt.Params().Len(); i++ {
			ps = append(ps, d.typeID(tt.Params().At(i).Type()))
		}
		rs := []string{}
		for i := 0; i < tt.Results().Len(); i++ {
			rs = append(rs, d.typeID(tt.Results().At(i).Type()))
		}
		desc["params"] = ps
		desc["results"] = rs
		desc["variadic"] = tt.Variadic()
		if tt.Recv() != nil {
			desc["recv"] = d.typeID(tt.Recv().Type())
		}
	case *types.Interface:
		desc["kind"] = "interface"
		ms := []string{}
		for i := 0; i < tt.NumMethods(); i++ {
			ms = append(ms, tt.Method(i).Name())
		}
		desc["methods"] = ms
	case *types.Tuple:
		desc["kind"] = "tuple"
		es := []string{}
		for i := 0; i < tt.Len(); i++ {
			es = append(es, d.typeID(tt.At(i).Type()))
		}
		desc["elems"] = es
	case *types.TypeParam:
		desc["kind"] = "typeparam"
	default:
		desc["kind"] = "unknown"
		desc["go"] = fmt.Sprintf("%T", t)
	}
	return id
}

func intBits(b *types.Basic) int {
	switch b.Kind() {
	case types.Int8, types.Uint8:
		return 8
	case types.Int16, types.Uint16:
		return 16
	case types.Int32, types.Uint32:
		return 32
	case types.UntypedInt, types.UntypedRune:
		return 64
	default:
		return 64
	}
}

func (d *dumper) noteIface(t types.Type) {
	id := d.typeID(t)
	if _, ok := d.ifaceTypes[id]; ok {
		return
	}
	d.ifaceTypes[id] = t
}

func (d *dumper) resolveInvokes() {
	ids := make([]string, 0, len(d.ifaceTypes))
	for id := range d.ifaceTypes {
		ids = append(ids, id)
	}
	sort.Strings(ids)
	for _, id := range ids {
		t := d.ifaceTypes[id]
		if types.IsInterface(t) {
			continue
		}
		ms := d.prog.MethodSets.MethodSet(t)
		if _, ok := d.msets[id]; !ok {
			names := []string{}
			for i := 0; i < ms.Len(); i++ {
				names = append(names, ms.At(i).Obj().Name())
			}
			d.msets[id] = names
		}
		tbl := d.methodsD[id]
		if tbl == nil {
			tbl = map[string]string{}
			d.methodsD[id] = tbl
		}
		for i := 0; i < ms.Len(); i++ {
			sel := ms.At(i)
			name := sel.Obj().Name()
			if !d.invoked[name] {
				continue
			}
			if _, ok := tbl[name]; ok {
				continue
			}
			fn := d.prog.MethodValue(sel)
			if fn == nil {
				continue
			}
			tbl[name] = fn.String()
			d.enqueue(fn)
		}
	}
}

func (d *dumper) operand(v ssa.Value) map[string]any {
	if v == nil {
		return nil
	}
	switch x := v.(type) {
	case *ssa.Const:
		m := map[string]any{"k": "const", "t": d.typeID(x.Type())}
		if x.Value == nil {
			m["v"] = nil
		} else {
			switch x.Value.Kind() {
			case constant.Bool:
				m["v"] = constant.BoolVal(x.Value)
			case constant.String:
				m["v"] = []byte(constant.StringVal(x.Value)) // base64 via json
				m["str"] = true
			case constant.Int:
				m["v"] = x.Value.ExactString()
			case constant.Float:
				f, _ := constant.Float64Val(x.Value)
				m["v"] = fmt.Sprintf("%v", f)
				m["float"] = true
			default:
				m["v"] = x.Value.ExactString()
			}
		}
		return m
	case *ssa.Function:
		d.enqueue(x)
		return map[string]any{"k": "func", "n": x.String(), "t": d.typeID(x.Type())}
	case *ssa.Global:
		name := x.String()
		if _, ok := d.globals[name]; !ok {
			d.globals[name] = map[string]any{"type": d.typeID(x.Type()), "pkg": x.Pkg.Pkg.Path(), "name": x.Name()}
		}
		return map[string]any{"k": "global", "n": name, "t": d.typeID(x.Type())}
	case *ssa.Builtin:
		return map[string]any{"k": "builtin", "n": x.Name()}
	case *ssa.Parameter:
		return map[string]any{"k": "reg", "n": "p:" + x.Name()}
	case *ssa.FreeVar:
		return map[string]any{"k": "reg", "n": "fv:" + x.Name()}
	default:
		return map[string]any{"k": "reg", "n": v.Name()}
	}
}

func (d *dumper) ops(vs []ssa.Value) []map[string]any {
	out := make([]map[string]any, len(vs))
	for i, v := range vs {
		out[i] = d.operand(v)
	}
	return out
}

func (d *dumper) callCommon(c *ssa.CallCommon, m map[string]any) {
	m["args"] = d.ops(c.Args)
	if c.IsInvoke() {
		m["invoke"] = c.Method.Name()
		m["recv"] = d.operand(c.Value)
		m["recvtype"] = d.typeID(c.Value.Type())
		d.invoked[c.Method.Name()] = true
	} else {
		m["fn"] = d.operand(c.Value)
		if sc := c.StaticCallee(); sc != nil {
			m["static"] = sc.String()
		}
	}
	m["sig"] = d.typeID(c.Signature())
}

func (d *dumper) dumpFunc(f *ssa.Function) {
	fd := map[string]any{"name": f.String(), "relname": f.Name(), "pkg": pkgOf(f), "pos": d.pos(f.Pos()), "synthetic": f.Synthetic, "sig": d.typeID(f.Signature)}
	if p := d.fset.Position(f.Pos()); p.IsValid() {
		d.files[p.Filename] = true
	}
	params := []map[string]any{}
	for _, p := range f.Params {
		params = append(params, map[string]any{"name": "p:" + p.Name(), "type": d.typeID(p.Type())})
	}
	fd["params"] = params
	fvs := []map[string]any{}
	for _, p := range f.FreeVars {
		fvs = append(fvs, map[string]any{"name": "fv:" + p.Name(), "type": d.typeID(p.Type())})
	}
	fd["freevars"] = fvs
	if f.Recover != nil {
		fd["recover"] = f.Recover.Index
	}
	// named results (needed for recover semantics)
	blocks := []map[string]any{}
	ninstr := 0
	for _, b := range f.Blocks {
		bd := map[string]any{"index": b.Index, "comment": b.Comment}
		preds := []int{}
		for _, p := range b.Preds {
			preds = append(preds, p.Index)
		}
		succs := []int{}
		for _, s := range b.Succs {
			succs = append(succs, s.Index)
		}
		bd["preds"] = preds
		bd["succs"] = succs
		instrs := []map[string]any{}
		for _, in := range b.Instrs {
			m := d.instr(in)
			if m == nil {
				continue
			}
			if v, ok := in.(ssa.Value); ok {
				m["reg"] = v.Name()
				m["type"] = d.typeID(v.Type())
			}
			if p := in.Pos(); p.IsValid() {
				m["pos"] = d.pos(p)
			}
			instrs = append(instrs, m)
			ninstr++
		}
		bd["instrs"] = instrs
		blocks = append(blocks, bd)
	}
	fd["blocks"] = blocks
	fd["ninstr"] = ninstr
	d.funcs[f.String()] = fd
}

func (d *dumper) instr(in ssa.Instruction) map[string]any {
	switch x := in.(type) {
	case *ssa.DebugRef:
		return nil
	case *ssa.Alloc:
		return map[string]any{"op": "Alloc", "heap": x.Heap, "elem": d.typeID(x.Type().(*types.Pointer).Elem()), "comment": x.Comment}
	case *ssa.BinOp:
		return map[string]any{"op": "BinOp", "o": x.Op.String(), "x": d.operand(x.X), "y": d.operand(x.Y), "xt": d.typeID(x.X.Type()), "yt": d.typeID(x.Y.Type())}
	case *ssa.UnOp:
		return map[string]any{"op": "UnOp", "o": x.Op.String(), "x": d.operand(x.X), "xt": d.typeID(x.X.Type()), "commaok": x.CommaOk}
	case *ssa.Call:
		m := map[string]any{"op": "Call"}
		d.callCommon(&x.Call, m)
		return m
	case *ssa.Go:
		m := map[string]any{"op": "Go"}
		d.callCommon(&x.Call, m)
		return m
	case *ssa.Defer:
		m := map[string]any{"op": "Defer"}
		d.callCommon(&x.Call, m)
		return m
	case *ssa.ChangeInterface:
		return map[string]any{"op": "ChangeInterface", "x": d.operand(x.X)}
	case *ssa.ChangeType:
		return map[string]any{"op": "ChangeType", "x": d.operand(x.X), "xt": d.typeID(x.X.Type())}
	case *ssa.Convert:
		return map[string]any{"op": "Convert", "x": d.operand(x.X), "xt": d.typeID(x.X.Type())}
	case *ssa.MultiConvert:
		return map[string]any{"op": "Convert", "x": d.operand(x.X), "xt": d.typeID(x.X.Type())}
	case *ssa.Extract:
		return map[string]any{"op": "Extract", "x": d.operand(x.Tuple), "index": x.Index}
	case *ssa.Field:
		return map[string]any{"op": "Field", "x": d.operand(x.X), "field": x.Field, "xt": d.typeID(x.X.Type())}
	case *ssa.FieldAddr:
		return map[string]any{"op": "FieldAddr", "x": d.operand(x.X), "field": x.Field, "xt": d.typeID(x.X.Type())}
	case *ssa.If:
		return map[string]any{"op": "If", "cond": d.operand(x.Cond)}
	case *ssa.Index:
		return map[string]any{"op": "Index", "x": d.operand(x.X), "index": d.operand(x.Index), "xt": d.typeID(x.X.Type()), "it": d.typeID(x.Index.Type())}
	case *ssa.IndexAddr:
		return map[string]any{"op": "IndexAddr", "x": d.operand(x.X), "index": d.operand(x.Index), "xt": d.typeID(x.X.Type()), "it": d.typeID(x.Index.Type())}
	case *ssa.Jump:
		return map[string]any{"op": "Jump"}
	case *ssa.Lookup:
		return map[string]any{"op": "Lookup", "x": d.operand(x.X), "index": d.operand(x.Index), "commaok": x.CommaOk, "xt": d.typeID(x.X.Type())}
	case *ssa.MakeChan:
		return map[string]any{"op": "MakeChan", "size": d.operand(x.Size)}
	case *ssa.MakeClosure:
		fn := x.Fn.(*ssa.Function)
		d.enqueue(fn)
		return map[string]any{"op": "MakeClosure", "fn": fn.String(), "bindings": d.ops(x.Bindings)}
	case *ssa.MakeInterface:
		d.noteIface(x.X.Type())
		return map[string]any{"op": "MakeInterface", "x": d.operand(x.X), "xt": d.typeID(x.X.Type())}
	case *ssa.MakeMap:
		return map[string]any{"op": "MakeMap"}
	case *ssa.MakeSlice:
		return map[string]any{"op": "MakeSlice", "len": d.operand(x.Len), "cap": d.operand(x.Cap)}
	case *ssa.MapUpdate:
		return map[string]any{"op": "MapUpdate", "map": d.operand(x.Map), "key": d.operand(x.Key), "value": d.operand(x.Value)}
	case *ssa.Next:
		return map[string]any{"op": "Next", "iter": d.operand(x.Iter), "isstring": x.IsString}
	case *ssa.Panic:
		return map[string]any{"op": "Panic", "x": d.operand(x.X)}
	case *ssa.Phi:
		return map[string]any{"op": "Phi", "edges": d.ops(x.Edges), "comment": x.Comment}
	case *ssa.Range:
		return map[string]any{"op": "Range", "x": d.operand(x.X), "xt": d.typeID(x.X.Type())}
	case *ssa.Return:
		return map[string]any{"op": "Return", "results": d.ops(x.Results)}
	case *ssa.RunDefers:
		return map[string]any{"op": "RunDefers"}
	case *ssa.Select:
		states := []map[string]any{}
		for _, s := range x.States {
			sm := map[string]any{"dir": int(s.Dir), "chan": d.operand(s.Chan)}
			if s.Send != nil {
				sm["send"] = d.operand(s.Send)
			}
			states = append(states, sm)
		}
		return map[string]any{"op": "Select", "states": states, "blocking": x.Blocking}
	case *ssa.Send:
		return map[string]any{"op": "Send", "chan": d.operand(x.Chan), "x": d.operand(x.X)}
	case *ssa.Slice:
		return map[string]any{"op": "Slice", "x": d.operand(x.X), "low": d.operand(x.Low), "high": d.operand(x.High), "max": d.operand(x.Max), "xt": d.typeID(x.X.Type())}
	case *ssa.SliceToArrayPointer:
		return map[string]any{"op": "SliceToArrayPointer", "x": d.operand(x.X)}
	case *ssa.Store:
		return map[string]any{"op": "Store", "addr": d.operand(x.Addr), "val": d.operand(x.Val), "vt": d.typeID(x.Val.Type())}
	case *ssa.TypeAssert:
		if !types.IsInterface(x.AssertedType) {
			d.noteIface(x.AssertedType)
		}
		return map[string]any{"op": "TypeAssert", "x": d.operand(x.X), "asserted": d.typeID(x.AssertedType), "commaok": x.CommaOk, "xt": d.typeID(x.X.Type())}
	default:
		return map[string]any{"op": "Unknown", "go": fmt.Sprintf("%T", in), "text": in.String()}
	}
}
