"""Instruction semantics (mixin for Executor)."""
import z3
from .terms import *
from .values import *
from .core import Unsupported
from .heap import Obj, MapVal, ChanVal


def zlib_crc(s):
    import zlib
    return zlib.crc32(s.encode())


class InstrOps:
    # ------------------------------------------------------------------ memory
    def get_path(self, v, path):
        for p in path:
            if isinstance(v, StructV):
                v = v.fields[p]
            elif isinstance(v, ArrayV):
                v = v.elems[p]
            else:
                raise Unsupported("get_path through %s" % type(v))
        return v

    def set_path(self, v, path, f):
        """functional update: apply f to the leaf"""
        if not path:
            return f(v)
        p = path[0]
        if isinstance(v, StructV):
            nf = list(v.fields)
            nf[p] = self.set_path(nf[p], path[1:], f)
            return StructV(nf)
        if isinstance(v, ArrayV):
            ne = list(v.elems)
            ne[p] = self.set_path(ne[p], path[1:], f)
            return ArrayV(ne)
        raise Unsupported("set_path through %s" % type(v))

    def path_tid(self, tid, path):
        for p in path:
            t, d = self.prog.under(tid)
            if d["kind"] == "struct":
                tid = d["fields"][p]["type"]
            elif d["kind"] == "array":
                tid = d["elem"]
            else:
                raise Unsupported("path_tid through " + d["kind"])
        return tid

    def load(self, ptr, guard, pos=None, fr=None, what="load", tid=None):
        """load through guarded pointer; nil alternatives become panic obligations. returns (value, ok_guard)"""
        if not isinstance(ptr, Ptr):
            raise Unsupported("load through non-pointer %r" % (ptr,))
        if not ptr.alts:
            return (self.zero(tid) if tid else None), False
        val = None
        first = True
        nilg = False
        for g, r in ptr.alts:
            if r is None:
                nilg = b_or(nilg, g)
                continue
            o = self.heap[r.obj]
            v = self.read_cell(o, r.path, b_and(guard, g))
            if first:
                val = v
                first = False
            else:
                val = self.ite(g, v, val, self.path_tid(o.tid, r.path) if o.kind in ("var", "array") else None)
        if nilg is not False:
            pg = b_and(guard, nilg)
            if pg is not False:
                self.path_kills += 1
                self.oblige("panic", "nil pointer dereference (%s)" % what, pg, False, pos, fr.fn["name"] if fr else None)
                guard = b_and(guard, b_not(nilg))
        if first and tid is not None:
            val = self.zero(tid)
        return val, guard

    def read_cell(self, o, path, guard):
        """hook point for the concurrency layer"""
        return self.get_path(o.val, path)

    def write_cell(self, o, path, val, guard):
        tid = None
        if o.kind in ("var", "array"):
            try:
                tid = self.path_tid(o.tid, path)
            except Unsupported:
                tid = None
        if guard is True or (guard is not False and o.meta.get("birth") is guard):
            # opt-in "birth_guard_stores": an object allocated under guard G exists only on paths where G holds, so a
            # store under that very guard need not keep the old value for the (non-existent) paths where G is false
            o.val = self.set_path(o.val, path, lambda old: val)
        else:
            o.val = self.set_path(o.val, path, lambda old: self.ite(guard, val, old, tid))

    def store(self, ptr, val, guard, pos=None, fr=None):
        if not isinstance(ptr, Ptr):
            raise Unsupported("store through non-pointer")
        nilg = False
        for g, r in ptr.alts:
            if r is None:
                nilg = b_or(nilg, g)
                continue
            gg = b_and(guard, g)
            if gg is False:
                continue
            self.write_cell(self.heap[r.obj], r.path, val, gg)
        if nilg is not False:
            pg = b_and(guard, nilg)
            if pg is not False:
                self.path_kills += 1
                self.oblige("panic", "nil pointer dereference (store)", pg, False, pos, fr.fn["name"] if fr else None)
                guard = b_and(guard, b_not(nilg))
        return guard

    # ------------------------------------------------------------------ instruction dispatch
    def exec_instr(self, fr, env, ins, guard, state):
        self.ninstr += 1
        op = ins["op"]
        m = getattr(self, "i_" + op, None)
        if m is None:
            raise Unsupported("instruction %s in %s" % (op, fr.fn["name"]))
        try:
            r = m(fr, env, ins, guard, state)
        except Unsupported as e:
            if not getattr(e, "located", False):
                e.args = ("%s [at %s in %s: %s]" % (e.args[0], ins.get("pos"), fr.fn["name"], op),)
                e.located = True
            raise
        except Exception as e:
            if not getattr(e, "located", False):
                e.located = True
                e.args = (("%s [at %s in %s: %s %s] stack=%s" % (e.args[0] if e.args else "", ins.get("pos"), fr.fn["name"], op, ins.get("reg"), " > ".join(x.split("/")[-1] for x in self.call_stack[-5:]))),)
            raise
        if "reg" in ins:
            env[ins["reg"]] = r

    def i_Alloc(self, fr, env, ins, guard, state):
        elem = ins["elem"]
        o = self.alloc("var", elem, self.zero(elem), site="%s:%s" % (fr.fn["name"], ins.get("reg")))
        if self.opts.get("birth_guard_stores") and guard is not True:
            o.meta["birth"] = guard
        return Ptr.to(o.id)

    def i_BinOp(self, fr, env, ins, guard, state):
        o = ins["o"]
        x = self.val(env, ins["x"])
        y = self.val(env, ins["y"])
        xt = ins["xt"]
        t, d = self.prog.under(xt)
        k = d["kind"]
        if k == "basic" and d.get("cls") == "int":
            bits, signed = d["bits"], not d["unsigned"]
            if o in ("==", "!=", "<", "<=", ">", ">="):
                return int_cmp(o, x, y, bits, signed)
            if o in ("<<", ">>"):
                yi = self.prog.int_info(ins["yt"])
                if yi is None:
                    yi = (64, False)
                if yi[1]:
                    neg = int_cmp("<", y, 0, yi[0], True)
                    if neg is not False:
                        self.path_kills += 1
                        self.oblige("panic", "negative shift amount", b_and(guard, neg), False, ins.get("pos"), fr.fn["name"])
                        state["guard"] = b_and(guard, b_not(neg))
                return int_binop(o, x, y, bits, signed, yi[0], yi[1])
            if o in ("/", "%"):
                z = int_cmp("==", y, 0, bits, signed)
                if z is not False:
                    self.path_kills += 1
                    self.oblige("panic", "integer divide by zero", b_and(guard, z), False, ins.get("pos"), fr.fn["name"])
                    state["guard"] = b_and(guard, b_not(z))
                    if z is True:
                        return 0
            return int_binop(o, x, y, bits, signed)
        if k == "basic" and d.get("cls") == "bool":
            if o == "==":
                return b_eq(x, y)
            if o == "!=":
                return b_not(b_eq(x, y))
            if o == "&&" or o == "&":
                return b_and(x, y)
            if o == "||" or o == "|":
                return b_or(x, y)
            raise Unsupported("bool binop " + o)
        if k == "basic" and d.get("cls") == "string":
            if o == "+":
                return self.str_concat(x, y)
            if o == "==":
                return self.str_eq(x, y)
            if o == "!=":
                return b_not(self.str_eq(x, y))
            if o == "<":
                return self.str_lt(x, y)
            if o == ">":
                return self.str_lt(y, x)
            if o == "<=":
                return b_not(self.str_lt(y, x))
            if o == ">=":
                return b_not(self.str_lt(x, y))
            raise Unsupported("string binop " + o)
        if k == "basic" and d.get("cls") == "float":
            return self.float_binop(o, x, y)
        if o in ("==", "!="):
            if x is None:
                x = self.zero(ins["yt"])
            if y is None:
                y = self.zero(ins["xt"])
            # interface vs concrete comparisons are compiled via MakeInterface by go/ssa
            e = self.eq(x, y, xt)
            return e if o == "==" else b_not(e)
        raise Unsupported("binop %s on %s" % (o, k))

    def float_binop(self, o, x, y):
        a, b = x.v, y.v
        if isinstance(a, float) and isinstance(b, float):
            if o == "+":
                return FloatV(a + b)
            if o == "-":
                return FloatV(a - b)
            if o == "*":
                return FloatV(a * b)
            if o == "/":
                if b == 0.0:
                    import math
                    return FloatV(math.nan if a == 0.0 or a != a else (math.inf if (a > 0) == (math.copysign(1, b) > 0) else -math.inf))
                return FloatV(a / b)
            return {"==": a == b, "!=": a != b, "<": a < b, "<=": a <= b, ">": a > b, ">=": a >= b}[o]
        fa, fb = self.fp(a), self.fp(b)
        rm = z3.RNE()
        if o == "+":
            return FloatV(z3.fpAdd(rm, fa, fb))
        if o == "-":
            return FloatV(z3.fpSub(rm, fa, fb))
        if o == "*":
            return FloatV(z3.fpMul(rm, fa, fb))
        if o == "/":
            sf = getattr(self, "small_floats", None)
            if sf and not isinstance(a, float) and not isinstance(b, float) and a.get_id() in sf and b.get_id() in sf:
                import math
                _, xa, ba, na = sf[a.get_id()]
                _, xb, bb, nb = sf[b.get_id()]
                def q(i, j):
                    if j == 0:
                        return math.nan if i == 0 else math.inf
                    return i / j
                F = z3.Float64()
                res = None
                for i in range(na, -1, -1):
                    row = z3.FPVal(q(i, nb), F)
                    for j in range(nb - 1, -1, -1):
                        row = z3.If(to_z3_bool(int_cmp("==", xb, j, bb, False)), z3.FPVal(q(i, j), F), row)
                    res = row if res is None else z3.If(to_z3_bool(int_cmp("==", xa, i, ba, False)), row, res)
                return FloatV(res)
            return FloatV(z3.fpDiv(rm, fa, fb))
        return {"==": z3.fpEQ, "!=": z3.fpNEQ, "<": z3.fpLT, "<=": z3.fpLEQ, ">": z3.fpGT, ">=": z3.fpGEQ}[o](fa, fb)

    def i_UnOp(self, fr, env, ins, guard, state):
        o = ins["o"]
        x = self.val(env, ins["x"])
        if o == "*":
            v, g = self.load(x, guard, ins.get("pos"), fr, "load", ins["type"])
            state["guard"] = g
            return v
        if o == "!":
            return b_not(x)
        if o == "-":
            ii = self.prog.int_info(ins["xt"])
            if ii is None:
                if isinstance(x, FloatV):
                    return FloatV(-x.v if isinstance(x.v, float) else z3.fpNeg(x.v))
                raise Unsupported("neg of non-int")
            return int_neg(x, ii[0], ii[1])
        if o == "^":
            ii = self.prog.int_info(ins["xt"])
            return int_not(x, ii[0], ii[1])
        if o == "<-":
            return self.chan_recv(fr, x, guard, ins, state)
        raise Unsupported("unop " + o)

    def i_Store(self, fr, env, ins, guard, state):
        addr = self.val(env, ins["addr"])
        v = self.val(env, ins["val"])
        if v is None:
            v = self.zero(ins["vt"])
        state["guard"] = self.store(addr, v, guard, ins.get("pos"), fr)

    def i_FieldAddr(self, fr, env, ins, guard, state):
        x = self.val(env, ins["x"])
        f = ins["field"]
        alts = []
        for g, r in x.alts:
            if r is None:
                alts.append((g, None))  # nil.field: faults on use; Go faults here but the use follows immediately
            else:
                alts.append((g, Ref(r.obj, r.path + (f,))))
        return Ptr(alts)

    def i_Field(self, fr, env, ins, guard, state):
        x = self.val(env, ins["x"])
        return x.fields[ins["field"]]

    def i_Extract(self, fr, env, ins, guard, state):
        x = self.val(env, ins["x"])
        return x.elems[ins["index"]]

    def idx_to_64(self, idx, tid):
        ii = self.prog.int_info(tid) or (64, True)
        return int_convert(idx, ii[0], ii[1], 64, True)

    def i_IndexAddr(self, fr, env, ins, guard, state):
        x = self.val(env, ins["x"])
        idx = self.idx_to_64(self.val(env, ins["index"]), ins["it"])
        t, d = self.prog.under(ins["xt"])
        if d["kind"] == "slice":
            inb = b_and(int_cmp(">=", idx, 0, 64, True), int_cmp("<", idx, x.len, 64, True))
            if inb is not True:
                self.path_kills += 1
                self.oblige("panic", "index out of range", b_and(guard, b_not(inb)), False, ins.get("pos"), fr.fn["name"])
                guard = b_and(guard, inb)
                state["guard"] = guard
            return self.elem_ptr(x.arr, int_binop("+", x.off, idx, 64, True), guard)
        if d["kind"] == "pointer":  # pointer to array
            at, ad = self.prog.under(d["elem"])
            n = ad["len"]
            inb = b_and(int_cmp(">=", idx, 0, 64, True), int_cmp("<", idx, n, 64, True))
            if inb is not True:
                self.path_kills += 1
                self.oblige("panic", "index out of range", b_and(guard, b_not(inb)), False, ins.get("pos"), fr.fn["name"])
                guard = b_and(guard, inb)
                state["guard"] = guard
            return self.elem_ptr(x, idx, guard)
        raise Unsupported("IndexAddr on " + d["kind"])

    def elem_ptr(self, arrptr, idx, guard):
        """pointer to element idx of the array(s) arrptr points to"""
        alts = []
        for g, r in arrptr.alts:
            if r is None:
                alts.append((g, None))
                continue
            arr = self.get_path(self.heap[r.obj].val, r.path)
            n = len(arr.elems)
            if isinstance(idx, int):
                if 0 <= idx < n:
                    alts.append((g, Ref(r.obj, r.path + (idx,))))
            else:
                for j in range(n):
                    c = int_cmp("==", idx, j, 64, True)
                    gg = b_and(g, c)
                    if gg is not False:
                        alts.append((gg, Ref(r.obj, r.path + (j,))))
        if not alts:
            return Ptr([])  # dead pointer: only on paths already ended by the bounds obligation
        return Ptr(self._merge_alts(alts))

    def i_Index(self, fr, env, ins, guard, state):
        x = self.val(env, ins["x"])
        idx = self.idx_to_64(self.val(env, ins["index"]), ins["it"])
        if isinstance(x, StrV):
            inb = b_and(int_cmp(">=", idx, 0, 64, True), int_cmp("<", idx, x.len, 64, True))
            if inb is not True:
                self.path_kills += 1
                self.oblige("panic", "string index out of range", b_and(guard, b_not(inb)), False, ins.get("pos"), fr.fn["name"])
                state["guard"] = b_and(guard, inb)
            return self.select_elem(x.chars, idx, 8, None)
        if isinstance(x, ArrayV):
            n = len(x.elems)
            inb = b_and(int_cmp(">=", idx, 0, 64, True), int_cmp("<", idx, n, 64, True))
            if inb is not True:
                self.path_kills += 1
                self.oblige("panic", "index out of range", b_and(guard, b_not(inb)), False, ins.get("pos"), fr.fn["name"])
                state["guard"] = b_and(guard, inb)
            et = self.prog.under(ins["xt"])[1]["elem"]
            return self.select_elem(x.elems, idx, None, et)
        raise Unsupported("Index on %s" % type(x))

    def select_elem(self, elems, idx, bits, tid):
        if isinstance(idx, int):
            if 0 <= idx < len(elems):
                return elems[idx]
            return 0 if bits else self.zero(tid)
        if not elems:
            return 0 if bits else self.zero(tid)
        v = elems[-1]
        for j in range(len(elems) - 2, -1, -1):
            c = int_cmp("==", idx, j, 64, True)
            v = i_ite(c, elems[j], v, bits) if bits else self.ite(c, elems[j], v, tid)
        return v

    def i_Convert(self, fr, env, ins, guard, state):
        x = self.val(env, ins["x"])
        ft, fd = self.prog.under(ins["xt"])
        tt, td = self.prog.under(ins["type"])
        fk, tk = fd["kind"], td["kind"]
        if fk == "basic" and tk == "basic":
            fc, tc = fd.get("cls"), td.get("cls")
            if fc == "int" and tc == "int":
                return int_convert(x, fd["bits"], not fd["unsigned"], td["bits"], not td["unsigned"])
            if fc == "string" and tc == "string":
                return x
            if fc == "int" and tc == "string":
                if isinstance(x, int):
                    return StrV.const(chr(x).encode("utf-8") if 0 <= x < 0x110000 else "�".encode())
                raise Unsupported("symbolic rune to string")
            if fc == "int" and tc == "float":
                if isinstance(x, int):
                    return FloatV(float(x))
                N = self.opts.get("small_int_float")
                if N:
                    # opt-in: the operand is a small counter (0..N, proven as an obligation): convert by case analysis over
                    # concrete doubles instead of a 64-bit int->fp circuit; a quotient of two such values is tabulated too
                    bits = fd["bits"]
                    self.oblige("unwind", "small_int_float: converted integer exceeds %d" % N, guard,
                                b_and(int_cmp(">=", x, 0, bits, not fd["unsigned"]), int_cmp("<=", x, N, bits, not fd["unsigned"])), ins.get("pos"), fr.fn["name"])
                    e = z3.FPVal(float(N), z3.Float64())
                    for k in range(N - 1, -1, -1):
                        e = z3.If(to_z3_bool(int_cmp("==", x, k, bits, False)), z3.FPVal(float(k), z3.Float64()), e)
                    if not hasattr(self, "small_floats"):
                        self.small_floats = {}
                    self.small_floats[e.get_id()] = (e, x, bits, N)
                    return FloatV(e)
                e = z3.fpSignedToFP(z3.RNE(), x, z3.Float64()) if not fd["unsigned"] else z3.fpUnsignedToFP(z3.RNE(), x, z3.Float64())
                return FloatV(e)
            if fc == "float" and tc == "int":
                if isinstance(x.v, float):
                    return wrap(int(x.v), td["bits"], not td["unsigned"])
                return z3.fpToSBV(z3.RTZ(), x.v, z3.BitVecSort(td["bits"])) if not td["unsigned"] else z3.fpToUBV(z3.RTZ(), x.v, z3.BitVecSort(td["bits"]))
            if fc == "float" and tc == "float":
                return x
            if fc == "unsafeptr" and tc == "int" and isinstance(x, Ptr):
                # uintptr(unsafe.Pointer(p)): a stable synthetic address (allocation order; real addresses are arbitrary)
                self.note("assumption", "uintptr(pointer) uses synthetic addresses ordered by allocation")
                addr = 0
                for g, r in reversed(x.alts):
                    a = 0 if r is None else (r.obj + 1) * 65536 + (zlib_crc(repr(r.path)) & 0xFFF0)
                    addr = i_ite(g, a, addr, td["bits"])
                return addr
            if fc == "unsafeptr" or tc == "unsafeptr":
                return x
            raise Unsupported("convert %s->%s" % (fc, tc))
        if fk == "basic" and fd.get("cls") == "string" and tk == "slice":
            ed = self.prog.under(td["elem"])[1]
            if ed.get("bits") == 8:
                n = len(x.chars)
                arr = self.alloc("array", self._array_tid(td["elem"], n), ArrayV(list(x.chars)), site="str2bytes")
                return SliceV(Ptr.to(arr.id), 0, x.len, x.len if isinstance(x.len, int) else n)
            raise Unsupported("string to []rune")
        if fk == "slice" and tk == "basic" and td.get("cls") == "string":
            return self.bytes_to_str(x, guard)
        if fk == "pointer" and tk == "pointer":
            return x
        if fk == "basic" and fd.get("cls") == "unsafeptr":
            return x
        if tk == "basic" and td.get("cls") == "unsafeptr":
            return x
        if fk == "slice" and tk == "slice":
            return x
        raise Unsupported("convert %s->%s" % (fk, tk))

    def _array_tid(self, elem, n):
        tid = "[%d]%s" % (n, elem)
        if tid not in self.prog.types:
            self.prog.types[tid] = {"kind": "array", "elem": elem, "len": n}
        return tid

    def bytes_to_str(self, s, guard):
        """[]byte -> string"""
        if isinstance(s.len, int):
            chars = [self.slice_get(s, i, guard) for i in range(s.len)]
            return StrV(chars, s.len)
        n = self.slice_maxlen(s)
        chars = [self.slice_get(s, i, guard) for i in range(n)]
        return StrV(chars, s.len)

    def slice_maxlen(self, s):
        """concrete upper bound on len(s)"""
        if isinstance(s.len, int):
            return s.len
        tb = term_bounds(s.len)
        m = 0
        for g, r in s.arr.alts:
            if r is None:
                continue
            arr = self.get_path(self.heap[r.obj].val, r.path)
            n = len(arr.elems)
            if isinstance(s.off, int):
                n -= s.off
            m = max(m, n)
        if tb is not None:
            m = min(m, max(tb[1], 0))
        return m

    def slice_get(self, s, i, guard):
        """value of s[i] without bounds obligations (i concrete or symbolic, relative index)"""
        p = self.elem_ptr_clamped(s.arr, int_binop("+", s.off, i, 64, True))
        val = None
        first = True
        for g, r in p.alts:
            if r is None:
                continue
            v = self.read_cell(self.heap[r.obj], r.path, b_and(guard, g))
            if first:
                val, first = v, False
            else:
                val = self.ite(g, v, val, self.path_tid(self.heap[r.obj].tid, r.path))
        if first:
            return 0
        return val

    def elem_ptr_clamped(self, arrptr, idx):
        alts = []
        for g, r in arrptr.alts:
            if r is None:
                continue
            arr = self.get_path(self.heap[r.obj].val, r.path)
            n = len(arr.elems)
            if isinstance(idx, int):
                if 0 <= idx < n:
                    alts.append((g, Ref(r.obj, r.path + (idx,))))
            else:
                for j in range(n):
                    gg = b_and(g, int_cmp("==", idx, j, 64, True))
                    if gg is not False:
                        alts.append((gg, Ref(r.obj, r.path + (j,))))
        return Ptr(alts) if alts else Ptr([(True, None)])

    def str_concat(self, a, b):
        if isinstance(a.len, int):
            return StrV(a.chars[: a.len] + b.chars, int_binop("+", a.len, b.len, 64, True))
        # symbolic split point
        na, nb = len(a.chars), len(b.chars)
        out = []
        for i in range(na + nb):
            # out[i] = i < a.len ? a[i] : b[i - a.len]
            bv_ = 0
            # b index = i - a.len; select
            cands = 0
            v = 0
            first = True
            for j in range(nb - 1, -1, -1):
                # b[j] used when a.len == i - j
                if i - j < 0 or i - j > na:
                    continue
                c = int_cmp("==", a.len, i - j, 64, True)
                v = b.chars[j] if first else i_ite(c, b.chars[j], v, 8)
                first = False
            if i < na:
                v = i_ite(int_cmp("<", i, a.len, 64, True), a.chars[i], v, 8)
            out.append(v)
        return StrV(out, int_binop("+", a.len, b.len, 64, True))

    def i_ChangeType(self, fr, env, ins, guard, state):
        return self.val(env, ins["x"])

    def i_ChangeInterface(self, fr, env, ins, guard, state):
        return self.val(env, ins["x"])

    def i_MakeInterface(self, fr, env, ins, guard, state):
        x = self.val(env, ins["x"])
        if x is None:
            x = self.zero(ins["xt"])
        return IfaceV([(True, ins["xt"], x)])

    def implements(self, tid, iface_tid):
        it, idesc = self.prog.under(iface_tid)
        need = idesc.get("methods", [])
        if not need:
            return True
        have = self.prog.msets.get(tid)
        if have is None:
            have = self.prog.msets.get(self.prog.canon(tid))
        if have is None:
            if tid.startswith("verif."):
                return None  # unknown
            return False
        hs = set(have)
        return all(m in hs for m in need)

    def i_TypeAssert(self, fr, env, ins, guard, state):
        x = self.val(env, ins["x"])
        at = ins["asserted"]
        is_iface = self.prog.kind(at) == "interface"
        okg = False
        val = None
        first = True
        alts_out = []
        for g, t, p in x.alts:
            if t is None:
                continue
            if is_iface:
                imp = self.implements(t, at)
                if imp is None:
                    imp = self.opts.get("opaque_implements", True)
                if imp:
                    okg = b_or(okg, g)
                    alts_out.append((g, t, p))
            else:
                if self.prog.canon(t) == self.prog.canon(at):
                    okg = b_or(okg, g)
                    val = p if first else self.ite(g, p, val, at)
                    first = False
        if is_iface:
            res = IfaceV(alts_out + [(b_not(okg), None, None)]) if okg is not True else IfaceV(alts_out)
            res = IfaceV(self._merge_iface_alts(res.alts))
        else:
            res = val if not first else self.zero(at)
        if ins["commaok"]:
            return TupleV([res, okg])
        if okg is not True:
            self.path_kills += 1
            self.oblige("panic", "failed type assertion to " + at, b_and(guard, b_not(okg)), False, ins.get("pos"), fr.fn["name"])
            state["guard"] = b_and(guard, okg)
        return res

    def i_MakeClosure(self, fr, env, ins, guard, state):
        return FuncV([(True, ins["fn"], tuple(self.val(env, b) for b in ins["bindings"]))])

    def i_MakeSlice(self, fr, env, ins, guard, state):
        ln = self.val(env, ins["len"])
        cp = self.val(env, ins["cap"])
        # len/cap operands may be of any integer type (make([]byte, someUint32)): widen to the 64-bit int used for slice headers
        rt = fr.fn.get("_regtypes", {})
        for nm in ("len", "cap"):
            o = ins[nm]
            ot = o.get("t") if o["k"] == "const" else rt.get(o.get("n"))
            ii = self.prog.int_info(ot) if ot else None
            if ii is not None and ii != (64, True):
                if nm == "len":
                    ln = int_convert(ln, ii[0], ii[1], 64, True)
                else:
                    cp = int_convert(cp, ii[0], ii[1], 64, True)
        t, d = self.prog.under(ins["type"])
        elem = d["elem"]
        if isinstance(cp, int):
            n = cp
        else:
            n = self.opts.get("sym_slice_cap", 8)
            self.assume(b_and(int_cmp("<=", cp, n, 64, True), int_cmp(">=", cp, 0, 64, True)), guard, "make: symbolic cap <= %d" % n)
            self.note("bounds", "symbolic make cap bounded by %d" % n)
        if n > self.opts.get("max_array", 4096):
            raise Unsupported("make of %d elements" % n)
        arr = self.alloc("array", self._array_tid(elem, n), ArrayV([self.zero(elem) for _ in range(n)]), site="%s:%s" % (fr.fn["name"], ins.get("reg")))
        return SliceV(Ptr.to(arr.id), 0, ln, cp)

    def i_SliceToArrayPointer(self, fr, env, ins, guard, state):
        """(*[N]T)(s): panics when len(s) < N. The result points to a fresh array holding the first N elements (a copy: exact
        for the conversion form [N]T(s), which dereferences at once; writes through the pointer would not alias s)."""
        x = self.val(env, ins["x"])
        pt, pd = self.prog.under(ins["type"])
        at, ad = self.prog.under(pd["elem"])
        n, elem = ad["len"], ad["elem"]
        ok = int_cmp(">=", x.len, n, 64, True)
        if ok is not True:
            self.path_kills += 1
            self.oblige("panic", "cannot convert slice to array (pointer): slice too short", b_and(guard, b_not(ok)), False, ins.get("pos"), fr.fn["name"])
            guard = b_and(guard, ok)
            state["guard"] = guard
        self.note("assumption", "slice-to-array conversions are materialised as copies")
        arr = self.alloc("array", pd["elem"], ArrayV([self.slice_get(x, i, guard) for i in range(n)]), site="%s:%s" % (fr.fn["name"], ins.get("reg")))
        return Ptr.to(arr.id)

    def i_Slice(self, fr, env, ins, guard, state):
        x = self.val(env, ins["x"])
        lo = self.val(env, ins["low"]) if ins["low"] else None
        hi = self.val(env, ins["high"]) if ins["high"] else None
        mx = self.val(env, ins["max"]) if ins["max"] else None
        # index operands may be of any integer type (s[a:someUint32]): widen to the 64-bit int used for slice headers
        rt = fr.fn.get("_regtypes", {})

        def _widen(v, o):
            if v is None or not o:
                return v
            ot = o.get("t") if o["k"] == "const" else rt.get(o.get("n"))
            ii = self.prog.int_info(ot) if ot else None
            if ii is not None and ii != (64, True):
                return int_convert(v, ii[0], ii[1], 64, True)
            return v
        lo, hi, mx = _widen(lo, ins["low"]), _widen(hi, ins["high"]), _widen(mx, ins["max"])
        t, d = self.prog.under(ins["xt"])
        if isinstance(x, StrV):
            lo = 0 if lo is None else lo
            hi = x.len if hi is None else hi
            ok = b_and(int_cmp("<=", 0, lo, 64, True), int_cmp("<=", lo, hi, 64, True), int_cmp("<=", hi, x.len, 64, True))
            if ok is not True:
                self.path_kills += 1
                self.oblige("panic", "slice bounds out of range (string)", b_and(guard, b_not(ok)), False, ins.get("pos"), fr.fn["name"])
                state["guard"] = b_and(guard, ok)
            nl = int_binop("-", hi, lo, 64, True)
            if isinstance(lo, int):
                return StrV(x.chars[lo:], nl) if not isinstance(nl, int) else StrV(x.chars[lo:lo + nl], nl)
            n = len(x.chars)
            chars = []
            for i in range(n):
                chars.append(self.select_elem(x.chars, int_binop("+", lo, i, 64, True), 8, None))
            return StrV(chars, nl)
        if d["kind"] == "slice":
            lo = 0 if lo is None else lo
            hi = x.len if hi is None else hi
            cap_ = x.cap
            mxv = cap_ if mx is None else mx
            ok = b_and(int_cmp("<=", 0, lo, 64, True), int_cmp("<=", lo, hi, 64, True), int_cmp("<=", hi, mxv, 64, True), int_cmp("<=", mxv, cap_, 64, True))
            if ok is not True:
                self.path_kills += 1
                self.oblige("panic", "slice bounds out of range", b_and(guard, b_not(ok)), False, ins.get("pos"), fr.fn["name"])
                state["guard"] = b_and(guard, ok)
            return SliceV(x.arr, int_binop("+", x.off, lo, 64, True), int_binop("-", hi, lo, 64, True), int_binop("-", mxv, lo, 64, True))
        if d["kind"] == "pointer":  # *array
            at, ad = self.prog.under(d["elem"])
            n = ad["len"]
            lo = 0 if lo is None else lo
            hi = n if hi is None else hi
            mxv = n if mx is None else mx
            ok = b_and(int_cmp("<=", 0, lo, 64, True), int_cmp("<=", lo, hi, 64, True), int_cmp("<=", hi, mxv, 64, True), int_cmp("<=", mxv, n, 64, True))
            if ok is not True:
                self.path_kills += 1
                self.oblige("panic", "slice bounds out of range", b_and(guard, b_not(ok)), False, ins.get("pos"), fr.fn["name"])
                state["guard"] = b_and(guard, ok)
            return SliceV(x, lo, int_binop("-", hi, lo, 64, True), int_binop("-", mxv, lo, 64, True))
        raise Unsupported("Slice of " + d["kind"])

    # ------------------------------------------------------------------ maps
    def i_MakeMap(self, fr, env, ins, guard, state):
        o = self.alloc("map", ins["type"], MapVal([]), site="%s:%s" % (fr.fn["name"], ins.get("reg")))
        return Ptr.to(o.id)

    def map_types(self, tid):
        t, d = self.prog.under(tid)
        return d["key"], d["elem"]

    def map_read(self, o, guard):
        """hook for concurrency layer"""
        return o.val

    def map_write(self, o, mv, guard):
        o.val = mv

    def map_lookup(self, m, key, guard, elem_tid):
        found = False
        val = self.zero(elem_tid)
        for g, r in m.alts:
            if r is None:
                continue
            o = self.heap[r.obj]
            mv = self.map_read(o, b_and(guard, g))
            for k, v, p in mv.entries:
                hit = b_and(g, p, self.eq(k, key))
                if hit is False:
                    continue
                val = self.ite(hit, v, val, elem_tid)
                found = b_or(found, hit)
        return val, found

    def i_Lookup(self, fr, env, ins, guard, state):
        x = self.val(env, ins["x"])
        key = self.val(env, ins["index"])
        if isinstance(x, StrV):
            idx = self.idx_to_64(key, "int")
            inb = b_and(int_cmp(">=", idx, 0, 64, True), int_cmp("<", idx, x.len, 64, True))
            if inb is not True:
                self.path_kills += 1
                self.oblige("panic", "string index out of range", b_and(guard, b_not(inb)), False, ins.get("pos"), fr.fn["name"])
                state["guard"] = b_and(guard, inb)
            return self.select_elem(x.chars, idx, 8, None)
        kt, et = self.map_types(ins["xt"])
        val, found = self.map_lookup(x, key, guard, et)
        if ins["commaok"]:
            return TupleV([val, found])
        return val

    def i_MapUpdate(self, fr, env, ins, guard, state):
        m = self.val(env, ins["map"])
        key = self.val(env, ins["key"])
        val = self.val(env, ins["value"])
        self.map_update(fr, m, key, val, guard, ins.get("pos"), state)

    def map_update(self, fr, m, key, val, guard, pos, state):
        nilg = False
        for g, r in m.alts:
            if r is None:
                nilg = b_or(nilg, g)
                continue
            gg = b_and(guard, g)
            if gg is False:
                continue
            o = self.heap[r.obj]
            kt, et = self.map_types(o.tid)
            if val is None:
                val = self.zero(et)
            mv = self.map_read(o, gg)
            ents = []
            hit_any = False
            eqs = [self.eq(k, key) for k, v, p in mv.entries]
            # opt-in (opts map_dedup): the key is syntactically one entry's key and certainly no other's: reuse that
            # entry (present afterwards under gg) instead of appending a second entry for the same key guarded by !p
            dedup = self.opts.get("map_dedup", False) and sum(1 for e in eqs if e is True) == 1 and all(e is True or e is False for e in eqs)
            for (k, v, p), e in zip(mv.entries, eqs):
                if dedup and e is True:
                    ents.append((k, self.ite(gg, val, v, et), b_or(p, gg)))
                    hit_any = True
                    continue
                hit = b_and(p, e)
                if hit is False:
                    ents.append((k, v, p))
                    continue
                ents.append((k, self.ite(b_and(gg, hit), val, v, et), p))
                hit_any = b_or(hit_any, hit)
            newp = b_and(gg, b_not(hit_any))
            if newp is not False:
                ents.append((key, val, newp))
            self.map_write(o, MapVal(ents), gg)
        if nilg is not False and b_and(guard, nilg) is not False:
            self.path_kills += 1
            self.oblige("panic", "assignment to entry in nil map", b_and(guard, nilg), False, pos, fr.fn["name"] if fr else None)
            if state is not None:
                state["guard"] = b_and(guard, b_not(nilg))

    def map_delete(self, m, key, guard):
        for g, r in m.alts:
            if r is None:
                continue
            gg = b_and(guard, g)
            if gg is False:
                continue
            o = self.heap[r.obj]
            mv = self.map_read(o, gg)
            ents = []
            for k, v, p in mv.entries:
                hit = b_and(gg, self.eq(k, key))
                ents.append((k, v, b_and(p, b_not(hit))))
            self.map_write(o, MapVal(ents), gg)

    def map_len(self, m, guard):
        total = 0
        for g, r in m.alts:
            if r is None:
                continue
            o = self.heap[r.obj]
            mv = self.map_read(o, b_and(guard, g))
            for k, v, p in mv.entries:
                pp = b_and(g, p)
                if pp is True:
                    total = int_binop("+", total, 1, 64, True)
                elif pp is not False:
                    total = int_binop("+", total, i_ite(pp, 1, 0, 64), 64, True)
        return total

    # ------------------------------------------------------------------ range / next
    def i_Range(self, fr, env, ins, guard, state):
        x = self.val(env, ins["x"])
        if isinstance(x, StrV):
            o = self.alloc("iter", None, {"kind": "str", "s": x, "pos": 0}, site="range")
            return IterV_(o.id)
        # map: snapshot entries over alternatives
        ents = []
        c = getattr(self, "conc", None)
        if c is not None and c.recording is not None and any(r is not None and c.is_shared(self.heap[r.obj]) for g, r in x.alts):
            kt, et = self.map_types(ins["xt"])
            ents = c.map_range(x, guard, kt, et)
            o = self.alloc("iter", None, {"kind": "map", "ents": ents, "pos": 0, "kt": kt, "et": et, "mapptr": x, "snapshot": True}, site="range")
            return IterV_(o.id)
        for g, r in x.alts:
            if r is None:
                continue
            mv = self.map_read(self.heap[r.obj], b_and(guard, g))
            for k, v, p in mv.entries:
                pp = b_and(g, p)
                if pp is not False:
                    ents.append((k, v, pp))
        kt, et = self.map_types(ins["xt"])
        mo = self.opts.get("map_order")
        if mo in ("rotate", "dihedral") and 1 < len(ents) <= int(self.opts.get("map_order_max", 4)):
            # opt-in: Go's map iteration order is unspecified. The snapshot (insertion order) is traversed from a
            # solver-chosen start ("rotate"), optionally also backwards ("dihedral": for <= 3 entries that is every
            # permutation). Keys/values of the t-th visited entry become ite-terms over the choice.
            n = len(ents)
            k = z3.BitVec(self.fresh_name("nd.maporder"), 64)
            self.assume(b_and(int_cmp(">=", k, 0, 64, True), int_cmp("<", k, n, 64, True)), True, "map iteration start in [0,%d)" % n)
            self.nondets.append(("maporder", k, "choice"))
            rev = False
            if mo == "dihedral":
                rev = z3.Bool(self.fresh_name("nd.maprev"))
                self.nondets.append(("maprev", rev, "choice"))
            out = []
            for j in range(n):
                kk, vv, pp = ents[j % n]
                for r in range(n):
                    for d in ((False, True) if mo == "dihedral" else (False,)):
                        if r == 0 and d is False:
                            continue
                        ck, cv, cp = ents[(r - j) % n] if d else ents[(r + j) % n]
                        c = b_and(int_cmp("==", k, r, 64, True), rev if d else b_not(rev))
                        kk = self.ite(c, ck, kk, kt)
                        vv = self.ite(c, cv, vv, et)
                        pp = b_ite(c, cp, pp)
                out.append((kk, vv, pp))
            ents = out
        o = self.alloc("iter", None, {"kind": "map", "ents": ents, "pos": 0, "kt": kt, "et": et, "mapptr": x}, site="range")
        return IterV_(o.id)

    def i_Next(self, fr, env, ins, guard, state):
        it = self.val(env, ins["iter"])
        o = self.heap[it.obj]
        st = o.val
        if st["kind"] == "str":
            s = st["s"]
            pos = st["pos"]
            ok = int_cmp("<", pos, s.len, 64, True)
            ch = self.select_elem(s.chars, pos, 8, None)
            # ASCII assumption for symbolic strings; concrete strings decoded properly
            if s.is_conc() and isinstance(pos, int):
                b = s.conc()
                if pos < len(b):
                    rest = b[pos:]
                    try:
                        c = rest.decode("utf-8")[0]
                        w = len(c.encode("utf-8"))
                        r = ord(c)
                    except UnicodeDecodeError:
                        c, w, r = None, 1, 0xFFFD
                    o.val = dict(st, pos=i_ite(guard, pos + w, pos, 64))
                    return TupleV([True, pos, r])
                return TupleV([False, 0, 0])
            self.note("assumption", "range over symbolic string assumes ASCII bytes")
            rune = int_convert(ch, 8, False, 32, True)
            o.val = dict(st, pos=i_ite(b_and(guard, ok), int_binop("+", pos, 1, 64, True), pos, 64))
            return TupleV([ok, pos, rune])
        ents = st["ents"]
        pos = st["pos"]
        kt, et = st["kt"], st["et"]
        if self.opts.get("map_range") == "per_entry" and state is not None and state.get("block") is not None and state.get("block") == state.get("cut_header"):
            # opt-in (opts map_range=per_entry): the t-th unrolling of a `range` loop header handles exactly snapshot
            # entry t (concrete key); paths on which that entry is absent skip the body through an extra
            # header->header edge (emitted by _run_block from state["skip_edge"]). Same iteration order as the default
            # model (list order), but keys stay concrete and the unrolling ends syntactically after len(ents) iterations.
            t = st.get("calls", 0)
            if t >= len(ents):
                return TupleV([False, self.zero(kt), self.zero(et)])
            k, v, p = ents[t]
            o.val = dict(st, calls=t + 1)
            if p is False or st.get("snapshot"):
                live = v
            else:
                live, _found = self.map_lookup(st["mapptr"], k, guard, et)
            if p is not True:
                state["skip_edge"] = b_and(guard, b_not(p))
                state["guard"] = b_and(guard, p)
            return TupleV([True, k, live])
        okv = False
        kv = self.zero(kt)
        vv = self.zero(et)
        newpos = pos
        none_before = True
        for j in range(len(ents) - 1, -1, -1):
            pass
        # first present entry with index >= pos
        taken = False
        npos = pos
        for j, (k, v, p) in enumerate(ents):
            ge = int_cmp("<=", pos, j, 64, True)
            c = b_and(ge, p, b_not(taken))
            if c is False:
                continue
            # current value in map may differ from the snapshot for values: Go reads live values; re-read
            kv = self.ite(c, k, kv, kt)
            if st.get("snapshot"):
                live = v
            else:
                live, _found = self.map_lookup(st["mapptr"], k, guard, et)
            vv = self.ite(c, live, vv, et)
            npos = i_ite(c, j + 1, npos, 64)
            okv = b_or(okv, c)
            taken = b_or(taken, c)
        npos = i_ite(okv, npos, len(ents), 64)
        o.val = dict(st, pos=i_ite(guard, npos, pos, 64))
        return TupleV([okv, kv, vv])

    # ------------------------------------------------------------------ calls
    def i_Call(self, fr, env, ins, guard, state):
        kills = self.path_kills
        rv, rg = self.do_call(fr, env, ins, guard)
        if self.path_kills != kills or rg is False:
            state["guard"] = b_and(guard, rg) if rg is not False else False
        return rv

    def do_call(self, fr, env, ins, guard):
        pos = ins.get("pos")
        args = [self.val(env, a) for a in ins["args"]]
        if "invoke" in ins:
            recv = self.val(env, ins["recv"])
            return self.invoke(fr, recv, ins["invoke"], args, guard, pos, ins)
        fnop = ins["fn"]
        if fnop["k"] == "builtin":
            return self.builtin(fr, fnop["n"], args, guard, ins, env), guard
        if "static" in ins and fnop["k"] == "func":
            return self.call_function(ins["static"], args, guard, (), pos)
        fv = self.val(env, fnop)
        return self.call_funcv(fr, fv, args, guard, pos, ins)

    def call_funcv(self, fr, fv, args, guard, pos, ins):
        if not isinstance(fv, FuncV):
            raise Unsupported("call of non-function value %r" % (fv,))
        results = []
        sig = self.prog.under(ins["sig"])[1]
        rts = sig["results"]
        for g, f, bd in fv.alts:
            gg = b_and(guard, g)
            if gg is False:
                continue
            if f is None:
                self.path_kills += 1
                self.oblige("panic", "call of nil func", gg, False, pos, fr.fn["name"])
                continue
            if isinstance(f, tuple) and f[0] == "bound":
                rv, rg = self.call_function(f[1], [f[2]] + list(args), gg, (), pos)
            else:
                rv, rg = self.call_function(f, list(args), gg, bd, pos)
            results.append((rg, rv))
        return self.merge_results(results, rts)

    def merge_results(self, results, rts):
        results = [(g, v) for g, v in results if g is not False]
        if not results:
            return None, False
        rg = b_or(*[g for g, _ in results])
        rv = results[-1][1]
        tid = None
        if len(rts) == 1:
            tid = rts[0]
        for g, v in reversed(results[:-1]):
            if len(rts) > 1:
                rv = TupleV([self.ite(g, a, b, t) for a, b, t in zip(v.elems, rv.elems, rts)])
            elif len(rts) == 1:
                rv = self.ite(g, v, rv, tid)
        return rv, rg

    def invoke(self, fr, recv, method, args, guard, pos, ins):
        if not isinstance(recv, IfaceV):
            raise Unsupported("invoke on non-interface %r" % (recv,))
        sig = self.prog.under(ins["sig"])[1]
        rts = sig["results"]
        results = []
        for g, t, p in recv.alts:
            gg = b_and(guard, g)
            if gg is False:
                continue
            if t is None:
                self.path_kills += 1
                self.oblige("panic", "method call on nil interface (%s)" % method, gg, False, pos, fr.fn["name"])
                continue
            h = self.iface_models.get((t.split(":")[0] if t.startswith("verif.") else t, method))
            if h is None and t.startswith("verif."):
                h = self.iface_models.get(("verif.*", method))
            if h is not None:
                rv, rg = h(self, p, args, gg, pos, t, ins)
                results.append((rg, rv))
                continue
            tbl = self.prog.methods.get(t) or self.prog.methods.get(self.prog.canon(t))
            fname = tbl.get(method) if tbl else None
            if fname is None:
                # unknown dynamic type: havoc results
                self.stubs_used.setdefault("invoke-stub", set()).add("%s.%s" % (t, method))
                if len(rts) == 0:
                    rv = None
                elif len(rts) == 1:
                    rv = self.fresh(rts[0], "inv." + method)
                else:
                    rv = TupleV([self.fresh(r, "inv." + method) for r in rts])
                results.append((gg, rv))
                continue
            rv, rg = self.call_function(fname, [p] + list(args), gg, (), pos)
            results.append((rg, rv))
        return self.merge_results(results, rts)

    def i_Defer(self, fr, env, ins, guard, state):
        args = [self.val(env, a) for a in ins["args"]]
        if "invoke" in ins:
            fr.defers.append((guard, "invoke", self.val(env, ins["recv"]), ins["invoke"], args, ins))
        else:
            fnop = ins["fn"]
            if fnop["k"] == "builtin":
                fr.defers.append((guard, "builtin", fnop["n"], None, args, ins))
            elif "static" in ins and fnop["k"] == "func":
                fr.defers.append((guard, "static", ins["static"], None, args, ins))
            else:
                fr.defers.append((guard, "funcv", self.val(env, fnop), None, args, ins))

    def i_RunDefers(self, fr, env, ins, guard, state):
        # NB: a function has one RunDefers per return site and the guarded executor visits all of them: the list must
        # survive for the later sites (clearing it here ran the deferred calls on the first return path only)
        defers = list(fr.defers)
        for g, kind, a, b, args, dins in reversed(defers):
            gg = b_and(guard, g)
            if gg is False:
                continue
            pos = dins.get("pos")
            if kind == "static":
                rv, rg = self.call_function(a, args, gg, (), pos)
            elif kind == "funcv":
                rv, rg = self.call_funcv(fr, a, args, gg, pos, dins)
            elif kind == "invoke":
                rv, rg = self.invoke(fr, a, b, args, gg, pos, dins)
            else:
                self.builtin(fr, a, args, gg, dins, env)
        # NB: a panic inside a deferred call is recorded as an obligation; the path continues only where it returned

    def i_Go(self, fr, env, ins, guard, state):
        h = getattr(self, "spawn_hook", None)
        args = [self.val(env, a) for a in ins["args"]]
        if h is None and self.opts.get("go_inline"):
            # sequential over-simplification (stated per check): the goroutine body runs to completion at the go statement
            self.note("assumption", "go statements run inline (sequentially) at the spawn point")
            fnop = ins["fn"]
            if "invoke" in ins:
                self.invoke(fr, self.val(env, ins["recv"]), ins["invoke"], args, guard, ins.get("pos"), ins)
            elif "static" in ins and fnop["k"] == "func":
                self.call_function(ins["static"], args, guard, (), ins.get("pos"))
            else:
                self.call_funcv(fr, self.val(env, fnop), args, guard, ins.get("pos"), ins)
            return None
        if h is None and self.opts.get("go_ignore"):
            self.note("assumption", "go statement ignored at %s (the spawned goroutine is outside the claim)" % ins.get("pos"))
            return None
        if h is None:
            raise Unsupported("go statement outside concurrent mode")
        if "invoke" in ins:
            raise Unsupported("go invoke")
        fnop = ins["fn"]
        if "static" in ins and fnop["k"] == "func":
            fv = FuncV([(True, ins["static"], ())])
        else:
            fv = self.val(env, fnop)
        h(fr, fv, args, guard, ins)

    # ------------------------------------------------------------------ builtins
    def builtin(self, fr, name, args, guard, ins, env):
        if name == "len":
            x = args[0]
            if isinstance(x, StrV):
                return x.len
            if isinstance(x, SliceV):
                return x.len
            if isinstance(x, ArrayV):
                return len(x.elems)
            if isinstance(x, Ptr):
                xt = self.prog.types.get(ins["args"][0].get("t", ""), None)
                # map / chan / *array
                if any(r is not None and self.heap[r.obj].kind == "chan" for g, r in x.alts):
                    return self.chan_len(x, guard)
                return self.map_len(x, guard)
            raise Unsupported("len of %r" % (x,))
        if name == "cap":
            x = args[0]
            if isinstance(x, SliceV):
                return x.cap
            if isinstance(x, Ptr):
                for g, r in x.alts:
                    if r is not None and self.heap[r.obj].kind == "chan":
                        return self.heap[r.obj].val.cap
                return 0
            raise Unsupported("cap")
        if name == "append":
            return self.do_append(fr, args[0], args[1], guard, ins)
        if name == "copy":
            return self.do_copy(fr, args[0], args[1], guard)
        if name == "delete":
            self.map_delete(args[0], args[1], guard)
            return None
        if name == "panic":
            self.path_kills += 1
            self.do_panic(fr, guard, "explicit panic", ins.get("pos"), args[0])
            return None
        if name == "recover":
            return IfaceV.nil()
        if name in ("print", "println"):
            return None
        if name == "close":
            return self.chan_close(args[0], guard)
        if name in ("min", "max"):
            ii = self.prog.int_info(ins["type"])
            if ii is None:
                raise Unsupported("min/max on non-int")
            r = args[0]
            for a in args[1:]:
                c = int_cmp("<" if name == "min" else ">", a, r, ii[0], ii[1])
                r = i_ite(c, a, r, ii[0])
            return r
        if name == "clear":
            x = args[0]
            if isinstance(x, Ptr):
                for g, r in x.alts:
                    if r is None:
                        continue
                    o = self.heap[r.obj]
                    gg = b_and(guard, g)
                    mv = self.map_read(o, gg)
                    self.map_write(o, MapVal([(k, v, b_and(p, b_not(gg))) for k, v, p in mv.entries]), gg)
                return None
            if isinstance(x, SliceV):
                t = self.slice_elem_tid(x)
                n = self.slice_maxlen(x)
                for i in range(n):
                    inb = int_cmp("<", i, x.len, 64, True)
                    p = self.elem_ptr_clamped(x.arr, int_binop("+", x.off, i, 64, True))
                    self.store_noNil(p, self.zero(t), b_and(guard, inb))
                return None
        if name.startswith("ssa:wrapnilchk"):
            return args[0]
        if name == "SliceData":
            # unsafe.SliceData(s): pointer to the first element of s (nil when s has no addressable element)
            x = args[0]
            if isinstance(x, SliceV):
                return self.elem_ptr_clamped(x.arr, x.off)
            raise Unsupported("unsafe.SliceData of %r" % (x,))
        if name == "String":
            # unsafe.String(p, n): the n bytes starting at element pointer p, as a (snapshot) string value
            p, n = args
            res = None
            for g, r in reversed(p.alts):
                if r is None or not r.path or not isinstance(r.path[-1], int):
                    s = StrV([], 0)
                    avail = 0
                else:
                    o = self.heap[r.obj]
                    arr = self.get_path(o.val, r.path[:-1])
                    j = r.path[-1]
                    avail = len(arr.elems) - j
                    s = StrV([self.read_cell(o, r.path[:-1] + (i,), b_and(guard, g)) for i in range(j, len(arr.elems))], n)
                    if isinstance(n, int):
                        s = StrV(s.chars[:max(0, n)], max(0, min(n, avail)))
                ok = b_and(int_cmp(">=", n, 0, 64, True), int_cmp("<=", n, avail, 64, True))
                if ok is not True:
                    self.oblige("panic", "unsafe.String length out of range of the underlying array", b_and(guard, g, b_not(ok)), False, ins.get("pos"), fr.fn["name"])
                res = s if res is None else self.ite(g, s, res, ins["type"])
            return res if res is not None else StrV([], 0)
        raise Unsupported("builtin " + name)

    def store_noNil(self, p, val, guard):
        for g, r in p.alts:
            if r is None:
                continue
            gg = b_and(guard, g)
            if gg is not False:
                self.write_cell(self.heap[r.obj], r.path, val, gg)

    def slice_elem_tid(self, s):
        for g, r in s.arr.alts:
            if r is not None:
                o = self.heap[r.obj]
                at = self.path_tid(o.tid, r.path)
                return self.prog.under(at)[1]["elem"]
        return None

    def do_append(self, fr, s, more, guard, ins):
        """append(s, more...) where more is a slice (or string for []byte)"""
        t, d = self.prog.under(ins["type"])
        elem = d["elem"]
        if isinstance(more, StrV):
            mlen = more.len
            mget = lambda i: self.select_elem(more.chars, i, 8, None)
            mmax = len(more.chars) if not isinstance(more.len, int) else more.len
        else:
            if more is None:
                more = SliceV.nil()
            mlen = more.len
            mmax = self.slice_maxlen(more)
            mget = lambda i: self.slice_get(more, i, guard)
        if isinstance(mlen, int) and mlen == 0:
            return s
        newlen = int_binop("+", s.len, mlen, 64, True)
        fits = int_cmp("<=", newlen, s.cap, 64, True)
        smax = self.slice_maxlen(s)
        vals = [mget(i) for i in range(mmax)]
        res_in = None
        if fits is not False:
            # in place
            gg = b_and(guard, fits)
            for i in range(mmax):
                inb = int_cmp("<", i, mlen, 64, True)
                p = self.elem_ptr_clamped(s.arr, int_binop("+", int_binop("+", s.off, s.len, 64, True), i, 64, True))
                self.store_noNil(p, vals[i], b_and(gg, inb))
            res_in = SliceV(s.arr, s.off, newlen, s.cap)
            if fits is True:
                return res_in
        # grow: new backing array
        ncap = smax + mmax
        if isinstance(s.cap, int):
            ncap = max(ncap, min(2 * s.cap, self.opts.get("append_growth_cap", 16)))
        old = [self.slice_get(s, i, guard) for i in range(smax)]
        elems = []
        for j in range(ncap):
            # elems[j] = j < s.len ? old[j] : more[j - s.len]
            v = self.zero(elem)
            for i in range(mmax - 1, -1, -1):
                if j - i < 0 or j - i > smax:
                    continue
                c = b_and(int_cmp("==", s.len, j - i, 64, True), int_cmp("<", i, mlen, 64, True))
                v = self.ite(c, vals[i], v, elem)
            if j < smax:
                v = self.ite(int_cmp("<", j, s.len, 64, True), old[j], v, elem)
            elems.append(v)
        arr = self.alloc("array", self._array_tid(elem, ncap), ArrayV(elems), site="%s:append:%s" % (fr.fn["name"], ins.get("reg")))
        res_new = SliceV(Ptr.to(arr.id), 0, newlen, ncap)
        if res_in is None:
            return res_new
        return self.ite(fits, res_in, res_new, ins["type"])

    def do_copy(self, fr, dst, src, guard):
        if isinstance(src, StrV):
            slen = src.len
            smax = len(src.chars) if not isinstance(src.len, int) else src.len
            sget = lambda i: self.select_elem(src.chars, i, 8, None)
        else:
            slen = src.len
            smax = self.slice_maxlen(src)
            sget = lambda i: self.slice_get(src, i, guard)
        n = i_ite(int_cmp("<", slen, dst.len, 64, True), slen, dst.len, 64)
        dmax = self.slice_maxlen(dst)
        vals = [sget(i) for i in range(min(smax, dmax))]  # read all before writing (memmove semantics)
        for i, v in enumerate(vals):
            inb = int_cmp("<", i, n, 64, True)
            p = self.elem_ptr_clamped(dst.arr, int_binop("+", dst.off, i, 64, True))
            self.store_noNil(p, v, b_and(guard, inb))
        return n

    # ------------------------------------------------------------------ channels (sequential semantics; conc layer overrides)
    def i_MakeChan(self, fr, env, ins, guard, state):
        size = self.val(env, ins["size"])
        t, d = self.prog.under(ins["type"])
        if not isinstance(size, int):
            n = self.opts.get("sym_chan_cap", 4)
            self.assume(b_and(int_cmp(">=", size, 0, 64, True), int_cmp("<=", size, n, 64, True)), guard, "make(chan, n): symbolic n <= %d" % n)
            self.note("bounds", "symbolic channel capacity bounded by %d" % n)
            nslots = n
        else:
            nslots = size
        o = self.alloc("chan", d["elem"], ChanVal(size, [self.zero(d["elem"]) for _ in range(nslots)], 0, False), site="%s:%s" % (fr.fn["name"], ins.get("reg")))
        return Ptr.to(o.id)

    def chan_len(self, ch, guard):
        v = 0
        for g, r in ch.alts:
            if r is None:
                continue
            v = i_ite(g, self.heap[r.obj].val.len, v, 64)
        return v

    def chan_close(self, ch, guard):
        c = getattr(self, "conc", None)
        if c is not None and c.recording is not None:
            def apply(active, ch=ch):
                self._chan_close_now(ch, active)
            c.add_event(guard, apply, "chan close", None, visible=True)
            return None
        return self._chan_close_now(ch, guard)

    def _chan_close_now(self, ch, guard):
        for g, r in ch.alts:
            if r is None:
                continue
            o = self.heap[r.obj]
            cv = o.val
            o.val = ChanVal(cv.cap, cv.buf, cv.len, b_or(cv.closed, b_and(guard, g)))
        return None

    def i_Send(self, fr, env, ins, guard, state):
        ch = self.val(env, ins["chan"])
        x = self.val(env, ins["x"])
        c = getattr(self, "conc", None)
        if c is not None and c.recording is not None:
            c.chan_send_blocking(ch, x, guard, ins.get("pos"))
            return
        ok = self.chan_send(ch, x, guard)
        # sequential mode: a send that would block forever ends the path
        if ok is not True:
            state["guard"] = b_and(guard, ok)

    def chan_send(self, ch, x, guard):
        """non-blocking attempt under guard; returns condition under which it succeeded"""
        okall = False
        for g, r in ch.alts:
            if r is None:
                continue
            o = self.heap[r.obj]
            cv = o.val
            room = int_cmp("<", cv.len, cv.cap, 64, True)
            gg = b_and(guard, g, room)
            if gg is False:
                continue
            buf = []
            for i in range(len(cv.buf)):
                c = b_and(gg, int_cmp("==", cv.len, i, 64, True))
                buf.append(self.ite(c, x, cv.buf[i], o.tid))
            o.val = ChanVal(cv.cap, buf, i_ite(gg, int_binop("+", cv.len, 1, 64, True), cv.len, 64), cv.closed)
            okall = b_or(okall, b_and(g, room))
        return okall

    def chan_try_recv(self, ch, guard):
        """returns (value, ok_received, cond_success) ; success includes receive-from-closed"""
        val = None
        okrecv = False
        succ = False
        first = True
        tid = None
        for g, r in ch.alts:
            if r is None:
                continue
            o = self.heap[r.obj]
            tid = o.tid
            cv = o.val
            nonempty = int_cmp(">", cv.len, 0, 64, True)
            gg = b_and(guard, g, nonempty)
            ns = len(cv.buf)
            head = cv.buf[0] if ns > 0 else self.zero(o.tid)
            if gg is not False and ns > 0:
                buf = []
                for i in range(ns):
                    nxt = cv.buf[i + 1] if i + 1 < ns else self.zero(o.tid)
                    buf.append(self.ite(gg, nxt, cv.buf[i], o.tid))
                o.val = ChanVal(cv.cap, buf, i_ite(gg, int_binop("-", cv.len, 1, 64, True), cv.len, 64), cv.closed)
            v = self.ite(nonempty, head, self.zero(o.tid), o.tid)
            val = v if first else self.ite(g, v, val, o.tid)
            first = False
            okrecv = b_or(okrecv, b_and(g, nonempty))
            succ = b_or(succ, b_and(g, b_or(nonempty, cv.closed)))
        if first:
            return None, False, False
        return val, okrecv, succ

    def chan_recv(self, fr, ch, guard, ins, state):
        c = getattr(self, "conc", None)
        if c is not None and c.recording is not None:
            t, d = self.prog.under(ins["xt"])
            v, okv = c.chan_recv_blocking(ch, guard, ins.get("pos"), d["elem"])
            if ins.get("commaok"):
                return TupleV([v, okv])
            return v
        val, okrecv, succ = self.chan_try_recv(ch, guard)
        if succ is not True:
            state["guard"] = b_and(guard, succ)  # would block forever in sequential mode
        if val is None:
            t, d = self.prog.under(ins["xt"])
            val = self.zero(d["elem"])
        if ins.get("commaok"):
            return TupleV([val, okrecv])
        return val

    def i_Select(self, fr, env, ins, guard, state):
        """select: choose (solver variable) among enabled cases; default if non-blocking and none chosen"""
        states = ins["states"]
        n = len(states)
        c_ = getattr(self, "conc", None)
        if c_ is not None and c_.recording is not None:
            t_, d_ = self.prog.under(ins["type"])
            ets = d_["elems"][2:]
            cases = []
            k_ = 0
            for st in states:
                ch = self.val(env, st["chan"])
                if st["dir"] == 1:
                    cases.append((1, ch, self.val(env, st["send"]), None))
                else:
                    cases.append((2, ch, None, ets[k_]))
                    k_ += 1
            return c_.select(cases, ins["blocking"], guard, ins.get("pos"), ets)
        if self.opts.get("select_precise") and n == 1 and not ins["blocking"]:
            # opt-in (sequential mode): `select { case <op>: default: }` takes the case exactly when it is enabled
            # (no interference by other goroutines on the channel) -> no choice variable, concrete state stays concrete
            st = states[0]
            ch = self.val(env, st["chan"])
            if st["dir"] == 1:
                ok = self.chan_send(ch, self.val(env, st["send"]), guard)
                return TupleV([i_ite(ok, 0, wrap(-1, 64, True), 64), False])
            v, okr, succ = self.chan_try_recv(ch, guard)
            if v is None:
                v = self.zero(self.prog.under(ins["type"])[1]["elems"][2])
            return TupleV([i_ite(succ, 0, wrap(-1, 64, True), 64), okr, v])
        choice = self.fresh_int("select", 8)
        self.nondets.append(("select", choice, "choice"))
        idx_res = -1 if not ins["blocking"] else 0
        recv_ok = False
        recvs = []
        taken = False
        chosen_idx = -1
        t, d = self.prog.under(ins["type"])
        elem_ts = d["elems"]
        result_idx = None
        for i, st in enumerate(states):
            ch = self.val(env, st["chan"])
            c = b_and(guard, int_cmp("==", choice, i, 8, False))
            if st["dir"] == 1:  # send
                x = self.val(env, st["send"])
                ok = self.chan_send(ch, x, c)
                en = ok
                recvs.append(None)
            else:
                v, okr, succ = self.chan_try_recv(ch, c)
                en = succ
                recvs.append((v, okr))
            # the choice must be enabled
            self.assume(b_implies(int_cmp("==", choice, i, 8, False), en), guard, "select case enabled")
        if ins["blocking"]:
            # unconditional on purpose (choice is fresh and only read under guard): `guard -> choice<n` with a large guard
            # at base level sends z3's incremental core into a very long preprocessing (seen in C35)
            self.assume(int_cmp("<", choice, n, 8, False), True, "blocking select picks a case")
            idx = int_convert(choice, 8, False, 64, True)
        else:
            # default only when no case is enabled would be precise; we over-approximate: default allowed any time a
            # timer/ctx case could also lose the race. Precise rule kept: default iff choice >= n.
            idx = i_ite(int_cmp("<", choice, n, 8, False), int_convert(choice, 8, False, 64, True), wrap(-1, 64, True), 64)
        out = [idx, False]
        rok = False
        k = 2
        for i, st in enumerate(states):
            if st["dir"] != 1:
                v, okr = recvs[i]
                c = int_cmp("==", choice, i, 8, False)
                rok = b_or(rok, b_and(c, okr))
        out[1] = rok
        for i, st in enumerate(states):
            if st["dir"] != 1:
                v, okr = recvs[i]
                et = elem_ts[len(out)]
                if v is None:
                    v = self.zero(et)
                out.append(v)
        return TupleV(out)


class IterV_:
    __slots__ = ("obj",)

    def __init__(self, obj):
        self.obj = obj
