"""Check driver: build IR with vdump, run harness entries symbolically, discharge obligations,
replay counterexamples natively, write evidence."""
import json, os, sys, time, subprocess, hashlib, tempfile, shutil, traceback, re
import multiprocessing as mp
import z3
from .terms import *
from .values import *
from .core import Program, Unsupported
from .exec import Executor

VERIF = os.environ.get("VERIF_ROOT", "/verif")
REPO = os.environ.get("VERIF_REPO", "/repo")
MODULE = "github.com/tochemey/goakt/v4"
GOENV = dict(os.environ, GOFLAGS="-mod=mod", GOPROXY="off", GOSUMDB="off", GOTOOLCHAIN="local",
             PATH="/opt/veriftools/go1.26.8/bin:" + os.environ.get("PATH", ""))
CACHE = os.path.join(VERIF, ".cache")
DEFAULT_DESCEND = [MODULE, "internal/strconv", "go.uber.org/atomic", "slices", "maps", "sort", "container/heap", "container/list", "cmp",
                   "encoding/binary", "math/bits", "golang.org/x/sync/singleflight", "unicode/utf8", "bytes", "strings", "strconv", "errors"]


def pkg_name_of(pkgdir):
    """package clause of the (non-test) go files in a repo directory"""
    d = os.path.join(REPO, pkgdir)
    for f in sorted(os.listdir(d)):
        if f.endswith(".go") and not f.endswith("_test.go"):
            for line in open(os.path.join(d, f)):
                m = re.match(r"^package\s+(\w+)", line)
                if m:
                    return m.group(1)
    raise RuntimeError("no package in " + pkgdir)


def build_overlay(check, workdir, for_test=False):
    """returns overlay map virtual->real for harness + prims (+ replay test)"""
    ov = {}
    pkgs = set()
    for h in check["harness"]:
        pkgdir = os.path.dirname(h)
        pkgs.add(pkgdir)
        ov[os.path.join(REPO, pkgdir, os.path.basename(h))] = os.path.join(VERIF, "harness", h)
    for pkgdir in pkgs:
        name = pkg_name_of(pkgdir)
        tmpl = open(os.path.join(VERIF, "harness/_common/prims.go.tmpl")).read().replace("PKGNAME", name)
        real = os.path.join(workdir, pkgdir.replace("/", "_") + "_prims.go")
        open(real, "w").write(tmpl)
        ov[os.path.join(REPO, pkgdir, "zz_verif_prims.go")] = real
        if for_test:
            tmpl = open(os.path.join(VERIF, "harness/_common/replay_test.go.tmpl")).read().replace("PKGNAME", name)
            real = os.path.join(workdir, pkgdir.replace("/", "_") + "_replay_test.go")
            open(real, "w").write(tmpl)
            ov[os.path.join(REPO, pkgdir, "zz_verif_replay_test.go")] = real
    return ov


def ensure_vdump():
    binp = os.path.join(VERIF, "bin/vdump")
    src = os.path.join(VERIF, "engine/vdump/main.go")
    if not os.path.exists(binp) or os.path.getmtime(binp) < os.path.getmtime(src):
        subprocess.run(["go", "build", "-o", binp, "."], cwd=os.path.join(VERIF, "engine/vdump"), env=GOENV, check=True)
    return binp


def run_vdump(check, entries, workdir):
    ov = build_overlay(check, workdir)
    replace = []
    for r in check.get("replace", []):
        replace.append({"file": r["file"], "old": r["old"], "new": r["new"]})
    roots = list(entries)
    for o in [check.get("opts", {})] + [e.get("opts", {}) for e in check["entries"]]:
        for v in o.get("substitute", {}).values():
            if v not in roots:
                roots.append(v)
    for v in check.get("extra_roots", []):
        if v not in roots:
            roots.append(v)
    spec = {"dir": REPO, "patterns": check["packages"], "overlay": ov, "replace": replace,
            "entries": roots, "descend": check.get("descend", DEFAULT_DESCEND) + check.get("descend_extra", []),
            "stop": check.get("stop", []), "tags": ["verif"], "out": os.path.join(workdir, "ir.json")}
    sp = os.path.join(workdir, "spec.json")
    json.dump(spec, open(sp, "w"))
    t0 = time.time()
    p = subprocess.run([ensure_vdump(), "-spec", sp], env=GOENV, capture_output=True, text=True)
    if p.returncode != 0:
        sys.stderr.write(p.stderr)
        if p.returncode == 3:
            raise RuntimeError("STALE-ENCODING: " + p.stderr.strip())
        raise RuntimeError("vdump failed (%d): %s" % (p.returncode, p.stderr[-2000:]))
    return spec["out"], time.time() - t0, p.stderr.strip()


def model_value(m, term, kind):
    if kind == "bool":
        v = m.eval(term, model_completion=True)
        return bool(z3.is_true(v))
    if kind == "case":
        return term
    if kind in ("string", "bytes"):
        chars, ln = term
        n = ln if isinstance(ln, int) else m.eval(ln, model_completion=True).as_signed_long()
        bs = bytes(m.eval(c, model_completion=True).as_long() for c in chars[:max(0, n)])
        import base64
        return base64.b64encode(bs).decode()
    v = m.eval(term, model_completion=True)
    if kind == "uint":
        return v.as_long()
    return v.as_signed_long()


def run_entry(args):
    """executed in a worker process. returns a result dict"""
    irpath, entry, opts, timeout_ms = args
    t0 = time.time()
    res = {"entry": entry, "case": opts.get("case"), "obligations": [], "covers": {}, "violations": [], "errors": [], "undecided": []}
    ex = None
    try:
        prog = Program(irpath)
        ex = Executor(prog, opts)
        ex.call_function(entry, [], True)
        res["exec_s"] = time.time() - t0
        res["functions_encoded"] = {k: {"count": v, "pos": prog.funcs[k].get("pos"), "ninstr": prog.funcs[k].get("ninstr")} for k, v in ex.funcs_encoded.items()}
        res["models_used"] = dict(ex.models_used)
        res["stubs"] = {k: sorted(v) for k, v in ex.stubs_used.items()}
        res["assumptions"] = sorted(set(d for d in ex.assume_desc if d))
        res["ninstr"] = ex.ninstr
        res["feas_queries"] = ex.nqueries
        # discharge
        s = z3.Solver()
        nadded = 0
        ts = time.time()
        nq = 0
        # batch pre-pass: all panic/unwind obligations sharing an assumption prefix are first checked as one disjunction
        batch_ok = set()
        batch_sat = {}
        batch_skip = set()
        groups = {}
        for i, ob in enumerate(ex.obligations):
            if not (ob.cond is True or ob.guard is False):
                groups.setdefault(min(ob.nassume, len(ex.assumes)), []).append(i)
        # opts["fresh_solver"]: assert the assumption prefix inside each obligation's own scope instead of once at the outer
        # level. z3's incremental core simplifies the formulas of one scope together; with a large path-condition-guarded
        # prefix asserted in an outer scope some easy queries (C35) take minutes instead of a second.
        fresh = bool(opts.get("fresh_solver"))
        bfresh = bool(opts.get("batch_fresh"))
        for na, idxs in sorted(groups.items()):
            if len(idxs) < 4 or fresh:
                continue
            while nadded < na and nadded < len(ex.assumes):
                s.add(ex.assumes[nadded])
                nadded += 1
            remaining = list(idxs)
            rounds_ = 0
            while remaining and rounds_ < 6:
                rounds_ += 1
                if bfresh:
                    # opts batch_fresh: a solver that is never pushed runs z3's non-incremental (bit-blasting) pipeline,
                    # which is several times faster on the one big disjunction of a map/slice-heavy entry
                    cur = z3.Solver()
                    for a_ in ex.assumes[:min(na, len(ex.assumes))]:
                        cur.add(a_)
                else:
                    cur = s
                    cur.push()
                cur.add(z3.Or(*[z3.And(to_z3_bool(ex.obligations[i].guard), to_z3_bool(b_not(ex.obligations[i].cond))) for i in remaining]))
                r = cur.check()
                nq += 1
                if os.environ.get("VERIF_VERBOSE"):
                    print("   batch of %d obligations (nassume=%d): %s in %.1fs" % (len(remaining), na, r, time.time() - ts), flush=True)
                if r == z3.unsat:
                    (None if bfresh else s.pop())
                    batch_ok.update(remaining)
                    break
                if r != z3.sat:
                    (None if bfresh else s.pop())
                    break
                # the model violates at least one obligation of the batch: report those directly, re-batch the others
                m = cur.model()
                hit = []
                for i in remaining:
                    ob = ex.obligations[i]
                    v = m.eval(z3.And(to_z3_bool(ob.guard), to_z3_bool(b_not(ob.cond))), model_completion=True)
                    if z3.is_true(v):
                        hit.append(i)
                if not hit:
                    (None if bfresh else s.pop())
                    break
                vals = []
                for (n_, term, kind) in ex.nondets:
                    try:
                        vals.append({"name": n_, "kind": kind, "value": model_value(m, term, kind)})
                    except Exception as e_:
                        vals.append({"name": n_, "kind": kind, "value": None, "err": str(e_)})
                from .conc import schedule_of
                sch = schedule_of(ex, m)
                for i in hit:
                    batch_sat[i] = (vals, sch)
                (None if bfresh else s.pop())
                names_hit = {(ex.obligations[i].kind, ex.obligations[i].name) for i in hit}
                # other instances of an already violated assertion are not re-proved (one counterexample per assertion)
                for i in remaining:
                    if i not in batch_sat and (ex.obligations[i].kind, ex.obligations[i].name) in names_hit:
                        batch_skip.add(i)
                remaining = [i for i in remaining if i not in batch_sat and i not in batch_skip]
        # NB: the incremental solver only ever grows its assumption prefix; obligations are visited in creation order
        s2 = z3.Solver()
        nadded2 = 0
        reach_by_name = {}
        cover_pre = {}
        if opts.get("reach_fresh"):
            # opts reach_fresh: one model usually witnesses many assertion sites / cover points at once. Ask (on a never-pushed
            # solver, under ALL assumptions - stronger than the per-site prefix, so a witness found here is a witness there) for
            # a model reaching any not-yet-witnessed site, tick off everything that model reaches, repeat. Whatever stays
            # unwitnessed falls through to the ordinary per-site query below.
            pend_ = {}
            for o2 in ex.obligations:
                if o2.kind == "assert" and o2.guard is not False:
                    pend_.setdefault(("a", o2.name), []).append(to_z3_bool(o2.guard))
            for cn_, cg_ in ex.covers.items():
                if cg_ is not False and cg_ is not True:
                    pend_.setdefault(("c", cn_), []).append(to_z3_bool(cg_))
            for _round in range(12):
                if not pend_:
                    break
                sr_ = z3.Solver()
                for a_ in ex.assumes:
                    sr_.add(a_)
                sr_.add(z3.Or(*[g_ for gs_ in pend_.values() for g_ in gs_]))
                nq += 1
                if sr_.check() != z3.sat:
                    break
                m_ = sr_.model()
                hit_ = [k_ for k_, gs_ in pend_.items() if any(z3.is_true(m_.eval(g_, model_completion=True)) for g_ in gs_)]
                if not hit_:
                    break
                for k_ in hit_:
                    del pend_[k_]
                    if k_[0] == "a":
                        reach_by_name[k_[1]] = True
                    else:
                        cover_pre[k_[1]] = "sat"
        sinc, ninc = None, 0
        for i, ob in enumerate(ex.obligations):
            while nadded2 < ob.nassume and nadded2 < len(ex.assumes) and not fresh:
                s2.add(ex.assumes[nadded2])
                nadded2 += 1
            rec = {"kind": ob.kind, "name": ob.name, "pos": ob.pos, "fn": ob.fn}
            if ob.cond is True or ob.guard is False:
                rec["result"] = "trivial"
                res["obligations"].append(rec)
                continue
            if i in batch_sat:
                rec["result"] = "sat"
                rec["model"] = batch_sat[i][0]
                if batch_sat[i][1] is not None:
                    rec["schedule"] = batch_sat[i][1]
                res["violations"].append(rec)
                res["obligations"].append(rec)
                continue
            if i in batch_skip:
                rec["result"] = "skipped"
                rec["note"] = "another instance of this assertion already has a counterexample"
                res["obligations"].append(rec)
                continue
            if i in batch_ok:
                rec["result"] = "unsat"
                rec["batched"] = True
                if ob.kind == "assert":
                    if ob.name not in reach_by_name:
                        gor_ = z3.Or(*[to_z3_bool(o2.guard) for o2 in ex.obligations if o2.kind == "assert" and o2.name == ob.name and o2.guard is not False])
                        if opts.get("reach_fresh"):
                            # opts reach_fresh: vacuity/cover witnesses on a never-pushed solver (non-incremental pipeline, see batch_fresh)
                            sr_ = z3.Solver()
                            for a_ in ex.assumes[:min(ob.nassume, len(ex.assumes))]:
                                sr_.add(a_)
                            sr_.add(gor_)
                            rr = sr_.check()
                        else:
                            s2.push()
                            s2.add(gor_)
                            rr = s2.check()
                            s2.pop()
                        nq += 1
                        reach_by_name[ob.name] = (rr == z3.sat)
                    rec["reachable"] = reach_by_name[ob.name]
                else:
                    rec["reachable"] = True
                res["obligations"].append(rec)
                continue
            if fresh and ob.kind != "assert":
                # panic/unwind sites are usually trivial: resource-limited attempt on an incremental solver first
                if sinc is None:
                    sinc = z3.Solver()
                    sinc.set("rlimit", 3000000)
                while ninc < ob.nassume and ninc < len(ex.assumes):
                    sinc.add(ex.assumes[ninc])
                    ninc += 1
                sinc.push()
                sinc.add(to_z3_bool(ob.guard))
                sinc.add(to_z3_bool(b_not(ob.cond)))
                tq = time.time()
                rq = sinc.check()
                sinc.pop()
                nq += 1
                if rq == z3.unsat:
                    rec["result"] = "unsat"
                    rec["reachable"] = True
                    rec["solver_s"] = round(time.time() - tq, 4)
                    res["obligations"].append(rec)
                    continue
            if fresh:
                s2 = z3.Solver()  # never pushed: z3 runs its non-incremental (bit-blasting) pipeline, several times faster on wide arithmetic
                for a in ex.assumes[:ob.nassume]:
                    s2.add(a)
            s2.push() if not fresh else None
            s2.add(to_z3_bool(ob.guard))
            s2.add(to_z3_bool(b_not(ob.cond)))
            tq = time.time()
            r = s2.check()
            nq += 1
            rec["solver_s"] = round(time.time() - tq, 4)
            if r == z3.unsat:
                rec["result"] = "unsat"
                if ob.kind == "assert":
                    # reachability of the assertion site (vacuity guard)
                    if fresh:
                        s2 = z3.Solver()
                        for a in ex.assumes[:ob.nassume]:
                            s2.add(a)
                    else:
                        s2.pop()
                        s2.push()
                    s2.add(to_z3_bool(ob.guard))
                    rr = s2.check()
                    nq += 1
                    rec["reachable"] = (rr == z3.sat)
                else:
                    rec["reachable"] = True
            elif r == z3.sat:
                m = s2.model()
                vals = []
                for (n, term, kind) in ex.nondets:
                    try:
                        vals.append({"name": n, "kind": kind, "value": model_value(m, term, kind)})
                    except Exception as e:
                        vals.append({"name": n, "kind": kind, "value": None, "err": str(e)})
                rec["result"] = "sat"
                rec["model"] = vals
                from .conc import schedule_of
                sch = schedule_of(ex, m)
                if sch is not None:
                    rec["schedule"] = sch
                res["violations"].append(rec)
            else:
                rec["result"] = "unknown"
                res["undecided"].append(rec)
            s2.pop() if not fresh else None
            res["obligations"].append(rec)
        # covers (with all assumptions up to their point)
        sc = z3.Solver()
        for a in ex.assumes:
            if not fresh:
                sc.add(a)
        for name, g in ex.covers.items():
            if name in cover_pre:
                res["covers"][name] = cover_pre[name]
                continue
            if (fresh or opts.get("reach_fresh")) and g is not False:
                sc = z3.Solver()
                for a in ex.assumes:
                    sc.add(a)
                if g is not True:
                    sc.add(g)
                r = sc.check()
            elif g is True:
                # still need assumptions to be consistent
                r = sc.check()
            elif g is False:
                res["covers"][name] = "unreachable"
                continue
            else:
                sc.push()
                sc.add(g)
                r = sc.check()
                sc.pop()
            nq += 1
            res["covers"][name] = "sat" if r == z3.sat else ("unsat" if r == z3.unsat else "unknown")
        res["solver_s"] = time.time() - ts
        res["queries"] = nq
    except Unsupported as e:
        res["errors"].append("unsupported: " + str(e))
    except Exception as e:
        tb = traceback.format_exception(type(e), e, e.__traceback__)
        res["errors"].append("exception: " + "".join(tb[-4:])[-1500:] + " || callstack: " + " > ".join(x.split("/")[-1] for x in (ex.call_stack[-6:] if ex is not None else [])))
    res["wall_s"] = time.time() - t0
    return res


def native_replay(check, entry_fn, model, workdir, tag):
    """replay a model against the real build. returns (reproduced: bool|None, output)"""
    pkgpath, name = entry_fn.rsplit(".", 1)
    pkgdir = pkgpath[len(MODULE) + 1:]
    ov = build_overlay(check, workdir, for_test=True)
    # constant shrinks apply to replay too
    for r in check.get("replace", []):
        p = os.path.join(REPO, r["file"])
        src = open(ov.get(p, p)).read()
        if src.count(r["old"]) != 1:
            return None, "stale replace"
        real = os.path.join(workdir, "repl_" + os.path.basename(p))
        open(real, "w").write(src.replace(r["old"], r["new"], 1))
        ov[p] = real
    ovp = os.path.join(workdir, "overlay_%s.json" % tag)
    json.dump({"Replace": ov}, open(ovp, "w"))
    mp_ = os.path.join(workdir, "model_%s.json" % tag)
    json.dump({"entry": name, "values": model}, open(mp_, "w"))
    env = dict(GOENV, VERIF_REPLAY=mp_, VERIF_ENTRY=name)
    cmd = ["go", "test", "-tags", "verif", "-vet=off", "-count=1", "-overlay", ovp, "-run", "^TestVReplay$", "-v", "./" + pkgdir]
    try:
        p = subprocess.run(cmd, cwd=REPO, env=env, capture_output=True, text=True, timeout=1500)
    except subprocess.TimeoutExpired:
        return None, "replay timeout"
    out = p.stdout + p.stderr
    if "VREPLAY-ASSUME-VIOLATED" in out:
        return False, out[-3000:]
    if "VREPLAY-FAIL" in out:
        return True, out[-3000:]
    if "VREPLAY-PASS" in out:
        return False, out[-3000:]
    return None, out[-3000:]


def load_known_findings():
    p = os.path.join(VERIF, "known_findings.json")
    if os.path.exists(p):
        return json.load(open(p))
    return {"findings": [], "fixed": []}


def run_check(check, tier="quick", seed=0, replay_only=None):
    t0 = time.time()
    pid = check["id"]
    # optional per-tier package / harness lists ("packages_quick", "harness_quick", ...): lets a check keep a heavy
    # package (e.g. ./actor) out of the quick tier's vdump when only thorough-tier entries need it
    if ("packages_" + tier) in check or ("harness_" + tier) in check:
        check = dict(check, packages=check.get("packages_" + tier, check["packages"]), harness=check.get("harness_" + tier, check["harness"]),
                     entries=[e for e in check["entries"] if tier in e.get("tiers", ("quick", "thorough"))])
    os.makedirs(CACHE, exist_ok=True)
    workdir = tempfile.mkdtemp(prefix="verif_%s_" % pid, dir=CACHE)
    status = 0
    lines = []
    try:
        entries = [e for e in check["entries"] if tier in e.get("tiers", ("quick", "thorough"))]
        fns = sorted(set(e["fn"] for e in entries))
        irpath, dump_s, dump_msg = run_vdump(check, fns, workdir)
        if os.environ.get("VERIF_VERBOSE"):
            print("  vdump %.1fs: %s" % (dump_s, dump_msg))
        tmo = check.get("timeout_ms", {}).get(tier, 900000 if tier == "quick" else 3600000)
        # floor: a loaded machine must not turn a decidable job into "undecided" (exit 2); VERIF_TMO_SCALE stretches it further
        tmo = max(tmo, 900000 if tier == "quick" else 3600000)
        tmo = int(tmo * float(os.environ.get("VERIF_TMO_SCALE", "1")))
        jobs = []
        expanded = []
        import itertools
        for e in entries:
            opts = dict(check.get("opts", {}))
            opts.update(e.get("opts", {}))
            opts.update(check.get("opts_" + tier, {}))  # check-level per-tier options (e.g. more rounds in the thorough tier)
            opts.update(e.get("opts_" + tier, {}))
            cases = e.get("cases_" + tier, e.get("cases"))
            if cases:
                names = sorted(cases.keys())
                for combo in itertools.product(*[cases[n] for n in names]):
                    o = dict(opts)
                    o["case"] = dict(zip(names, combo))
                    jobs.append((irpath, e["fn"], o, tmo))
                    expanded.append(e)
            else:
                jobs.append((irpath, e["fn"], opts, tmo))
                expanded.append(e)
        entries = expanded
        nproc = min(len(jobs), int(os.environ.get("VERIF_JOBS", "14")))
        if nproc > 1:
            with mp.Pool(nproc, maxtasksperchild=1) as pool:
                results = []
                asyncs = [pool.apply_async(run_entry, (j,)) for j in jobs]
                deadline = time.time() + tmo / 1000.0
                for i, a in enumerate(asyncs):
                    try:
                        r = a.get(timeout=max(1.0, deadline - time.time()))
                    except mp.TimeoutError:
                        r = {"entry": jobs[i][1], "case": jobs[i][2].get("case"), "obligations": [], "covers": {}, "violations": [], "undecided": [],
                             "errors": ["timeout: job not finished within the tier budget (%ds)" % (tmo // 1000)], "wall_s": tmo / 1000.0}
                    results.append(r)
                    if os.environ.get("VERIF_VERBOSE"):
                        print("   job %d/%d %s %s: %.1fs %s" % (i + 1, len(jobs), r["entry"].rsplit(".", 1)[1], r.get("case") or "", r["wall_s"], r["errors"][:1]), flush=True)
        else:
            results = [run_entry(j) for j in jobs]
        known = load_known_findings()
        kf = [f for f in known.get("findings", []) if f["property"] == pid]
        violations = 0
        infra = []
        ob_total = ob_unsat = ob_trivial = 0
        covers_sat = 0
        samples = []
        fenc = {}
        stubs = {}
        assumptions = set(check.get("assumptions", []))
        solver_s = exec_s = 0.0
        queries = 0
        kf_seen = set()
        replay_paths = []
        seen_check_v = set()
        for e, r in zip(entries, results):
            if os.environ.get("VERIF_VERBOSE"):
                print("  entry %s: exec %.1fs solver %.1fs wall %.1fs, %d obligations, %d instrs" % (r["entry"].rsplit(".", 1)[1], r.get("exec_s", 0), r.get("solver_s", 0), r["wall_s"], len(r["obligations"]), r.get("ninstr", 0)))
            if r["errors"]:
                infra.append("%s: %s" % (r["entry"], r["errors"][0]))
                continue
            solver_s += r.get("solver_s", 0)
            exec_s += r.get("exec_s", 0)
            queries += r.get("queries", 0) + r.get("feas_queries", 0)
            fenc.update(r.get("functions_encoded", {}))
            for k, v in r.get("stubs", {}).items():
                stubs.setdefault(k, set()).update(v)
            assumptions.update(r.get("assumptions", []))
            for u in r["undecided"]:
                infra.append("%s: undecided obligation %s" % (r["entry"], u["name"]))
            reach = {}
            for ob in r["obligations"]:
                if ob["kind"] == "assert":
                    reach[ob["name"]] = reach.get(ob["name"], False) or ob["result"] in ("sat", "unknown", "trivial") or (ob["result"] == "unsat" and ob.get("reachable", True))
            for nm, ok in reach.items():
                if not ok and nm not in e.get("may_be_unreachable", ()):
                    infra.append("%s: assertion %r is unreachable in every instance (vacuous harness)" % (r["entry"], nm))
            for ob in r["obligations"]:
                ob_total += 1
                if ob["result"] == "unsat":
                    ob_unsat += 1
                    if len(samples) < 12:
                        samples.append({"entry": r["entry"].rsplit(".", 1)[1], "obligation": ob["name"], "kind": ob["kind"], "at": ob["pos"], "result": "unsat", "solver_s": ob.get("solver_s")})
                elif ob["result"] == "trivial":
                    ob_trivial += 1
            for cname, cres in r["covers"].items():
                if cres == "sat":
                    covers_sat += 1
                elif cname not in e.get("cover_optional", ()):
                    infra.append("%s: cover point %r is %s (reachability witness failed)" % (r["entry"], cname, cres))
            seen_v = set()
            for v in r["violations"]:
                if (v["name"], v["kind"]) in seen_v and v["kind"] != "unwind":
                    continue  # one counterexample per assertion / panic message and entry is replayed and reported
                seen_v.add((v["name"], v["kind"]))
                if (r["entry"], v["name"], v["kind"]) in seen_check_v and v["kind"] != "unwind":
                    continue  # same assertion already reported for another case of the split
                seen_check_v.add((r["entry"], v["name"], v["kind"]))
                # known finding?
                matched = None
                for f in kf:
                    if f.get("entry") == r["entry"].rsplit(".", 1)[1] and f.get("obligation") == v["name"]:
                        matched = f
                if matched is not None and v["kind"] != "unwind":
                    kf_seen.add(matched["id"])
                    continue
                if v["kind"] == "unwind":
                    infra.append("%s: %s" % (r["entry"], v["name"]))
                    continue
                ename = r["entry"].rsplit(".", 1)[1]
                if r.get("case"):
                    ename += "__" + "_".join("%s%s" % (k, v) for k, v in sorted(r["case"].items()))
                rdir = os.path.join(VERIF, "replay", pid)
                os.makedirs(rdir, exist_ok=True)
                rpath = os.path.join(rdir, "%s__%s_%s.json" % (ename, re.sub(r"[^A-Za-z0-9]+", "_", v["name"])[:60], re.sub(r"[^0-9]", "", (v.get("pos") or "").rsplit(":", 1)[-1])))
                doc = {"schedule": v.get("schedule"), "property": pid, "entry": ename, "entry_fn": r["entry"], "obligation": v["name"], "kind": v["kind"], "at": v["pos"], "values": v["model"]}
                if e.get("replay", "native") == "native":
                    rep, out = native_replay(check, r["entry"], v["model"], workdir, ename)
                    doc["replay_kind"] = "native"
                    doc["replay_reproduced"] = rep
                    doc["replay_output"] = out[-1500:]
                    if rep is False or rep is None:
                        json.dump(doc, open(rpath, "w"), indent=1)
                        infra.append("%s: counterexample for %r did not reproduce natively (encoder/harness bug?) see %s" % (r["entry"], v["name"], rpath))
                        continue
                else:
                    doc["replay_kind"] = "model-only"
                json.dump(doc, open(rpath, "w"), indent=1)
                violations += 1
                lines.append("VIOLATION property=%s replay=%s" % (pid, rpath))
                samples.append({"entry": ename, "obligation": v["name"], "result": "sat", "model": v["model"][:8]})
        for f in kf:
            if f["id"] in kf_seen:
                lines.append("KNOWN-FINDING: property=%s %s" % (pid, f["what"]))
        if infra:
            status = 2
        if violations:
            status = 1
        ev = {
            "property_id": pid, "tier": tier, "seed": seed, "level": "other",
            "coverage": {
                "explanation": check.get("explanation", ""),
                "evaluations": queries, "distinct_nontrivial": ob_unsat + covers_sat,
                "rule": "one evaluation = one SMT query (obligation, reachability witness or loop-feasibility); distinct_nontrivial = obligations proven unsat (non-trivially, each at a distinct program point/assertion) + cover points shown reachable",
                "obligations": ob_total, "discharged": ob_unsat + ob_trivial, "trivially_true": ob_trivial, "witnesses_sat": covers_sat,
                "samples": samples[:14],
                "functions_encoded": fenc, "bounds": check.get("bounds", {}).get(tier, check.get("bounds", {})),
                "shrunk_constants": check.get("replace", []),
                "stubs": {k: sorted(v) for k, v in stubs.items()},
                "solver": {"name": "z3 " + z3.get_version_string(), "solver_s": round(solver_s, 3), "encode_s": round(exec_s, 3), "vdump_s": round(dump_s, 2)},
                "trusted_base": ["go/ssa (x/tools v0.50.0)", "gosmt executor + library models", "z3"],
                "known_findings_seen": sorted(kf_seen),
                "infrastructure_errors": infra,
            },
            "assumptions": sorted(assumptions),
            "wall_s": round(time.time() - t0, 2), "violations": violations,
        }
        evdir = os.environ.get("VERIF_EVIDENCE_DIR") or os.path.join(VERIF, "evidence")  # bin/seedtest points this elsewhere
        os.makedirs(evdir, exist_ok=True)
        json.dump(ev, open(os.path.join(evdir, pid + ".json"), "w"), indent=1)
        for l in lines:
            print(l)
        for i in infra:
            print("ERROR: " + i)
        print("%s %s: %d obligations (%d unsat, %d trivial), %d covers sat, %d violations, %.1fs" % (pid, tier, ob_total, ob_unsat, ob_trivial, covers_sat, violations, time.time() - t0))
    finally:
        if not os.environ.get("VERIF_KEEP"):
            shutil.rmtree(workdir, ignore_errors=True)
    return status
