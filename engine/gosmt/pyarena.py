"""install the chunk-caching arena allocator (see engine/pyarena/arena.c); harmless no-op if unavailable"""
import ctypes, os


def install():
    p = os.path.join(os.path.dirname(os.path.dirname(os.path.dirname(os.path.abspath(__file__)))), "bin", "libpyarena.so")
    try:
        lib = ctypes.CDLL(p)
        lib.verif_install_arena.argtypes = [ctypes.c_void_p]
        lib.verif_install_arena(ctypes.cast(ctypes.pythonapi.PyObject_SetArenaAllocator, ctypes.c_void_p))
        return True
    except Exception:
        return False
