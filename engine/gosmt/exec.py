"""Guarded symbolic executor: CFG traversal with loop unrolling, instruction semantics."""
import sys, time
import z3
from .terms import *
from .values import *
from .core import Program, Unsupported, const_string
from .heap import Obj, MapVal, ChanVal, ValueOps
from .instr import InstrOps


class Edge:
    __slots__ = ("guard", "pred", "env")

    def __init__(self, guard, pred, env):
        self.guard = guard
        self.pred = pred
        self.env = env


class Frame:
    __slots__ = ("fn", "defers", "returns", "depth", "callsite", "regtypes", "panics")

    def __init__(self, fn, depth, callsite):
        self.fn = fn
        self.defers = []
        self.returns = []
        self.depth = depth
        self.callsite = callsite
        self.panics = []


class Obligation:
    __slots__ = ("kind", "name", "guard", "cond", "pos", "nassume", "fn", "thread", "seg")

    def __init__(self, kind, name, guard, cond, pos, nassume, fn):
        self.kind = kind
        self.name = name
        self.guard = guard
        self.cond = cond
        self.pos = pos
        self.nassume = nassume
        self.fn = fn
        self.thread = None
        self.seg = None


class IterV:
    __slots__ = ("obj",)

    def __init__(self, obj):
        self.obj = obj


class Executor(ValueOps, InstrOps):
    def __init__(self, prog, opts=None):
        self.prog = prog
        self.opts = opts or {}
        self.heap = []
        self.fresh_counter = 0
        self.assumes = []  # list of z3 bool / (desc)
        self.assume_desc = []
        self.obligations = []
        self.covers = {}
        self.nondets = []  # (name, term, kind)
        self.global_objs = {}
        self.stubs_used = {}
        self.models_used = {}
        self.funcs_encoded = {}
        self.intercepts = {}
        self.models = {}
        self.substitutions = dict(self.opts.get("substitute", {}))
        self.unwind = self.opts.get("unwind", 8)
        self.unwind_mode = self.opts.get("unwind_mode", "assert")  # assert | assume
        self.max_depth = self.opts.get("max_depth", 60)
        self.recursion_bound = self.opts.get("recursion", 3)
        self.solver = z3.Solver()
        self.light = z3.Solver()
        self.light.set("rlimit", 3000000)  # NB: no z3 "timeout": its timer threads spin on sched_yield and wreck parallel runs
        self.solver_nassume = 0
        self.nqueries = 0
        self.solver_time = 0.0
        self.call_stack = []
        self.panic_as_obligation = self.opts.get("panic_obligations", True)
        self.ninstr = 0
        self.path_kills = 0
        self.iface_models = {}
        self.init_eval_stack = set()
        self.init_state = {}
        self.cur_thread = None
        self.trace = self.opts.get("trace", False)
        from . import models as _m
        _m.install(self)

    # ------------------------------------------------------------------ solver helpers
    def conc_guard(self, guard):
        """while a thread body is being recorded, facts hold only if the current segment is eventually executed"""
        c = getattr(self, "conc", None)
        if c is not None and c.recording is not None:
            return b_and(guard, c.executed_now())
        return guard

    def assume(self, cond, guard=True, desc=""):
        guard = self.conc_guard(guard)
        c = b_implies(guard, cond)
        if c is True:
            return
        zc = to_z3_bool(c)
        self.assumes.append(zc)
        self.assume_desc.append(desc)
        # light solver: only small assumptions (cheap over-approximation used for feasibility / range queries)
        try:
            if self._small_term(zc, 60):
                self.light.add(zc)
        except Exception:
            pass

    def _small_term(self, t, budget):
        """true if the DAG of t has at most `budget` nodes"""
        seen = set()
        stack = [t]
        while stack:
            x = stack.pop()
            i = x.get_id()
            if i in seen:
                continue
            seen.add(i)
            if len(seen) > budget:
                return False
            stack.extend(x.children())
        return True

    def feasible_light(self, guard):
        """over-approximate feasibility using only the small assumptions (never reports infeasible wrongly)"""
        if guard is True:
            return True
        if guard is False:
            return False
        t0 = time.time()
        self.light.push()
        self.light.add(guard)
        r = self.light.check()
        self.light.pop()
        self.nqueries += 1
        self.solver_time += time.time() - t0
        return r != z3.unsat

    def _sync_solver(self):
        while self.solver_nassume < len(self.assumes):
            self.solver.add(self.assumes[self.solver_nassume])
            self.solver_nassume += 1

    def feasible(self, guard):
        if guard is True:
            return True
        if guard is False:
            return False
        if not self.opts.get("feasibility", True):
            return True
        if not self.feasible_light(guard):
            return False
        if self.opts.get("feasibility") == "light":
            return True
        self._sync_solver()
        t0 = time.time()
        self.solver.push()
        self.solver.add(guard)
        self.solver.set("rlimit", self.opts.get("feas_rlimit", 5000000))
        r = self.solver.check()
        self.solver.pop()
        self.nqueries += 1
        self.solver_time += time.time() - t0
        return r != z3.unsat

    def oblige(self, kind, name, guard, cond, pos, fn=None):
        guard = self.conc_guard(guard)
        if getattr(self, "conc", None) is not None:
            na = 1 << 30
        else:
            na = None
        if guard is False or cond is True:
            if kind == "assert":
                # still record trivially-true assertion for bookkeeping
                self.obligations.append(Obligation(kind, name, guard, True, pos, na or len(self.assumes), fn))
            return
        self.obligations.append(Obligation(kind, name, guard, cond, pos, na or len(self.assumes), fn))

    # ------------------------------------------------------------------ operands
    def const(self, c):
        tid = c["t"]
        v = c.get("v")
        t, d = self.prog.under(tid)
        k = d["kind"]
        if k == "basic":
            cls = d.get("cls")
            if cls == "int":
                return wrap(int(v), d["bits"], not d["unsigned"]) if v is not None else 0
            if cls == "bool":
                return bool(v)
            if cls == "string":
                return StrV.const(const_string(v)) if v is not None else StrV([], 0)
            if cls == "float":
                if v is None:
                    return FloatV(0.0)
                try:
                    return FloatV(float(v))
                except ValueError:
                    from fractions import Fraction
                    return FloatV(float(Fraction(v)))
            if cls == "nil":
                return None
            if cls == "unsafeptr":
                return Ptr.nil()
        if v is None:
            return self.zero(tid)
        raise Unsupported("const %r" % c)

    def val(self, env, op):
        k = op["k"]
        if k == "reg":
            try:
                return env[op["n"]]
            except KeyError:
                raise Unsupported("undefined register %s" % op["n"])
        if k == "const":
            return self.const(op)
        if k == "global":
            return Ptr.to(self.global_obj(op["n"]).id)
        if k == "func":
            return FuncV([(True, op["n"], ())])
        if k == "builtin":
            return ("builtin", op["n"])
        raise Unsupported("operand " + k)

    # ------------------------------------------------------------------ globals (lazy init evaluation)
    def global_obj(self, name):
        o = self.global_objs.get(name)
        if o is not None:
            return o
        c = getattr(self, "conc", None)
        if c is not None and c.recording is not None:
            # package-level initialisation is not part of any thread: evaluate it outside the recording
            rec, c.recording = c.recording, None
            try:
                o = self._global_obj_new(name)
            finally:
                c.recording = rec
            c.shared_ids.add(o.id)
            for oo in self.heap[o.id:]:
                c.shared_ids.add(oo.id)
            return o
        return self._global_obj_new(name)

    def _global_obj_new(self, name):
        g = self.prog.globals[name]
        ptid = g["type"]
        elem = self.prog.under(ptid)[1]["elem"]
        o = self.alloc("var", elem, self.zero(elem), site="global:" + name)
        o.shared = True
        o.owner = None
        self.global_objs[name] = o
        ov = self.opts.get("globals", {}).get(name)
        if ov is not None:
            o.val = ov(self) if callable(ov) else ov
            return o
        init = self.prog.funcs.get(g["pkg"] + ".init")
        done = False
        if init is not None and not init.get("external"):
            done = self._eval_global_init(init, name, o)
        if not done:
            kd = self.prog.kind(elem)
            if kd == "interface":
                # uninitialised interface-typed global (typically `var ErrX = errors.New(..)`): distinct opaque token
                from .models import stable_id
                ident = stable_id(name)
                o.val = IfaceV([(True, "verif.global:" + name, Opaque(ident, name))])
        return o

    def _init_root(self, init, op):
        depth = 0
        while depth < 30:
            depth += 1
            if op["k"] == "global":
                return ("global", op["n"])
            if op["k"] != "reg":
                return None
            ins = init["_defs"].get(op["n"])
            if ins is None:
                return None
            if ins["op"] in ("FieldAddr", "IndexAddr"):
                op = ins["x"]
                continue
            if ins["op"] == "Alloc":
                return ("alloc", op["n"])
            return None
        return None

    def _eval_global_init(self, init, name, o):
        """lazy evaluation of the slice of pkg.init that initialises one global: every Store whose address is
        rooted at the global, or at an allocation reachable from an already evaluated initialiser value."""
        key = init["name"]
        st = self.init_state.setdefault(key, {"env": {}, "done": set(), "stores": None})
        if st["stores"] is None:
            stores = []
            for b in init["blocks"]:
                for i, ins in enumerate(b["instrs"]):
                    if ins["op"] in ("Store", "MapUpdate"):
                        aop = ins["addr"] if ins["op"] == "Store" else ins["map"]
                        stores.append((b["index"], i, ins, self._init_root(init, aop)))
            st["stores"] = stores
        found = False
        progress = True
        roots = {("global", name)}
        try:
            while progress:
                progress = False
                for bi, i, ins, root in st["stores"]:
                    if root is None or (bi, i) in st["done"]:
                        continue
                    if root in roots or (root[0] == "alloc" and root[1] in st["env"] and ("alloc", root[1]) in st.setdefault("live", set())):
                        st["done"].add((bi, i))
                        env = st["env"]
                        for f in self._operand_fields(ins):
                            if f["k"] == "reg" and f["n"] not in env:
                                env[f["n"]] = self._eval_init_value(init, f, 0, st)
                        fr = Frame(init, 0, "init")
                        self.exec_instr(fr, env, ins, True, {"guard": True})
                        if root == ("global", name):
                            found = True
                        progress = True
        except Unsupported as e:
            self.note("global-init", "%s: %s" % (name, e))
            return found
        return found

    def _eval_init_value(self, init, op, depth, st):
        if depth > 60:
            raise Unsupported("init chain too deep")
        if op["k"] != "reg":
            return self.val({}, op)
        env = st["env"]
        if op["n"] in env:
            return env[op["n"]]
        ins = init["_defs"].get(op["n"])
        if ins is None:
            raise Unsupported("init: no def for " + op["n"])
        if ins["op"] == "Phi":
            raise Unsupported("init: phi")
        for f in self._operand_fields(ins):
            if f["k"] == "reg" and f["n"] not in env:
                env[f["n"]] = self._eval_init_value(init, f, depth + 1, st)
        fr = Frame(init, 0, "init")
        self.exec_instr(fr, env, ins, True, {"guard": True})
        if ins["op"] in ("Alloc", "MakeMap", "MakeSlice"):
            st.setdefault("live", set()).add(("alloc", op["n"]))
        if ins["op"] == "Alloc":
            # composite literals: run the element/field stores into this allocation before anyone reads it
            for bi, i, sins, root in st["stores"]:
                if root == ("alloc", op["n"]) and (bi, i) not in st["done"]:
                    st["done"].add((bi, i))
                    for f in self._operand_fields(sins):
                        if f["k"] == "reg" and f["n"] not in env:
                            env[f["n"]] = self._eval_init_value(init, f, depth + 1, st)
                    self.exec_instr(Frame(init, 0, "init"), env, sins, True, {"guard": True})
        if "reg" in ins:
            return env[ins["reg"]]
        raise Unsupported("init: instruction without value")

    def _operand_fields(self, ins):
        res = []
        for k, v in ins.items():
            if isinstance(v, dict) and "k" in v:
                res.append(v)
            elif isinstance(v, list):
                for e in v:
                    if isinstance(e, dict) and "k" in e:
                        res.append(e)
        return res

    def note(self, kind, msg):
        self.stubs_used.setdefault(kind, set()).add(msg)

    # ------------------------------------------------------------------ function execution
    def call_function(self, fname, args, guard, bindings=(), callsite=None):
        """inline a function under guard; returns (retval, ret_guard)"""
        if guard is False:
            return None, False
        sub = self.substitutions.get(fname)
        if sub is not None:
            fname = sub
        h = self.intercepts.get(fname)
        if h is not None:
            return h(self, args, guard, callsite)
        fn = self.prog.funcs.get(fname)
        h = self.models.get(fname)
        if h is not None:
            self.models_used[fname] = self.models_used.get(fname, 0) + 1
            return h(self, args, guard, callsite)
        if fn is not None and not fn.get("external"):
            rel = fn.get("relname")
        if fn is None or fn.get("external") or fname in self.opts.get("stub", ()):
            return self.auto_stub(fname, fn, args, guard, callsite)
        depth = len(self.call_stack)
        if depth > self.max_depth:
            raise Unsupported("call depth exceeded at " + fname)
        rec = sum(1 for f in self.call_stack if f == fname)
        if rec >= self.recursion_bound:
            self.oblige("unwind", "recursion bound at " + fname, guard, False, callsite, fname)
            return self.havoc_results(fn, "rec"), False
        self.call_stack.append(fname)
        try:
            return self.run_function(fn, args, guard, bindings, callsite)
        finally:
            self.call_stack.pop()

    def havoc_results(self, fn, name):
        sig = self.prog.under(fn["sig"])[1]
        rs = sig["results"]
        if len(rs) == 0:
            return None
        if len(rs) == 1:
            return self.fresh(rs[0], name)
        return TupleV([self.fresh(r, name) for r in rs])

    def auto_stub(self, fname, fn, args, guard, callsite):
        if self.opts.get("strict_stubs") and fname not in self.opts.get("stub", ()) and not self._stub_allowed(fname):
            raise Unsupported("call to external function without model: %s (at %s)" % (fname, callsite))
        self.stubs_used.setdefault("auto-stub", set()).add(fname)
        if fn is None:
            raise Unsupported("unknown function " + fname)
        short = fname.split("/")[-1]
        return self.havoc_results(fn, "stub." + short), guard

    def _stub_allowed(self, fname):
        for p in self.opts.get("stub_prefixes", ()):
            if fname.startswith(p):
                return True
        return False

    def run_function(self, fn, args, guard, bindings=(), callsite=None):
        name = fn["name"]
        self.funcs_encoded[name] = self.funcs_encoded.get(name, 0) + 1
        fr = Frame(fn, len(self.call_stack), callsite)
        if "_regtypes" not in fn:
            rt = {}
            for p in fn["params"]:
                rt[p["name"]] = p["type"]
            for p in fn["freevars"]:
                rt[p["name"]] = p["type"]
            for b in fn["blocks"]:
                for ins in b["instrs"]:
                    if "reg" in ins:
                        rt[ins["reg"]] = ins["type"]
            fn["_regtypes"] = rt
            fn["_bmap"] = {b["index"]: b for b in fn["blocks"]}
        env = {}
        if len(args) != len(fn["params"]):
            raise Unsupported("arity mismatch calling %s: %d vs %d" % (name, len(args), len(fn["params"])))
        for p, a in zip(fn["params"], args):
            env[p["name"]] = a
        for p, a in zip(fn["freevars"], bindings):
            env[p["name"]] = a
        blocks = set(fn["_bmap"].keys())
        if "recover" in fn:
            blocks.discard(fn["recover"])  # recover block only reachable via panic recovery (not modelled here)
        exits = self.exec_region(fr, blocks, {0: [Edge(guard, -1, env)]}, None)
        # merge returns
        if not fr.returns:
            return None, False
        sig = self.prog.under(fn["sig"])[1]
        rts = sig["results"]
        ret_guard = b_or(*[g for g, _ in fr.returns])
        rv = None
        if rts:
            first = True
            for g, vals in reversed(fr.returns):
                if first:
                    rv = list(vals)
                    first = False
                else:
                    rv = [self.ite(g, v, r, t) for v, r, t in zip(vals, rv, rts)]
            rv = rv[0] if len(rts) == 1 else TupleV(rv)
        return rv, ret_guard

    # --- region execution with SCC-based loop unrolling
    def exec_region(self, fr, blocks, entry_edges, cut_header):
        """execute the sub-CFG induced by `blocks`; edges into cut_header from inside are reported as exits.
        Returns dict target -> [Edge] for edges leaving the region (or into cut_header)."""
        bmap = fr.fn["_bmap"]
        pending = {}
        for t, es in entry_edges.items():
            pending.setdefault(t, []).extend(es)
        exits = {}
        sccs = self._sccs(fr.fn, blocks, cut_header)
        for scc in sccs:
            if len(scc) == 1 and not self._self_loop(bmap, scc[0], cut_header):
                b = scc[0]
                es = pending.pop(b, None)
                if not es:
                    continue
                self._run_block(fr, bmap[b], es, blocks, cut_header, pending, exits)
            else:
                L = set(scc)
                heads = [b for b in scc if b in pending]
                if not heads:
                    continue
                if len(heads) > 1:
                    raise Unsupported("irreducible loop in " + fr.fn["name"])
                h = heads[0]
                edges_in = pending.pop(h)
                it = 0
                bound = self._loop_bound(fr.fn, h)
                while True:
                    g = b_or(*[e.guard for e in edges_in])
                    if g is False:
                        break
                    if it > 0 and not is_conc(g) and it >= self.opts.get("feas_from_iter", 1):
                        if not self.feasible(g):
                            break
                    if it >= bound:
                        pos = fr.fn["name"] + ":b%d" % h
                        self.path_kills += 1
                        if self.unwind_mode == "assume":
                            self.assume(b_not(g), True, "unwind bound %d at %s" % (bound, pos))
                            self.note("unwind-assume", "%s bound=%d" % (pos, bound))
                        else:
                            self.oblige("unwind", "unwinding assertion (bound %d) at %s" % (bound, pos), g, False, pos, fr.fn["name"])
                        break
                    sub_exits = self.exec_region(fr, L, {h: edges_in}, h)
                    edges_in = sub_exits.pop(h, [])
                    for t, es in sub_exits.items():
                        if t in blocks and t != cut_header:
                            pending.setdefault(t, []).extend(es)
                        else:
                            exits.setdefault(t, []).extend(es)
                    it += 1
        return exits

    def _loop_bound(self, fn, header):
        lb = self.opts.get("loop_bounds", {})
        k = fn["name"] + ":b%d" % header
        if k in lb:
            return lb[k]
        if fn["name"] in lb:
            return lb[fn["name"]]
        return self.unwind

    def _self_loop(self, bmap, b, cut):
        return b in bmap[b]["succs"] and b != cut

    def _sccs(self, fn, blocks, cut_header):
        key = (frozenset(blocks), cut_header)
        cache = fn.setdefault("_scc_cache", {})
        r = cache.get(key)
        if r is not None:
            return r
        bmap = fn["_bmap"]
        index = {}
        low = {}
        onstack = set()
        stack = []
        out = []
        counter = [0]

        def succs(b):
            return [s for s in bmap[b]["succs"] if s in blocks and s != cut_header]

        sys.setrecursionlimit(max(10000, sys.getrecursionlimit()))

        def strong(v):
            # iterative tarjan
            work = [(v, 0)]
            index[v] = low[v] = counter[0]
            counter[0] += 1
            stack.append(v)
            onstack.add(v)
            while work:
                node, i = work[-1]
                ss = succs(node)
                if i < len(ss):
                    work[-1] = (node, i + 1)
                    w = ss[i]
                    if w not in index:
                        index[w] = low[w] = counter[0]
                        counter[0] += 1
                        stack.append(w)
                        onstack.add(w)
                        work.append((w, 0))
                    elif w in onstack:
                        low[node] = min(low[node], index[w])
                else:
                    work.pop()
                    if work:
                        p = work[-1][0]
                        low[p] = min(low[p], low[node])
                    if low[node] == index[node]:
                        comp = []
                        while True:
                            w = stack.pop()
                            onstack.discard(w)
                            comp.append(w)
                            if w == node:
                                break
                        out.append(comp)

        for b in sorted(blocks):
            if b not in index:
                strong(b)
        out.reverse()  # tarjan emits reverse topological order
        cache[key] = out
        return out

    def _merge_envs(self, fr, edges):
        if len(edges) == 1:
            return dict(edges[0].env)
        rt = fr.fn["_regtypes"]
        base = edges[-1].env
        env = dict(base)
        for e in reversed(edges[:-1]):
            for k, v in e.env.items():
                cur = env.get(k)
                if cur is v:
                    continue
                if k not in env:
                    env[k] = v
                    continue
                try:
                    env[k] = self.ite(e.guard, v, cur, rt.get(k))
                except Unsupported:
                    # registers not live across this join may have unmergeable shapes: drop them
                    env[k] = v
        return env

    def _run_block(self, fr, block, edges, blocks, cut_header, pending, exits):
        edges = [e for e in edges if e.guard is not False]
        if not edges:
            return
        guard = b_or(*[e.guard for e in edges])
        env = self._merge_envs(fr, edges)
        state = {"guard": guard, "block": block["index"], "cut_header": cut_header}
        instrs = block["instrs"]
        rt = fr.fn["_regtypes"]
        for ins in instrs:
            op = ins["op"]
            if op == "Phi":
                val = None
                first = True
                for e in reversed(edges):
                    if e.pred == -1:
                        # skip edge of a per-entry map range (header -> header, opts map_range=per_entry): loop-carried values unchanged
                        v = e.env[ins["reg"]]
                    else:
                        pi = block["preds"].index(e.pred) if e.pred in block["preds"] else None
                        if pi is None:
                            raise Unsupported("phi: edge from non-pred")
                        # a block may appear twice as pred (both branches of an If): take first matching
                        v = self.val(e.env, ins["edges"][pi])
                    if first:
                        val = v
                        first = False
                    else:
                        val = self.ite(e.guard, v, val, ins["type"])
                env[ins["reg"]] = val
                continue
            if op == "If":
                c = self.val(env, ins["cond"])
                g = state["guard"]
                s0, s1 = block["succs"]
                self._emit_edge(Edge(b_and(g, c), block["index"], env), s0, blocks, cut_header, pending, exits)
                self._emit_edge(Edge(b_and(g, b_not(c)), block["index"], env), s1, blocks, cut_header, pending, exits)
                return
            if op == "Jump":
                self._emit_edge(Edge(state["guard"], block["index"], env), block["succs"][0], blocks, cut_header, pending, exits)
                return
            if op == "Return":
                vals = [self.val(env, r) for r in ins["results"]]
                fr.returns.append((state["guard"], vals))
                return
            if op == "Panic":
                self.do_panic(fr, state["guard"], "explicit panic", ins.get("pos"), self.val(env, ins["x"]))
                return
            self.exec_instr(fr, env, ins, state["guard"], state)
            sk = state.pop("skip_edge", None)
            if sk is not None:
                self._emit_edge(Edge(sk, -1, dict(env)), block["index"], blocks, cut_header, pending, exits)
            if state["guard"] is False:
                return
        # fallthrough (should not happen)

    def _emit_edge(self, e, target, blocks, cut_header, pending, exits):
        if e.guard is False:
            return
        if target in blocks and target != cut_header:
            pending.setdefault(target, []).append(e)
        else:
            exits.setdefault(target, []).append(e)

    def do_panic(self, fr, guard, msg, pos, value=None):
        if guard is False:
            return
        self.path_kills += 1
        self.oblige("panic", msg, guard, False, pos, fr.fn["name"])
