"""Mode C: symbolic-schedule concurrency.

Each thread body (a harness closure registered with vGo) is executed ONCE by the guarded executor in *recording* mode:
every access to shared state becomes an event whose read results are fresh symbolic values. The events are then
replayed R times in round-robin order over the real heap (Lazy-CSeq style): in round r thread t executes exactly the
events whose segment index lies in the solver-chosen window [from[r][t], to[r][t]). A read event constrains its fresh
result to the heap value at that moment; a write event updates the heap under the window guard; blocking operations
constrain the window to stop in front of them. The solver therefore chooses the interleaving (<= R slices per thread).
Switch points (segment boundaries): atomic operations, lock/cond/once/waitgroup/pool operations, channel operations,
vYield — plus every shared access with opts["switch_on"] == "all". Plain accesses between two switch points execute in
the same slice (Go memory model: data-race-free programs are sequentially consistent; data-race freedom itself is not
checked here)."""
import os
import z3
from .terms import *
from .values import *
from .core import Unsupported
from .heap import MapVal, ChanVal, Obj


class Event:
    __slots__ = ("thread", "seg", "guard", "apply", "desc", "pos", "enabled")

    def __init__(self, thread, seg, guard, apply, desc, pos=None, enabled=None):
        self.thread = thread
        self.seg = seg
        self.guard = guard
        self.apply = apply
        self.desc = desc
        self.pos = pos
        self.enabled = enabled  # for blocking operations: () -> condition under which it can proceed in the current state


class Thread:
    def __init__(self, idx, name, fv, ex, rounds):
        self.idx = idx
        self.name = name
        self.fv = fv
        self.to = [ex.fresh_int("to_%s_r%d" % (name, r), 16) for r in range(rounds)]
        self.events = []
        self.nseg = 0
        self.asserts = []
        self.ret_guard = True


class Conc:
    def __init__(self, ex):
        self.ex = ex
        self.threads = []
        self.recording = None  # current Thread while recording
        self.replaying = False
        self.classes = {}  # class key -> candidate info
        self.thread_objs = {}  # (thread, site, n) -> Obj
        self.alloc_counts = {}
        self.shared_ids = set()
        self.cand_missing = []
        self.rounds = ex.opts.get("rounds", 3)
        self.switch_all = ex.opts.get("switch_on", "sync") == "all"
        self.sync_state = {}
        self.sync_init = {}
        self.pool_puts = {}
        self.done_guards = []
        self.windows = None
        self.changed = False
        self.change_log = []
        self.nd_mark = 0
        self.written = {}

    # ------------------------------------------------------------------ candidate classes
    def cls_key(self, o, path):
        p = tuple("*" if (isinstance(x, int) and self._is_array_step(o, path, i)) else x for i, x in enumerate(path))
        return (o.tid if o.kind != "map" else "map:" + str(o.tid), o.kind, p)

    def _is_array_step(self, o, path, i):
        if o.kind not in ("var", "array"):
            return False
        tid = o.tid
        try:
            for j in range(i):
                t, d = self.ex.prog.under(tid)
                if d["kind"] == "struct":
                    tid = d["fields"][path[j]]["type"]
                elif d["kind"] == "array":
                    tid = d["elem"]
                else:
                    return False
            t, d = self.ex.prog.under(tid)
            return d["kind"] == "array"
        except Exception:
            return False

    @staticmethod
    def _ext(key, step):
        """class key of a sub-cell: struct field i -> path+(i,), array element -> path+('*',)"""
        if len(key) == 3 and isinstance(key[2], tuple):
            return (key[0], key[1], key[2] + (step,))
        return key + ((step,),)

    def _bkey(self, bd):
        """stable structural key of closure bindings (object identities differ between recording passes)"""
        out = []
        for b in bd:
            if isinstance(b, Ptr):
                out.append(("p",) + tuple(sorted(((None if r is None else r.key()) for g, r in b.alts if g is not False), key=lambda k: (0,) if k is None else (1,) + k)))
            elif isinstance(b, bool):
                out.append(("b", b))
            elif isinstance(b, int):
                out.append(("i", b))
            elif isinstance(b, FuncV):
                out.append(("f",) + tuple((f if not isinstance(f, tuple) else f[:2]) for g, f, bb in b.alts))
            else:
                out.append((type(b).__name__,))
        return tuple(out)

    def _beq(self, b1, b2, missing):
        if len(b1) != len(b2):
            return False
        conds = []
        for x, y in zip(b1, b2):
            try:
                conds.append(self.veq(x, y, missing))
            except Unsupported:
                pass
        return b_and(*conds)

    def _chg(self, what=""):
        self.changed = True
        if os.environ.get("VERIF_CONC_DEBUG"):
            import traceback
            fr = traceback.extract_stack(limit=3)[0]
            self.change_log.append("%s:%d %s" % (fr.name, fr.lineno, what))

    def cinfo(self, key):
        c = self.classes.get(key)
        if c is None:
            c = {"refs": {}, "ifaces": {}, "funcs": {}, "strcap": 0, "arrs": {}, "maxlen": 0}
            self.classes[key] = c
        return c

    def note_value(self, key, v):
        """record which pointers / dynamic types / closures / string capacities can be stored in cells of a class"""
        c = self.cinfo(key)
        if isinstance(v, Ptr):
            for g, r in v.alts:
                if r is not None and r.key() not in c["refs"]:
                    c["refs"][r.key()] = r
                    self._chg("ref %s in %s" % (r, key))
        elif isinstance(v, IfaceV):
            for g, t, p in v.alts:
                if t is None:
                    continue
                if t not in c["ifaces"]:
                    c["ifaces"][t] = True
                    self._chg()
                self.note_value(key + (("dyn", t),), p)
        elif isinstance(v, FuncV):
            for g, f, bd in v.alts:
                if f is None:
                    continue
                k = (f if not isinstance(f, tuple) else f[:2], self._bkey(bd))
                if k not in c["funcs"]:
                    c["funcs"][k] = (f, bd)
                    self._chg("func %s in %s" % (k, key))
        elif isinstance(v, StrV):
            if len(v.chars) > c["strcap"]:
                c["strcap"] = len(v.chars)
                self._chg("strcap %d in %s" % (len(v.chars), key))
        elif isinstance(v, StructV):
            for i, f in enumerate(v.fields):
                self.note_value(self._ext(key, i), f)
        elif isinstance(v, ArrayV):
            for f in v.elems:
                self.note_value(self._ext(key, "*"), f)
        elif isinstance(v, TupleV):
            for i, f in enumerate(v.elems):
                self.note_value(key + (("t", i),), f)
        elif isinstance(v, SliceV):
            for g, r in v.arr.alts:
                if r is None:
                    continue
                if r.key() not in c["arrs"]:
                    c["arrs"][r.key()] = r
                    self._chg("arr %s" % (r,))
                arr = self.ex.get_path(self.ex.heap[r.obj].val, r.path)
                if len(arr.elems) > c["maxlen"]:
                    # the same (stably keyed) backing array can be re-allocated larger in a later pass
                    c["maxlen"] = len(arr.elems)
                    self._chg("maxlen %d" % len(arr.elems))

    def fresh_shared(self, tid, key, name):
        """fresh symbolic value for a read of a shared cell of static type tid, ranging over the class candidates"""
        ex = self.ex
        t, d = ex.prog.under(tid)
        k = d["kind"]
        c = self.cinfo(key)
        if k == "basic":
            cl = d.get("cls")
            if cl == "int":
                return ex.fresh_int(name, d["bits"])
            if cl == "bool":
                return ex.fresh_bool(name)
            if cl == "float":
                return FloatV(z3.FP(ex.fresh_name(name), z3.Float64()))
            if cl == "string":
                n = c["strcap"]
                chars = [ex.fresh_int(name + ".c", 8) for _ in range(n)]
                if n == 0:
                    return StrV([], 0)
                ln = ex.fresh_int(name + ".len", 64)
                ex.assume(b_and(z3.BitVecVal(0, 64) <= ln, ln <= z3.BitVecVal(n, 64)), True, "")
                VAR_BOUNDS[ln.decl().name()] = (0, n)
                return StrV(chars, ln)
            if cl == "unsafeptr":
                return self._fresh_ptr(c, name)
            raise Unsupported("fresh_shared basic " + str(cl))
        if k in ("pointer", "map", "chan"):
            return self._fresh_ptr(c, name)
        if k == "struct":
            return StructV([self.fresh_shared(f["type"], self._ext(key, i), name + "." + f["name"]) for i, f in enumerate(d["fields"])])
        if k == "array":
            return ArrayV([self.fresh_shared(d["elem"], self._ext(key, "*"), name + "[]") for _ in range(d["len"])])
        if k == "tuple":
            return TupleV([self.fresh_shared(e, key + (("t", i),), name) for i, e in enumerate(d["elems"])])
        if k == "interface":
            tids = sorted(c["ifaces"].keys())
            sel = ex.fresh_int(name + ".dyn", 8)
            ex.assume(z3.ULE(sel, len(tids)), True, "")
            alts = [(int_cmp("==", sel, 0, 8, False), None, None)]
            for i, dt in enumerate(tids):
                if dt.startswith("verif."):
                    payload = Opaque(ex.fresh_int(name + ".op", 64), dt)
                elif dt not in ex.prog.types:
                    # dynamic types introduced by library models (e.g. *errors.errorString): pointer payloads
                    payload = self._fresh_ptr(self.cinfo(key + (("dyn", dt),)), name + ".p")
                else:
                    payload = self.fresh_shared(dt, key + (("dyn", dt),), name + ".p")
                alts.append((int_cmp("==", sel, i + 1, 8, False), dt, payload))
            return IfaceV(alts)
        if k == "func":
            fs = list(c["funcs"].values())
            sel = ex.fresh_int(name + ".fn", 8)
            ex.assume(z3.ULE(sel, len(fs)), True, "")
            alts = [(int_cmp("==", sel, 0, 8, False), None, ())]
            for i, (f, bd) in enumerate(fs):
                alts.append((int_cmp("==", sel, i + 1, 8, False), f, bd))
            return FuncV(alts)
        if k == "slice":
            arrs = list(c["arrs"].values())
            sel = ex.fresh_int(name + ".arr", 8)
            ex.assume(z3.ULE(sel, len(arrs)), True, "")
            alts = [(int_cmp("==", sel, 0, 8, False), None)]
            for i, r in enumerate(arrs):
                alts.append((int_cmp("==", sel, i + 1, 8, False), r))
            m = min(c["maxlen"], ex.opts.get("conc_slice_max", 3))
            if c["maxlen"] > m:
                ex.note("bounds", "slices read from shared cells are assumed to hold at most %d elements" % m)
            off, ln, cp = ex.fresh_int(name + ".off", 64), ex.fresh_int(name + ".len", 64), ex.fresh_int(name + ".cap", 64)
            # offset and length are bounded by the (possibly reduced) element bound; the capacity only by the physical size
            for v, hi in ((off, c["maxlen"]), (ln, m), (cp, c["maxlen"])):
                ex.assume(b_and(z3.BitVecVal(0, 64) <= v, v <= z3.BitVecVal(hi, 64)), True, "")
                VAR_BOUNDS[v.decl().name()] = (0, hi)
            return SliceV(Ptr(alts), off, ln, cp)
        raise Unsupported("fresh_shared of kind " + k)

    def _fresh_ptr(self, c, name):
        ex = self.ex
        refs = list(c["refs"].values())
        if not refs:
            return Ptr.nil()
        sel = ex.fresh_int(name + ".ptr", 8)
        ex.assume(z3.ULE(sel, len(refs)), True, "")
        alts = [(int_cmp("==", sel, 0, 8, False), None)]
        for i, r in enumerate(refs):
            alts.append((int_cmp("==", sel, i + 1, 8, False), r))
        return Ptr(alts)

    # ------------------------------------------------------------------ value equality incl. closures; reports uncovered alternatives
    def veq(self, rv, actual, missing):
        """equality constraint rv == actual; appends to `missing` guards under which `actual` is outside rv's candidates"""
        ex = self.ex
        if isinstance(rv, Ptr) and isinstance(actual, Ptr):
            keys = {(None if r is None else r.key()) for g, r in rv.alts}
            for g, r in actual.alts:
                k = None if r is None else r.key()
                if k not in keys and g is not False:
                    missing.append((g, "ptr", r))
            return ex.eq(rv, actual)
        if isinstance(rv, FuncV) and isinstance(actual, FuncV):
            res = []
            for g1, f1, b1 in rv.alts:
                for g2, f2, b2 in actual.alts:
                    if f1 is None and f2 is None:
                        res.append(b_and(g1, g2))
                    elif f1 is not None and f2 is not None and f1 == f2 and self._bkey(b1) == self._bkey(b2):
                        sub = []
                        res.append(b_and(g1, g2, self._beq(b1, b2, sub)))
            have = {(f if not isinstance(f, tuple) else f[:2], self._bkey(b)) for g, f, b in rv.alts if f is not None}
            for g2, f2, b2 in actual.alts:
                if f2 is not None and (f2 if not isinstance(f2, tuple) else f2[:2], self._bkey(b2)) not in have and g2 is not False:
                    missing.append((g2, "func", (f2, b2)))
            return b_or(*res)
        if isinstance(rv, IfaceV) and isinstance(actual, IfaceV):
            res = []
            have = {t for g, t, p in rv.alts}
            for g2, t2, p2 in actual.alts:
                if t2 not in have and g2 is not False:
                    missing.append((g2, "iface", (t2, p2)))
            for g1, t1, p1 in rv.alts:
                for g2, t2, p2 in actual.alts:
                    if t1 is None and t2 is None:
                        res.append(b_and(g1, g2))
                    elif t1 is not None and t1 == t2:
                        sub = []
                        e = self.veq(p1, p2, sub)
                        for (g, kd, x) in sub:
                            missing.append((b_and(g1, g2, g), kd, x))
                        res.append(b_and(g1, g2, e))
            return b_or(*res)
        if isinstance(rv, StructV):
            return b_and(*[self.veq(a, b, missing) for a, b in zip(rv.fields, actual.fields)])
        if isinstance(rv, ArrayV):
            return b_and(*[self.veq(a, b, missing) for a, b in zip(rv.elems, actual.elems)])
        if isinstance(rv, TupleV):
            return b_and(*[self.veq(a, b, missing) for a, b in zip(rv.elems, actual.elems)])
        if isinstance(rv, SliceV) and isinstance(actual, SliceV):
            # the fresh offset/length/capacity are bounded: a heap value beyond the bound must be reported, not pruned
            for nm, fv, av in (("off", rv.off, actual.off), ("len", rv.len, actual.len), ("cap", rv.cap, actual.cap)):
                if isinstance(fv, int):
                    continue
                b = VAR_BOUNDS.get(fv.decl().name()) if z3.is_const(fv) else None
                if b is not None:
                    over = int_cmp(">", av, b[1], 64, True)
                    if over is not False:
                        missing.append((over, "slice-" + nm + "-bound", b[1]))
            return b_and(self.veq(rv.arr, actual.arr, missing), int_cmp("==", rv.off, actual.off, 64, True),
                         int_cmp("==", rv.len, actual.len, 64, True), int_cmp("==", rv.cap, actual.cap, 64, True))
        if isinstance(rv, StrV) and isinstance(actual, StrV):
            if len(actual.chars) > len(rv.chars) and not isinstance(actual.len, int):
                missing.append((int_cmp(">", actual.len, len(rv.chars), 64, True), "strcap", len(actual.chars)))
            return ex.str_eq(rv, actual)
        if rv is None and actual is None:
            return True
        return ex.eq(rv, actual)

    # ------------------------------------------------------------------ recording
    def is_shared(self, o):
        return o.id in self.shared_ids

    def mark_escaping(self, v):
        """objects reachable from a value that is published to shared state become shared (monotone; forces another pass)"""
        ex = self.ex
        stack = [v]
        seen = set()
        while stack:
            x = stack.pop()
            if isinstance(x, Ptr):
                for g, r in x.alts:
                    if r is not None and r.obj not in self.shared_ids:
                        self.shared_ids.add(r.obj)
                        self._chg()
                        o = ex.heap[r.obj]
                        if o.kind in ("var", "array"):
                            stack.append(o.val)
                        elif o.kind == "map" and isinstance(o.val, MapVal):
                            for k, vv, p in o.val.entries:
                                stack.append(k)
                                stack.append(vv)
            elif isinstance(x, (StructV,)):
                stack.extend(x.fields)
            elif isinstance(x, (ArrayV, TupleV)):
                stack.extend(x.elems)
            elif isinstance(x, IfaceV):
                for g, t, p in x.alts:
                    if p is not None:
                        stack.append(p)
            elif isinstance(x, FuncV):
                for g, f, bd in x.alts:
                    stack.extend(bd)
            elif isinstance(x, SliceV):
                stack.append(x.arr)

    def executed_now(self):
        """the segment currently being recorded is executed in some round"""
        th = self.recording
        seg = max(th.nseg - 1, 0)
        return int_cmp("<", seg, th.to[-1], 16, False)

    def is_written(self, o, path):
        ws = self.written.get(o.id)
        if not ws:
            return False
        for w in ws:
            n = min(len(w), len(path))
            if w[:n] == path[:n]:
                return True
        return False

    def note_written(self, o, path):
        ws = self.written.setdefault(o.id, set())
        if path not in ws:
            ws.add(path)
            self._chg()

    def add_event(self, guard, apply, desc, pos=None, visible=False, same_op=False, enabled=None):
        th = self.recording
        if (visible or self.switch_all) and not same_op:
            th.nseg += 1
        if th.nseg == 0:
            th.nseg = 1
        th.events.append(Event(th, th.nseg - 1, guard, apply, desc, pos, enabled))

    def blocked_guard(self, t):
        """thread t is not finished and the blocking operation it stands in front of cannot proceed in the final state"""
        th = self.threads[t]
        res = False
        for e in th.events:
            if e.enabled is None:
                continue
            at = int_cmp("==", self.final_to[t], e.seg, 16, False)
            res = b_or(res, b_and(at, e.guard, b_not(e.enabled())))
        return res

    # hooks installed on the executor -------------------------------------------------------------
    def read_cell(self, o, path, guard):
        ex = self.ex
        if self.recording is None or not self.is_shared(o) or o.kind not in ("var", "array"):
            return ex.get_path(o.val, path)
        if not self.is_written(o, path):
            # never written by any thread (fixpoint over passes): the cell keeps its initial value
            return ex.get_path(self.initial_val(o), path)
        tid = ex.path_tid(o.tid, path)
        key = self.cls_key(o, path)
        rv = self.fresh_shared(tid, key, "r%d" % self.recording.idx)

        def apply(active, o=o, path=path, rv=rv):
            actual = ex.get_path(o.val, path)
            miss = []
            e = self.veq(rv, actual, miss)
            ex.assume(b_implies(active, e), True, "")
            for g, kd, x in miss:
                self.cand_missing.append((b_and(active, g), kd, x, key))
        self.add_event(guard, apply, "read o%d%s" % (o.id, path))
        return rv

    def write_cell(self, o, path, val, guard):
        ex = self.ex
        if self.recording is None or not self.is_shared(o) or o.kind not in ("var", "array"):
            return self.orig_write_cell(o, path, val, guard)
        key = self.cls_key(o, path)
        self.note_value(key, val)
        self.mark_escaping(val)
        self.note_written(o, path)

        def apply(active, o=o, path=path, val=val):
            self.orig_write_cell(o, path, val, active)
        self.add_event(guard, apply, "write o%d%s" % (o.id, path))

    def map_read(self, o, guard):
        if self.recording is None or not self.is_shared(o):
            return o.val
        raise Unsupported("direct read of a shared map value while recording (use lookup/update hooks)")

    def atomic_op(self, kind, ptr, guard, pos, new=None, old=None, delta=None, bits=64, signed=True, tid=None):
        ex = self.ex
        if self.recording is None:
            return self.orig_atomic_op(kind, ptr, guard, pos, new=new, old=old, delta=delta, bits=bits, signed=signed, tid=tid)
        results = []
        nilg = False
        first = True
        for g, r in ptr.alts:
            if r is None:
                nilg = b_or(nilg, g)
                continue
            o = ex.heap[r.obj]
            gg = b_and(guard, g)
            if gg is False:
                continue
            if not self.is_shared(o):
                rv, _ = self.orig_atomic_op(kind, Ptr([(True, r)]), gg, pos, new=new, old=old, delta=delta, bits=bits, signed=signed, tid=tid)
                results.append((g, rv))
                continue
            ctid = ex.path_tid(o.tid, r.path)
            key = self.cls_key(o, r.path)
            if kind != "load":
                self.note_written(o, r.path)
            cur = self.fresh_shared(ctid, key, "a%d" % self.recording.idx)
            if kind in ("store", "swap", "cas"):
                self.note_value(key, new)
                self.mark_escaping(new)
            if kind == "load":
                res, wval, wcond = cur, None, False
            elif kind == "store":
                res, wval, wcond = None, new, True
            elif kind == "swap":
                res, wval, wcond = cur, new, True
            elif kind == "add":
                nv = int_binop("+", cur, delta, bits, signed)
                res, wval, wcond = nv, nv, True
            elif kind in ("and", "or"):
                nv = int_binop("&" if kind == "and" else "|", cur, delta, bits, signed)
                res, wval, wcond = cur, nv, True
            elif kind == "cas":
                e = ex.eq(cur, old if old is not None else ex.zero(ctid))
                res, wval, wcond = e, new, e
            else:
                raise Unsupported("atomic " + kind)

            def apply(active, o=o, path=r.path, cur=cur, wval=wval, wcond=wcond, key=key):
                actual = ex.get_path(o.val, path)
                miss = []
                e = self.veq(cur, actual, miss)
                ex.assume(b_implies(active, e), True, "")
                for g_, kd, x in miss:
                    self.cand_missing.append((b_and(active, g_), kd, x, key))
                if wcond is not False:
                    self.orig_write_cell(o, path, wval if wval is not None else ex.zero(ex.path_tid(o.tid, path)), b_and(active, wcond))
            self.add_event(gg, apply, "atomic %s o%d%s" % (kind, o.id, r.path), pos, visible=True, same_op=not first)
            first = False
            results.append((g, res))
        if nilg is not False and b_and(guard, nilg) is not False:
            ex.path_kills += 1
            ex.oblige("panic", "nil pointer dereference (atomic)", b_and(guard, nilg), False, pos, None)
            guard = b_and(guard, b_not(nilg))
        if not results:
            return None, False
        rv = results[-1][1]
        for g, v in reversed(results[:-1]):
            rv = ex.ite(g, v, rv, None) if rv is not None else None
        return rv, guard

    # --- locks / cond / waitgroup: side-table state keyed by the primitive's address
    def _skey(self, r):
        return r.key()

    def sget(self, k, default=0):
        return self.sync_state.get(k, default)

    def sync_op(self, kind, ptr, guard, pos):
        ex = self.ex
        if self.recording is None:
            return self.orig_sync_op(kind, ptr, guard, pos)
        results = []
        for g, r in ptr.alts:
            if r is None:
                continue
            gg = b_and(guard, g)
            if gg is False:
                continue
            k = r.key()
            if kind == "lock":
                def apply(active, k=k):
                    w = self.sget(("w", k))
                    rd = self.sget(("r", k))
                    ex.assume(b_implies(active, b_and(int_cmp("==", w, 0, 8, False), int_cmp("==", rd, 0, 8, False))), True, "")
                    self.sync_state[("w", k)] = i_ite(active, 1, w, 8)
                self.add_event(gg, apply, "lock %s" % (k,), pos, visible=True,
                               enabled=lambda k=k: b_and(int_cmp("==", self.sget(("w", k)), 0, 8, False), int_cmp("==", self.sget(("r", k)), 0, 8, False)))
            elif kind == "unlock":
                def apply(active, k=k):
                    w = self.sget(("w", k))
                    self.sync_state[("w", k)] = i_ite(active, 0, w, 8)
                self.add_event(gg, apply, "unlock %s" % (k,), pos, visible=True)
            elif kind == "rlock":
                def apply(active, k=k):
                    w = self.sget(("w", k))
                    rd = self.sget(("r", k))
                    ex.assume(b_implies(active, int_cmp("==", w, 0, 8, False)), True, "")
                    self.sync_state[("r", k)] = i_ite(active, int_binop("+", rd, 1, 8, False), rd, 8)
                self.add_event(gg, apply, "rlock %s" % (k,), pos, visible=True, enabled=lambda k=k: int_cmp("==", self.sget(("w", k)), 0, 8, False))
            elif kind == "runlock":
                def apply(active, k=k):
                    rd = self.sget(("r", k))
                    self.sync_state[("r", k)] = i_ite(active, int_binop("-", rd, 1, 8, False), rd, 8)
                self.add_event(gg, apply, "runlock %s" % (k,), pos, visible=True)
            elif kind == "trylock":
                ok = ex.fresh_bool("trylock")

                def apply(active, k=k, ok=ok):
                    w = self.sget(("w", k))
                    rd = self.sget(("r", k))
                    free = b_and(int_cmp("==", w, 0, 8, False), int_cmp("==", rd, 0, 8, False))
                    ex.assume(b_implies(active, b_eq(ok, free)), True, "")
                    self.sync_state[("w", k)] = i_ite(b_and(active, free), 1, w, 8)
                self.add_event(gg, apply, "trylock %s" % (k,), pos, visible=True)
                results.append((g, ok))
            else:
                raise Unsupported("sync op " + kind)
        if kind == "trylock":
            rv = False
            for g, v in results:
                rv = b_ite(g, v, rv)
            return rv, guard
        return None, guard

    def cond_wait(self, condptr, lockref_key, guard, pos):
        """sync.Cond.Wait: [unlock L; remember ticket] ... [block until signalled after the ticket; lock L]"""
        ex = self.ex
        for g, r in condptr.alts:
            if r is None:
                continue
            gg = b_and(guard, g)
            k = r.key()
            ticket = ex.fresh_int("ticket", 16)

            def apply1(active, k=k, ticket=ticket):
                w = self.sget(("w", lockref_key))
                self.sync_state[("w", lockref_key)] = i_ite(active, 0, w, 8)
                sig = self.sget(("sig", k), 0)
                nw = self.sget(("nwait", k), 0)
                ex.assume(b_implies(active, int_cmp("==", ticket, sig if not isinstance(sig, int) else sig, 16, False)), True, "")
                self.sync_state[("nwait", k)] = i_ite(active, int_binop("+", nw, 1, 16, False), nw, 16)
            self.add_event(gg, apply1, "cond.wait-release %s" % (k,), pos, visible=True)

            def apply2(active, k=k, ticket=ticket):
                # woken: a signal was issued for this waiter (signals are consumed) or a broadcast happened after the ticket
                avail = self.sget(("avail", k), 0)
                bc = self.sget(("bcast", k), 0)
                woke = b_or(int_cmp(">", avail, 0, 16, False), int_cmp(">", bc, ticket, 16, False))
                w = self.sget(("w", lockref_key))
                rd = self.sget(("r", lockref_key))
                ex.assume(b_implies(active, b_and(woke, int_cmp("==", w, 0, 8, False))), True, "")
                by_signal = b_and(active, b_not(int_cmp(">", bc, ticket, 16, False)))
                self.sync_state[("avail", k)] = i_ite(by_signal, int_binop("-", avail, 1, 16, False), avail, 16)
                nw = self.sget(("nwait", k), 0)
                self.sync_state[("nwait", k)] = i_ite(active, int_binop("-", nw, 1, 16, False), nw, 16)
                self.sync_state[("w", lockref_key)] = i_ite(active, 1, w, 8)
            def en2(k=k, ticket=ticket):
                avail = self.sget(("avail", k), 0)
                bc = self.sget(("bcast", k), 0)
                woke = b_or(int_cmp(">", avail, 0, 16, False), int_cmp(">", bc, ticket, 16, False))
                return b_and(woke, int_cmp("==", self.sget(("w", lockref_key)), 0, 8, False))
            self.add_event(gg, apply2, "cond.wait-reacquire %s" % (k,), pos, visible=True, enabled=en2)
        return None, guard

    def cond_signal(self, condptr, guard, pos, broadcast=False):
        ex = self.ex
        for g, r in condptr.alts:
            if r is None:
                continue
            gg = b_and(guard, g)
            k = r.key()

            def apply(active, k=k):
                sig = self.sget(("sig", k), 0)
                self.sync_state[("sig", k)] = i_ite(active, int_binop("+", sig, 1, 16, False), sig, 16)
                if broadcast:
                    self.sync_state[("bcast", k)] = i_ite(active, int_binop("+", sig, 1, 16, False), self.sget(("bcast", k), 0), 16)
                else:
                    # a signal wakes one current waiter (if any): it becomes available only if someone is waiting un-signalled
                    avail = self.sget(("avail", k), 0)
                    nw = self.sget(("nwait", k), 0)
                    can = int_cmp("<", avail, nw, 16, False)
                    self.sync_state[("avail", k)] = i_ite(b_and(active, can), int_binop("+", avail, 1, 16, False), avail, 16)
            self.add_event(gg, apply, ("cond.broadcast %s" if broadcast else "cond.signal %s") % (k,), pos, visible=True)
        return None, guard

    def wg_op(self, kind, ptr, guard, pos, delta=None):
        ex = self.ex
        for g, r in ptr.alts:
            if r is None:
                continue
            gg = b_and(guard, g)
            k = ("wg", r.key())
            if kind == "add":
                def apply(active, k=k, delta=delta):
                    c = self.sget(k, 0)
                    self.sync_state[k] = i_ite(active, int_binop("+", c, delta, 64, True), c, 64)
            else:
                def apply(active, k=k):
                    c = self.sget(k, 0)
                    ex.assume(b_implies(active, int_cmp("==", c, 0, 64, True)), True, "")
            self.add_event(gg, apply, "wg.%s %s" % (kind, k), pos, visible=True,
                           enabled=(None if kind == "add" else (lambda k=k: int_cmp("==", self.sget(k, 0), 0, 64, True))))
        return None, guard

    # --- sync.Pool: Get returns New() or any object previously Put and not handed out since
    def pool_get(self, ex_, args, guard, pos):
        ex = self.ex
        from .models import _struct_field_index, _field_ptr
        if self.recording is None:
            return self.orig_pool_get(ex, args, guard, pos)
        recv = args[0]
        k = None
        for g, r in recv.alts:
            if r is not None:
                k = r.key()
        ckey = ("pool", k)
        c = self.cinfo(ckey)
        take = ex.fresh_bool("pool.take")
        pick = ex.fresh_int("pool.pick", 8)
        rv = self.fresh_shared("any", ckey, "pool%d" % self.recording.idx) if c["ifaces"] else IfaceV.nil()
        has_cand = bool(c["ifaces"])
        if not has_cand:
            ex.assume(b_not(take), True, "")

        def apply(active, k=k, take=take, pick=pick, rv=rv):
            slots = self.sync_state.get(("pool", k), [])
            conds = []
            new_slots = []
            for i, (pres, val) in enumerate(slots):
                miss = []
                ci = b_and(pres, int_cmp("==", pick, i, 8, False), self.veq(rv, val, miss))
                conds.append(ci)
                new_slots.append((b_and(pres, b_not(b_and(active, take, int_cmp("==", pick, i, 8, False)))), val))
            ex.assume(b_implies(b_and(active, take), b_or(*conds)), True, "")
            self.sync_state[("pool", k)] = new_slots
        self.add_event(guard, apply, "pool.Get %s" % (k,), pos, visible=True)
        # the New() path
        ni = _struct_field_index(ex, "sync.Pool", "New")
        newf, g2 = ex.load(_field_ptr(recv, ni), b_and(guard, b_not(take)), pos, None, "Pool.New")
        results = [(b_and(guard, take), rv)]
        for fg, f, bd in newf.alts:
            gg = b_and(g2, fg)
            if gg is False:
                continue
            if f is None:
                results.append((gg, IfaceV.nil()))
            else:
                nv, rg = ex.call_function(f, [], gg, bd, pos)
                results.append((rg, nv))
        return ex.merge_results(results, ["any"])

    def pool_put(self, ex_, args, guard, pos):
        ex = self.ex
        if self.recording is None:
            return None, guard
        recv, x = args
        k = None
        for g, r in recv.alts:
            if r is not None:
                k = r.key()
        ckey = ("pool", k)
        self.note_value(ckey, x)
        self.mark_escaping(x)

        def apply(active, k=k, x=x):
            slots = list(self.sync_state.get(("pool", k), []))
            slots.append((active, x))
            self.sync_state[("pool", k)] = slots
        self.add_event(guard, apply, "pool.Put %s" % (k,), pos, visible=True)
        return None, guard

    # --- allocation with stable identities across passes
    def alloc(self, kind, tid, val, site=None):
        ex = self.ex
        if self.recording is None:
            return self.orig_alloc(kind, tid, val, site)
        if site is not None and str(site).startswith("global:"):
            # package-level variables first touched inside a thread are shared, never thread-local
            o = self.orig_alloc(kind, tid, val, site)
            o.owner = None
            self.shared_ids.add(o.id)
            return o
        th = self.recording
        n = self.alloc_counts.get((th.idx, site), 0)
        self.alloc_counts[(th.idx, site)] = n + 1
        key = (th.idx, site, n)
        o = self.thread_objs.get(key)
        if o is None:
            o = self.orig_alloc(kind, tid, val, site)
            o.owner = th.idx
            self.thread_objs[key] = o
            self._chg()
        else:
            o.val = val
            o.kind = kind
            o.tid = tid
        # the value an object is born with (e.g. the backing array built by append) must survive the reset before replay
        o.meta["init_val"] = val
        return o

    # --- maps (shared): lookups / updates are deferred whole operations
    def map_lookup(self, m, key, guard, elem_tid):
        ex = self.ex
        if self.recording is None or not any(r is not None and self.is_shared(ex.heap[r.obj]) for g, r in m.alts):
            return self.orig_map_lookup(m, key, guard, elem_tid)
        ckey = ("maplookup", elem_tid)
        for g, r in m.alts:
            if r is not None:
                ckey = self.cls_key(ex.heap[r.obj], ()) + (("val",),)
        rv = self.fresh_shared(elem_tid, ckey, "m%d" % self.recording.idx)
        found = ex.fresh_bool("mfound")

        def apply(active, m=m, key=key, rv=rv, found=found, ckey=ckey):
            val, f = self.orig_map_lookup(m, key, active, elem_tid)
            miss = []
            e = self.veq(rv, val, miss)
            ex.assume(b_implies(active, b_and(b_eq(found, f), b_implies(f, e))), True, "")
            for g_, kd, x in miss:
                self.cand_missing.append((b_and(active, f, g_), kd, x, ckey))
        self.add_event(guard, apply, "map lookup", None)
        # when not found the result is the zero value
        return ex.ite(found, rv, ex.zero(elem_tid), elem_tid), found

    def map_update(self, fr, m, key, val, guard, pos, state):
        ex = self.ex
        if self.recording is None or not any(r is not None and self.is_shared(ex.heap[r.obj]) for g, r in m.alts):
            return self.orig_map_update(fr, m, key, val, guard, pos, state)
        for g, r in m.alts:
            if r is not None:
                ckey = self.cls_key(ex.heap[r.obj], ()) + (("val",),)
                self.note_value(ckey, val)
                self.note_value(self.cls_key(ex.heap[r.obj], ()) + (("key",),), key)
                self.note_map_key(ex.heap[r.obj], key)
        self.mark_escaping(val)
        self.mark_escaping(key)

        def apply(active, m=m, key=key, val=val):
            self.orig_map_update(None, m, key, val, active, pos, None)
        self.add_event(guard, apply, "map update", pos)

    def _key_id(self, k):
        if isinstance(k, StrV) and k.is_conc():
            return ("s", k.conc())
        if isinstance(k, int):
            return ("i", k)
        return None

    def note_map_key(self, o, k):
        c = self.cinfo(self.cls_key(o, ()) + (("keys",),))
        ks = c.setdefault("keys", {})
        kid = self._key_id(k)
        if kid is None:
            c["symbolic_keys"] = True
            return
        if kid not in ks:
            ks[kid] = k
            self._chg()

    def map_range(self, m, guard, kt, et):
        """range over a shared map while recording: one atomic snapshot event over the candidate keys of the map class"""
        ex = self.ex
        ents = []
        for g, r in m.alts:
            if r is None:
                continue
            o = ex.heap[r.obj]
            gg = b_and(guard, g)
            if not self.is_shared(o):
                for k, v, p in o.val.entries:
                    ents.append((k, v, b_and(g, p)))
                continue
            c = self.cinfo(self.cls_key(o, ()) + (("keys",),))
            if c.get("symbolic_keys"):
                raise Unsupported("range over a shared map with symbolic keys")
            vkey = self.cls_key(o, ()) + (("val",),)
            slots = []
            for kid, k in sorted(c.get("keys", {}).items(), key=lambda x: repr(x[0])):
                pres = ex.fresh_bool("rng.present")
                rv = self.fresh_shared(et, vkey, "rng%d" % self.recording.idx)
                slots.append((k, rv, pres))
                ents.append((k, rv, b_and(g, pres)))

            def apply(active, o=o, slots=slots, vkey=vkey):
                mv = o.val
                for k, rv, pres in slots:
                    val, f = self.orig_map_lookup(Ptr.to(o.id), k, active, et)
                    miss = []
                    e = self.veq(rv, val, miss)
                    ex.assume(b_implies(active, b_and(b_eq(pres, f), b_implies(f, e))), True, "")
                    for g_, kd, x in miss:
                        self.cand_missing.append((b_and(active, f, g_), kd, x, vkey))
            self.add_event(gg, apply, "map range snapshot o%d" % o.id, None)
        return ents

    def map_delete(self, m, key, guard):
        ex = self.ex
        if self.recording is None or not any(r is not None and self.is_shared(ex.heap[r.obj]) for g, r in m.alts):
            return self.orig_map_delete(m, key, guard)

        def apply(active, m=m, key=key):
            self.orig_map_delete(m, key, active)
        self.add_event(guard, apply, "map delete", None)

    def map_len(self, m, guard):
        ex = self.ex
        if self.recording is None or not any(r is not None and self.is_shared(ex.heap[r.obj]) for g, r in m.alts):
            return self.orig_map_len(m, guard)
        rv = ex.fresh_int("maplen", 64)

        def apply(active, m=m, rv=rv):
            n = self.orig_map_len(m, active)
            ex.assume(b_implies(active, int_cmp("==", rv, n, 64, True)), True, "")
        self.add_event(guard, apply, "map len", None)
        return rv

    # --- channels (always shared when recording)
    def chan_send_blocking(self, ch, x, guard, pos):
        ex = self.ex
        self.mark_escaping(x)
        for g, r in ch.alts:
            if r is not None:
                self.note_value(self.cls_key(ex.heap[r.obj], ()) + (("elem",),), x)

        def apply(active, ch=ch, x=x):
            ok = ex.chan_send(ch, x, active)
            ex.assume(b_implies(active, ok), True, "")
        def en(ch=ch):
            r_ = False
            for g, r in ch.alts:
                if r is not None:
                    cv = ex.heap[r.obj].val
                    r_ = b_or(r_, b_and(g, int_cmp("<", cv.len, cv.cap, 64, True)))
            return r_
        self.add_event(guard, apply, "chan send", pos, visible=True, enabled=en)

    def chan_recv_blocking(self, ch, guard, pos, elem_tid):
        ex = self.ex
        ckey = ("chan", elem_tid)
        for g, r in ch.alts:
            if r is not None:
                ckey = self.cls_key(ex.heap[r.obj], ()) + (("elem",),)
        rv = self.fresh_shared(elem_tid, ckey, "c%d" % self.recording.idx)
        okv = ex.fresh_bool("recvok")

        def apply(active, ch=ch, rv=rv, okv=okv, ckey=ckey):
            val, okr, succ = ex.chan_try_recv(ch, active)
            if val is None:
                ex.assume(b_not(active), True, "")
                return
            miss = []
            e = self.veq(rv, val, miss)
            ex.assume(b_implies(active, b_and(succ, b_eq(okv, okr), b_implies(okr, e))), True, "")
            for g_, kd, x in miss:
                self.cand_missing.append((b_and(active, okr, g_), kd, x, ckey))
        def en(ch=ch):
            r_ = False
            for g, r in ch.alts:
                if r is not None:
                    cv = ex.heap[r.obj].val
                    r_ = b_or(r_, b_and(g, b_or(int_cmp(">", cv.len, 0, 64, True), cv.closed)))
            return r_
        self.add_event(guard, apply, "chan recv", pos, visible=True, enabled=en)
        return ex.ite(okv, rv, ex.zero(elem_tid), elem_tid), okv

    def initial_val(self, o):
        # while recording, writes to shared objects are deferred, so o.val still is the initial value
        return o.val

    def select(self, cases, blocking, guard, pos, elem_ts):
        """cases: list of (dir, chanptr, sendval, elem_tid). One visible event. Go semantics: a ready case is chosen
        (which one: solver's choice); default only when no case is ready; blocking select waits for a ready case."""
        ex = self.ex
        n = len(cases)
        choice = ex.fresh_int("select", 8)
        ex.nondets.append(("select", choice, "uint"))
        recv_vals = []
        recv_oks = []
        for i, (d, ch, x, et) in enumerate(cases):
            if d == 1:
                self.mark_escaping(x)
                for g, r in ch.alts:
                    if r is not None:
                        self.note_value(self.cls_key(ex.heap[r.obj], ()) + (("elem",),), x)
                recv_vals.append(None)
                recv_oks.append(None)
            else:
                ckey = ("chan", et)
                for g, r in ch.alts:
                    if r is not None:
                        ckey = self.cls_key(ex.heap[r.obj], ()) + (("elem",),)
                recv_vals.append((self.fresh_shared(et, ckey, "sel%d" % self.recording.idx), ckey))
                recv_oks.append(ex.fresh_bool("selok"))
        if blocking:
            ex.assume(int_cmp("<", choice, n, 8, False), guard, "")
        else:
            ex.assume(int_cmp("<=", choice, n, 8, False), guard, "")

        def apply(active, cases=cases, choice=choice, recv_vals=recv_vals, recv_oks=recv_oks):
            any_ready = False
            # readiness is evaluated on the state before the operation
            ready = []
            for i, (d, ch, x, et) in enumerate(cases):
                rdy = False
                for g, r in ch.alts:
                    if r is None:
                        continue
                    cv = ex.heap[r.obj].val
                    if d == 1:
                        rdy = b_or(rdy, b_and(g, int_cmp("<", cv.len, cv.cap, 64, True)))
                    else:
                        rdy = b_or(rdy, b_and(g, b_or(int_cmp(">", cv.len, 0, 64, True), cv.closed)))
                ready.append(rdy)
                any_ready = b_or(any_ready, rdy)
            for i, (d, ch, x, et) in enumerate(cases):
                ci = b_and(active, int_cmp("==", choice, i, 8, False))
                ex.assume(b_implies(ci, ready[i]), True, "")
                if ci is False:
                    continue
                if d == 1:
                    ex.chan_send(ch, x, ci)
                else:
                    val, okr, succ = ex.chan_try_recv(ch, ci)
                    rv, ckey = recv_vals[i]
                    if val is not None:
                        miss = []
                        e = self.veq(rv, val, miss)
                        ex.assume(b_implies(ci, b_and(b_eq(recv_oks[i], okr), b_implies(okr, e))), True, "")
                        for g_, kd, xx in miss:
                            self.cand_missing.append((b_and(ci, okr, g_), kd, xx, ckey))
            if not blocking:
                ex.assume(b_implies(b_and(active, int_cmp("==", choice, len(cases), 8, False)), b_not(any_ready)), True, "")
        def en(cases=cases):
            if not blocking:
                return True
            r_ = False
            for (d, ch, x, et) in cases:
                for g, r in ch.alts:
                    if r is None:
                        continue
                    cv = ex.heap[r.obj].val
                    if d == 1:
                        r_ = b_or(r_, b_and(g, int_cmp("<", cv.len, cv.cap, 64, True)))
                    else:
                        r_ = b_or(r_, b_and(g, b_or(int_cmp(">", cv.len, 0, 64, True), cv.closed)))
            return r_
        self.add_event(guard, apply, "select(%d cases%s)" % (n, "" if blocking else ", default"), pos, visible=True, enabled=en)
        idx = i_ite(int_cmp("<", choice, n, 8, False), int_convert(choice, 8, False, 64, True), wrap(-1, 64, True), 64)
        rok = False
        for i, (d, ch, x, et) in enumerate(cases):
            if d != 1:
                rok = b_or(rok, b_and(int_cmp("==", choice, i, 8, False), recv_oks[i]))
        out = [idx, rok]
        for i, (d, ch, x, et) in enumerate(cases):
            if d != 1:
                rv, _ = recv_vals[i]
                out.append(ex.ite(b_and(int_cmp("==", choice, i, 8, False), recv_oks[i]), rv, ex.zero(et), et))
        return TupleV(out)

    # ------------------------------------------------------------------ driver
    def install(self):
        ex = self.ex
        self.orig_write_cell = ex.write_cell
        self.orig_atomic_op = ex.atomic_op
        self.orig_sync_op = ex.sync_op
        self.orig_alloc = ex.alloc
        self.orig_map_lookup = ex.map_lookup
        self.orig_map_update = ex.map_update
        self.orig_map_delete = ex.map_delete
        self.orig_map_len = ex.map_len
        ex.read_cell = self.read_cell
        ex.write_cell = self.write_cell
        ex.atomic_op = self.atomic_op
        ex.sync_op = self.sync_op
        ex.alloc = self.alloc
        ex.map_lookup = self.map_lookup
        ex.map_update = self.map_update
        ex.map_delete = self.map_delete
        ex.map_len = self.map_len
        ex.yield_hook = self.yield_hook
        from . import models as _m
        self.orig_pool_get = _m.m_pool_get
        ex.pool_get_hook = self.pool_get
        ex.pool_put_hook = self.pool_put
        ex.conc = self

    def yield_hook(self, guard, pos):
        if self.recording is not None:
            self.add_event(guard, lambda active: None, "yield", pos, visible=True)

    def note_initial(self):
        """initial contents of shared objects are candidates too"""
        ex = self.ex
        for oid in list(self.shared_ids):
            o = ex.heap[oid]
            if o.kind in ("var", "array") and o.val is not None:
                self._note_tree(o, (), o.val)
            elif o.kind == "map" and isinstance(o.val, MapVal):
                for k, v, p in o.val.entries:
                    self.note_value(self.cls_key(o, ()) + (("val",),), v)
                    self.note_value(self.cls_key(o, ()) + (("key",),), k)
                    self.note_map_key(o, k)
            elif o.kind == "chan" and isinstance(o.val, ChanVal):
                for v in o.val.buf:
                    self.note_value(self.cls_key(o, ()) + (("elem",),), v)

    def _note_tree(self, o, path, v):
        if isinstance(v, StructV):
            for i, f in enumerate(v.fields):
                self._note_tree(o, path + (i,), f)
        elif isinstance(v, ArrayV):
            for i, f in enumerate(v.elems):
                self._note_tree(o, path + (i,), f)
        else:
            self.note_value(self.cls_key(o, path), v)

    def run(self, guard):
        ex = self.ex
        # everything that exists now is shared
        for o in ex.heap:
            self.shared_ids.add(o.id)
        saved = [(o, o.val) for o in ex.heap]
        self.initial = {o.id: o.val for o in ex.heap}
        n_setup = len(ex.heap)
        assumes_mark = len(ex.assumes)
        obl_mark = len(ex.obligations)
        nd_mark = len(ex.nondets)
        covers_saved = dict(ex.covers)
        passes = 0
        while True:
            passes += 1
            if passes > ex.opts.get("conc_passes", 8):
                raise Unsupported("candidate/escape fixpoint did not converge %s" % (self.change_log[-12:],))
            self.changed = False
            self.change_log.append("--pass %d" % passes)
            # reset
            for o, v in saved:
                o.val = v
            del ex.assumes[assumes_mark:]
            del ex.assume_desc[assumes_mark:]
            del ex.obligations[obl_mark:]
            del ex.nondets[nd_mark:]
            ex.covers = dict(covers_saved)
            ex.solver = z3.Solver()
            ex.solver.set("rlimit", ex.opts.get("feas_rlimit", 5000000))
            ex.solver_nassume = 0
            ex.light = z3.Solver()
            ex.light.set("rlimit", 3000000)
            for a in ex.assumes:
                if ex._small_term(a, 60):
                    ex.light.add(a)
            self.alloc_counts = {}
            self.note_initial()
            for th in self.threads:
                th.events = []
                th.nseg = 0
                self.recording = th
                ex.cur_thread = th.idx
                # segment 0 always exists, so that facts about the very beginning of a thread are conditional on it starting
                self.add_event(guard, lambda active: None, "thread start", None, visible=True)
                ob0 = len(ex.obligations)
                rv, rg = ex.call_funcv(None, th.fv, [], guard, "thread " + th.name, {"sig": "func()"})
                th.ret_guard = rg
                # obligations raised while recording belong to this thread at the segment where they were raised
                self.recording = None
                ex.cur_thread = None
            # zero/initial state of thread-allocated shared objects is part of the candidate sets
            self.note_initial()
            if not self.changed:
                break
        self.passes = passes
        if os.environ.get("VERIF_CONC_DEBUG"):
            print("CONC passes=%d shared=%d thread_objs=%d" % (passes, len(self.shared_ids), len(self.thread_objs)))
            for k, c in self.classes.items():
                if c["refs"] or c["funcs"] or c["ifaces"] or c["arrs"]:
                    print("  class", k, "refs", sorted(c["refs"].keys()), "funcs", len(c["funcs"]), "ifaces", sorted(c["ifaces"].keys()), "arrs", sorted(c["arrs"].keys()))
            for key, o in self.thread_objs.items():
                print("  tobj", key, "o%d" % o.id, o.kind, "shared" if o.id in self.shared_ids else "local")
        # ---------------- replay
        for o, v in saved:
            o.val = v
        for key, o in self.thread_objs.items():
            if "init_val" in o.meta and o.meta["init_val"] is not None:
                o.val = o.meta["init_val"]
            elif o.kind in ("var", "array"):
                o.val = ex.zero(o.tid)
            elif o.kind == "map":
                o.val = MapVal([])
        self.sync_state = {}
        T = len(self.threads)
        R = self.rounds
        wins = []
        for t, th in enumerate(self.threads):
            row = []
            prev = 0
            for r in range(R):
                v = th.to[r]
                ex.nondets.append(("sched.%s.r%d" % (th.name, r), v, "uint"))
                ex.assume(b_and(int_cmp("<=", prev, v, 16, False), int_cmp("<=", v, th.nseg, 16, False)), True, "")
                row.append((prev, v))
                prev = v
            wins.append(row)
        self.windows = wins
        self.trace = []
        self.replaying = True
        for r in range(R):
            for t, th in enumerate(self.threads):
                lo, hi = wins[t][r]
                for e in th.events:
                    inw = b_and(int_cmp("<=", lo, e.seg, 16, False), int_cmp("<", e.seg, hi, 16, False))
                    active = b_and(e.guard, inw)
                    if active is False:
                        continue
                    self.trace.append((r, th.name, e, active))
                    e.apply(active)
        self.replaying = False
        # executed(t, seg): segment seg of thread t ran in some round
        self.final_to = [wins[t][R - 1][1] for t in range(T)]
        self.done_guards = [int_cmp("==", self.final_to[t], self.threads[t].nseg, 16, False) for t in range(T)]
        # obligations recorded inside threads hold only if their segment was executed
        # candidate coverage must be complete: otherwise schedules were silently pruned
        for g, kd, x, key in self.cand_missing:
            ex.obligations.append(_mk_ob(ex, "unwind", "internal: candidate universe incomplete for %s in class %s" % (kd, key), g))
        return None

    thread_covers = {}


def _mk_ob(ex, kind, name, guard):
    from .exec import Obligation
    return Obligation(kind, name, guard, False, None, 1 << 30, None)


# ---------------------------------------------------------------------- intercepts
def get_conc(ex):
    c = getattr(ex, "conc", None)
    if c is None:
        c = Conc(ex)
        c.install()
    return c


def p_go(ex, args, guard, pos):
    from .models import _conc_str
    c = get_conc(ex)
    name = _conc_str(ex, args[0], "vGo")
    c.threads.append(Thread(len(c.threads), name, args[1], ex, c.rounds))
    return None, guard


def p_run(ex, args, guard, pos):
    c = get_conc(ex)
    c.run(guard)
    return None, guard


def p_all_done(ex, args, guard, pos):
    c = get_conc(ex)
    return b_and(*c.done_guards), guard


def p_thread_idle(ex, args, guard, pos):
    """the thread has executed nothing (it is still in front of its first operation, e.g. blocked there)"""
    c = get_conc(ex)
    i = args[0]
    if not isinstance(i, int):
        raise Unsupported("vThreadIdle: index must be concrete")
    return int_cmp("==", c.final_to[i], 0, 16, False), guard


def p_thread_blocked(ex, args, guard, pos):
    c = get_conc(ex)
    i = args[0]
    if not isinstance(i, int):
        raise Unsupported("vThreadBlocked: index must be concrete")
    return c.blocked_guard(i), guard


def p_stuck(ex, args, guard, pos):
    """no thread can make progress: every thread is finished or stands in front of a blocking operation that is disabled"""
    c = get_conc(ex)
    res = True
    for t in range(len(c.threads)):
        res = b_and(res, b_or(c.done_guards[t], c.blocked_guard(t)))
    return res, guard


def p_thread_done(ex, args, guard, pos):
    c = get_conc(ex)
    i = args[0]
    if not isinstance(i, int):
        raise Unsupported("vThreadDone: index must be concrete")
    return c.done_guards[i], guard


def schedule_of(ex, model):
    """concrete interleaving (executed events in order) under a solver model"""
    c = getattr(ex, "conc", None)
    if c is None or not getattr(c, "trace", None):
        return None
    out = []
    for r, tname, e, active in c.trace:
        a = active if isinstance(active, bool) else z3.is_true(model.eval(active, model_completion=True))
        if a:
            out.append("r%d %s seg%d: %s%s" % (r, tname, e.seg, e.desc, (" @" + str(e.pos).replace("/repo/", "")) if e.pos else ""))
        elif os.environ.get("VERIF_SCHED") == "all":
            ge = e.guard if isinstance(e.guard, bool) else z3.is_true(model.eval(e.guard, model_completion=True))
            if ge:
                out.append("   (pending) r%d %s seg%d: %s" % (r, tname, e.seg, e.desc))
    return out
