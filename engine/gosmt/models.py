"""Harness primitives (intercepts) and library models."""
import zlib
import z3
from .terms import *
from .values import *
from .core import Unsupported
from .heap import MapVal, ChanVal


def stable_id(name):
    return (zlib.crc32(name.encode()) & 0x7FFFFFFF) | (1 << 40)


def _conc_str(ex, s, what):
    if not isinstance(s, StrV) or not s.is_conc():
        raise Unsupported(what + ": name must be a constant string")
    return s.conc().decode()


# ---------------------------------------------------------------- harness primitives
def p_assume(ex, args, guard, pos):
    ex.assume(args[0], guard, "vAssume at %s" % pos)
    if args[0] is not True:
        ex.path_kills += 1
    return None, guard  # the assumption is a global constraint (guard -> cond); no need to carry it in every later guard


def p_assert(ex, args, guard, pos):
    name = _conc_str(ex, args[1], "vAssert")
    ex.oblige("assert", name, guard, args[0], pos, ex.call_stack[-1] if ex.call_stack else None)
    return None, guard


def p_cover(ex, args, guard, pos):
    name = _conc_str(ex, args[0], "vCover")
    guard = ex.conc_guard(guard)
    ex.covers[name] = b_or(ex.covers.get(name, False), guard)
    ex.cover_nassume[name] = len(ex.assumes)
    return None, guard


def _mk_nondet(bits, signed, kind):
    def h(ex, args, guard, pos):
        name = _conc_str(ex, args[0], "vNondet")
        v = z3.BitVec(ex.fresh_name("nd." + name), bits)
        ex.nondets.append((name, v, kind))
        return v, guard
    return h


def p_nondet_bool(ex, args, guard, pos):
    name = _conc_str(ex, args[0], "vNondet")
    v = z3.Bool(ex.fresh_name("nd." + name))
    ex.nondets.append((name, v, "bool"))
    return v, guard


def p_nondet_float64(ex, args, guard, pos):
    name = _conc_str(ex, args[0], "vNondet")
    b = z3.BitVec(ex.fresh_name("nd." + name), 64)
    ex.nondets.append((name, b, "uint"))
    return FloatV(z3.fpBVToFP(b, z3.Float64())), guard


def p_nondet_string(ex, args, guard, pos):
    name = _conc_str(ex, args[0], "vNondet")
    n = args[1]
    if not isinstance(n, int):
        raise Unsupported("vNondetString: max length must be constant")
    chars = []
    for i in range(n):
        c = z3.BitVec(ex.fresh_name("nd.%s.%d" % (name, i)), 8)
        chars.append(c)
    ln = z3.BitVec(ex.fresh_name("nd.%s.len" % name), 64)
    ex.assume(b_and(z3.BitVecVal(0, 64) <= ln, ln <= z3.BitVecVal(n, 64)), True, "len(%s) <= %d" % (name, n))
    VAR_BOUNDS[ln.decl().name()] = (0, n)
    ex.nondets.append((name, (chars, ln), "string"))
    return StrV(chars, ln), guard


def p_nondet_bytes(ex, args, guard, pos):
    (s, g) = p_nondet_string(ex, args, guard, pos)
    ex.nondets[-1] = (ex.nondets[-1][0], ex.nondets[-1][1], "bytes")
    n = len(s.chars)
    arr = ex.alloc("array", ex._array_tid("uint8", n), ArrayV(list(s.chars)), site="nondet bytes")
    return SliceV(Ptr.to(arr.id), 0, s.len, s.len), guard


def p_yield(ex, args, guard, pos):
    h = getattr(ex, "yield_hook", None)
    if h is not None:
        h(guard, pos)
    return None, guard


def p_choose(ex, args, guard, pos):
    name = _conc_str(ex, args[0], "vChoose")
    n = args[1]
    v = z3.BitVec(ex.fresh_name("nd." + name), 64)
    ex.assume(b_and(int_cmp(">=", v, 0, 64, True), int_cmp("<", v, n, 64, True)), True, "%s in [0,%s)" % (name, n))
    ex.nondets.append((name, v, "int"))
    return v, guard


def p_case(ex, args, guard, pos):
    """vCase(name): a concrete value fixed per job by the driver's case split (entry 'cases')"""
    name = _conc_str(ex, args[0], "vCase")
    cs = ex.opts.get("case", {})
    if name not in cs:
        raise Unsupported("vCase(%s): no case value supplied by the check spec" % name)
    v = int(cs[name])
    ex.nondets.append((name, v, "case"))
    return v, guard


def p_nondet_string_n(ex, args, guard, pos):
    name = _conc_str(ex, args[0], "vNondet")
    n = args[1]
    if not isinstance(n, int):
        raise Unsupported("vNondetStringN: length must be concrete (use vCase)")
    chars = [z3.BitVec(ex.fresh_name("nd.%s.%d" % (name, i)), 8) for i in range(n)]
    ex.nondets.append((name, (chars, n), "string"))
    return StrV(chars, n), guard


def p_noop(ex, args, guard, pos):
    return None, guard


# ---------------------------------------------------------------- sync/atomic
def _atomic_hook(ex, kind, ptr, guard, pos, **kw):
    """single place where atomic RMW ops are performed; the concurrency layer overrides ex.atomic_op"""
    return ex.atomic_op(kind, ptr, guard, pos, **kw)


def default_atomic_op(ex, kind, ptr, guard, pos, new=None, old=None, delta=None, bits=64, signed=True, tid=None):
    cur, g = ex.load(ptr, guard, pos, None, "atomic")
    if kind == "load":
        return cur, g
    if kind == "store":
        ex.store(ptr, new, g, pos)
        return None, g
    if kind == "swap":
        ex.store(ptr, new, g, pos)
        return cur, g
    if kind == "add":
        nv = int_binop("+", cur, delta, bits, signed)
        ex.store(ptr, nv, g, pos)
        return nv, g
    if kind == "and":
        nv = int_binop("&", cur, delta, bits, signed)
        ex.store(ptr, nv, g, pos)
        return cur, g
    if kind == "or":
        nv = int_binop("|", cur, delta, bits, signed)
        ex.store(ptr, nv, g, pos)
        return cur, g
    if kind == "cas":
        e = ex.eq(cur, old)
        ex.store(ptr, new, b_and(g, e), pos)
        return e, g
    raise Unsupported("atomic " + kind)


def _atomic_fn(kind, bits, signed):
    def h(ex, args, guard, pos):
        if kind == "load":
            return ex.atomic_op("load", args[0], guard, pos)
        if kind == "store":
            return ex.atomic_op("store", args[0], guard, pos, new=args[1])
        if kind == "swap":
            return ex.atomic_op("swap", args[0], guard, pos, new=args[1])
        if kind == "add":
            return ex.atomic_op("add", args[0], guard, pos, delta=args[1], bits=bits, signed=signed)
        if kind in ("and", "or"):
            return ex.atomic_op(kind, args[0], guard, pos, delta=args[1], bits=bits, signed=signed)
        if kind == "cas":
            return ex.atomic_op("cas", args[0], guard, pos, old=args[1], new=args[2])
    return h


def _field_ptr(p, *path):
    return Ptr([(g, None if r is None else Ref(r.obj, r.path + tuple(path))) for g, r in p.alts])


def _atomic_method(kind, bits, signed, field=None):
    """methods of sync/atomic.Int32 etc: receiver is *atomic.IntN {_ noCopy; [_ align64;] v intN}; field index given"""
    def h(ex, args, guard, pos):
        recv = args[0]
        p = _field_ptr(recv, field)
        rest = args[1:]
        if kind == "load":
            return ex.atomic_op("load", p, guard, pos)
        if kind == "store":
            return ex.atomic_op("store", p, guard, pos, new=rest[0])
        if kind == "swap":
            return ex.atomic_op("swap", p, guard, pos, new=rest[0])
        if kind == "add":
            return ex.atomic_op("add", p, guard, pos, delta=rest[0], bits=bits, signed=signed)
        if kind in ("and", "or"):
            return ex.atomic_op(kind, p, guard, pos, delta=rest[0], bits=bits, signed=signed)
        if kind == "cas":
            return ex.atomic_op("cas", p, guard, pos, old=rest[0], new=rest[1])
    return h


def _struct_field_index(ex, tid, name):
    t, d = ex.prog.under(tid)
    for i, f in enumerate(d["fields"]):
        if f["name"] == name:
            return i
    raise Unsupported("no field %s in %s" % (name, tid))


# ---------------------------------------------------------------- errors / fmt
def m_errors_new(ex, args, guard, pos):
    s = args[0]
    o = ex.alloc("var", "string", s, site="errors.New")
    return IfaceV([(True, "*errors.errorString", Ptr.to(o.id))]), guard


def errstr_Error(ex, payload, args, guard, pos, t, ins):
    v, g = ex.load(payload, guard, pos, None, "Error()")
    return v, g


def opaque_Error(ex, payload, args, guard, pos, t, ins):
    return ex.fresh("string", "errmsg"), guard


def m_fmt_errorf(ex, args, guard, pos):
    # opaque error wrapping its %w operands: fmtError{msgid, wrapped[]}
    va = args[1]
    wrapped = []
    if isinstance(va, SliceV) and isinstance(va.len, int):
        for i in range(va.len):
            e = ex.slice_get(va, i, guard)
            if isinstance(e, IfaceV):
                wrapped.append(e)
    ex.fmt_counter += 1
    o = ex.alloc("opaque", None, {"wrapped": wrapped, "fmt": args[0]}, site="fmt.Errorf")
    return IfaceV([(True, "*fmt.wrapError", Ptr.to(o.id))]), guard


def fmterr_Error(ex, payload, args, guard, pos, t, ins):
    return ex.fresh("string", "errmsg"), guard


def m_fmt_sprintf(ex, args, guard, pos):
    f = args[0]
    va = args[1]
    # exact for the common concrete cases (%s/%d/%v of concrete strings & ints); else fresh string
    try:
        if f.is_conc() and isinstance(va.len, int):
            vals = [ex.slice_get(va, i, guard) for i in range(va.len)]
            out = _sprintf(ex, f.conc().decode(), vals)
            if out is not None:
                return out, guard
    except Unsupported:
        pass
    return ex.fresh("string", "sprintf", strcap=ex.opts.get("sprintf_cap", 4)), guard


def _sprintf(ex, fmt, vals):
    res = StrV([], 0)
    i = 0
    vi = 0
    lit = b""
    while i < len(fmt):
        c = fmt[i]
        if c != "%":
            lit += c.encode()
            i += 1
            continue
        if i + 1 < len(fmt) and fmt[i + 1] == "%":
            lit += b"%"
            i += 2
            continue
        verb = fmt[i + 1] if i + 1 < len(fmt) else ""
        if verb not in "svdq":
            return None
        if vi >= len(vals):
            return None
        v = vals[vi]
        vi += 1
        i += 2
        if lit:
            res = ex.str_concat(res, StrV.const(lit))
            lit = b""
        if not isinstance(v, IfaceV) or len(v.alts) != 1:
            return None
        g, t, p = v.alts[0]
        if isinstance(p, StrV):
            if verb == "q":
                return None
            res = ex.str_concat(res, p)
        elif isinstance(p, int) and not isinstance(p, bool) and verb in "dv":
            res = ex.str_concat(res, StrV.const(str(p)))
        else:
            return None
    if lit:
        res = ex.str_concat(res, StrV.const(lit))
    return res


def _unwrap_chain(ex, err, depth=4):
    """yield (guard, tid, payload) for err and everything reachable through modelled wrapping"""
    out = []
    work = [(True, err, 0)]
    while work:
        g0, e, d = work.pop()
        if not isinstance(e, IfaceV):
            continue
        for g, t, p in e.alts:
            gg = b_and(g0, g)
            if gg is False or t is None:
                continue
            out.append((gg, t, p))
            if t == "*fmt.wrapError" and d < depth:
                for gp, r in p.alts:
                    if r is None:
                        continue
                    for w in ex.heap[r.obj].val["wrapped"]:
                        work.append((b_and(gg, gp), w, d + 1))
            if t == "*errors.joinError" and d < depth:
                for gp, r in p.alts:
                    if r is None:
                        continue
                    for w in ex.heap[r.obj].val["errs"]:
                        work.append((b_and(gg, gp), w, d + 1))
    return out


def m_errors_is(ex, args, guard, pos):
    err, target = args
    res = False
    for g, t, p in _unwrap_chain(ex, err):
        one = IfaceV([(True, t, p)])
        res = b_or(res, b_and(g, ex.eq(one, target)))
    # err == target also when both nil
    res = b_or(res, ex.eq(err, target))
    return res, guard


def m_errors_as(ex, args, guard, pos):
    """errors.As(err, target): first error in the modelled Unwrap chain whose dynamic type matches *target's element type
    (interface element: method-set inclusion; opaque sentinel values only have Error()). Custom As methods are not consulted."""
    err, target = args
    if not isinstance(target, IfaceV) or len(target.alts) != 1 or target.alts[0][1] is None:
        raise Unsupported("errors.As with a non-concrete target")
    _, ptid, ptr = target.alts[0]
    elem = ex.prog.under(ptid)[1]["elem"]
    is_iface = ex.prog.kind(elem) == "interface"
    found = False
    for g, t, p in _unwrap_chain(ex, err):
        if is_iface:
            match = bool(ex.implements(t, elem))
        else:
            match = ex.prog.canon(t) == ex.prog.canon(elem)
        if not match:
            continue
        gg = b_and(guard, g, b_not(found))
        if gg is not False:
            ex.store(ptr, IfaceV([(True, t, p)]) if is_iface else p, gg, pos)
        found = b_or(found, g)
    return found, guard


def m_errors_join(ex, args, guard, pos):
    va = args[0]
    errs = []
    if isinstance(va.len, int):
        for i in range(va.len):
            errs.append(ex.slice_get(va, i, guard))
    else:
        raise Unsupported("errors.Join with symbolic arity")
    anynn = False
    for e in errs:
        for g, t, p in e.alts:
            if t is not None:
                anynn = b_or(anynn, g)
    o = ex.alloc("opaque", None, {"errs": errs}, site="errors.Join")
    return IfaceV(ex._merge_iface_alts([(anynn, "*errors.joinError", Ptr.to(o.id)), (b_not(anynn), None, None)])), guard


def m_errors_unwrap(ex, args, guard, pos):
    return IfaceV.nil(), guard


# ---------------------------------------------------------------- time
# time.Time is abstracted: wall uint64 = 0, ext int64 = nanoseconds reading, loc = nil.
def _time_struct(ex, ns):
    return StructV([0, ns, Ptr.nil()])


def _time_ns(t):
    return t.fields[1]


def m_time_now(ex, args, guard, pos):
    """arbitrary non-decreasing clock"""
    v = z3.BitVec(ex.fresh_name("clock"), 64)
    prev = ex.clock_last
    ex.assume(int_cmp(">=", v, prev, 64, True), True, "clock non-decreasing")
    lim = ex.opts.get("clock_max", 1 << 62)
    ex.assume(int_cmp("<", v, lim, 64, True), True, "clock below 2^62 ns")
    ex.clock_last = v
    ex.nondets.append(("clock", v, "int"))
    return _time_struct(ex, v), guard


def m_time_since(ex, args, guard, pos):
    now, g = m_time_now(ex, [], guard, pos)
    return int_binop("-", _time_ns(now), _time_ns(args[0]), 64, True), g


def m_time_until(ex, args, guard, pos):
    now, g = m_time_now(ex, [], guard, pos)
    return int_binop("-", _time_ns(args[0]), _time_ns(now), 64, True), g


def m_time_sub(ex, args, guard, pos):
    return int_binop("-", _time_ns(args[0]), _time_ns(args[1]), 64, True), guard


def m_time_add(ex, args, guard, pos):
    return _time_struct(ex, int_binop("+", _time_ns(args[0]), args[1], 64, True)), guard


def m_time_before(ex, args, guard, pos):
    return int_cmp("<", _time_ns(args[0]), _time_ns(args[1]), 64, True), guard


def m_time_after(ex, args, guard, pos):
    return int_cmp(">", _time_ns(args[0]), _time_ns(args[1]), 64, True), guard


def m_time_equal(ex, args, guard, pos):
    return int_cmp("==", _time_ns(args[0]), _time_ns(args[1]), 64, True), guard


def m_time_compare(ex, args, guard, pos):
    a, b = _time_ns(args[0]), _time_ns(args[1])
    return i_ite(int_cmp("<", a, b, 64, True), wrap(-1, 64, True), i_ite(int_cmp(">", a, b, 64, True), 1, 0, 64), 64), guard


def m_time_iszero(ex, args, guard, pos):
    return int_cmp("==", _time_ns(args[0]), 0, 64, True), guard


def m_time_unixnano(ex, args, guard, pos):
    return _time_ns(args[0]), guard


def m_time_unix_ctor(ex, args, guard, pos):
    sec, nsec = args
    if isinstance(sec, int) and sec == 0:
        return _time_struct(ex, nsec), guard
    return _time_struct(ex, int_binop("+", int_binop("*", sec, 1000000000, 64, True), nsec, 64, True)), guard


def m_identity0(ex, args, guard, pos):
    return args[0], guard


def m_dur_ns(ex, args, guard, pos):
    return args[0], guard


def m_dur_ms(ex, args, guard, pos):
    return int_binop("/", args[0], 1000000, 64, True), guard


def m_dur_seconds(ex, args, guard, pos):
    x = args[0]
    if isinstance(x, int):
        return FloatV(x / 1e9), guard
    return FloatV(z3.fpDiv(z3.RNE(), z3.fpSignedToFP(z3.RNE(), x, z3.Float64()), z3.FPVal(1e9, z3.Float64()))), guard


def m_time_sleep(ex, args, guard, pos):
    h = getattr(ex, "sleep_hook", None)
    if h is not None:
        return h(ex, args, guard, pos)
    # advance the clock by at least d
    d = args[0]
    v = z3.BitVec(ex.fresh_name("clock"), 64)
    ex.assume(int_cmp(">=", v, int_binop("+", ex.clock_last, i_ite(int_cmp(">", d, 0, 64, True), d, 0, 64), 64, True), 64, True), True, "sleep advances clock")
    ex.assume(int_cmp("<", v, ex.opts.get("clock_max", 1 << 62), 64, True), True, "clock below 2^62")
    ex.clock_last = v
    return None, guard


# ---------------------------------------------------------------- sync (sequential defaults; conc layer overrides via ex.sync_op)
def m_mutex_lock(ex, args, guard, pos):
    return ex.sync_op("lock", args[0], guard, pos)


def m_mutex_unlock(ex, args, guard, pos):
    return ex.sync_op("unlock", args[0], guard, pos)


def m_mutex_trylock(ex, args, guard, pos):
    return ex.sync_op("trylock", args[0], guard, pos)


def m_rw_rlock(ex, args, guard, pos):
    return ex.sync_op("rlock", args[0], guard, pos)


def m_rw_runlock(ex, args, guard, pos):
    return ex.sync_op("runlock", args[0], guard, pos)


def default_sync_op(ex, kind, ptr, guard, pos):
    # sequential mode: locks are no-ops (single thread, no reentrancy check)
    if kind == "trylock":
        return True, guard
    return None, guard


def m_once_do(ex, args, guard, pos):
    recv, f = args
    # sync.Once{_ noCopy; done atomic.Uint32; m Mutex}: use field 'done' -> {_ noCopy; v uint32}
    t, d = ex.prog.under("sync.Once")
    di = _struct_field_index(ex, "sync.Once", "done")
    dt = d["fields"][di]["type"]
    vi = _struct_field_index(ex, dt, "v")
    p = _field_ptr(recv, di, vi)
    # atomically test-and-set (the real one holds m while running f; equivalent for callers that do not observe 'done' midway)
    was, g = ex.atomic_op("cas", p, guard, pos, old=0, new=1)
    rv, rg = ex.call_funcv(None, f, [], b_and(g, was), pos, {"sig": "func()"})
    return None, b_or(b_and(g, b_not(was)), rg)


def m_wg_noop(ex, args, guard, pos):
    return None, guard


def m_wg_add(ex, args, guard, pos):
    c = getattr(ex, "conc", None)
    if c is not None and c.recording is not None:
        return c.wg_op("add", args[0], guard, pos, delta=args[1])
    return None, guard


def m_wg_done(ex, args, guard, pos):
    c = getattr(ex, "conc", None)
    if c is not None and c.recording is not None:
        return c.wg_op("add", args[0], guard, pos, delta=wrap(-1, 64, True))
    return None, guard


def m_wg_wait(ex, args, guard, pos):
    c = getattr(ex, "conc", None)
    if c is not None and c.recording is not None:
        return c.wg_op("wait", args[0], guard, pos)
    return None, guard


def _cond_lock_key(ex, condptr, guard, pos):
    li = _struct_field_index(ex, "sync.Cond", "L")
    lv, g = ex.load(_field_ptr(condptr, li), guard, pos, None, "Cond.L")
    for ag, t, p in lv.alts:
        if t is not None and isinstance(p, Ptr):
            for pg, r in p.alts:
                if r is not None:
                    return r.key()
    raise Unsupported("sync.Cond without a resolvable Locker")


def m_cond_wait(ex, args, guard, pos):
    c = getattr(ex, "conc", None)
    if c is None or c.recording is None:
        raise Unsupported("sync.Cond.Wait outside concurrent mode")
    return c.cond_wait(args[0], _cond_lock_key(ex, args[0], guard, pos), guard, pos)


def m_cond_signal(ex, args, guard, pos):
    c = getattr(ex, "conc", None)
    if c is None or c.recording is None:
        return None, guard
    return c.cond_signal(args[0], guard, pos, False)


def m_cond_broadcast(ex, args, guard, pos):
    c = getattr(ex, "conc", None)
    if c is None or c.recording is None:
        return None, guard
    return c.cond_signal(args[0], guard, pos, True)


def m_new_cond(ex, args, guard, pos):
    li = _struct_field_index(ex, "sync.Cond", "L")
    o = ex.alloc("var", "sync.Cond", ex.zero("sync.Cond"), site="sync.NewCond")
    ex.store(Ptr.to(o.id, (li,)), args[0], guard, pos)
    return Ptr.to(o.id), guard


# sync.Pool: Get returns New() (fresh) or, in concurrent mode, a previously Put object (see conc layer)
def m_pool_get(ex, args, guard, pos):
    h = getattr(ex, "pool_get_hook", None)
    if h is not None and getattr(ex, "conc", None) is not None and ex.conc.recording is not None:
        return h(ex, args, guard, pos)
    recv = args[0]
    ni = _struct_field_index(ex, "sync.Pool", "New")
    newf, g = ex.load(_field_ptr(recv, ni), guard, pos, None, "Pool.New")
    results = []
    for fg, f, bd in newf.alts:
        gg = b_and(g, fg)
        if gg is False:
            continue
        if f is None:
            results.append((gg, IfaceV.nil()))
        else:
            rv, rg = ex.call_function(f, [], gg, bd, pos)
            results.append((rg, rv))
    return ex.merge_results(results, ["any"])


def m_pool_put(ex, args, guard, pos):
    h = getattr(ex, "pool_put_hook", None)
    if h is not None:
        return h(ex, args, guard, pos)
    return None, guard


# ---------------------------------------------------------------- strings / strconv / misc
def m_strings_index_byte(ex, args, guard, pos):
    s, c = args
    return _index_byte(ex, s, c), guard


def _index_byte(ex, s, c):
    n = len(s.chars) if not isinstance(s.len, int) else s.len
    res = wrap(-1, 64, True)
    for i in range(n - 1, -1, -1):
        hit = b_and(int_cmp("<", i, s.len, 64, True), int_cmp("==", s.chars[i], c, 8, False))
        res = i_ite(hit, i, res, 64)
    return res


def _last_index_byte(ex, s, c):
    n = len(s.chars) if not isinstance(s.len, int) else s.len
    res = wrap(-1, 64, True)
    for i in range(n):
        hit = b_and(int_cmp("<", i, s.len, 64, True), int_cmp("==", s.chars[i], c, 8, False))
        res = i_ite(hit, i, res, 64)
    return res


def _match_at(ex, s, i, sub):
    """sub (concrete-length) occurs in s at concrete offset i"""
    m = sub.len
    conds = [int_cmp("<=", i + m, s.len, 64, True)]
    for j in range(m):
        if i + j >= len(s.chars):
            return False
        conds.append(int_cmp("==", s.chars[i + j], sub.chars[j], 8, False))
    return b_and(*conds)


def _index(ex, s, sub):
    if not isinstance(sub.len, int):
        raise Unsupported("strings.Index with symbolic-length needle")
    if sub.len == 0:
        return 0
    n = len(s.chars) if not isinstance(s.len, int) else s.len
    res = wrap(-1, 64, True)
    for i in range(n - sub.len, -1, -1):
        res = i_ite(_match_at(ex, s, i, sub), i, res, 64)
    return res


def _last_index(ex, s, sub):
    if not isinstance(sub.len, int):
        raise Unsupported("strings.LastIndex with symbolic-length needle")
    n = len(s.chars) if not isinstance(s.len, int) else s.len
    res = wrap(-1, 64, True)
    for i in range(0, n - sub.len + 1):
        res = i_ite(_match_at(ex, s, i, sub), i, res, 64)
    return res


def _substr(ex, s, lo, hi):
    """s[lo:hi] for symbolic lo/hi known in range"""
    nl = int_binop("-", hi, lo, 64, True)
    if isinstance(lo, int):
        return StrV(s.chars[lo:], nl) if not isinstance(nl, int) else StrV(s.chars[lo:lo + nl], nl)
    n = len(s.chars)
    chars = [ex.select_elem(s.chars, int_binop("+", lo, i, 64, True), 8, None) for i in range(n)]
    return StrV(chars, nl)


def m_strings_index(ex, args, guard, pos):
    return _index(ex, args[0], args[1]), guard


def m_strings_last_index(ex, args, guard, pos):
    return _last_index(ex, args[0], args[1]), guard


def m_strings_last_index_byte(ex, args, guard, pos):
    return _last_index_byte(ex, args[0], args[1]), guard


def m_strings_contains(ex, args, guard, pos):
    return int_cmp(">=", _index(ex, args[0], args[1]), 0, 64, True), guard


def m_strings_has_prefix(ex, args, guard, pos):
    s, p = args
    if not isinstance(p.len, int):
        raise Unsupported("HasPrefix symbolic prefix length")
    return _match_at(ex, s, 0, p), guard


def m_strings_compare(ex, args, guard, pos):
    """strings.Compare / internal/bytealg.CompareString: -1, 0, +1 lexicographically"""
    a, b = args
    lt = ex.str_lt(a, b)
    eq = ex.str_eq(a, b)
    if isinstance(lt, bool) and isinstance(eq, bool):
        return (-1 if lt else (0 if eq else 1)), guard
    return i_ite(lt, wrap(-1, 64, True), i_ite(eq, 0, 1, 64), 64), guard


def m_strings_has_suffix(ex, args, guard, pos):
    s, p = args
    if not isinstance(p.len, int):
        raise Unsupported("HasSuffix symbolic suffix length")
    n = len(s.chars) if not isinstance(s.len, int) else s.len
    res = False
    for L in range(p.len, n + 1):
        res = b_or(res, b_and(int_cmp("==", s.len, L, 64, True), _match_at(ex, s, L - p.len, p)))
    return res, guard


def m_strings_cut(ex, args, guard, pos):
    s, sep = args
    i = _index(ex, s, sep)
    found = int_cmp(">=", i, 0, 64, True)
    before = _substr(ex, s, 0, i_ite(found, i, s.len, 64))
    after_lo = i_ite(found, int_binop("+", i, sep.len, 64, True), s.len, 64)
    after = _substr(ex, s, after_lo, s.len)
    after = ex.ite(found, after, StrV([], 0), "string")
    return TupleV([before, after, found]), guard


def m_strings_trimspace(ex, args, guard, pos):
    s = args[0]
    if s.is_conc():
        return StrV.const(s.conc().strip(b" \t\n\r\x0b\x0c")), guard
    # symbolic contents/length: ASCII white space only (bytes >= 0x80, i.e. U+0085/U+00A0/... are treated as non-space)
    ex.assume_desc.append("strings.TrimSpace of a symbolic string trims ASCII white space only")
    n = len(s.chars)

    def nonsp(i):
        c = s.chars[i]
        if isinstance(c, int):
            sp = c == 32 or 9 <= c <= 13
            return b_and(int_cmp("<", i, s.len, 64, True), not sp)
        sp = z3.Or(c == 32, z3.And(z3.UGE(c, 9), z3.ULE(c, 13)))
        return b_and(int_cmp("<", i, s.len, 64, True), b_not(sp))
    lo = s.len
    for i in reversed(range(n)):
        lo = i_ite(nonsp(i), i, lo, 64)
    hi = lo
    for i in range(n):
        hi = i_ite(nonsp(i), i + 1, hi, 64)
    return _substr(ex, s, lo, hi), guard


def m_strings_tolower(ex, args, guard, pos):
    s = args[0]
    out = []
    for c in s.chars:
        if isinstance(c, int):
            out.append(c + 32 if 65 <= c <= 90 else c)
        else:
            out.append(z3.If(z3.And(z3.UGE(c, 65), z3.ULE(c, 90)), c + 32, c))
    return StrV(out, s.len), guard


def m_strings_equalfold_ascii(ex, args, guard, pos):
    """opt-in ("equalfold_ascii"): strings.EqualFold for ASCII strings -- bytes >= 0x80 are compared as they are, Unicode
    simple folding is not modelled (without the option EqualFold runs from its real SSA)"""
    a, _ = m_strings_tolower(ex, [args[0]], guard, pos)
    b, _ = m_strings_tolower(ex, [args[1]], guard, pos)
    ex.note("assumption", "strings.EqualFold modelled for ASCII strings only (opt-in)")
    return ex.str_eq(a, b), guard


def m_net_joinhostport(ex, args, guard, pos):
    """net.JoinHostPort(host, port): "[host]:port" when host contains ':' or '%' (IPv6 literal), else "host:port" """
    host, port = args
    plain = ex.str_concat(ex.str_concat(host, StrV.const(b":")), port)
    needs = b_or(int_cmp(">=", _index_byte(ex, host, ord(":")), 0, 64, True), int_cmp(">=", _index_byte(ex, host, ord("%")), 0, 64, True))
    if needs is False:
        return plain, guard
    br = ex.str_concat(ex.str_concat(ex.str_concat(StrV.const(b"["), host), StrV.const(b"]:")), port)
    if needs is True:
        return br, guard
    return ex.ite(needs, br, plain, "string"), guard


def m_strconv_itoa(ex, args, guard, pos):
    x = args[0]
    if isinstance(x, int):
        return StrV.const(str(x)), guard
    return _itoa_sym(ex, x, 64, True, ex.opts.get("itoa_digits", 5)), guard


def _itoa_sym(ex, x, bits, signed, maxdigits):
    """decimal rendering for 0 <= x < 10^maxdigits (assumed; recorded)"""
    lim = 10 ** maxdigits
    ex.assume(b_and(int_cmp(">=", x, 0, bits, signed), int_cmp("<", x, lim, bits, signed)), True, "itoa operand in [0,10^%d)" % maxdigits)
    ex.note("bounds", "strconv.Itoa operand bounded to %d digits" % maxdigits)
    # number of digits (concrete when the path assumptions pin it)
    feas = []
    for k in range(1, maxdigits + 1):
        lo = 0 if k == 1 else 10 ** (k - 1)
        if ex.feasible_light(b_and(int_cmp(">=", x, lo, bits, signed), int_cmp("<", x, 10 ** k, bits, signed))):
            feas.append(k)
    if len(feas) == 1:
        k = feas[0]
        chars = []
        for j in range(k - 1, -1, -1):
            dgt = z3.URem(z3.UDiv(bv(x, bits), z3.BitVecVal(10 ** j, bits)), z3.BitVecVal(10, bits))
            chars.append(z3.Extract(7, 0, dgt) + 48)
        return StrV(chars, k)
    nd = 1
    for k in range(1, maxdigits):
        nd = i_ite(int_cmp(">=", x, 10 ** k, bits, signed), k + 1, nd, 64)
    digits = []  # most significant first within maxdigits
    for k in range(maxdigits - 1, -1, -1):
        dgt = z3.URem(z3.UDiv(bv(x, bits), z3.BitVecVal(10 ** k, bits)), z3.BitVecVal(10, bits))
        digits.append(z3.Extract(7, 0, dgt) + 48)
    # string = last nd digits
    chars = []
    for i in range(maxdigits):
        # char i = digits[maxdigits - nd + i]
        v = digits[-1]
        for n_ in range(1, maxdigits + 1):
            j = maxdigits - n_ + i
            if 0 <= j < maxdigits:
                v = i_ite(int_cmp("==", nd, n_, 64, True), digits[j], v, 8)
        chars.append(v)
    return StrV(chars, nd)


def m_append_int(ex, args, guard, pos):
    dst, x, base = args
    if not (isinstance(base, int) and base == 10):
        raise Unsupported("AppendInt base != 10")
    if isinstance(x, int):
        sv = StrV.const(str(x))
    else:
        sv = _itoa_sym(ex, x, 64, True, ex.opts.get("itoa_digits", 5))
    fr = type("F", (), {"fn": {"name": "strconv.AppendInt"}})()
    return ex.do_append(fr, dst, sv, guard, {"type": "[]byte", "reg": "appendint"}), guard


def m_format_int(ex, args, guard, pos):
    x, base = args
    if not (isinstance(base, int) and base == 10):
        raise Unsupported("FormatInt base != 10")
    if isinstance(x, int):
        return StrV.const(str(x)), guard
    return _itoa_sym(ex, x, 64, True, ex.opts.get("itoa_digits", 5)), guard


def _builder_buf(ex, recv):
    bi = _struct_field_index(ex, "strings.Builder", "buf")
    return _field_ptr(recv, bi)


def m_builder_write_string(ex, args, guard, pos):
    p = _builder_buf(ex, args[0])
    buf, g = ex.load(p, guard, pos, None, "Builder.buf", "[]byte")
    fr = type("F", (), {"fn": {"name": "strings.Builder.WriteString"}})()
    nb = ex.do_append(fr, buf, args[1], g, {"type": "[]byte", "reg": "builder"})
    ex.store(p, nb, g, pos)
    return TupleV([args[1].len, IfaceV.nil()]), g


def m_builder_write(ex, args, guard, pos):
    p = _builder_buf(ex, args[0])
    buf, g = ex.load(p, guard, pos, None, "Builder.buf", "[]byte")
    fr = type("F", (), {"fn": {"name": "strings.Builder.Write"}})()
    nb = ex.do_append(fr, buf, args[1], g, {"type": "[]byte", "reg": "builder"})
    ex.store(p, nb, g, pos)
    return TupleV([args[1].len, IfaceV.nil()]), g


def m_builder_write_byte(ex, args, guard, pos):
    p = _builder_buf(ex, args[0])
    buf, g = ex.load(p, guard, pos, None, "Builder.buf", "[]byte")
    fr = type("F", (), {"fn": {"name": "strings.Builder.WriteByte"}})()
    nb = ex.do_append(fr, buf, StrV([args[1]], 1), g, {"type": "[]byte", "reg": "builder"})
    ex.store(p, nb, g, pos)
    return IfaceV.nil(), g


def m_builder_string(ex, args, guard, pos):
    p = _builder_buf(ex, args[0])
    buf, g = ex.load(p, guard, pos, None, "Builder.buf", "[]byte")
    return ex.bytes_to_str(buf, g), g


def m_builder_len(ex, args, guard, pos):
    p = _builder_buf(ex, args[0])
    buf, g = ex.load(p, guard, pos, None, "Builder.buf", "[]byte")
    return buf.len, g


def m_builder_reset(ex, args, guard, pos):
    p = _builder_buf(ex, args[0])
    ex.store(p, SliceV.nil(), guard, pos)
    return None, guard


# ---------------------------------------------------------------- sync.Map as a linearizable map[any]any
def _syncmap(ex, recv):
    tid = "map[any]any"
    if tid not in ex.prog.types:
        ex.prog.types[tid] = {"kind": "map", "key": "any", "elem": "any"}
    alts = []
    for g, r in recv.alts:
        if r is None:
            continue
        k = r.key()
        sm = ex.__dict__.setdefault("syncmaps", {})
        o = sm.get(k)
        if o is None:
            c = getattr(ex, "conc", None)
            rec = None
            if c is not None:
                rec, c.recording = c.recording, None
            try:
                o = ex.alloc("map", tid, MapVal([]), site="sync.Map%s" % (k,))
            finally:
                if c is not None:
                    c.recording = rec
            if c is not None:
                c.shared_ids.add(o.id)
            sm[k] = o
        alts.append((g, Ref(o.id)))
    return Ptr(alts)


def _syncmap_visible(ex, guard, pos, what):
    c = getattr(ex, "conc", None)
    if c is not None and c.recording is not None:
        c.add_event(guard, lambda active: None, "sync.Map." + what, pos, visible=True)
        if c.switch_all:
            ex.note("assumption", "sync.Map.%s is split into steps under switch_on=all" % what)


def m_syncmap_load(ex, args, guard, pos):
    m = _syncmap(ex, args[0])
    _syncmap_visible(ex, guard, pos, "Load")
    v, found = ex.map_lookup(m, args[1], guard, "any")
    return TupleV([v, found]), guard


def m_syncmap_store(ex, args, guard, pos):
    m = _syncmap(ex, args[0])
    _syncmap_visible(ex, guard, pos, "Store")
    ex.map_update(None, m, args[1], args[2], guard, pos, None)
    return None, guard


def m_syncmap_load_or_store(ex, args, guard, pos):
    m = _syncmap(ex, args[0])
    _syncmap_visible(ex, guard, pos, "LoadOrStore")
    v, found = ex.map_lookup(m, args[1], guard, "any")
    ex.map_update(None, m, args[1], args[2], b_and(guard, b_not(found)), pos, None)
    return TupleV([ex.ite(found, v, args[2], "any"), found]), guard


def m_syncmap_delete(ex, args, guard, pos):
    m = _syncmap(ex, args[0])
    _syncmap_visible(ex, guard, pos, "Delete")
    ex.map_delete(m, args[1], guard)
    return None, guard


def m_syncmap_load_and_delete(ex, args, guard, pos):
    m = _syncmap(ex, args[0])
    _syncmap_visible(ex, guard, pos, "LoadAndDelete")
    v, found = ex.map_lookup(m, args[1], guard, "any")
    ex.map_delete(m, args[1], guard)
    return TupleV([v, found]), guard


def m_unsupported(name):
    def h(ex, args, guard, pos):
        raise Unsupported("no model for " + name)
    return h


def m_uuid_newstring(ex, args, guard, pos):
    ex.uuid_counter += 1
    return StrV.const("uuid-%04d" % ex.uuid_counter), guard


def m_runtime_noop(ex, args, guard, pos):
    return None, guard


def m_rand_intn(ex, args, guard, pos):
    n = args[0]
    bad = int_cmp("<=", n, 0, 64, True)
    if bad is not False:
        ex.path_kills += 1
        ex.oblige("panic", "rand.IntN: invalid argument (n <= 0)", b_and(guard, bad), False, pos, None)
        guard = b_and(guard, b_not(bad))
    v = z3.BitVec(ex.fresh_name("rand"), 64)
    ex.assume(b_and(int_cmp(">=", v, 0, 64, True), int_cmp("<", v, n, 64, True)), guard, "rand.IntN(n) in [0,n)")
    ex.nondets.append(("rand", v, "int"))
    return v, guard


def m_ctx_with_cancel(ex, args, guard, pos):
    """context.WithCancel/WithTimeout/WithDeadline: an opaque derived context and a no-op cancel function"""
    ex.ctx_counter = getattr(ex, "ctx_counter", 0) + 1
    ctx = IfaceV([(True, "verif.ctx", Opaque(stable_id("ctx.derived.%d" % ex.ctx_counter)))])
    return TupleV([ctx, FuncV([(True, "verif.noop", ())])]), guard


def ctx_Err(ex, payload, args, guard, pos, t, ins):
    return IfaceV.nil(), guard


def ctx_Done(ex, payload, args, guard, pos, t, ins):
    return Ptr.nil(), guard  # a context that is never cancelled: nil channel (never ready)


def ctx_Value(ex, payload, args, guard, pos, t, ins):
    return IfaceV.nil(), guard


def m_ctx_background(ex, args, guard, pos):
    return IfaceV([(True, "verif.ctx", Opaque(stable_id("ctx.background")))]), guard


def install(ex):
    ex.cover_nassume = {}
    ex.clock_last = 0
    ex.fmt_counter = 0
    ex.uuid_counter = 0
    ex.atomic_op = lambda kind, ptr, guard, pos, **kw: default_atomic_op(ex, kind, ptr, guard, pos, **kw)
    ex.sync_op = lambda kind, ptr, guard, pos: default_sync_op(ex, kind, ptr, guard, pos)
    I = ex.intercepts
    # harness primitives are matched by relname suffix in any package
    ex.prim_handlers = {
        "vAssume": p_assume, "vAssert": p_assert, "vCover": p_cover,
        "vNondetInt64": _mk_nondet(64, True, "int"), "vNondetInt": _mk_nondet(64, True, "int"),
        "vNondetInt32": _mk_nondet(32, True, "int"), "vNondetUint32": _mk_nondet(32, False, "uint"),
        "vNondetUint64": _mk_nondet(64, False, "uint"), "vNondetByte": _mk_nondet(8, False, "uint"),
        "vNondetUint16": _mk_nondet(16, False, "uint"), "vNondetUint8": _mk_nondet(8, False, "uint"),
        "vNondetBool": p_nondet_bool, "vNondetFloat64": p_nondet_float64, "vNondetString": p_nondet_string, "vNondetBytes": p_nondet_bytes,
        "vCase": p_case, "vNondetStringN": p_nondet_string_n, "vYield": p_yield, "vChoose": p_choose, "vNote": p_noop,
    }
    from . import conc as _conc
    ex.prim_handlers.update({"vGo": _conc.p_go, "vRun": _conc.p_run, "vAllDone": _conc.p_all_done, "vThreadDone": _conc.p_thread_done, "vThreadIdle": _conc.p_thread_idle, "vThreadBlocked": _conc.p_thread_blocked, "vStuck": _conc.p_stuck})
    for fname, fn in ex.prog.funcs.items():
        rel = fn.get("relname")
        if rel in ex.prim_handlers and "(" not in fname:
            I[fname] = ex.prim_handlers[rel]
    M = ex.models
    for w, s, nm in ((32, True, "Int32"), (64, True, "Int64"), (32, False, "Uint32"), (64, False, "Uint64"), (64, False, "Uintptr")):
        M["sync/atomic.Load" + nm] = _atomic_fn("load", w, s)
        M["sync/atomic.Store" + nm] = _atomic_fn("store", w, s)
        M["sync/atomic.Add" + nm] = _atomic_fn("add", w, s)
        M["sync/atomic.Swap" + nm] = _atomic_fn("swap", w, s)
        M["sync/atomic.CompareAndSwap" + nm] = _atomic_fn("cas", w, s)
        M["sync/atomic.And" + nm] = _atomic_fn("and", w, s)
        M["sync/atomic.Or" + nm] = _atomic_fn("or", w, s)
        if nm == "Uintptr":
            continue
        tname = "sync/atomic." + nm
        if tname in ex.prog.types:
            vi = _struct_field_index(ex, tname, "v")
            for meth, kind in (("Load", "load"), ("Store", "store"), ("Add", "add"), ("Swap", "swap"), ("CompareAndSwap", "cas"), ("And", "and"), ("Or", "or")):
                M["(*%s).%s" % (tname, meth)] = _atomic_method(kind, w, s, vi)
    M["sync/atomic.LoadPointer"] = _atomic_fn("load", 64, False)
    M["sync/atomic.StorePointer"] = _atomic_fn("store", 64, False)
    M["sync/atomic.SwapPointer"] = _atomic_fn("swap", 64, False)
    M["sync/atomic.CompareAndSwapPointer"] = _atomic_fn("cas", 64, False)
    if "sync/atomic.Bool" in ex.prog.types:
        vi = _struct_field_index(ex, "sync/atomic.Bool", "v")

        def bool_load(ex, args, guard, pos, vi=vi):
            v, g = ex.atomic_op("load", _field_ptr(args[0], vi), guard, pos)
            return int_cmp("!=", v, 0, 32, False), g

        def bool_store(ex, args, guard, pos, vi=vi):
            return ex.atomic_op("store", _field_ptr(args[0], vi), guard, pos, new=_b2i(args[1]))

        def bool_swap(ex, args, guard, pos, vi=vi):
            v, g = ex.atomic_op("swap", _field_ptr(args[0], vi), guard, pos, new=_b2i(args[1]))
            return int_cmp("!=", v, 0, 32, False), g

        def bool_cas(ex, args, guard, pos, vi=vi):
            return ex.atomic_op("cas", _field_ptr(args[0], vi), guard, pos, old=_b2i(args[1]), new=_b2i(args[2]))
        M["(*sync/atomic.Bool).Load"] = bool_load
        M["(*sync/atomic.Bool).Store"] = bool_store
        M["(*sync/atomic.Bool).Swap"] = bool_swap
        M["(*sync/atomic.Bool).CompareAndSwap"] = bool_cas
    # generic atomic.Pointer[T] instances: (*sync/atomic.Pointer[T]).Load etc.
    for fname, fn in ex.prog.funcs.items():
        if fname.startswith("(*sync/atomic.Pointer["):
            meth = fname.rsplit(").", 1)[1]
            tname = fname[2:].rsplit(").", 1)[0]
            try:
                vi = _struct_field_index(ex, tname, "v")
            except Unsupported:
                continue
            kind = {"Load": "load", "Store": "store", "Swap": "swap", "CompareAndSwap": "cas"}.get(meth)
            if kind:
                M[fname] = _atomic_method(kind, 64, False, vi)
        if fname.startswith("(*sync/atomic.Value)."):
            M[fname] = m_unsupported(fname)
    M["errors.New"] = m_errors_new
    M["errors.Is"] = m_errors_is
    M["errors.As"] = m_errors_as
    M["errors.Join"] = m_errors_join
    M["errors.Unwrap"] = m_errors_unwrap
    M["fmt.Errorf"] = m_fmt_errorf
    M["fmt.Sprintf"] = m_fmt_sprintf
    ex.iface_models[("*errors.errorString", "Error")] = errstr_Error
    ex.iface_models[("*fmt.wrapError", "Error")] = fmterr_Error
    ex.iface_models[("*errors.joinError", "Error")] = fmterr_Error
    ex.iface_models[("verif.global", "Error")] = opaque_Error
    ex.iface_models[("verif.opaque", "Error")] = opaque_Error
    M["time.Now"] = m_time_now
    M["time.Since"] = m_time_since
    M["time.Until"] = m_time_until
    M["(time.Time).Sub"] = m_time_sub
    M["(time.Time).Add"] = m_time_add
    M["(time.Time).Before"] = m_time_before
    M["(time.Time).After"] = m_time_after
    M["(time.Time).Equal"] = m_time_equal
    M["(time.Time).Compare"] = m_time_compare
    M["(time.Time).IsZero"] = m_time_iszero
    M["(time.Time).UnixNano"] = m_time_unixnano
    M["(time.Time).UTC"] = m_identity0
    M["(time.Time).Local"] = m_identity0
    M["(time.Time).Round"] = m_identity0
    M["time.Unix"] = m_time_unix_ctor
    M["(time.Duration).Nanoseconds"] = m_dur_ns
    M["(time.Duration).Milliseconds"] = m_dur_ms
    M["(time.Duration).Seconds"] = m_dur_seconds
    M["time.Sleep"] = m_time_sleep
    for nm in ("Lock",):
        M["(*sync.Mutex).Lock"] = m_mutex_lock
        M["(*sync.Mutex).Unlock"] = m_mutex_unlock
        M["(*sync.Mutex).TryLock"] = m_mutex_trylock
        M["(*sync.RWMutex).Lock"] = m_mutex_lock
        M["(*sync.RWMutex).Unlock"] = m_mutex_unlock
        M["(*sync.RWMutex).RLock"] = m_rw_rlock
        M["(*sync.RWMutex).RUnlock"] = m_rw_runlock
        M["(*sync.RWMutex).TryLock"] = m_mutex_trylock
    if "sync.Once" in ex.prog.types:
        M["(*sync.Once).Do"] = m_once_do
    M["(*sync.WaitGroup).Add"] = m_wg_add
    M["(*sync.WaitGroup).Done"] = m_wg_done
    M["(*sync.WaitGroup).Wait"] = m_wg_wait
    if "sync.Cond" in ex.prog.types:
        M["(*sync.Cond).Wait"] = m_cond_wait
        M["(*sync.Cond).Signal"] = m_cond_signal
        M["(*sync.Cond).Broadcast"] = m_cond_broadcast
        M["sync.NewCond"] = m_new_cond
    if "sync.Pool" in ex.prog.types:
        M["(*sync.Pool).Get"] = m_pool_get
        M["(*sync.Pool).Put"] = m_pool_put
    M["(*sync.Map).Load"] = m_syncmap_load
    M["(*sync.Map).Store"] = m_syncmap_store
    M["(*sync.Map).LoadOrStore"] = m_syncmap_load_or_store
    M["(*sync.Map).Delete"] = m_syncmap_delete
    M["(*sync.Map).LoadAndDelete"] = m_syncmap_load_and_delete
    M["strings.IndexByte"] = m_strings_index_byte
    M["strings.Index"] = m_strings_index
    M["strings.LastIndex"] = m_strings_last_index
    M["strings.LastIndexByte"] = m_strings_last_index_byte
    M["strings.Contains"] = m_strings_contains
    M["strings.HasPrefix"] = m_strings_has_prefix
    M["strings.Compare"] = m_strings_compare
    M["internal/bytealg.CompareString"] = m_strings_compare
    M["strings.HasSuffix"] = m_strings_has_suffix
    M["strings.Cut"] = m_strings_cut
    M["strings.TrimSpace"] = m_strings_trimspace
    M["strings.ToLower"] = m_strings_tolower
    if ex.opts.get("equalfold_ascii"):
        M["strings.EqualFold"] = m_strings_equalfold_ascii
    M["strings.Clone"] = m_identity0  # strings are values here: a copy is the same value
    M["internal/stringslite.Clone"] = m_identity0
    M["strconv.Itoa"] = m_strconv_itoa
    M["net.JoinHostPort"] = m_net_joinhostport
    M["strconv.AppendInt"] = m_append_int
    M["strconv.FormatInt"] = m_format_int
    if "strings.Builder" in ex.prog.types:
        M["(*strings.Builder).WriteString"] = m_builder_write_string
        M["(*strings.Builder).Write"] = m_builder_write
        M["(*strings.Builder).WriteByte"] = m_builder_write_byte
        M["(*strings.Builder).String"] = m_builder_string
        M["(*strings.Builder).Len"] = m_builder_len
        M["(*strings.Builder).Grow"] = m_runtime_noop
        M["(*strings.Builder).Reset"] = m_builder_reset
    M["github.com/google/uuid.NewString"] = m_uuid_newstring
    M["math/rand/v2.IntN"] = m_rand_intn
    M["math/rand/v2.N[int]"] = m_rand_intn
    M["math/rand.Intn"] = m_rand_intn
    M["runtime.Gosched"] = m_runtime_noop
    M["runtime.KeepAlive"] = m_runtime_noop
    M["context.WithCancel"] = m_ctx_with_cancel
    M["context.WithTimeout"] = m_ctx_with_cancel
    M["context.WithDeadline"] = m_ctx_with_cancel
    ex.intercepts["verif.noop"] = lambda ex_, args, guard, pos: (None, guard)
    ex.iface_models[("verif.ctx", "Err")] = ctx_Err
    ex.iface_models[("verif.ctx", "Done")] = ctx_Done
    ex.iface_models[("verif.ctx", "Value")] = ctx_Value
    M["context.Background"] = m_ctx_background
    M["context.TODO"] = m_ctx_background
    M["context.WithoutCancel"] = lambda ex_, args, guard, pos: (args[0], guard)


def _b2i(b):
    if isinstance(b, bool):
        return 1 if b else 0
    return z3.If(b, z3.BitVecVal(1, 32), z3.BitVecVal(0, 32))
