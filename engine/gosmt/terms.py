"""Term layer: concrete values stay Python ints/bools, symbolic values are z3 expressions.
All integer semantics follow the Go spec (wrap-around, truncated division, shift saturation)."""
import z3

TRUE = True
FALSE = False


def is_conc(x):
    return isinstance(x, (int, bool)) and not isinstance(x, z3.ExprRef)


def is_sym(x):
    return isinstance(x, z3.ExprRef)


# ---------------------------------------------------------------- booleans
def to_z3_bool(x):
    if isinstance(x, bool):
        return z3.BoolVal(x)
    return x


def b_not(a):
    if isinstance(a, bool):
        return not a
    if z3.is_not(a):
        return a.arg(0)
    if z3.is_true(a):
        return False
    if z3.is_false(a):
        return True
    return z3.Not(a)


def _norm_bool(a):
    if isinstance(a, bool):
        return a
    if z3.is_true(a):
        return True
    if z3.is_false(a):
        return False
    return a


def b_and(*xs):
    out = []
    for a in xs:
        a = _norm_bool(a)
        if a is True:
            continue
        if a is False:
            return False
        dup = False
        for o in out:
            if o is a or o.eq(a):
                dup = True
                break
        if not dup:
            out.append(a)
    if not out:
        return True
    if len(out) == 1:
        return out[0]
    # a and not a
    for i, o in enumerate(out):
        if z3.is_not(o):
            inner = o.arg(0)
            for j, p in enumerate(out):
                if i != j and p.eq(inner):
                    return False
    return z3.And(*out)


def b_or(*xs):
    out = []
    for a in xs:
        a = _norm_bool(a)
        if a is False:
            continue
        if a is True:
            return True
        dup = False
        for o in out:
            if o is a or o.eq(a):
                dup = True
                break
        if not dup:
            out.append(a)
    if not out:
        return False
    if len(out) == 1:
        return out[0]
    for i, o in enumerate(out):
        if z3.is_not(o):
            inner = o.arg(0)
            for j, p in enumerate(out):
                if i != j and p.eq(inner):
                    return True
    return z3.Or(*out)


def b_implies(a, b):
    return b_or(b_not(a), b)


def b_eq(a, b):
    a = _norm_bool(a)
    b = _norm_bool(b)
    if isinstance(a, bool) and isinstance(b, bool):
        return a == b
    if isinstance(a, bool):
        return b if a else b_not(b)
    if isinstance(b, bool):
        return a if b else b_not(a)
    if a.eq(b):
        return True
    return a == b


def b_ite(c, a, b):
    """ite over booleans"""
    c = _norm_bool(c)
    if c is True:
        return a
    if c is False:
        return b
    a = _norm_bool(a)
    b = _norm_bool(b)
    if isinstance(a, bool) and isinstance(b, bool):
        if a == b:
            return a
        return c if a else b_not(c)
    if not isinstance(a, bool) and not isinstance(b, bool) and a.eq(b):
        return a
    if a is True:
        return b_or(c, b)
    if a is False:
        return b_and(b_not(c), b)
    if b is True:
        return b_or(b_not(c), a)
    if b is False:
        return b_and(c, a)
    return z3.If(c, a, b)


# ---------------------------------------------------------------- integers
def wrap(v, bits, signed):
    v &= (1 << bits) - 1
    if signed and v >> (bits - 1):
        v -= 1 << bits
    return v


def bv(x, bits):
    if isinstance(x, bool):
        raise TypeError("bool used as int")
    if isinstance(x, int):
        return z3.BitVecVal(x, bits)
    if x.size() != bits:
        raise TypeError("width mismatch %d vs %d: %s" % (x.size(), bits, x))
    return x


def i_ite(c, a, b, bits):
    c = _norm_bool(c)
    if c is True:
        return a
    if c is False:
        return b
    if isinstance(a, int) and isinstance(b, int) and a == b:
        return a
    if is_sym(a) and is_sym(b) and a.eq(b):
        return a
    return z3.If(c, bv(a, bits), bv(b, bits))


def _simp_int(e, signed):
    """fold a z3 bv expression to a python int if it is a numeral"""
    if z3.is_bv_value(e):
        return e.as_signed_long() if signed else e.as_long()
    return e


def int_binop(op, x, y, bits, signed, ybits=None, ysigned=False):
    """Arithmetic / bitwise binary op following Go semantics. Returns int or z3 bv."""
    if ybits is None:
        ybits = bits
    if op in ("<<", ">>"):
        return _shift(op, x, y, bits, signed, ybits, ysigned)
    if isinstance(x, int) and isinstance(y, int):
        if op == "+":
            r = x + y
        elif op == "-":
            r = x - y
        elif op == "*":
            r = x * y
        elif op == "/":
            if y == 0:
                return 0  # caller emits the panic obligation
            q = abs(x) // abs(y)
            r = q if (x >= 0) == (y >= 0) else -q
        elif op == "%":
            if y == 0:
                return 0
            m = abs(x) % abs(y)
            r = m if x >= 0 else -m
        elif op == "&":
            r = x & y
        elif op == "|":
            r = x | y
        elif op == "^":
            r = x ^ y
        elif op == "&^":
            r = x & ~y
        else:
            raise NotImplementedError(op)
        return wrap(r, bits, signed)
    a, b = bv(x, bits), bv(y, bits)
    if op == "+":
        if isinstance(y, int) and y == 0:
            return x
        if isinstance(x, int) and x == 0:
            return y
        r = a + b
    elif op == "-":
        if isinstance(y, int) and y == 0:
            return x
        r = a - b
    elif op == "*":
        if isinstance(y, int) and y == 1:
            return x
        if isinstance(x, int) and x == 1:
            return y
        if (isinstance(y, int) and y == 0) or (isinstance(x, int) and x == 0):
            return 0
        r = a * b
    elif op == "/":
        r = (a / b) if signed else z3.UDiv(a, b)
    elif op == "%":
        r = z3.SRem(a, b) if signed else z3.URem(a, b)
    elif op == "&":
        r = a & b
    elif op == "|":
        r = a | b
    elif op == "^":
        r = a ^ b
    elif op == "&^":
        r = a & ~b
    else:
        raise NotImplementedError(op)
    return r


def _shift(op, x, y, bits, signed, ybits, ysigned):
    if isinstance(x, int) and isinstance(y, int):
        if y < 0:
            return 0
        if op == "<<":
            return wrap(x << min(y, bits), bits, signed) if y < bits else 0
        if y >= bits:
            return (-1 if (signed and x < 0) else 0)
        return wrap(x >> y, bits, signed)
    a = bv(x, bits)
    # bring y to width `bits`, saturating
    if isinstance(y, int):
        if y >= bits:
            if op == "<<":
                return 0
            if signed:
                return i_ite(a < 0, wrap(-1, bits, True), 0, bits)
            return 0
        b = z3.BitVecVal(y, bits)
        big = False
    else:
        if ybits == bits:
            b = y
            big = False
        elif ybits < bits:
            b = z3.ZeroExt(bits - ybits, y)
            big = False
        else:
            b = z3.Extract(bits - 1, 0, y)
            big = z3.UGE(y, z3.BitVecVal(bits, ybits))
    if op == "<<":
        r = a << b
        zero = z3.BitVecVal(0, bits)
    else:
        r = (a >> b) if signed else z3.LShR(a, b)
        zero = z3.If(a < 0, z3.BitVecVal(-1, bits), z3.BitVecVal(0, bits)) if signed else z3.BitVecVal(0, bits)
    if big is not False:
        r = z3.If(big, zero, r)
    return r


VAR_BOUNDS = {}  # z3 const name -> (lo, hi): registered by the executor for bounded nondets (lengths etc.)
_BOUNDS_MEMO = {}


def term_bounds(t, depth=0):
    """cheap interval analysis for signed 64-bit terms built from numerals, ite, +, - and registered bounded
    constants. Returns (lo, hi) or None. Only sound when no wrap-around occurs, which holds for the small
    ranges involved (results outside +-2^40 are discarded)."""
    if isinstance(t, int):
        return (t, t)
    i = t.get_id()
    m = _BOUNDS_MEMO.get(i)
    if m is not None:
        return m[1]
    r = None
    if depth < 40 and z3.is_bv(t) and t.size() == 64:
        if z3.is_bv_value(t):
            v = t.as_signed_long()
            r = (v, v)
        elif z3.is_const(t):
            r = VAR_BOUNDS.get(t.decl().name())
        else:
            k = t.decl().kind()
            if k == z3.Z3_OP_ITE:
                a = term_bounds(t.arg(1), depth + 1)
                b = term_bounds(t.arg(2), depth + 1) if a is not None else None
                if a is not None and b is not None:
                    r = (min(a[0], b[0]), max(a[1], b[1]))
            elif k == z3.Z3_OP_BADD:
                lo = hi = 0
                ok = True
                for c in t.children():
                    b = term_bounds(c, depth + 1)
                    if b is None:
                        ok = False
                        break
                    lo += b[0]
                    hi += b[1]
                if ok:
                    r = (lo, hi)
            elif k == z3.Z3_OP_BSUB and t.num_args() == 2:
                a = term_bounds(t.arg(0), depth + 1)
                b = term_bounds(t.arg(1), depth + 1) if a is not None else None
                if a is not None and b is not None:
                    r = (a[0] - b[1], a[1] - b[0])
        if r is not None and (r[0] < -(1 << 40) or r[1] > (1 << 40)):
            r = None
    _BOUNDS_MEMO[i] = (t, r)  # keep t alive so its ast id cannot be reused
    return r


def int_cmp(op, x, y, bits, signed):
    if isinstance(x, int) and isinstance(y, int):
        return {"==": x == y, "!=": x != y, "<": x < y, "<=": x <= y, ">": x > y, ">=": x >= y}[op]
    if bits == 64 and signed and (isinstance(x, int) or isinstance(y, int)):
        bx, by = term_bounds(x), term_bounds(y)
        if bx is not None and by is not None:
            if op == "<":
                if bx[1] < by[0]:
                    return True
                if bx[0] >= by[1]:
                    return False
            elif op == "<=":
                if bx[1] <= by[0]:
                    return True
                if bx[0] > by[1]:
                    return False
            elif op == ">":
                if bx[0] > by[1]:
                    return True
                if bx[1] <= by[0]:
                    return False
            elif op == ">=":
                if bx[0] >= by[1]:
                    return True
                if bx[1] < by[0]:
                    return False
            elif op == "==":
                if bx[1] < by[0] or bx[0] > by[1]:
                    return False
            elif op == "!=":
                if bx[1] < by[0] or bx[0] > by[1]:
                    return True
    a, b = bv(x, bits), bv(y, bits)
    if op == "==":
        if a.eq(b):
            return True
        return a == b
    if op == "!=":
        if a.eq(b):
            return False
        return a != b
    if signed:
        return {"<": a < b, "<=": a <= b, ">": a > b, ">=": a >= b}[op]
    return {"<": z3.ULT(a, b), "<=": z3.ULE(a, b), ">": z3.UGT(a, b), ">=": z3.UGE(a, b)}[op]


def int_neg(x, bits, signed):
    if isinstance(x, int):
        return wrap(-x, bits, signed)
    return -x


def int_not(x, bits, signed):
    if isinstance(x, int):
        return wrap(~x, bits, signed)
    return ~x


def int_convert(x, from_bits, from_signed, to_bits, to_signed):
    if isinstance(x, int):
        return wrap(x, to_bits, to_signed)
    if to_bits == from_bits:
        return x
    if to_bits < from_bits:
        return z3.Extract(to_bits - 1, 0, x)
    if from_signed:
        return z3.SignExt(to_bits - from_bits, x)
    return z3.ZeroExt(to_bits - from_bits, x)


def simplify_term(x):
    """cheap normalisation: turn numerals/bool literals back into python values"""
    if isinstance(x, (int, bool)):
        return x
    if z3.is_bv_value(x):
        return x  # signedness unknown here; leave
    if z3.is_true(x):
        return True
    if z3.is_false(x):
        return False
    return x
