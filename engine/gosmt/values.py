"""Value representations for the guarded symbolic executor."""
import z3
from .terms import *


class Ref:
    __slots__ = ("obj", "path")

    def __init__(self, obj, path=()):
        self.obj = obj
        self.path = tuple(path)

    def key(self):
        return (self.obj, self.path)

    def __repr__(self):
        return "&o%d%s" % (self.obj, "".join("." + str(p) for p in self.path))


class Ptr:
    """guarded alternatives: list of (guard, Ref|None). None = nil."""
    __slots__ = ("alts",)

    def __init__(self, alts):
        self.alts = alts

    @staticmethod
    def nil():
        return Ptr([(True, None)])

    @staticmethod
    def to(obj, path=()):
        return Ptr([(True, Ref(obj, path))])

    def __repr__(self):
        return "Ptr(%s)" % ", ".join("%s:%s" % ("T" if g is True else "?", r) for g, r in self.alts)


class StructV:
    __slots__ = ("fields",)

    def __init__(self, fields):
        self.fields = fields

    def __repr__(self):
        return "Struct%r" % (self.fields,)


class ArrayV:
    __slots__ = ("elems",)

    def __init__(self, elems):
        self.elems = elems

    def __repr__(self):
        return "Array%r" % (self.elems,)


class SliceV:
    """arr: Ptr to array object(s) (or nil); off/len/cap: int terms (64-bit)"""
    __slots__ = ("arr", "off", "len", "cap")

    def __init__(self, arr, off, ln, cap):
        self.arr = arr
        self.off = off
        self.len = ln
        self.cap = cap

    @staticmethod
    def nil():
        return SliceV(Ptr.nil(), 0, 0, 0)

    def __repr__(self):
        return "Slice(%r,off=%s,len=%s,cap=%s)" % (self.arr, self.off, self.len, self.cap)


class StrV:
    """chars: list of byte terms (capacity), len: int term (<= len(chars))"""
    __slots__ = ("chars", "len")

    def __init__(self, chars, ln=None):
        self.chars = list(chars)
        self.len = len(self.chars) if ln is None else ln

    @staticmethod
    def const(b):
        if isinstance(b, str):
            b = b.encode()
        return StrV(list(b), len(b))

    def is_conc(self):
        return isinstance(self.len, int) and all(isinstance(c, int) for c in self.chars[: self.len])

    def conc(self):
        return bytes(self.chars[: self.len])

    def __repr__(self):
        if self.is_conc():
            return "Str(%r)" % self.conc()
        return "Str(sym,len=%s,cap=%d)" % (self.len, len(self.chars))


class IfaceV:
    """alts: list of (guard, tid|None, payload). tid None = nil interface."""
    __slots__ = ("alts",)

    def __init__(self, alts):
        self.alts = alts

    @staticmethod
    def nil():
        return IfaceV([(True, None, None)])

    def __repr__(self):
        return "Iface(%s)" % ", ".join("%s:%s" % ("T" if g is True else "?", t) for g, t, _ in self.alts)


class FuncV:
    """alts: list of (guard, fname|None, bindings tuple)"""
    __slots__ = ("alts",)

    def __init__(self, alts):
        self.alts = alts

    @staticmethod
    def nil():
        return FuncV([(True, None, ())])

    def __repr__(self):
        return "Func(%s)" % ", ".join(str(f) for _, f, _ in self.alts)


class TupleV:
    __slots__ = ("elems",)

    def __init__(self, elems):
        self.elems = list(elems)

    def __repr__(self):
        return "Tuple%r" % (self.elems,)


class Opaque:
    """an opaque token value (e.g. results of uninterpreted library calls); compared by identity term"""
    __slots__ = ("ident", "info")

    def __init__(self, ident, info=None):
        self.ident = ident  # int term (64 bit)
        self.info = info

    def __repr__(self):
        return "Opaque(%s)" % (self.ident,)


class FloatV:
    __slots__ = ("v",)

    def __init__(self, v):
        self.v = v  # python float or z3 FP

    def __repr__(self):
        return "Float(%s)" % (self.v,)
