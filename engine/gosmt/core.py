"""Guarded (CBMC-style) symbolic executor over the JSON SSA IR produced by vdump. Part 1: program,
types, heap, value merge."""
import json, base64, sys
import z3
from .terms import *
from .values import *


class Unsupported(Exception):
    pass


class Program:
    def __init__(self, path):
        with open(path) as f:
            d = json.load(f)
        self.types = d["types"]
        self.funcs = d["funcs"]
        self.methods = d["methods"]
        self.globals = d["globals"]
        self.files = d["files"]
        self.msets = d.get("msets", {})
        self._under = {}
        for fn in self.funcs.values():
            if fn.get("external"):
                continue
            self._prep(fn)

    def _prep(self, fn):
        # def map for lazy init evaluation, block lookup
        defs = {}
        for b in fn["blocks"]:
            for ins in b["instrs"]:
                if "reg" in ins:
                    defs[ins["reg"]] = ins
        fn["_defs"] = defs

    def under(self, tid):
        """resolve named/alias to structural type descriptor (returns (tid, desc))"""
        r = self._under.get(tid)
        if r is not None:
            return r
        t = tid
        seen = 0
        while True:
            d = self.types.get(t)
            if d is None:
                raise Unsupported("unknown type " + str(t))
            if d["kind"] in ("named", "alias"):
                t = d["underlying"]
                seen += 1
                if seen > 50:
                    raise Unsupported("type cycle " + tid)
                continue
            break
        self._under[tid] = (t, d)
        return (t, d)

    def kind(self, tid):
        return self.under(tid)[1]["kind"]

    def canon(self, tid):
        """canonical id used for dynamic type comparison (aliases resolved, byte/rune normalised)"""
        d = self.types.get(tid)
        while d is not None and d["kind"] == "alias":
            tid = d["underlying"]
            d = self.types.get(tid)
        if tid == "byte":
            return "uint8"
        if tid == "rune":
            return "int32"
        return tid

    def int_info(self, tid):
        d = self.under(tid)[1]
        if d["kind"] != "basic" or d.get("cls") != "int":
            return None
        return (d["bits"], not d["unsigned"])


def const_string(b64):
    return base64.b64decode(b64) if b64 else b""
