import sys, os, argparse, importlib.util
from . import pyarena
pyarena.install()
from . import driver


def main():
    ap = argparse.ArgumentParser()
    ap.add_argument("id")
    ap.add_argument("--tier", default=os.environ.get("VERIF_TIER", "quick"))
    a = ap.parse_args()
    p = os.path.join(driver.VERIF, "checks", a.id.lower() + ".py")
    spec = importlib.util.spec_from_file_location("check_" + a.id, p)
    mod = importlib.util.module_from_spec(spec)
    spec.loader.exec_module(mod)
    seed = int(os.environ.get("VERIF_SEED", "0") or 0)
    sys.exit(driver.run_check(mod.CHECK, a.tier, seed))


main()
